INIT InitCase
NEXT NextCase
CONSTANTS
  MaxFlat = 3
  FullPermsUpTo = 3
  MaxDeepLinks = 2
  Emit = TRUE
INVARIANT AddRefinesRef
INVARIANT AlgRefinesRef
INVARIANT DeviationExact
INVARIANT PlanSane
INVARIANT TargetNodeIsObject
INVARIANT ShapeSane
INVARIANT EmitCase
CHECK_DEADLOCK FALSE
