INIT InitCase
NEXT NextCase
CONSTANTS
  MaxFlat = 3
  FullPermsUpTo = 3
  AllKindsUpTo = 2
  MaxDeepLinks = 2
  DeepFull = FALSE
  Emit = TRUE
INVARIANT AddRefinesRef
INVARIANT AlgRefinesRef
INVARIANT DeviationExact
INVARIANT UnreachableExact
INVARIANT PlanSane
INVARIANT TargetNodeIsObject
INVARIANT ShapeSane
INVARIANT EmitCase
CHECK_DEADLOCK FALSE
