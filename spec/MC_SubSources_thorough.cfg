SPECIFICATION Spec
CONSTANTS
  MaxPre = 2
  MaxPost = 2
  Emit = TRUE
INVARIANT InvAlgRefinesRef
INVARIANT InvSubOnlyIsRef
INVARIANT InvParentLookupIsRef
INVARIANT InvSpellingIrrelevantWhereFree
INVARIANT InvSetOnlyIsRef
INVARIANT InvLastWins
INVARIANT EmitCase
CHECK_DEADLOCK FALSE
