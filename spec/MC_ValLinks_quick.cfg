SPECIFICATION Spec
CONSTANTS
  Emit = TRUE
  Thorough = FALSE
INVARIANT AlgLIsRef
INVARIANT ValidIsOk
INVARIANT CutMatters
INVARIANT OnlyTarget
INVARIANT ForeignIsForeign
INVARIANT AlgFIsRef
INVARIANT FDevShape
INVARIANT NoForeignOtherwise
INVARIANT EmitCase
CHECK_DEADLOCK FALSE
