SPECIFICATION Spec
CONSTANTS
  MinClasses = 1
  MaxClasses = 3
  MroOnly = FALSE
  AscBases = FALSE
  MaxOwn = 2
  MaxHard = 1
  MaxPop = 1
  PopClasses = 3
  AttrClasses = 3
  B1 = 4
  B2 = 4
  B3 = 2
  B4 = 0
  B5 = 0
  MaxChain = 3
  FnOwn = 1
  BFn = 4
  EmitAllUpTo = 1
  Sel = 60
  CondSel = 12
  KeepGoing = TRUE
INVARIANT Inv
CHECK_DEADLOCK FALSE
