SPECIFICATION Spec
CONSTANTS
  MaxOps = 3
  MaxKeyLen = 2
  Emit = TRUE
INVARIANT TypeOK
INVARIANT AlgRefinesRef
INVARIANT RefLaws
INVARIANT AlgReadYourWrite
INVARIANT ObserversSane
INVARIANT ConvLaws
INVARIANT EmitState
CHECK_DEADLOCK FALSE
