----------------------------- MODULE MC_Resolver -----------------------------
(* Bounded instance of Resolver.tla: TLC enumerates every program of the grammar up to the bounds, one class     *)
(* (or one helper function) per step, checks the laws of the reference and "Alg refines Ref outside the named    *)
(* deviations" on every complete program, and prints the programs selected for the replay on the real code.      *)
EXTENDS Resolver, Json, IOUtils, SequencesExt, FiniteSetsExt
CONSTANTS MinClasses,
          MaxClasses,   \* class programs with MinClasses..MaxClasses classes (every class an ancestor of the last one)
          MroOnly,      \* TRUE: only the forwarding kinds that walk the MRO (super(), super(B, self)); no helper, method, new
          AscBases,     \* TRUE: two bases are only listed in the order of their definition, class C3(C1, C2)
          MaxOwn,       \* named parameters per def
          MaxHard,      \* hard-coded keyword arguments per forwarding call
          MaxPop,       \* kwargs.pop/get calls per def
          PopClasses,   \* ... in programs with at most this many classes
          AttrClasses,  \* the "attr" kind (stored **kwargs) in programs with at most this many classes
          B1, B2, B3, B4, B5,   \* Budgets[n]: bound on the total weight of a program with n classes (named parameters + hard-coded
                        \* names + pops + helper functions + methods)
          MaxChain,     \* depth of the function chains that are components themselves
          FnOwn,        \* named parameters per function of such a chain
          BFn,          \* bound on the total weight (named parameters + hard-coded names + pops) of such a chain
          EmitAllUpTo,  \* print every complete program with at most this many classes ...
          Sel,          \* ... and one in Sel of the larger ones (chosen by a hash of the program and the seed)
          CondSel,      \* ... and one in CondSel of those whose resolved parameters contain a Conditional one
          AltMode,      \* (round 4) 0: one use of **kwargs per def | 1: also descriptors with a second use under an if (alt) and
                        \* pre-filled stored dicts (pre) | 2: only programs whose LAST class has one of these
          KeepGoing     \* TRUE: a failing clause is printed (<<"FAIL", clause, program>>) and the run goes on to find them all

Budgets == <<B1, B2, B3, B4, B5>>
Names == <<"a", "b", "c", "d">>
NIdx  == 1..4
Seed  == atoi(IOEnv.SEL_SEED)
Pow2  == <<1, 2, 4, 8>>
Mask(S) == FoldSet(LAMBDA x, acc : acc + Pow2[x], 0, S)
AscSeq(S) == SetToSortSeq(S, LAMBDA x, y : x < y)
SmallSets(k) == {S \in SUBSET NIdx : Cardinality(S) <= k}

\* type and default of a declaration are a fixed function of (owner index, name) so that provenance is observable:
\* the same name has different types at neighbouring levels; "b" is required at odd levels; "d" is never annotated
TypeOf(i, x) == IF x = 4 THEN "none" ELSE IF (i + x) % 2 = 0 THEN "int" ELSE "str"
DfltOf(i, x) == IF x = 2 /\ i % 2 = 1 THEN "req" ELSE "dflt"
\* in the source required parameters come first (Python syntax), then by name
Params(i, S) == LET s == AscSeq({x \in S : DfltOf(i, x) = "req"}) \o AscSeq({x \in S : DfltOf(i, x) # "req"})
                IN [k \in DOMAIN s |-> [n |-> Names[s[k]], t |-> TypeOf(i, s[k]), d |-> DfltOf(i, s[k])]]
NameSeq(S)   == LET s == AscSeq(S) IN [k \in DOMAIN s |-> Names[s[k]]]

FwA(k, b, hard, q, qop, qpos, av, chain, amode, aflag, ahard, alt, pre) ==
  [k |-> k, b |-> b, hard |-> NameSeq(hard), pos |-> IF qpos = "arg" THEN 1 ELSE 0, q |-> NameSeq(q), qop |-> qop, qpos |-> qpos, av |-> av, chain |-> chain,
   amode |-> amode, aflag |-> aflag, ahard |-> NameSeq(ahard), alt |-> alt, pre |-> NameSeq(pre)]
FwX(k, b, hard, q, qop, qpos, av, chain) == FwA(k, b, hard, q, qop, qpos, av, chain, "-", FALSE, {}, << >>, {})
Fw(k, b, hard, q, qop, chain) == FwX(k, b, hard, q, qop, "stmt", "-", chain)
Sig(i, own, kw, fw) == [has |-> TRUE, ps |-> Params(i, own), kw |-> kw, fw |-> fw]

(* ---- helper chains that a class can call (a fixed menu; the chains that are components themselves are enumerated) *)
ChainMenu(i) == <<
  << Sig(i + 1, {3}, FALSE, NoFwd) >>,                                                                  \* f(c)
  << Sig(i + 1, {1}, TRUE, Fw("ignore", 0, {}, {}, "pop", << >>)) >>,                                  \* f(a, **kw): pass
  << Sig(i + 1, {2}, TRUE, Fw("next", 0, {}, {}, "pop", << >>)), Sig(i + 2, {3, 4}, FALSE, NoFwd) >>,  \* f(b, **kw) -> g(c, d)
  << Sig(i + 1, {}, TRUE, Fw("next", 0, {4}, {}, "pop", << >>)), Sig(i + 2, {1, 4}, FALSE, NoFwd) >>,  \* f(**kw) -> g(d=.., **kw); g(a, d)
  << Sig(i + 1, {1}, TRUE, Fw("next", 0, {}, {3}, "pop", << >>)),                                      \* f(a, **kw): pop c -> g
     Sig(i + 2, {}, TRUE, Fw("next", 0, {2}, {}, "pop", << >>)),                                       \* g(**kw) -> h(b=.., **kw)
     Sig(i + 3, {2, 3, 4}, FALSE, NoFwd) >>,                                                           \* h(b, c, d)
  << Sig(i + 1, {}, TRUE, Fw("ignore", 0, {}, {4}, "get", << >>)) >>,                                  \* f(**kw): kw.get("d")
  << Sig(i + 1, {3}, TRUE, Fw("new", IF i > 1 THEN i - 1 ELSE 1, {}, {}, "pop", << >>)) >>             \* f(c, **kw): return C<i-1>(**kw)
>>
ChainWeight == <<1, 1, 2, 2, 3, 1, 1>>
NewChain == 7      \* only offered to classes that have an earlier class to construct

(* ---- (round 4) the function g of a second use `if <test>: <call> else: g(ahard..., **kwargs)`; types / defaults of level i + 3 *)
AltMenu(i) == <<
  << Sig(i + 3, {}, FALSE, NoFwd) >>,                                                                   \* g()
  << Sig(i + 3, {2, 3}, FALSE, NoFwd) >>,                                                               \* g(b, c)
  << Sig(i + 3, {1}, TRUE, Fw("ignore", 0, {}, {}, "pop", << >>)) >>,                                   \* g(a, **kw): pass
  << Sig(i + 3, {}, TRUE, Fw("ignore", 0, {}, {4}, "pop", << >>)) >>,                                   \* g(**kw): kw.pop("d")
  << Sig(i + 3, {3}, FALSE, NoFwd) >>                                                                   \* g(c)
>>
AltWeight == <<1, 2, 1, 1, 1>>
AModes == <<"if", "glob", "glob", "nglob">>        \* am = 1..4: run-time test | global True | global False | not global, True
AFlags == <<FALSE, TRUE, FALSE, TRUE>>

(* ---- class descriptors: [kind, own, hard, q, qop, qpos, b, ch, mhas, mown]                                       *)
Kinds == <<"noinit", "named", "ignore", "super0", "superB", "func", "meth", "new", "attr">>
KindIx(k) == PosIn(Kinds, k)
QPos == <<"stmt", "arg", "kw", "alias">>
AVs  == <<"meth", "prop", "upd", "dict">>      \* how the stored **kwargs is kept and used ("attr")
DescQ(kind, own, hard, q, qop, qpos, b, ch, mhas, mown) ==
  [kind |-> kind, own |-> own, hard |-> hard, q |-> q, qop |-> qop, qpos |-> qpos, b |-> b, ch |-> ch, mhas |-> mhas, mown |-> mown,
   alt |-> 0, am |-> 0, ahard |-> {}, pre |-> {}]
Desc(kind, own, hard, q, qop, b, ch, mhas, mown) == DescQ(kind, own, hard, q, qop, "stmt", b, ch, mhas, mown)
\* where the pop of a forwarding def may be written: as a statement, nested as the positional argument of the call, or
\* nested as the value of its (first) hard-coded keyword
Places(hard, q, nest) == IF q = {} \/ ~nest THEN {"stmt"} ELSE {"stmt", "arg"} \cup (IF hard # {} THEN {"kw"} ELSE {})
Weight(d) == Cardinality(d.own) + Cardinality(d.hard) + Cardinality(d.q) + (IF d.ch > 0 THEN ChainWeight[d.ch] ELSE 0)
             + (IF d.mhas THEN 1 + Cardinality(d.mown) ELSE 0)
             + (IF d.alt > 0 THEN AltWeight[d.alt] + Cardinality(d.ahard) ELSE 0) + Cardinality(d.pre)
Code(d) == Mask(d.own) + 16 * Mask(d.hard) + 256 * Mask(d.q) + 2048 * KindIx(d.kind) + 32768 * d.b + 262144 * d.ch
           + (IF d.qop = "get" THEN 4194304 ELSE 0) + 8388608 * (IF d.mhas THEN 16 + Mask(d.mown) ELSE 0)
           + 536870912 * (PosIn(QPos, d.qpos) - 1) + 7 * d.alt + 41 * d.am + 211 * Mask(d.ahard) + 977 * Mask(d.pre)

Build(i, bases, d) ==
  [bases |-> bases,
   init  |-> CASE d.kind = "noinit" -> NoSig
               [] d.kind = "named"  -> Sig(i, d.own, FALSE, NoFwd)
               [] d.alt > 0         -> Sig(i, d.own, TRUE, FwA(d.kind, d.b, d.hard, d.q, d.qop, d.qpos, "-", IF d.ch > 0 THEN ChainMenu(i)[d.ch] ELSE << >>,
                                                               AModes[d.am], AFlags[d.am], d.ahard, AltMenu(i)[d.alt], {}))
               \* a pre-filled stored dict: dict(p=1); .update(**kwargs) or dict(p=1, **kwargs)
               [] d.pre # {}        -> Sig(i, d.own, TRUE, FwA("attr", 0, d.hard, d.q, d.qop, d.qpos,
                                                               IF (i + d.ch + Cardinality(d.hard) + Cardinality(d.own)) % 2 = 0 THEN "upd" ELSE "dict",
                                                               ChainMenu(i)[d.ch], "-", FALSE, {}, << >>, d.pre))
               [] d.kind = "func"   -> Sig(i, d.own, TRUE, FwX("func", 0, d.hard, d.q, d.qop, d.qpos, "-", ChainMenu(i)[d.ch]))
               \* the four ways of keeping / using the stored dict rotate over the descriptors
               [] d.kind = "attr"   -> Sig(i, d.own, TRUE, FwX("attr", 0, d.hard, d.q, d.qop, d.qpos,
                                                               AVs[((i + d.ch + Cardinality(d.hard) + Cardinality(d.own)) % 4) + 1], ChainMenu(i)[d.ch]))
               [] OTHER             -> Sig(i, d.own, TRUE, FwX(d.kind, d.b, d.hard, d.q, d.qop, d.qpos, "-", << >>)),
   m     |-> IF d.mhas THEN Sig(i + 1, d.mown, FALSE, NoFwd) ELSE NoSig]

\* every descriptor of the menu (a constant: TLC evaluates it once), indexed by weight so that a state only looks at
\* the descriptors it can still afford
AllDescs ==
  LET one == SmallSets(IF MaxPop > 0 THEN 1 ELSE 0)
      core ==
           {Desc("noinit", {}, {}, {}, "pop", 0, 0, FALSE, {})}
      \cup {Desc("named", own, {}, {}, "pop", 0, 0, FALSE, {}) : own \in SmallSets(MaxOwn)}
      \cup {Desc("ignore", own, {}, q, qop, 0, 0, FALSE, {}) :
              own \in SmallSets(MaxOwn), q \in SmallSets(MaxPop), qop \in {"pop", "get"}}
      \cup {DescQ("ignore", own, {}, q, qop, "alias", 0, 0, FALSE, {}) :                   \* kwargs.get(n1, kwargs.get(n2, dflt))
              own \in SmallSets(MaxOwn), q \in {x \in SmallSets(IF MaxPop > 0 THEN 2 ELSE 0) : Cardinality(x) = 2}, qop \in {"pop", "get"}}
      \cup UNION {{DescQ(k, own, hard, q, "pop", qp, 0, 0, FALSE, {}) : qp \in Places(hard, q, TRUE)} :
              k \in {"super0", "meth"}, own \in SmallSets(MaxOwn), hard \in SmallSets(MaxHard), q \in one}
      \cup UNION {{DescQ(k, own, hard, q, "pop", qp, b, 0, FALSE, {}) : qp \in Places(hard, q, TRUE)} :
              k \in {"superB", "new"}, own \in SmallSets(MaxOwn), hard \in SmallSets(MaxHard), q \in one, b \in 1..MaxClasses}
      \cup UNION {{DescQ(k, own, hard, q, "pop", qp, 0, ch, FALSE, {}) : qp \in Places(hard, q, k = "func")} :
              k \in {"func", "attr"}, own \in SmallSets(MaxOwn), hard \in SmallSets(MaxHard), q \in one, ch \in DOMAIN ChainWeight}
      sane == {d \in core : ~(d.qop = "get" /\ d.q = {})}
      withm == sane \cup {[d EXCEPT !.mhas = TRUE, !.mown = mo] : d \in sane, mo \in SmallSets(1)}
      \* (round 4) a second use in the else-branch of an if around the forwarding call (pops as statements before it)
      \* (only what the largest budget can afford: the product is big)
      MaxB == LET S == {B1, B2, B3, B4, B5} IN CHOOSE x \in S : \A y \in S : y <= x
      abase == {x \in withm : x.kind \in {"super0", "superB", "func", "meth", "new"} /\ x.qpos = "stmt" /\ Weight(x) + 1 <= MaxB
                               /\ (x.mhas => x.kind = "meth")}
      alts == {y \in {[d EXCEPT !.alt = a, !.am = m, !.ahard = ah] : d \in abase, a \in DOMAIN AltWeight, m \in DOMAIN AModes, ah \in {{}, {3}}} :
                 Weight(y) <= MaxB}
      pres == UNION {{[d EXCEPT !.pre = {pr}] : d \in {x \in withm : x.kind = "attr" /\ pr \notin x.hard /\ Weight(x) + 1 <= MaxB /\ ~x.mhas}} : pr \in {1, 3}}
  IN withm \cup (IF AltMode > 0 THEN alts \cup pres ELSE {})
MaxWeight == B1 + B2 + B3 + B4 + B5
DescsByWeight == [wt \in 0..MaxWeight |-> {d \in AllDescs : Weight(d) = wt}]
\* the descriptors offered for class i with runtime ancestors anc (incl. itself) and `left` weight to spend.  A class
\* defines m only where it matters: it calls self.m itself, or it overrides the m that an ancestor calls (methAbove)
Descs(i, anc, methAbove, left, shp) ==
  {d \in UNION {DescsByWeight[wt] : wt \in 0..left} :
      /\ d.kind = "superB" => d.b \in anc
      /\ d.kind = "new" => d.b < i
      /\ MroOnly => d.kind \notin {"func", "meth", "new", "attr"}
      /\ d.ch = NewChain => i > 1
      /\ d.mhas => (d.kind = "meth" \/ methAbove)
      /\ d.q # {} => Len(shp) <= PopClasses
      /\ d.kind = "attr" => Len(shp) <= AttrClasses
      /\ AltMode = 2 => ((i = Len(shp)) <=> (d.alt > 0 \/ d.pre # {}))}

(* ---- shapes: base lists such that every class statement is legal and every class is an ancestor of the last one  *)
BaseSeqs(i) == {<< >>} \cup {<<x>> : x \in 1..(i - 1)} \cup {<<x, y>> : x \in 1..(i - 1), y \in (1..(i - 1))}
RECURSIVE ShapesOfLen(_)
ShapesOfLen(n) == IF n = 0 THEN {<< >>} ELSE {Append(s, b) : s \in ShapesOfLen(n - 1), b \in {x \in BaseSeqs(n) : Len(x) < 2 \/ (x[1] # x[2] /\ (AscBases => x[1] < x[2]))}}
Sk(s) == [classes |-> [j \in DOMAIN s |-> [bases |-> s[j]]]]
GoodShape(s) == (\A j \in DOMAIN s : MroOK(Sk(s), j)) /\ SetOf(Mro(Sk(s), Len(s))) = DOMAIN s
Shapes == UNION {{s \in ShapesOfLen(n) : GoodShape(s)} : n \in MinClasses..MaxClasses}

(* ---- functions of a chain that is the component itself                                                           *)
FnDescs0(j) ==
       {[own |-> own, kw |-> FALSE, k |-> "ignore", hard |-> {}, q |-> {}, qop |-> "pop", qpos |-> "stmt"] : own \in SmallSets(FnOwn)}
  \cup {[own |-> own, kw |-> TRUE, k |-> "ignore", hard |-> {}, q |-> q, qop |-> qop, qpos |-> "stmt"] :
          own \in SmallSets(FnOwn), q \in SmallSets(MaxPop), qop \in {"pop", "get"}}
  \cup {[own |-> own, kw |-> TRUE, k |-> "ignore", hard |-> {}, q |-> q, qop |-> qop, qpos |-> "alias"] :
          own \in SmallSets(FnOwn), q \in {x \in SmallSets(IF MaxPop > 0 THEN 2 ELSE 0) : Cardinality(x) = 2}, qop \in {"pop", "get"}}
  \cup (IF j >= MaxChain THEN {} ELSE
       UNION {{[own |-> own, kw |-> TRUE, k |-> "next", hard |-> hard, q |-> q, qop |-> "pop", qpos |-> qp] : qp \in Places(hard, q, TRUE)} :
          own \in SmallSets(FnOwn), hard \in SmallSets(MaxHard), q \in SmallSets(IF MaxPop > 0 THEN 1 ELSE 0)})
\* (round 4) the first function of the chain may have a second use under an if
FnDescs(j) ==
  LET base == {[own |-> d.own, kw |-> d.kw, k |-> d.k, hard |-> d.hard, q |-> d.q, qop |-> d.qop, qpos |-> d.qpos, alt |-> 0, am |-> 0, ahard |-> {}] : d \in FnDescs0(j)}
  IN base \cup (IF AltMode > 0 /\ j = 1
                THEN {[d EXCEPT !.alt = a, !.am = m, !.ahard = ah] : d \in {x \in base : x.k = "next" /\ x.qpos = "stmt"},
                                                                      a \in DOMAIN AltWeight, m \in DOMAIN AModes, ah \in {{}, {3}}}
                ELSE {})
FnWeight(d) == Cardinality(d.own) + Cardinality(d.hard) + Cardinality(d.q) + (IF d.alt > 0 THEN AltWeight[d.alt] + Cardinality(d.ahard) ELSE 0)
FnSane(d) == ~(d.qop = "get" /\ d.q = {})
FnBuild(j, d) == Sig(j, d.own, d.kw, IF d.alt = 0 THEN FwX(d.k, 0, d.hard, d.q, d.qop, d.qpos, "-", << >>)
                                     ELSE FwA(d.k, 0, d.hard, d.q, d.qop, d.qpos, "-", << >>, AModes[d.am], AFlags[d.am], d.ahard, AltMenu(0)[d.alt], {}))
FnCode(d) == Mask(d.own) + 16 * Mask(d.hard) + 256 * Mask(d.q) + (IF d.kw THEN 4096 ELSE 0) + (IF d.k = "next" THEN 8192 ELSE 0) + (IF d.qop = "get" THEN 16384 ELSE 0)
             + 32768 * PosIn(QPos, d.qpos) + 7 * d.alt + 41 * d.am + 211 * Mask(d.ahard)

(* ---- the state: a program under construction                                                                      *)
VARIABLES shape,   \* base lists of the class program being built (<< >> for a function chain)
          cls,     \* classes defined so far
          fn,      \* the function chain being built (<< >> for a class program)
          h,       \* hash of the choices made so far (selection of the programs to print)
          w        \* weight used so far
vars == <<shape, cls, fn, h, w>>

P == [classes |-> cls]
IsClassProg == Len(shape) > 0
Complete == IF IsClassProg THEN Len(cls) = Len(shape)
            ELSE Len(fn) > 0 /\ ~(fn[Len(fn)].kw /\ fn[Len(fn)].fw.k = "next")
Comp == IF IsClassProg THEN [k |-> "cls", c |-> Len(cls), chain |-> << >>] ELSE [k |-> "fn", c |-> 0, chain |-> fn]
\* the class on top of a prefix can be instantiated (a program whose classes cannot be constructed is not extended)
TopComp == [k |-> "cls", c |-> Len(cls), chain |-> << >>]
TopCallable == IF Len(cls) = 0 THEN TRUE ELSE Callable(RunTable(P, TopComp, Universe(P, TopComp)))

Init == /\ cls = << >> /\ h = 0 /\ w = 0 /\ fn = << >>
        /\ shape \in Shapes \cup (IF MinClasses = 1 THEN {<< >>} ELSE {})      \* << >>: a function chain is the component

AddClass ==
  /\ IsClassProg /\ Len(cls) < Len(shape) /\ TopCallable
  /\ LET i    == Len(cls) + 1
         anc  == SetOf(Mro(Sk(shape), i))
         above == \E c \in anc \ {i} : cls[c].init.has /\ cls[c].init.kw /\ cls[c].init.fw.k = "meth"
     IN \E d \in Descs(i, anc, above, Budgets[Len(shape)] - w, shape) :
          /\ cls' = Append(cls, Build(i, shape[i], d))
          /\ h' = (h * 31 + Code(d)) % 65521
          /\ w' = w + Weight(d)
  /\ UNCHANGED <<shape, fn>>

AddFn ==
  /\ ~IsClassProg /\ (IF Len(fn) = 0 THEN TRUE ELSE (fn[Len(fn)].kw /\ fn[Len(fn)].fw.k = "next"))
  /\ LET j == Len(fn) + 1 IN
     \E d \in {x \in FnDescs(j) : FnSane(x) /\ w + FnWeight(x) <= BFn /\ (AltMode = 2 => (x.alt > 0 \/ j > 1))} :
          /\ fn' = Append(fn, FnBuild(j, d))
          /\ h' = (h * 31 + FnCode(d)) % 65521
          /\ w' = w + FnWeight(d)
  /\ UNCHANGED <<shape, cls>>

Next == AddClass \/ AddFn
Spec == Init /\ [][Next]_vars

(* ---- the invariant: evaluated on every complete program; the call table is computed once                        *)
Say(clause) == PrintT(ToJson([fail |-> clause, prog |-> P, comp |-> Comp, h |-> h])) /\ KeepGoing
Selected == (IF IsClassProg THEN Len(cls) <= EmitAllUpTo ELSE Len(fn) <= 1) \/ (h + Seed) % Sel = 0

\* class programs in which some __init__ can never run behave like a smaller program of the instance: skipped
Relevant == IsClassProg => AllMatter(P, Len(cls))

Inv ==
  (Complete /\ Relevant) =>
  LET U    == Universe(P, Comp)
      T    == RunTable(P, Comp, U)
      call == Callable(T)
      run  == AlgRun(P, Comp)
      dev  == DevOf(run.ev)
      ps   == run.ps
      ref  == RefOffer(T)
      X    == IF IsClassProg THEN DefOf(P, Len(cls), "init") ELSE 0
      \* (with a second use under an if, a name hard-coded at one call can be legal through the other)
      topHard == IF X = 0 \/ ~cls[X].init.kw \/ cls[X].init.fw.k = "ignore" \/ cls[X].init.fw.amode # "-" THEN {}
                 ELSE SetOf(cls[X].init.fw.hard) \ (NamesOf(cls[X].init.ps) \cup SetOf(cls[X].init.fw.q))
  IN
  \* laws of the reference (Python's call semantics): keywords are routed independently, so "the set of legal
  \* keyword parameters" is well defined, each has one owner, and passing all of them at once is accepted
  /\ LawIndependent(T) \/ Say("law-independent")
  /\ LawAllOffered(T) \/ Say("law-all-offered")
  /\ LawOneOwner(T) \/ Say("law-one-owner")
  /\ LawStableOwner(T) \/ Say("law-stable-owner")
  /\ (LegalKw(T) \subseteq Accepted(T) /\ "zz" \notin LegalKw(T)) \/ Say("law-legal-accepted")
  \* a name hard-coded by the component's own def (and neither declared nor popped by it) can never be passed
  /\ (~call \/ topHard \cap LegalKw(T) = {}) \/ Say("law-hard-not-legal")
  \* C13 at design level: outside the named deviations the resolver's algorithm offers exactly the legal
  \* parameters, each with the type and default of the signature it is bound in, and no hard-coded one
  /\ (~call \/ dev # "-" \/ (NoDup(ps) /\ OfferAgrees(ref, OfferOf(ps)))) \/ Say("alg-refines-ref")
  \* (round 4) a parameter that some branch does not accept is offered as Conditional
  /\ (~call \/ dev # "-" \/ UncondOK(T, OfferOf(ps))) \/ Say("alg-uncond")
  /\ (~call \/ dev # "-" \/ topHard \cap NamesOf(ps) = {}) \/ Say("alg-hard-not-offered")
  \* the programs to replay on the real code, with what the specification expects of them
  \* (programs in which the resolver reports a Conditional parameter are few and delicate: one in CondSel is printed)
  /\ (Selected \/ (call /\ (h + Seed) % CondSel = 0 /\ \E j \in DOMAIN ps : ps[j].d = "cond")) => PrintT(ToJson(
       [prog |-> P, comp |-> Comp, h |-> h, w |-> w, callable |-> call, univ |-> SetToSeq(U),
        req   |-> IF call THEN SetToSeq(Required(T)) ELSE << >>,
        acc   |-> IF call THEN SetToSeq(Accepted(T)) ELSE << >>,
        offer |-> IF call THEN SetToSeq(ref) ELSE << >>,
        alg   |-> IF call THEN ps ELSE << >>,
        dev   |-> IF call THEN dev ELSE "-",
        every |-> IF call THEN SetToSeq(Everywhere(T)) ELSE << >>,
        holds |-> ~call \/ (NoDup(ps) /\ OfferAgrees(ref, OfferOf(ps)) /\ UncondOK(T, OfferOf(ps)))]))
=============================================================================
