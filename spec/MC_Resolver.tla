----------------------------- MODULE MC_Resolver -----------------------------
(* Bounded instance of Resolver.tla: TLC enumerates every program of the grammar up to the bounds, one class     *)
(* (or one helper function) per step, checks the laws of the reference and "Alg refines Ref outside the named    *)
(* deviations" on every complete program, and prints the programs selected for the replay on the real code.      *)
EXTENDS Resolver, Json, IOUtils, SequencesExt, FiniteSetsExt
CONSTANTS MaxClasses,   \* class programs with 1..MaxClasses classes (every class an ancestor of the last one)
          MaxOwn,       \* named parameters per def
          MaxHard,      \* hard-coded keyword arguments per forwarding call
          MaxPop,       \* kwargs.pop/get calls per def
          Budget,       \* bound on the total weight of a program (named parameters + hard-coded names + pops + helpers)
          MaxChain,     \* depth of the function chains that are components themselves
          FnOwn,        \* named parameters per function of such a chain
          EmitAllUpTo,  \* print every complete program with at most this many classes ...
          Sel           \* ... and one in Sel of the larger ones (chosen by a hash of the program and the seed)

Names == <<"a", "b", "c", "d">>
NIdx  == 1..4
U     == SetOf(Names) \cup {"z"}            \* "z" is declared nowhere: it can only die in an unused **kwargs
Seed  == atoi(IOEnv.SEL_SEED)
Pow2  == <<1, 2, 4, 8>>
Mask(S) == FoldSet(LAMBDA x, acc : acc + Pow2[x], 0, S)
AscSeq(S) == SetToSortSeq(S, LAMBDA x, y : x < y)
SmallSets(k) == {S \in SUBSET NIdx : Cardinality(S) <= k}

\* type and default of a declaration are a fixed function of (owner index, name) so that provenance is observable:
\* the same name has different types at neighbouring levels; "b" is required at odd levels; "d" is never annotated
TypeOf(i, x) == IF x = 4 THEN "none" ELSE IF (i + x) % 2 = 0 THEN "int" ELSE "str"
DfltOf(i, x) == IF x = 2 /\ i % 2 = 1 THEN "req" ELSE "dflt"
Params(i, S) == LET s == AscSeq(S) IN [k \in DOMAIN s |-> [n |-> Names[s[k]], t |-> TypeOf(i, s[k]), d |-> DfltOf(i, s[k])]]
NameSeq(S)   == LET s == AscSeq(S) IN [k \in DOMAIN s |-> Names[s[k]]]

Fw(k, b, hard, q, qop, chain) == [k |-> k, b |-> b, hard |-> NameSeq(hard), q |-> NameSeq(q), qop |-> qop, chain |-> chain]
Sig(i, own, kw, fw) == [has |-> TRUE, ps |-> Params(i, own), kw |-> kw, fw |-> fw]

(* ---- helper chains that a class can call (a fixed menu; the chains that are components themselves are enumerated) *)
ChainMenu(i) == <<
  << Sig(i + 1, {3}, FALSE, NoFwd) >>,                                                                  \* f(c)
  << Sig(i + 1, {1}, TRUE, Fw("ignore", 0, {}, {}, "pop", << >>)) >>,                                  \* f(a, **kw): pass
  << Sig(i + 1, {2}, TRUE, Fw("next", 0, {}, {}, "pop", << >>)), Sig(i + 2, {3, 4}, FALSE, NoFwd) >>,  \* f(b, **kw) -> g(c, d)
  << Sig(i + 1, {}, TRUE, Fw("next", 0, {4}, {}, "pop", << >>)), Sig(i + 2, {1, 4}, FALSE, NoFwd) >>,  \* f(**kw) -> g(d=.., **kw); g(a, d)
  << Sig(i + 1, {1}, TRUE, Fw("next", 0, {}, {3}, "pop", << >>)),                                      \* f(a, **kw): pop c -> g
     Sig(i + 2, {}, TRUE, Fw("next", 0, {2}, {}, "pop", << >>)),                                       \* g(**kw) -> h(b=.., **kw)
     Sig(i + 3, {2, 3, 4}, FALSE, NoFwd) >>,                                                           \* h(b, c, d)
  << Sig(i + 1, {}, TRUE, Fw("ignore", 0, {}, {4}, "get", << >>)) >>                                   \* f(**kw): kw.get("d")
>>
ChainWeight == <<1, 1, 2, 2, 3, 1>>

(* ---- class descriptors: [kind, own, hard, q, qop, b, ch, mhas, mown]                                             *)
Kinds == <<"noinit", "named", "ignore", "super0", "superB", "func", "meth">>
KindIx(k) == PosIn(Kinds, k)
Desc(kind, own, hard, q, qop, b, ch, mhas, mown) ==
  [kind |-> kind, own |-> own, hard |-> hard, q |-> q, qop |-> qop, b |-> b, ch |-> ch, mhas |-> mhas, mown |-> mown]
Weight(d) == Cardinality(d.own) + Cardinality(d.hard) + Cardinality(d.q) + (IF d.ch > 0 THEN ChainWeight[d.ch] ELSE 0)
             + (IF d.mhas THEN 1 + Cardinality(d.mown) ELSE 0)
Code(d) == Mask(d.own) + 16 * Mask(d.hard) + 256 * Mask(d.q) + 4096 * KindIx(d.kind) + 32768 * d.b + 262144 * d.ch
           + (IF d.qop = "get" THEN 4194304 ELSE 0) + 8388608 * (IF d.mhas THEN 16 + Mask(d.mown) ELSE 0)

Build(i, bases, d) ==
  [bases |-> bases,
   init  |-> CASE d.kind = "noinit" -> NoSig
               [] d.kind = "named"  -> Sig(i, d.own, FALSE, NoFwd)
               [] d.kind = "func"   -> Sig(i, d.own, TRUE, Fw("func", 0, d.hard, d.q, d.qop, ChainMenu(i)[d.ch]))
               [] OTHER             -> Sig(i, d.own, TRUE, Fw(d.kind, d.b, d.hard, d.q, d.qop, << >>)),
   m     |-> IF d.mhas THEN Sig(i + 1, d.mown, FALSE, NoFwd) ELSE NoSig]

\* the descriptors offered for class i with runtime ancestors anc (incl. itself), when `methUsed` says that the
\* class or one of its ancestors calls self.m
Descs(i, anc, methAbove, left) ==
  LET fwdKinds == {"super0", "superB", "func", "meth"}
      core ==
           {Desc("noinit", {}, {}, {}, "pop", 0, 0, FALSE, {})}
      \cup {Desc("named", own, {}, {}, "pop", 0, 0, FALSE, {}) : own \in SmallSets(MaxOwn)}
      \cup {Desc("ignore", own, {}, q, qop, 0, 0, FALSE, {}) :
              own \in SmallSets(MaxOwn), q \in SmallSets(MaxPop), qop \in {"pop", "get"}}
      \cup {Desc(k, own, hard, q, "pop", 0, 0, FALSE, {}) :
              k \in {"super0", "meth"}, own \in SmallSets(MaxOwn), hard \in SmallSets(MaxHard), q \in SmallSets(IF MaxPop > 0 THEN 1 ELSE 0)}
      \cup {Desc("superB", own, hard, q, "pop", b, 0, FALSE, {}) :
              own \in SmallSets(MaxOwn), hard \in SmallSets(MaxHard), q \in SmallSets(IF MaxPop > 0 THEN 1 ELSE 0), b \in anc}
      \cup {Desc("func", own, hard, q, "pop", 0, ch, FALSE, {}) :
              own \in SmallSets(MaxOwn), hard \in SmallSets(MaxHard), q \in SmallSets(IF MaxPop > 0 THEN 1 ELSE 0), ch \in DOMAIN ChainMenu(i)}
      sane == {d \in core : ~(d.qop = "get" /\ d.q = {}) /\ Weight(d) <= left}
      \* a class defines m only where it matters: it calls self.m itself, or it overrides the m an ancestor calls
      withM == {[d EXCEPT !.mhas = TRUE, !.mown = mo] : d \in {x \in sane : x.kind = "meth" \/ methAbove}, mo \in SmallSets(1)}
  IN sane \cup {d \in withM : Weight(d) <= left}

(* ---- shapes: base lists such that every class statement is legal and every class is an ancestor of the last one  *)
BaseSeqs(i) == {<< >>} \cup {<<x>> : x \in 1..(i - 1)} \cup {<<x, y>> : x \in 1..(i - 1), y \in (1..(i - 1))}
RECURSIVE ShapesOfLen(_)
ShapesOfLen(n) == IF n = 0 THEN {<< >>} ELSE {Append(s, b) : s \in ShapesOfLen(n - 1), b \in {x \in BaseSeqs(n) : Len(x) < 2 \/ x[1] # x[2]}}
Sk(s) == [classes |-> [j \in DOMAIN s |-> [bases |-> s[j]]]]
GoodShape(s) == (\A j \in DOMAIN s : MroOK(Sk(s), j)) /\ SetOf(Mro(Sk(s), Len(s))) = DOMAIN s
Shapes == UNION {{s \in ShapesOfLen(n) : GoodShape(s)} : n \in 1..MaxClasses}

(* ---- functions of a chain that is the component itself                                                           *)
FnDescs(j) ==
       {[own |-> own, kw |-> FALSE, k |-> "ignore", hard |-> {}, q |-> {}, qop |-> "pop"] : own \in SmallSets(FnOwn)}
  \cup {[own |-> own, kw |-> TRUE, k |-> "ignore", hard |-> {}, q |-> q, qop |-> qop] :
          own \in SmallSets(FnOwn), q \in SmallSets(MaxPop), qop \in {"pop", "get"}}
  \cup (IF j >= MaxChain THEN {} ELSE
       {[own |-> own, kw |-> TRUE, k |-> "next", hard |-> hard, q |-> q, qop |-> "pop"] :
          own \in SmallSets(FnOwn), hard \in SmallSets(MaxHard), q \in SmallSets(IF MaxPop > 0 THEN 1 ELSE 0)})
FnSane(d) == ~(d.qop = "get" /\ d.q = {})
FnBuild(j, d) == Sig(j, d.own, d.kw, Fw(d.k, 0, d.hard, d.q, d.qop, << >>))
FnCode(d) == Mask(d.own) + 16 * Mask(d.hard) + 256 * Mask(d.q) + (IF d.kw THEN 4096 ELSE 0) + (IF d.k = "next" THEN 8192 ELSE 0) + (IF d.qop = "get" THEN 16384 ELSE 0)

(* ---- the state: a program under construction                                                                      *)
VARIABLES shape,   \* base lists of the class program being built (<< >> for a function chain)
          cls,     \* classes defined so far
          fn,      \* the function chain being built (<< >> for a class program)
          h,       \* hash of the choices made so far (selection of the programs to print)
          w        \* weight used so far
vars == <<shape, cls, fn, h, w>>

P == [classes |-> cls]
IsClassProg == Len(shape) > 0
Complete == IF IsClassProg THEN Len(cls) = Len(shape)
            ELSE Len(fn) > 0 /\ ~(fn[Len(fn)].kw /\ fn[Len(fn)].fw.k = "next")
Comp == IF IsClassProg THEN [k |-> "cls", c |-> Len(cls), chain |-> << >>] ELSE [k |-> "fn", c |-> 0, chain |-> fn]
\* the class on top of a prefix can be instantiated (a program whose classes cannot be constructed is not extended)
TopCallable == Len(cls) = 0 \/ Callable(P, [k |-> "cls", c |-> Len(cls)], U)

Init == /\ cls = << >> /\ h = 0 /\ w = 0 /\ fn = << >>
        /\ shape \in Shapes \cup {<< >>}

AddClass ==
  /\ IsClassProg /\ Len(cls) < Len(shape) /\ TopCallable
  /\ LET i    == Len(cls) + 1
         anc  == SetOf(Mro(Sk(shape), i))
         above == \E c \in anc \ {i} : cls[c].init.has /\ cls[c].init.kw /\ cls[c].init.fw.k = "meth"
     IN \E d \in Descs(i, anc, above, Budget - w) :
          /\ cls' = Append(cls, Build(i, shape[i], d))
          /\ h' = (h * 31 + Code(d)) % 65521
          /\ w' = w + Weight(d)
  /\ UNCHANGED <<shape, fn>>

AddFn ==
  /\ ~IsClassProg /\ (Len(fn) = 0 \/ (fn[Len(fn)].kw /\ fn[Len(fn)].fw.k = "next"))
  /\ LET j == Len(fn) + 1 IN
     \E d \in {x \in FnDescs(j) : FnSane(x)} :
          /\ fn' = Append(fn, FnBuild(j, d))
          /\ h' = (h * 31 + FnCode(d)) % 65521
          /\ w' = w
  /\ UNCHANGED <<shape, cls>>

Next == AddClass \/ AddFn
Spec == Init /\ [][Next]_vars

(* ---- invariants                                                                                                    *)
\* laws of the reference (Python's call semantics): keywords are routed independently, so "the set of legal
\* keyword parameters" is well defined, each has one owner, and passing all of them at once is accepted
RefLaws == Complete => /\ LawIndependent(P, Comp, U)
                       /\ LawAllOffered(P, Comp, U)
                       /\ LawOneOwner(P, Comp, U)
                       /\ LawStableOwner(P, Comp, U)
                       /\ LegalKw(P, Comp, U) \subseteq Accepted(P, Comp, U) /\ "z" \notin LegalKw(P, Comp, U)
\* C13 at design level: outside the named deviations the resolver's algorithm offers exactly the legal parameters,
\* each with the type and default of the signature it is bound in
AlgRefinesRef == (Complete /\ Deviation(P, Comp) = "-") => C13Holds(P, Comp, U)
\* a name hard-coded by the component's own def (and not declared by it) is never offered
HardNotOffered ==
  (Complete /\ IsClassProg /\ Callable(P, Comp, U)) =>
     LET X == DefOf(P, Len(cls), "init") IN
     X = 0 \/ ~cls[X].init.kw \/ cls[X].init.fw.k = "ignore" \/
       \A n \in SetOf(cls[X].init.fw.hard) \ (NamesOf(cls[X].init.ps) \cup SetOf(cls[X].init.fw.q)) :
           n \notin LegalKw(P, Comp, U) /\ (Deviation(P, Comp) = "-" => n \notin AlgNames(P, Comp))
\* the deviations are real in the model (non-vacuity of the findings, counted through coverage): see DevSeen in the harness

Selected == Complete /\ ((IF IsClassProg THEN Len(cls) <= EmitAllUpTo ELSE Len(fn) <= 1) \/ (h + Seed) % Sel = 0)
SetSeq(S) == SetToSeq(S)
Expected ==
  LET call == Callable(P, Comp, U) IN
  [prog |-> P, comp |-> Comp, h |-> h, w |-> w, callable |-> call,
   req   |-> IF call THEN SetSeq(Required(P, Comp, U)) ELSE << >>,
   acc   |-> IF call THEN SetSeq(Accepted(P, Comp, U)) ELSE << >>,
   offer |-> IF call THEN SetSeq(RefOffer(P, Comp, U)) ELSE << >>,
   alg   |-> IF call THEN AlgResolve(P, Comp) ELSE << >>,
   dev   |-> IF call THEN Deviation(P, Comp) ELSE "-",
   holds |-> C13Holds(P, Comp, U)]
EmitProgram == Selected => PrintT(ToJson(Expected))
=============================================================================
