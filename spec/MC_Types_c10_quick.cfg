SPECIFICATION Spec
CONSTANTS
  Tier = "quick"
  Emit = "accepted"
INVARIANT InvRefLaws
INVARIANT InvRefPermInvariant
INVARIANT InvAlg
CHECK_DEADLOCK FALSE
