SPECIFICATION Spec
CONSTANTS
  Tier = "quick"
  Emit = "accepted"
  Laws = "c10"
INVARIANT InvCase
CHECK_DEADLOCK FALSE
