SPECIFICATION Spec
CONSTANTS
  Tier = "quick"
  Emit = "accepted"
  Laws = "c10"
INVARIANT InvAlg
CHECK_DEADLOCK FALSE
