------------------------------ MODULE Trace_Cli ------------------------------
(* Validation of executions recorded from the real jsonargparse.auto_cli (code -> spec).                 *)
(* TRACE_FILE holds a list of records [cs, obs]:                                                          *)
(*   cs   the case in the vocabulary of Cli.tla (component as leaves with signatures, as_positional, the  *)
(*        command line as abstract tokens) -- exactly what the harness concretised and executed;         *)
(*   obs  what the real code did: [out, calls, ret] with out \in {"ok","reject","crash",...}, the call    *)
(*        log recorded by the generated callables (name, every parameter with the value it received) and  *)
(*        the value auto_cli returned.                                                                    *)
(* TLC runs the Alg machine of Cli.tla on every recorded case (one behaviour per case, every invariant of *)
(* the property checked in every state) and, when a case is finished, compares the observation with       *)
(*   - the set of outcomes the property allows (Ref)      -> <<"R", index, "ref">>   (verdict)            *)
(*   - the outcome of the transcribed algorithm (Alg)     -> <<"R", index, "alg">>   (drift)              *)
(* On a case with a recorded deviation (HiddenButRequiredByPython, AmbiguousSubOption) the Ref clause is named      *)
(* "ref-dev-as-alg" / "ref-dev-abbrev-as-alg" when the real code behaves exactly as the Alg layer predicts (the       *)
(* known findings), "ref-dev-other" otherwise.                                                                        *)
(* Every finished case prints <<"D", index>> so that the harness can see that nothing was skipped.        *)
EXTENDS Cli, Json, IOUtils
\* TLC orders record fields by first appearance of the name in the root module: keep the tag first
FieldOrder == [k |-> 0]

Data == JsonDeserialize(IOEnv.TRACE_FILE)
N == Len(Data)

VARIABLE tid
Init == \E t \in 1..N : tid = t /\ InitCase(Data[t].cs)
TNext == Next /\ UNCHANGED tid

Say(idx, clause) == PrintT(<<"R", idx, clause>>)
Check == Done =>
  LET o == Data[tid].obs
      allowed == RefOutcomes(cs)
  IN /\ (\E x \in allowed : x = o) \/ Say(tid, IF o = AlgOutcome /\ EnvConfigSectionLost THEN "ref-dev-envcfg-as-alg"
                                                ELSE IF o = AlgOutcome /\ SubNamedConfigSelected THEN "ref-dev-subconfig-as-alg"
                                                ELSE IF o = AlgOutcome /\ MethodParameterNamedConfig THEN "ref-dev-cfgparam-as-alg"
                                                ELSE IF o = AlgOutcome /\ UnionDefaultDigits /\ o.out \in {"ok", "raise"} THEN "ref-dev-uniondefault-as-alg"
                                                ELSE IF o = AlgOutcome /\ AmbiguousSubOption /\ o.out = "reject" THEN "ref-dev-abbrev-as-alg"
                                                ELSE IF o = AlgOutcome /\ HiddenButRequiredByPython /\ o.out = "crash" THEN "ref-dev-as-alg"
                                                ELSE IF Deviation THEN "ref-dev-other" ELSE "ref")
     /\ (o = AlgOutcome) \/ Say(tid, "alg")
     /\ (Deviation \/ AlgOutcome \in allowed) \/ Say(tid, "alg-not-ref")      \* design-level disagreement on a recorded case
     /\ PrintT(<<"D", tid>>)
Inv == Check \/ TRUE
=============================================================================
