-------------------------------- MODULE Cli --------------------------------
(***************************************************************************)
(* jsonargparse.auto_cli (property C12): signature -> CLI shape -> parse   *)
(* -> dispatch -> call.                                                    *)
(*                                                                         *)
(* A *case* cs = [aspos, leaves, argv] is a component together with a      *)
(* command line:                                                           *)
(*   leaves  sequence of [path, c]: the flattened component.  A single     *)
(*           function/class has one leaf with path << >>; a list of        *)
(*           components has leaves with paths of length 1; a nested dict   *)
(*           has longer paths (the inner names are the group sub-commands).*)
(*           c = [k, name, params, methods], k \in {"fn","cls"},           *)
(*           methods = sequence of [name, params] (public methods of a     *)
(*           class in inspect.getmembers order, i.e. sorted by name),      *)
(*           a parameter p = [n, kind, t, hd, d]: name, "pk" | "ko",       *)
(*           declared type, has-default flag, default value.               *)
(*   argv    sequence of tokens                                            *)
(*           [k |-> "pos", v]          a bare word (positional value or    *)
(*                                     sub-command name)                   *)
(*           [k |-> "opt", n, v]       --n=<text of v>                     *)
(*           [k |-> "cfg", m |-> m]    --config=<json of m>, m a map       *)
(*                                     name -> value | [k |-> "map", m];   *)
(*                                     the key "subcommand" selects        *)
(*   aspos   auto_cli(as_positional=...)                                   *)
(*                                                                         *)
(* Two layers.                                                             *)
(*   Ref*   the property: the command line is read as a list of            *)
(*          assignments (level, parameter, value), the selected component  *)
(*          is called exactly once with every parameter bound to the       *)
(*          converted last given value or else its signature default.      *)
(*   Alg*   _cli.py / _signatures.py / the parse pipeline of _core.py      *)
(*          transcribed as a state machine (Init/Next below): defaults,    *)
(*          one step per argv token against the derived parser shape,      *)
(*          sub-command handling with sub-defaults, required check,        *)
(*          component lookup, the key pops of _run_component, constructor  *)
(*          call, function/method call.                                    *)
(* MC_Cli checks Alg = Ref on every case of a bounded universe and the     *)
(* clauses of the property as separate invariants; Trace_Cli evaluates the *)
(* same operators on call logs recorded from the real auto_cli.            *)
(***************************************************************************)
EXTENDS Integers, Sequences, FiniteSets, TLC, SequencesExt

(***************************************************************************)
(* Values (tagged records, tag first), types, conversion                   *)
(***************************************************************************)
VInt(n)  == [k |-> "int",  i |-> n]
VStr(s)  == [k |-> "str",  s |-> s]
VBool(b) == [k |-> "bool", b |-> b]
VList(s) == [k |-> "list", l |-> s]          \* list of ints
VDict(d) == [k |-> "dict", d |-> d]          \* Dict[str, int]: name -> int
VTup(i, s) == [k |-> "tup", ti |-> i, ts |-> s]   \* Tuple[int, str]
VEnum(n) == [k |-> "enum", e |-> n]          \* member of the generated Enum, by name
VSpec(c, x) == [k |-> "spec", c |-> c, x |-> x]    \* round 4: {"class_path": "<module>.<c>", "init_args": {"x": x}} for a class-typed parameter
VObj(c, x)  == [k |-> "obj",  c |-> c, x |-> x]    \* the instance of class c (Base or its subclass Sub) built with x
Inst(v)  == IF v.k = "spec" THEN VObj(v.c, v.x) ELSE v      \* ArgumentParser.instantiate_classes
VNull    == [k |-> "null"]                   \* Python None
NoVal    == [k |-> "none"]                   \* absence (inspect._empty / key not in cfg); not a Python value
Bad      == [k |-> "bad"]                    \* conversion failed
VMap(m)  == [k |-> "map", m |-> m]

EnumMembers == {"A", "B"}
IsOpt(t) == Len(t) > 4 /\ SubSeq(t, 1, 4) = "opt_"
Opt(t)   == "opt_" \o t
Unopt(t) == SubSeq(t, 5, Len(t))
\* the text a value is written as on the command line (gamma of the harness writes exactly this)
RECURSIVE ListText(_, _)
ListText(l, i) == IF i > Len(l) THEN "" ELSE (IF i > 1 THEN "," ELSE "") \o ToString(l[i]) \o ListText(l, i + 1)
Text(v) == CASE v.k = "str"  -> v.s
             [] v.k = "list" -> "[" \o ListText(v.l, 1) \o "]"
             [] v.k = "tup"  -> "[" \o ToString(v.ti) \o ",\"" \o v.ts \o "\"]"
             [] v.k = "dict" -> IF DOMAIN v.d = {} THEN "{}"                      \* (dicts on the command line have at most one key)
                                ELSE LET key == CHOOSE x \in DOMAIN v.d : TRUE IN "{\"" \o key \o "\":" \o ToString(v.d[key]) \o "}"
             [] v.k = "int"  -> ToString(v.i)
             [] v.k = "bool" -> (IF v.b THEN "true" ELSE "false")
             [] v.k = "null" -> "null"
             [] v.k = "spec" -> "<spec " \o v.c \o ">"       \* (never the text of a str: specs are only written for class-typed parameters)
             [] OTHER        -> "?"

\* the strs of digits of the vocabulary and the ints they are the text of
DigitStrs == [x \in {"5", "7", "12", "40"} |-> CASE x = "5" -> 5 [] x = "7" -> 7 [] x = "12" -> 12 [] x = "40" -> 40]
\* "converted to the declared type" (the conversion itself is the subject of C02; here it is shared by Ref and Alg).
\* src = "argv": the value arrives as text (a str parameter keeps the text);  src = "cfg": as a YAML/JSON value.
ConvBase(t, v, src) ==
  CASE t = "int"     -> IF v.k = "int"  THEN v ELSE Bad
    [] t = "bool"    -> IF v.k = "bool" THEN v ELSE Bad
    [] t = "listint" -> IF v.k = "list" THEN v ELSE Bad
    [] t = "unionis" -> IF v.k = "int" THEN v                                   \* Union[int, str]: int is tried first; a str of digits is loaded and IS an int
                        ELSE IF v.k = "str" THEN (IF v.s \in DOMAIN DigitStrs THEN VInt(DigitStrs[v.s]) ELSE v)
                        ELSE IF src = "argv" /\ v.k \in {"bool", "null", "list", "dict", "tup"} THEN VStr(Text(v)) ELSE Bad
    [] t = "dictint" -> IF v.k = "dict" THEN v ELSE Bad
    [] t = "tupis"   -> IF v.k = "tup"  THEN v ELSE Bad
    [] t = "enum"    -> IF v.k = "str" /\ v.s \in EnumMembers THEN VEnum(v.s) ELSE Bad
    [] t = "str"     -> IF src = "argv" THEN (IF v.k \in {"str", "int", "bool", "null", "list", "dict", "tup"} THEN VStr(Text(v)) ELSE Bad)
                        ELSE (IF v.k = "str" THEN v ELSE Bad)
    \* round 4: parameters WITHOUT a type hint under auto_cli(fail_untyped=False), _signatures.py:348-351,362-363: the hint becomes
    \* Any -- Union[type(default), Any] when there is a default --, every value is kept as it was loaded (type "opt_any": also
    \* None; without default the parameter is NOT required and defaults to None, like an Optional one)
    [] t = "any"     -> IF v.k \in {"str", "int", "bool", "list", "dict"} THEN v ELSE Bad
    \* round 4: a parameter whose hint is the class Base, given as a class_path / init_args spec of Base or of its subclass Sub
    \* (parsing keeps the checked spec; auto_cli instantiates it before the call, _cli.py:99,115)
    [] t = "obj"     -> IF v.k = "spec" /\ v.c \in {"Base", "Sub"} THEN v ELSE Bad
    [] OTHER         -> Bad
Conv(t, v, src) == IF IsOpt(t) THEN (IF v.k = "null" THEN VNull ELSE ConvBase(Unopt(t), v, src)) ELSE ConvBase(t, v, src)

(***************************************************************************)
(* Generic helpers                                                         *)
(***************************************************************************)
IsPrefixSeq(p, q) == Len(p) <= Len(q) /\ SubSeq(q, 1, Len(p)) = p
FrontSeq(s) == SubSeq(s, 1, Len(s) - 1)
Put(f, key, val) == [x \in (DOMAIN f) \cup {key} |-> IF x = key THEN val ELSE f[x]]
DelKeys(f, S) == [x \in (DOMAIN f) \ S |-> f[x]]
EmptyFn == [x \in {} |-> NoVal]
BadCfg == [x \in {<<"?bad">>} |-> Bad]        \* a failed config application (comparable with a cfg function)
SeqToSet(s) == {s[i] : i \in 1..Len(s)}
Underscore(n) == Len(n) > 0 /\ SubSeq(n, 1, 1) = "_"

(***************************************************************************)
(* The component as a tree of levels.  A level is a sequence of names (the *)
(* chain of sub-commands that leads to it).                                *)
(*   "fn"     a function leaf           "cls"    a class leaf              *)
(*   "method" a method of a class leaf  "group"  an inner node of a dict   *)
(***************************************************************************)
LeafIdx(cs, lvl) == {i \in 1..Len(cs.leaves) : cs.leaves[i].path = lvl}
IsLeaf(cs, lvl)  == LeafIdx(cs, lvl) # {}
LeafOf(cs, lvl)  == cs.leaves[CHOOSE i \in LeafIdx(cs, lvl) : TRUE].c
IsGroup(cs, lvl) == \E i \in 1..Len(cs.leaves) : IsPrefixSeq(lvl, cs.leaves[i].path) /\ Len(cs.leaves[i].path) > Len(lvl)
IsMethod(cs, lvl) == /\ Len(lvl) > 0 /\ IsLeaf(cs, FrontSeq(lvl)) /\ LeafOf(cs, FrontSeq(lvl)).k = "cls"
                     /\ \E j \in 1..Len(LeafOf(cs, FrontSeq(lvl)).methods) : LeafOf(cs, FrontSeq(lvl)).methods[j].name = lvl[Len(lvl)]
MethodOf(cs, lvl) == LET ms == LeafOf(cs, FrontSeq(lvl)).methods IN ms[CHOOSE j \in 1..Len(ms) : ms[j].name = lvl[Len(lvl)]]
LvlKind(cs, lvl) == IF IsLeaf(cs, lvl) THEN LeafOf(cs, lvl).k
                    ELSE IF IsMethod(cs, lvl) THEN "method"
                    ELSE IF IsGroup(cs, lvl) THEN "group" ELSE "none"
LvlParams(cs, lvl) == CASE LvlKind(cs, lvl) \in {"fn", "cls"} -> LeafOf(cs, lvl).params
                        [] LvlKind(cs, lvl) = "method"       -> MethodOf(cs, lvl).params
                        [] OTHER                             -> << >>
\* sub-command names of a level, in the order of the parser's choices
RECURSIVE Dedup(_)
Dedup(s) == IF s = << >> THEN << >> ELSE LET r == Dedup(FrontSeq(s)) IN IF s[Len(s)] \in SeqToSet(r) THEN r ELSE Append(r, s[Len(s)])
LvlSubSeq(cs, lvl) ==
  CASE LvlKind(cs, lvl) = "cls"   -> [j \in 1..Len(LeafOf(cs, lvl).methods) |-> LeafOf(cs, lvl).methods[j].name]     \* _cli.py:173-175,183
    [] LvlKind(cs, lvl) = "group" -> LET below == SelectSeq(cs.leaves, LAMBDA lf : IsPrefixSeq(lvl, lf.path) /\ Len(lf.path) > Len(lvl))
                                     IN Dedup([j \in 1..Len(below) |-> below[j].path[Len(lvl) + 1]])             \* _cli.py:145
    [] OTHER                      -> << >>
LvlSubs(cs, lvl) == SeqToSet(LvlSubSeq(cs, lvl))
CallName(cs, lvl) == CASE LvlKind(cs, lvl) = "fn"     -> LeafOf(cs, lvl).name
                       [] LvlKind(cs, lvl) = "cls"    -> LeafOf(cs, lvl).name \o ".__init__"
                       [] LvlKind(cs, lvl) = "method" -> LeafOf(cs, FrontSeq(lvl)).name \o "." \o lvl[Len(lvl)]
                       [] OTHER                       -> "?"

(***************************************************************************)
(* Round 4: optional attributes of a case / callable (absent = the old     *)
(* universe).  A callable x (function leaf, class leaf = its __init__,     *)
(* method record) may carry                                                *)
(*   rz  "" | "boom" | "typeerr" | "keyerr": after logging its arguments   *)
(*       the callable raises an exception of that class                    *)
(*   rk  "tok" | "none" | "zero" | "empty" | "false": what it returns      *)
(*       (a token naming it, None, 0, [], False)                           *)
(*   co  TRUE: it is a coroutine function (async def)                      *)
(* A case may carry                                                        *)
(*   sd  auto_cli(set_defaults=...): sequence of [lvl, n, v] (dotted key)  *)
(*   envon / env   default_env=True / the environment (see below)          *)
(***************************************************************************)
Rz(x) == IF "rz" \in DOMAIN x THEN x.rz ELSE ""
Rk(x) == IF "rk" \in DOMAIN x THEN x.rk ELSE "tok"
CallableOf(cs, lvl) == IF LvlKind(cs, lvl) = "method" THEN MethodOf(cs, lvl) ELSE LeafOf(cs, lvl)
RetTok(cs, lvl) == LET x == CallableOf(cs, lvl) IN
                   CASE Rk(x) = "none" -> "None" [] Rk(x) = "zero" -> "int:0" [] Rk(x) = "empty" -> "list:[]"
                     [] Rk(x) = "false" -> "bool:False" [] OTHER -> "ret:" \o CallName(cs, lvl)
ExcTok(cs, lvl) == "exc:" \o Rz(CallableOf(cs, lvl)) \o ":" \o CallName(cs, lvl)
\* the environment: default_env=True passed through auto_cli's parser kwargs (envon) and the variables that are set:
\*   [k |-> "evar", lvl, n, v]   <PREFIX>_<LVL..>__<N> = text of v      (parameter n of level lvl)
\*   [k |-> "esel", lvl, v]      <PREFIX>_<LVL..>__SUBCOMMAND = v.s     (selects a sub-command of level lvl)
\*   [k |-> "ecfg", lvl, m]      <PREFIX>_CONFIG = json of m            (lvl = << >>; m like the map of a --config token)
CsEnvOn(c) == IF "envon" \in DOMAIN c THEN c.envon ELSE FALSE
CsEnv(c) == IF "env" \in DOMAIN c THEN c.env ELSE << >>
EnvIdx(c, kind, lvl) == {i \in 1..Len(CsEnv(c)) : CsEnv(c)[i].k = kind /\ CsEnv(c)[i].lvl = lvl}
CsSd(c) == IF "sd" \in DOMAIN c THEN c.sd ELSE << >>
SdIdx(c, lvl, n) == {i \in 1..Len(CsSd(c)) : CsSd(c)[i].lvl = lvl /\ CsSd(c)[i].n = n}
HasSd(c, lvl, n) == SdIdx(c, lvl, n) # {}
SdVal(c, lvl, n) == CsSd(c)[CHOOSE i \in SdIdx(c, lvl, n) : \A j \in SdIdx(c, lvl, n) : j <= i].v

(***************************************************************************)
(* Python's own call semantics: what the callee sees when called with the  *)
(* keyword arguments kw (missing ones take the signature default).         *)
(***************************************************************************)
ParamNames(ps) == {ps[i].n : i \in 1..Len(ps)}
ParamOf(ps, n) == ps[CHOOSE i \in 1..Len(ps) : ps[i].n = n]
PyCallOK(ps, kw) == /\ DOMAIN kw \subseteq ParamNames(ps)
                    /\ \A i \in 1..Len(ps) : ps[i].hd \/ ps[i].n \in DOMAIN kw
PyBind(ps, kw) == [n \in ParamNames(ps) |-> IF n \in DOMAIN kw THEN kw[n] ELSE ParamOf(ps, n).d]
Call(name, bound) == [name |-> name, kw |-> bound]
Outcome(out, calls, ret) == [out |-> out, calls |-> calls, ret |-> ret]
Reject == Outcome("reject", << >>, "")

(***************************************************************************)
(* Ref layer: the property                                                 *)
(***************************************************************************)
\* Parameters without default are required -- except Optional ones, which become options defaulting to None.
RefRequired(p)  == ~p.hd /\ ~IsOpt(p.t)
RefDefault(p)   == IF p.hd THEN p.d ELSE VNull
\* parameters that are not offered on the command line (private with default): the callee's own default applies
RefHidden(p)    == ~RefRequired(p) /\ Underscore(p.n)
\* a default of None makes the parameter accept None besides its declared type
RefType(p)      == IF ~RefRequired(p) /\ RefDefault(p) = VNull /\ ~IsOpt(p.t) THEN Opt(p.t) ELSE p.t
RefReqSeq(cs, lvl) == SelectSeq(LvlParams(cs, lvl), RefRequired)                \* in signature order
\* required parameters are positionals (as_positional) in signature order, everything else is an option
RefPosSeq(cs, lvl) == IF cs.aspos THEN RefReqSeq(cs, lvl) ELSE << >>
RefIsOption(cs, lvl, n) == /\ n \in ParamNames(LvlParams(cs, lvl)) /\ ~RefHidden(ParamOf(LvlParams(cs, lvl), n))
                           /\ ~(cs.aspos /\ RefRequired(ParamOf(LvlParams(cs, lvl), n)))
RefIsSetting(cs, lvl, n) == n \in ParamNames(LvlParams(cs, lvl)) /\ ~RefHidden(ParamOf(LvlParams(cs, lvl), n))
\* a level offers --config unless it has nothing to configure
RefNonHidden(ps) == \E i \in 1..Len(ps) : ~RefHidden(ps[i])
RefHasConfig(cs, lvl) ==
  CASE lvl = << >>                   -> TRUE
    [] LvlKind(cs, lvl) = "group"    -> TRUE
    [] LvlKind(cs, lvl) = "fn"       -> RefNonHidden(LvlParams(cs, lvl))
    [] LvlKind(cs, lvl) = "method"   -> RefNonHidden(LvlParams(cs, lvl)) /\ "config" \notin ParamNames(LvlParams(cs, lvl))
    [] LvlKind(cs, lvl) = "cls"      -> \/ RefNonHidden(LvlParams(cs, lvl))
                                        \/ \E j \in 1..Len(LeafOf(cs, lvl).methods) : RefNonHidden(LeafOf(cs, lvl).methods[j].params)
    [] OTHER                         -> FALSE

\* the settings of a config map as a sequence of assignments [lvl, n, v, src |-> "cfg"]; unknown keys become "bad" markers
Asg(lvl, n, v, src) == [lvl |-> lvl, n |-> n, v |-> v, src |-> src, o |-> FALSE]      \* o: written as an option --n=...
RECURSIVE RefCfgAsg(_, _, _), RefCfgAsgI(_, _, _, _, _)
RefCfgAsgI(cs, lvl, m, ks, i) ==
  IF i > Len(ks) THEN << >>
  ELSE LET n == ks[i]
           one == IF m[n].k = "map"
                  THEN (IF n \in LvlSubs(cs, lvl) THEN RefCfgAsg(cs, lvl \o <<n>>, m[n].m) ELSE <<Asg(lvl, n, Bad, "bad")>>)
                  ELSE IF n = "subcommand" /\ LvlSubs(cs, lvl) # {}                          \* the selection written inside the config
                  THEN (IF m[n].k = "str" /\ m[n].s \in LvlSubs(cs, lvl) THEN <<Asg(lvl, "subcommand", m[n], "selc")>> ELSE <<Asg(lvl, n, Bad, "bad")>>)
                  ELSE (IF RefIsSetting(cs, lvl, n) THEN <<Asg(lvl, n, m[n], "cfg")>> ELSE <<Asg(lvl, n, Bad, "bad")>>)
       IN one \o RefCfgAsgI(cs, lvl, m, ks, i + 1)
RefCfgAsg(cs, lvl, m) == RefCfgAsgI(cs, lvl, m, SetToSeq(DOMAIN m), 1)

\* left-to-right reading of the command line.  np = positional words seen at this level.
RECURSIVE RefScan(_, _, _, _, _)
RefScan(cs, toks, lvl, np, acc) ==
  IF toks = << >> THEN acc
  ELSE LET tk == Head(toks)
           ps == RefPosSeq(cs, lvl)
       IN CASE tk.k = "pos" ->
                 IF np < Len(ps) THEN RefScan(cs, Tail(toks), lvl, np + 1, Append(acc, Asg(lvl, ps[np + 1].n, tk.v, "argv")))
                 ELSE IF tk.v.k = "str" /\ tk.v.s \in LvlSubs(cs, lvl)
                      THEN RefScan(cs, Tail(toks), lvl \o <<tk.v.s>>, 0, Append(acc, Asg(lvl, "subcommand", tk.v, "sel")))
                      ELSE Append(acc, Asg(lvl, "?", Bad, "bad"))                                        \* a word nobody takes
            [] tk.k = "opt" ->
                 IF RefIsOption(cs, lvl, tk.n) THEN RefScan(cs, Tail(toks), lvl, np, Append(acc, [Asg(lvl, tk.n, tk.v, "argv") EXCEPT !.o = TRUE]))
                 ELSE Append(acc, Asg(lvl, tk.n, Bad, "bad"))                                            \* unknown option
            [] tk.k = "cfg" ->
                 IF RefHasConfig(cs, lvl) THEN RefScan(cs, Tail(toks), lvl, np, acc \o RefCfgAsg(cs, lvl, tk.m))
                 ELSE Append(acc, Asg(lvl, "config", Bad, "bad"))
\* The environment (when default_env is on) reads as assignments of the lowest priority, before the command line: the
\* config variable first, then the variables of the parameters.  Variables that name nothing the component offers are
\* ignored (the environment is ambient), a <..>SUBCOMMAND variable is a selection that any later selection overrides.
RECURSIVE RefEnvAsgsI(_, _, _)
RefEnvAsgsI(cs, i, pass) ==
  IF i > Len(CsEnv(cs)) THEN << >>
  ELSE LET e == CsEnv(cs)[i]
           one == IF LvlKind(cs, e.lvl) = "none" THEN << >>
                  ELSE IF pass = 1 /\ e.k = "ecfg" THEN (IF RefHasConfig(cs, e.lvl) THEN RefCfgAsg(cs, e.lvl, e.m) ELSE << >>)
                  ELSE IF pass = 2 /\ e.k = "esel" THEN (IF e.v.k = "str" /\ e.v.s \in LvlSubs(cs, e.lvl) THEN <<Asg(e.lvl, "subcommand", e.v, "sele")>> ELSE << >>)
                  ELSE IF pass = 2 /\ e.k = "evar" THEN (IF RefIsSetting(cs, e.lvl, e.n) THEN <<Asg(e.lvl, e.n, e.v, "env")>> ELSE << >>)
                  ELSE << >>
       IN one \o RefEnvAsgsI(cs, i + 1, pass)
RefEnvAsgs(cs) == IF CsEnvOn(cs) THEN RefEnvAsgsI(cs, 1, 1) \o RefEnvAsgsI(cs, 1, 2) ELSE << >>
RefAsgs(cs) == RefScan(cs, cs.argv, << >>, 0, RefEnvAsgs(cs))
\* Which of the two wins when the config variable holds a SECTION for a sub-command and a variable of that sub-command gives
\* the same parameter is not pinned (at the root level the parameter's variable wins, as documented for --config vs option
\* order): second reading = the sections of the config variable after the variables.
RefHasEcfg(cs) == CsEnvOn(cs) /\ \E i \in 1..Len(CsEnv(cs)) : CsEnv(cs)[i].k = "ecfg"
RefEnvAsgs2(cs) == LET ec == RefEnvAsgsI(cs, 1, 1) IN
                   SelectSeq(ec, LAMBDA a : a.lvl = << >>) \o RefEnvAsgsI(cs, 1, 2) \o SelectSeq(ec, LAMBDA a : a.lvl # << >>)
RefAsgs2(cs) == RefScan(cs, cs.argv, << >>, 0, RefEnvAsgs2(cs))

\* the selected chain of levels: an explicit sub-command word, else the sub-command that has settings
RefHasSettings(as, lvl) == \E i \in 1..Len(as) : as[i].src \in {"cfg", "selc"} /\ IsPrefixSeq(lvl, as[i].lvl)
RECURSIVE RefSelect(_, _, _)
RefSelect(cs, as, lvl) ==       \* the set of possible selected levels below lvl (a level that still has sub-commands = dead end)
  IF LvlSubs(cs, lvl) = {} THEN {lvl}
  ELSE LET sels == {j \in 1..Len(as) : as[j].src \in {"sel", "selc", "sele"} /\ as[j].lvl = lvl}
           expl == {as[i].v.s : i \in {j \in sels : \A j2 \in sels : j2 <= j}}          \* the last selection wins
           impl == {s \in LvlSubs(cs, lvl) : RefHasSettings(as, lvl \o <<s>>)}
           cand == IF expl # {} THEN expl ELSE impl
       IN IF cand = {} THEN {lvl}                  \* no sub-command selected below lvl: this chain ends in a rejection
          ELSE UNION {RefSelect(cs, as, lvl \o <<s>>) : s \in cand}

RefGiven(as, lvl, n) == {i \in 1..Len(as) : as[i].lvl = lvl /\ as[i].n = n /\ as[i].src \in {"argv", "cfg", "env"}}
SrcConv(src) == IF src = "env" THEN "argv" ELSE src          \* a value from the environment is text, like one on the command line
RefLast(as, lvl, n)  == as[CHOOSE i \in RefGiven(as, lvl, n) : \A j \in RefGiven(as, lvl, n) : j <= i]
\* every parameter is bound to the converted last given value, or else to the signature default
RefBinding(cs, as, lvl, p) ==
  IF RefGiven(as, lvl, p.n) # {} THEN Inst(Conv(RefType(p), RefLast(as, lvl, p.n).v, SrcConv(RefLast(as, lvl, p.n).src)))    \* (a class spec: the instance)
  ELSE IF HasSd(cs, lvl, p.n) THEN SdVal(cs, lvl, p.n)          \* set_defaults "override the component's defaults"
  ELSE RefDefault(p)
RefKw(cs, as, lvl) == LET ps == LvlParams(cs, lvl) IN [n \in ParamNames(ps) |-> RefBinding(cs, as, lvl, ParamOf(ps, n))]
\* levels whose parameters take part in the call of the leaf level sel (a method call also needs its class)
RefCallLevels(cs, sel) == IF LvlKind(cs, sel) = "method" THEN <<FrontSeq(sel), sel>> ELSE <<sel>>
RefEnvIllTyped(cs, a) == Conv(RefType(ParamOf(LvlParams(cs, a.lvl), a.n)), a.v, "argv") = Bad
RefValid(cs, as, sel) ==
  /\ \A i \in 1..Len(as) : as[i].src # "bad"
  /\ \A i \in 1..Len(as) : as[i].src \in {"argv", "cfg"} => Conv(RefType(ParamOf(LvlParams(cs, as[i].lvl), as[i].n)), as[i].v, as[i].src) # Bad
  /\ \A i \in 1..Len(as) : (as[i].src = "env" /\ IsPrefixSeq(as[i].lvl, sel)) => ~RefEnvIllTyped(cs, as[i])      \* the environment of the levels that run
  /\ LvlKind(cs, sel) \in {"fn", "method"}
  /\ \A k \in 1..Len(RefCallLevels(cs, sel)) : LET lvl == RefCallLevels(cs, sel)[k] ps == LvlParams(cs, lvl) IN
        \A j \in 1..Len(ps) : RefRequired(ps[j]) => (RefGiven(as, lvl, ps[j].n) # {} \/ HasSd(cs, lvl, ps[j].n))
\* the outcomes the property allows (a set: which of several configured sub-commands runs is not pinned; whether an
\* ill-typed environment variable of a sub-command that does not run is reported is not pinned either)
RefOutcomeFor(cs, as, sel) ==
  IF ~RefValid(cs, as, sel) THEN Reject
  ELSE LET lv == RefCallLevels(cs, sel)
           cl == [k \in 1..Len(lv) |-> Call(CallName(cs, lv[k]), RefKw(cs, as, lv[k]))]
       IN \* an exception raised by the component propagates unchanged; nothing is called after it
          IF Len(lv) = 2 /\ Rz(LeafOf(cs, lv[1])) # "" THEN Outcome("raise", <<cl[1]>>, ExcTok(cs, lv[1]))
          ELSE IF Rz(CallableOf(cs, sel)) # "" THEN Outcome("raise", cl, ExcTok(cs, sel))
          ELSE Outcome("ok", cl, RetTok(cs, sel))
RefOutcomesAs(cs, as) ==
                   LET sels == RefSelect(cs, as, << >>)
                   IN IF \E i \in 1..Len(as) : as[i].src = "bad" THEN {Reject}
                      ELSE IF sels = {} THEN {Reject}
                      ELSE {RefOutcomeFor(cs, as, s) : s \in sels}
                           \cup (IF \E i \in 1..Len(as) : as[i].src = "env" /\ RefEnvIllTyped(cs, as[i]) THEN {Reject} ELSE {})
RefOutcomes(cs) == IF RefHasEcfg(cs) THEN RefOutcomesAs(cs, RefAsgs(cs)) \cup RefOutcomesAs(cs, RefAsgs2(cs)) ELSE RefOutcomesAs(cs, RefAsgs(cs))

(***************************************************************************)
(* Alg layer: shape of the parser derived from the signatures              *)
(* SignatureArguments._add_signature_parameter, _signatures.py:322-442     *)
(***************************************************************************)
\* recorded deviation "union-default-digits": the default goes through the type like a given value (ActionTypeHint
\* normalises / get_defaults checks it), so the signature default "5" of a Union[int, str] parameter becomes the int 5
AlgDefault(p)  == IF p.hd THEN (IF p.t = "unionis" /\ p.d.k = "str" THEN Conv("unionis", p.d, "cfg") ELSE p.d)
                  ELSE IF IsOpt(p.t) THEN VNull ELSE NoVal                                  \* :340-346  is_optional -> None
AlgRequired(p) == AlgDefault(p) = NoVal                                                     \* :347
AlgSkipped(p)  == ~AlgRequired(p) /\ Underscore(p.n)                                        \* :359
AlgType(p)     == IF ~AlgRequired(p) /\ AlgDefault(p) = VNull /\ ~IsOpt(p.t) THEN Opt(p.t) ELSE p.t   \* :370-373
Action(p, aspos) == [dest |-> p.n, pos |-> AlgRequired(p) /\ aspos,                         \* :379 positional iff required and as_positional
                     req |-> AlgRequired(p), dflt |-> AlgDefault(p), t |-> AlgType(p)]      \* :371,375
Actions(cs, lvl) == LET ps == SelectSeq(LvlParams(cs, lvl), LAMBDA p : ~AlgSkipped(p))      \* :307-318 in signature order
                    IN [i \in 1..Len(ps) |-> IF HasSd(cs, lvl, ps[i].n)                                \* _core.py:213 set_defaults: action.default = default
                                             THEN [Action(ps[i], cs.aspos) EXCEPT !.dflt = SdVal(cs, lvl, ps[i].n)]   \*   (required stays as it was)
                                             ELSE Action(ps[i], cs.aspos)]
Positionals(cs, lvl) == SelectSeq(Actions(cs, lvl), LAMBDA a : a.pos)
HasAction(cs, lvl, n) == \E i \in 1..Len(Actions(cs, lvl)) : Actions(cs, lvl)[i].dest = n
ActionOf(cs, lvl, n) == Actions(cs, lvl)[CHOOSE i \in 1..Len(Actions(cs, lvl)) : Actions(cs, lvl)[i].dest = n]
\* --config: auto_cli:91 (root), _add_subcommands:150,156-157 (removed when the component added no arguments),
\* _add_component_to_parser:188-193 (methods; not added when the method has a parameter called config)
AlgAdded(cs, lvl) == Len(Actions(cs, lvl))
AlgHasConfig(cs, lvl) ==
  CASE lvl = << >>                 -> TRUE
    [] LvlKind(cs, lvl) = "group"  -> TRUE
    [] LvlKind(cs, lvl) = "fn"     -> AlgAdded(cs, lvl) > 0
    [] LvlKind(cs, lvl) = "cls"    -> AlgAdded(cs, lvl) > 0 \/ \E s \in LvlSubs(cs, lvl) : AlgAdded(cs, lvl \o <<s>>) > 0
    [] LvlKind(cs, lvl) = "method" -> AlgAdded(cs, lvl) > 0 /\ ~HasAction(cs, lvl, "config")
    [] OTHER                       -> FALSE

\* The option strings a parser knows (argparse's _option_string_actions): --name per option, --name+ for list types
\* (ActionTypeHint.prepare_add_argument, _typehints.py:286-287), --config / --print_config (the strings stay registered
\* even where remove_actions took the actions away), --help, --print_shtab (shtab is installed here).
\* argparse classifies EVERY argument of the command line in EVERY enclosing parser before the sub-command gets its share
\* (argparse._parse_known_args -> _parse_optional -> _get_option_tuples): an option of a sub-command that is not an option
\* of an enclosing parser but a proper prefix of two or more of its option strings is an "ambiguous option" there.
IsListType(t) == t \in {"listint", "opt_listint"}
OptStrings(cs, l) == {"--help", "--config", "--print_config", "--print_shtab"}
                     \cup {"--" \o Actions(cs, l)[i].dest : i \in {j \in 1..Len(Actions(cs, l)) : ~Actions(cs, l)[j].pos}}
                     \cup {"--" \o Actions(cs, l)[i].dest \o "+" : i \in {j \in 1..Len(Actions(cs, l)) : ~Actions(cs, l)[j].pos /\ IsListType(Actions(cs, l)[j].t)}}
                     \cup {"--" \o Actions(cs, l)[i].dest \o ".help" : i \in {j \in 1..Len(Actions(cs, l)) : ~Actions(cs, l)[j].pos /\ Actions(cs, l)[j].t \in {"obj", "opt_obj"}}}   \* class-typed: --name.help (_typehints.py, subclass help action)
IsProperPrefix(p, o) == Len(p) < Len(o) /\ SubSeq(o, 1, Len(p)) = p
AlgAmbiguous(cs, l, n) == \E k \in 0..(Len(l) - 1) : LET up == SubSeq(l, 1, k) IN
                            /\ ("--" \o n) \notin OptStrings(cs, up)
                            /\ Cardinality({o \in OptStrings(cs, up) : IsProperPrefix("--" \o n, o)}) >= 2

AmbiguousSubOptionIn(c) == LET as == RefAsgs(c) IN \E i \in 1..Len(as) : as[i].o /\ AlgAmbiguous(c, as[i].lvl, as[i].n)

\* cfg: the parsed namespace, flattened: a function from keys (level \o <<name>>) to values
CfgHas(cfg, key) == key \in DOMAIN cfg
RECURSIVE AlgFillDefaults(_, _, _, _)
AlgFillDefaults(cs, lvl, cfg, i) ==      \* get_defaults:1008-1015 / handle_subcommands:787-792 (explicit settings win)
  IF i > Len(Actions(cs, lvl)) THEN cfg
  ELSE LET a == Actions(cs, lvl)[i] IN
       AlgFillDefaults(cs, lvl, IF a.dflt = NoVal \/ CfgHas(cfg, lvl \o <<a.dest>>) THEN cfg ELSE Put(cfg, lvl \o <<a.dest>>, a.dflt), i + 1)

\* ActionConfigFile.apply_config -> _apply_actions, _core.py:1330-1379: every key of the file is looked up
\* (sub-command sections recursively), the value checked against the action
RECURSIVE AlgApplyCfg(_, _, _, _), AlgApplyCfgI(_, _, _, _, _, _)
AlgApplyCfgI(cs, lvl, m, acc, ks, i) ==
  IF i > Len(ks) \/ acc = BadCfg THEN acc
  ELSE LET n == ks[i]
           nxt == IF m[n].k = "map"
                  THEN (IF n \in LvlSubs(cs, lvl) THEN AlgApplyCfg(cs, lvl \o <<n>>, m[n].m, acc) ELSE BadCfg)
                  ELSE IF n = "subcommand" /\ LvlSubs(cs, lvl) # {}       \* dest of the sub-commands action: kept as it is (:1357-1365)
                  THEN (IF m[n].k = "str" /\ m[n].s \in LvlSubs(cs, lvl) THEN Put(acc, lvl \o <<"subcommand">>, m[n]) ELSE BadCfg)
                  ELSE IF HasAction(cs, lvl, n)
                       THEN LET val == Conv(ActionOf(cs, lvl, n).t, m[n], "cfg") IN IF val = Bad THEN BadCfg ELSE Put(acc, lvl \o <<n>>, val)
                       ELSE BadCfg                                                       \* NSKeyError at validation
       IN AlgApplyCfgI(cs, lvl, m, nxt, ks, i + 1)
AlgApplyCfg(cs, lvl, m, cfg) == AlgApplyCfgI(cs, lvl, m, cfg, SetToSeq(DOMAIN m), 1)

\* ArgumentParser._load_env_vars, _core.py:531-559 (level l): the config variable is applied first (:534-537), then a
\* <..>SUBCOMMAND variable that names a choice selects it and the sub-parser's parse_env result (its defaults under its
\* own environment, recursively) is stored below it (:538-546), then every other action's variable is checked against the
\* action (:547-557; positionals have a variable too).  A failed check is a parse error.  parse_env (:561-602) = defaults
\* under the environment; the handle_subcommands call inside it finds nothing that the SUBCOMMAND variable did not select
\* (the instance keeps sections out of the config variable).
Overlay(under, over) == [x \in (DOMAIN under) \cup (DOMAIN over) |-> IF x \in DOMAIN over THEN over[x] ELSE under[x]]
\* :545-546  for k, v in vars(pcfg).items(): cfg[subcommand + "." + k] = v   -- every top-level key of the sub-parser's result
\* REPLACES what the config variable put there (a nested section as a whole).  Since pcfg holds the sub-parser's DEFAULTS,
\* settings of the selected sub-command that came from the config variable are lost: recorded deviation EnvConfigSectionLost.
OverlayTop(under, over, base) ==
  LET tops == {SubSeq(q, 1, Len(base) + 1) : q \in DOMAIN over}
      kept == {q \in DOMAIN under : ~\E t \in tops : IsPrefixSeq(t, q)}
  IN [x \in kept \cup (DOMAIN over) |-> IF x \in DOMAIN over THEN over[x] ELSE under[x]]
\* (the sub-parser's result also holds None for every required argument that has no value: get_defaults stores action.default)
RECURSIVE AlgReqNone(_, _, _, _)
AlgReqNone(c, l, acc, i) == IF i > Len(Actions(c, l)) THEN acc
                            ELSE LET a == Actions(c, l)[i] IN
                                 AlgReqNone(c, l, IF a.dflt = NoVal /\ ~CfgHas(acc, l \o <<a.dest>>) THEN Put(acc, l \o <<a.dest>>, VNull) ELSE acc, i + 1)
AlgEnvSel(c, l) == LET ix == EnvIdx(c, "esel", l) IN
                   IF ix = {} THEN "" ELSE LET e == CsEnv(c)[CHOOSE i \in ix : TRUE] IN IF e.v.k = "str" /\ e.v.s \in LvlSubs(c, l) THEN e.v.s ELSE ""
RECURSIVE AlgLoadEnv(_, _), AlgParseEnv(_, _), AlgEnvVars(_, _, _, _)
AlgEnvVars(c, l, acc, i) ==
  IF acc = BadCfg \/ i > Len(Actions(c, l)) THEN acc
  ELSE LET a == Actions(c, l)[i]
           ix == {j \in EnvIdx(c, "evar", l) : CsEnv(c)[j].n = a.dest}
       IN IF ix = {} THEN AlgEnvVars(c, l, acc, i + 1)
          ELSE LET val == Conv(a.t, CsEnv(c)[CHOOSE j \in ix : TRUE].v, "argv") IN
               AlgEnvVars(c, l, IF val = Bad THEN BadCfg ELSE Put(acc, l \o <<a.dest>>, val), i + 1)
AlgLoadEnv(c, l) ==
  LET cx == EnvIdx(c, "ecfg", l)
      c1 == IF cx = {} \/ ~AlgHasConfig(c, l) THEN EmptyFn
            ELSE LET r == AlgApplyCfg(c, l, CsEnv(c)[CHOOSE i \in cx : TRUE].m, EmptyFn) IN IF r = BadCfg THEN BadCfg ELSE Put(r, l \o <<"config">>, VStr("<config>"))
      sel == AlgEnvSel(c, l)
      c2 == IF c1 = BadCfg \/ sel = "" THEN c1
            ELSE LET sub == AlgParseEnv(c, l \o <<sel>>) IN IF sub = BadCfg THEN BadCfg ELSE OverlayTop(Put(c1, l \o <<"subcommand">>, VStr(sel)), AlgReqNone(c, l \o <<sel>>, sub, 1), l \o <<sel>>)
  IN AlgEnvVars(c, l, c2, 1)
AlgParseEnv(c, l) == LET e == AlgLoadEnv(c, l) IN IF e = BadCfg THEN BadCfg ELSE AlgFillDefaults(c, l, e, 1)

(***************************************************************************)
(* Alg layer: the state machine                                            *)
(***************************************************************************)
VARIABLES cs,      \* the case (chosen in Init, constant afterwards)
          pc,      \* stage
          toks,    \* argv still to be consumed
          lvl,     \* the parser that is consuming argv / the level being processed
          npos,    \* positionals consumed by that parser
          cfg,     \* parsed namespace (flattened)
          calls,   \* log of calls made into the component
          ret,     \* value returned by auto_cli
          meth,    \* _run_component's local `subcommand` (the popped method name)
          mcfg,    \* _run_component's local `subcommand_cfg`
          out      \* "run" | "ok" | "reject" | "crash"
vars == <<cs, pc, toks, lvl, npos, cfg, calls, ret, meth, mcfg, out>>

\* a failure remembers in `ret` the stage (and token kind) it happened at (masked in AlgOutcome; used for coverage counts)
Fail(kind) == /\ out' = kind /\ pc' = "done" /\ ret' = "at:" \o pc \o (IF pc = "argv" THEN ":" \o Head(toks).k ELSE "")
              /\ UNCHANGED <<cs, toks, lvl, npos, cfg, calls, meth, mcfg>>

InitCase(c) == /\ cs = c /\ pc = "defaults" /\ toks = c.argv /\ lvl = << >> /\ npos = 0
               /\ cfg = EmptyFn /\ calls = << >> /\ ret = "" /\ meth = "" /\ mcfg = EmptyFn /\ out = "run"

\* parse_args:450  cfg = get_defaults()
\* (the root parser classifies the whole command line first: an ambiguous option anywhere fails before anything is consumed)
ADefaults == /\ pc = "defaults"
             /\ IF AmbiguousSubOptionIn(cs) THEN Fail("reject")
                ELSE IF CsEnvOn(cs) /\ AlgLoadEnv(cs, << >>) = BadCfg THEN Fail("reject")      \* _parse_defaults_and_environ:405-410
                ELSE /\ cfg' = AlgFillDefaults(cs, << >>, IF CsEnvOn(cs) THEN AlgLoadEnv(cs, << >>) ELSE cfg, 1)      \* merge_config(cfg_env, defaults)
                     /\ pc' = "argv"
                     /\ UNCHANGED <<cs, toks, lvl, npos, calls, ret, meth, mcfg, out>>

\* argparse consumes a bare word: the next positional of the current parser, else the sub-command action
\* (_ActionSubCommands.__call__ hands the rest of argv to the sub-parser, _actions.py:661-690)
APositional == /\ pc = "argv" /\ toks # << >> /\ Head(toks).k = "pos"
               /\ LET tk == Head(toks) ps == Positionals(cs, lvl) IN
                    IF npos < Len(ps)
                    THEN LET val == Conv(ps[npos + 1].t, tk.v, "argv") IN
                         IF val = Bad THEN Fail("reject")
                         ELSE /\ cfg' = Put(cfg, lvl \o <<ps[npos + 1].dest>>, val) /\ npos' = npos + 1 /\ toks' = Tail(toks)
                              /\ UNCHANGED <<cs, pc, lvl, calls, ret, meth, mcfg, out>>
                    ELSE IF tk.v.k = "str" /\ tk.v.s \in LvlSubs(cs, lvl) /\ tk.v.s = "config" /\ AlgHasConfig(cs, lvl) /\ CfgHas(cfg, lvl \o <<"config">>)
                    THEN Fail("reject")     \* recorded deviation "sub-named-config": namespace["config"] is the --config option's value (None / a list), not a section; since the repair 7c4a568 _subcommand_settings reports a LIST there (a --config was given before at this level) as a parse error and takes None (no --config given) for "no settings": then the component IS selected (before the repair: AttributeError from .clone() in both cases, out = "crash")
                    ELSE IF tk.v.k = "str" /\ tk.v.s \in LvlSubs(cs, lvl)
                    THEN /\ cfg' = Put(cfg, lvl \o <<"subcommand">>, tk.v)
                         /\ lvl' = lvl \o <<tk.v.s>> /\ npos' = 0 /\ toks' = Tail(toks)
                         /\ UNCHANGED <<cs, pc, calls, ret, meth, mcfg, out>>
                    ELSE Fail("reject")                                  \* invalid choice / unrecognized arguments (parse_args:457-458)

\* ActionTypeHint.__call__ for --name=value (_typehints.py:521-552); required positionals have no option string
AOption == /\ pc = "argv" /\ toks # << >> /\ Head(toks).k = "opt"
           /\ LET tk == Head(toks) IN
                IF AlgAmbiguous(cs, lvl, tk.n) THEN Fail("reject")        \* "ambiguous option" raised by an enclosing parser
                ELSE IF HasAction(cs, lvl, tk.n) /\ ~ActionOf(cs, lvl, tk.n).pos
                THEN LET val == Conv(ActionOf(cs, lvl, tk.n).t, tk.v, "argv") IN
                     IF val = Bad THEN Fail("reject")
                     ELSE /\ cfg' = Put(cfg, lvl \o <<tk.n>>, val) /\ toks' = Tail(toks)
                          /\ UNCHANGED <<cs, pc, lvl, npos, calls, ret, meth, mcfg, out>>
                ELSE Fail("reject")

\* ActionConfigFile.__call__ / apply_config (_actions.py:196-228): load, check, merge over what was parsed so far
AConfig == /\ pc = "argv" /\ toks # << >> /\ Head(toks).k = "cfg"
           /\ IF ~AlgHasConfig(cs, lvl) THEN Fail("reject")
              ELSE LET c2 == AlgApplyCfg(cs, lvl, Head(toks).m, cfg) IN
                   IF c2 = BadCfg THEN Fail("reject")
                   ELSE /\ cfg' = Put(c2, lvl \o <<"config">>, VStr("<config>")) /\ toks' = Tail(toks)
                        /\ UNCHANGED <<cs, pc, lvl, npos, calls, ret, meth, mcfg, out>>

AEndArgv == /\ pc = "argv" /\ toks = << >>
            /\ pc' = "subcommands" /\ lvl' = << >>
            /\ UNCHANGED <<cs, toks, npos, cfg, calls, ret, meth, mcfg, out>>

\* _ActionSubCommands.get_subcommands / handle_subcommands (_actions.py:692-798), one level per step: the explicit
\* sub-command, else the first choice that has settings; the sections of the other choices are removed; the
\* sub-parser's defaults are merged under the explicit settings
HasSection(c, l) == \E key \in DOMAIN c : IsPrefixSeq(l, key) /\ Len(key) > Len(l)
ASubcommands ==
  /\ pc = "subcommands"
  /\ IF LvlSubs(cs, lvl) = {} THEN /\ pc' = "validate" /\ UNCHANGED <<cs, toks, lvl, npos, cfg, calls, ret, meth, mcfg, out>>
     ELSE LET subs == LvlSubSeq(cs, lvl)
              withs == SelectSeq(subs, LAMBDA s : HasSection(cfg, lvl \o <<s>>))
              sel == IF CfgHas(cfg, lvl \o <<"subcommand">>) THEN cfg[lvl \o <<"subcommand">>].s
                     ELSE IF Len(withs) > 0 THEN withs[1] ELSE ""
          IN IF sel = "" THEN Fail("reject")                              \* :732-743 required sub-command not provided
             ELSE IF sel = "config" /\ AlgHasConfig(cs, lvl) /\ CfgHas(cfg, lvl \o <<"config">>) THEN Fail("reject")  \* deviation "sub-named-config": cfg["config"] is the option's list of paths, not a section (:792); a parse error since 7c4a568 (before: "crash")
             ELSE LET others == {key \in DOMAIN cfg : \E s \in LvlSubs(cs, lvl) \ {sel} : IsPrefixSeq(lvl \o <<s>>, key) /\ Len(key) > Len(lvl)}
                      c1 == Put(DelKeys(cfg, others), lvl \o <<"subcommand">>, VStr(sel))
                  IN \* :795-804 subparser.parse_env() (env) / get_defaults(), merged UNDER the explicit settings
                     \* (a sub-parser entered through its name on the command line did the same when it started, _core.py:454)
                     IF CsEnvOn(cs) /\ AlgParseEnv(cs, lvl \o <<sel>>) = BadCfg THEN Fail("reject")
                     ELSE /\ cfg' = (IF CsEnvOn(cs) THEN Overlay(AlgParseEnv(cs, lvl \o <<sel>>), c1) ELSE AlgFillDefaults(cs, lvl \o <<sel>>, c1, 1))
                          /\ lvl' = lvl \o <<sel>>
                          /\ UNCHANGED <<cs, pc, toks, npos, calls, ret, meth, mcfg, out>>

\* validate -> check_required (_core.py:1097-1109) along the selected chain; lvl is the selected leaf level here
RECURSIVE AlgRequiredOK(_, _, _, _)
AlgRequiredOK(c, case, l, k) ==      \* levels << >>, l[1..1], ..., l
  LET cur == SubSeq(l, 1, k)
      ok == \A i \in 1..Len(Actions(case, cur)) : LET a == Actions(case, cur)[i] IN
               a.req => (CfgHas(c, cur \o <<a.dest>>) /\ c[cur \o <<a.dest>>] # VNull)
  IN ok /\ (k = Len(l) \/ AlgRequiredOK(c, case, l, k + 1))
AValidate == /\ pc = "validate"
             /\ IF AlgRequiredOK(cfg, cs, lvl, 0) THEN /\ pc' = "locate" /\ UNCHANGED <<cs, toks, lvl, npos, cfg, calls, ret, meth, mcfg, out>>
                ELSE Fail("reject")

\* auto_cli:93-102 (single component) and :116-125 (walk init[...]."subcommand" while the dotted name is a component)
RECURSIVE AlgLocate(_, _, _)
AlgLocate(case, c, p) ==
  IF CfgHas(c, p \o <<"subcommand">>) /\ (IsLeaf(case, p \o <<c[p \o <<"subcommand">>].s>>) \/ IsGroup(case, p \o <<c[p \o <<"subcommand">>].s>>))
  THEN AlgLocate(case, c, p \o <<c[p \o <<"subcommand">>].s>>) ELSE p
ALocate == /\ pc = "locate"
           /\ lvl' = IF IsLeaf(cs, << >>) THEN << >> ELSE AlgLocate(cs, cfg, << >>)
           /\ cfg' = [key \in DOMAIN cfg |-> Inst(cfg[key])]           \* auto_cli:99,115  init = parser.instantiate_classes(cfg)
           /\ pc' = "pop"
           /\ UNCHANGED <<cs, toks, npos, calls, ret, meth, mcfg, out>>

\* the keyword arguments a level's namespace holds: its direct keys (a nested section counts as one key)
LevelKw(c, l) == LET below == {q \in DOMAIN c : Len(q) > Len(l) /\ IsPrefixSeq(l, q)}
                     names == {q[Len(l) + 1] : q \in below}
                 IN [n \in names |-> IF (l \o <<n>>) \in DOMAIN c THEN c[l \o <<n>>] ELSE [k |-> "section"]]
Section(c, l) == {q \in DOMAIN c : Len(q) > Len(l) /\ IsPrefixSeq(l, q)}

\* _run_component:203-204  cfg.pop("config"); subcommand = cfg.pop("subcommand")
\*                :206-207 subcommand_cfg = cfg.pop(subcommand, {}); subcommand_cfg.pop("config")   (class with a method)
APop == /\ pc = "pop"
        /\ IF ~IsLeaf(cs, lvl) THEN Fail("crash")
           ELSE LET sub == IF CfgHas(cfg, lvl \o <<"subcommand">>) THEN cfg[lvl \o <<"subcommand">>].s ELSE ""
                    \* pop removes the key WITH everything below it: for a class whose selected method is itself called
                    \* config, that is the method's whole section (deviation "sub-named-config", reachable since 7c4a568)
                    c1 == DelKeys(cfg, {q \in DOMAIN cfg : IsPrefixSeq(lvl \o <<"config">>, q)} \cup {lvl \o <<"subcommand">>})
                IN IF LvlKind(cs, lvl) = "cls" /\ sub # ""
                   THEN /\ mcfg' = DelKeys(LevelKw(c1, lvl \o <<sub>>), {"config"})
                        /\ cfg' = DelKeys(c1, Section(c1, lvl \o <<sub>>))
                        /\ pc' = "construct" /\ meth' = sub
                        /\ UNCHANGED <<cs, toks, lvl, npos, calls, ret, out>>
                   ELSE /\ cfg' = c1 /\ pc' = "call"
                        /\ UNCHANGED <<cs, toks, lvl, npos, calls, ret, meth, mcfg, out>>

\* :208 component_obj = component(**cfg)        (the method's section was popped, so only the class's own keys remain)
AConstruct == /\ pc = "construct"
              /\ LET kw == LevelKw(cfg, lvl) ps == LvlParams(cs, lvl) IN
                   IF ~PyCallOK(ps, kw) THEN Fail("crash")
                   ELSE IF Rz(LeafOf(cs, lvl)) # ""                    \* the constructor raises: nothing catches it, the method is never looked up
                   THEN /\ calls' = Append(calls, Call(CallName(cs, lvl), PyBind(ps, kw)))
                        /\ out' = "raise" /\ ret' = ExcTok(cs, lvl) /\ pc' = "done"
                        /\ UNCHANGED <<cs, toks, lvl, npos, cfg, meth, mcfg>>
                   ELSE /\ calls' = Append(calls, Call(CallName(cs, lvl), PyBind(ps, kw)))
                        /\ lvl' = lvl \o <<meth>> /\ pc' = "call"       \* :211-212 component = getattr(obj, subcommand); cfg = subcommand_cfg
                        /\ UNCHANGED <<cs, toks, npos, cfg, ret, meth, mcfg, out>>

\* :213-215 return component(**cfg)   (asyncio.run(component(**cfg)) for a coroutine function: the same result)
ACall == /\ pc = "call"
         /\ LET kw == IF meth # "" THEN mcfg ELSE LevelKw(cfg, lvl)
                ps == LvlParams(cs, lvl) IN
              IF LvlKind(cs, lvl) \notin {"fn", "method"} \/ ~PyCallOK(ps, kw) THEN Fail("crash")
              ELSE /\ calls' = Append(calls, Call(CallName(cs, lvl), PyBind(ps, kw)))
                   /\ ret' = IF Rz(CallableOf(cs, lvl)) # "" THEN ExcTok(cs, lvl) ELSE RetTok(cs, lvl)
                   /\ out' = (IF Rz(CallableOf(cs, lvl)) # "" THEN "raise" ELSE "ok") /\ pc' = "done"
                   /\ UNCHANGED <<cs, toks, lvl, npos, cfg, meth, mcfg>>

Next == ADefaults \/ APositional \/ AOption \/ AConfig \/ AEndArgv \/ ASubcommands \/ AValidate \/ ALocate \/ APop \/ AConstruct \/ ACall

AlgOutcome == Outcome(out, IF out \in {"ok", "raise"} THEN calls ELSE << >>, IF out \in {"ok", "raise"} THEN ret ELSE "")

(***************************************************************************)
(* The recorded deviation (finding "private-optional-no-default"): a       *)
(* parameter whose name starts with "_", typed Optional and WITHOUT        *)
(* default is "not required" for _add_signature_parameter (:343-347) and   *)
(* therefore skipped (:359) -- but Python still requires it, so the call   *)
(* raises TypeError.  The property wants None to be passed.                *)
(***************************************************************************)
PrivOptNoDefault(p) == ~p.hd /\ IsOpt(p.t) /\ Underscore(p.n)
AllLevels == UNION {{SubSeq(cs.leaves[i].path, 1, k) : k \in 0..Len(cs.leaves[i].path)} : i \in 1..Len(cs.leaves)}
             \cup UNION {{cs.leaves[i].path \o <<cs.leaves[i].c.methods[j].name>> : j \in 1..Len(cs.leaves[i].c.methods)} : i \in 1..Len(cs.leaves)}
HiddenButRequiredByPython == \E l \in AllLevels : \E i \in 1..Len(LvlParams(cs, l)) : PrivOptNoDefault(LvlParams(cs, l)[i])

(***************************************************************************)
(* The second recorded deviation (finding "abbrev-ambiguity"): an option   *)
(* of a sub-command (function of a list / dict, method of a class) whose   *)
(* name is a proper prefix of two option strings of an enclosing parser    *)
(* (--p: --print_config, --print_shtab;  --f: --flag, --flag+ of a List    *)
(* parameter of the class) is rejected as ambiguous although the           *)
(* sub-command has exactly that option.                                    *)
(***************************************************************************)
\* Three more recorded deviations (findings "method-parameter-named-config", "sub-named-config", "union-default-digits"):
\*  - a METHOD parameter called config is offered as --config of the method (no config file option there, _cli.py:188) but
\*    _run_component pops the key "config" from the method's namespace (:207): the value is dropped (TypeError if required);
\*  - a component / method that is itself called config cannot be selected (AttributeError, see APositional);
\*  - the signature default "5" of a Union[int, str] parameter reaches the callee as 5 (see AlgDefault).
MethodParameterNamedConfig == \E l \in AllLevels : LvlKind(cs, l) = "method" /\ "config" \in ParamNames(LvlParams(cs, l))
SubNamedConfigSelected == LET as == RefAsgs(cs) IN \E i \in 1..Len(as) : as[i].src \in {"sel", "selc"} /\ as[i].v.s = "config" /\ AlgHasConfig(cs, as[i].lvl)
UnionDefaultDigits == \E l \in AllLevels : \E i \in 1..Len(LvlParams(cs, l)) :
                         LET p == LvlParams(cs, l)[i] IN p.hd /\ p.t = "unionis" /\ p.d.k = "str" /\ p.d.s \in DOMAIN DigitStrs
AmbiguousSubOption == AmbiguousSubOptionIn(cs)
\* round 4, finding "env-config-section:lost-with-subcommand-variable": the config environment variable holds a section for a
\* sub-command and the SUBCOMMAND environment variable selects that sub-command: _load_env_vars (:545-546) overwrites the
\* section with the sub-parser's defaults (see OverlayTop); without the SUBCOMMAND variable the section's values arrive.
EnvConfigSectionLost == CsEnvOn(cs) /\ \E i \in EnvIdx(cs, "ecfg", << >>) :
                          LET m == CsEnv(cs)[i].m s == AlgEnvSel(cs, << >>) IN s # "" /\ s \in DOMAIN m /\ m[s].k = "map"
Deviation == HiddenButRequiredByPython \/ AmbiguousSubOption \/ MethodParameterNamedConfig \/ SubNamedConfigSelected \/ UnionDefaultDigits \/ EnvConfigSectionLost

(***************************************************************************)
(* Invariants (checked by MC_Cli on every state of the bounded instance)   *)
(***************************************************************************)
Done == pc = "done"
\* C12, design level: the algorithm produces an outcome the property allows (outside the recorded deviations)
AlgRefinesRef == (Done /\ ~Deviation) => AlgOutcome \in RefOutcomes(cs)
\* the clauses of the property, on the outcome
OneCall == (Done /\ out \in {"ok", "raise"}) =>
             \/ Len(calls) = 1 /\ LvlKind(cs, lvl) = "fn"
             \/ Len(calls) = 2 /\ LvlKind(cs, lvl) = "method" /\ calls[1].name = CallName(cs, FrontSeq(lvl))
             \/ out = "raise" /\ Len(calls) = 1 /\ LvlKind(cs, lvl) = "cls" /\ Rz(LeafOf(cs, lvl)) # ""     \* the constructor raised
OwnParameters == (Done /\ out \in {"ok", "raise"}) =>
             /\ DOMAIN calls[Len(calls)].kw = ParamNames(LvlParams(cs, lvl))
             /\ Len(calls) = 2 => DOMAIN calls[1].kw = ParamNames(LvlParams(cs, FrontSeq(lvl)))
ReturnPassedThrough == /\ (Done /\ out = "ok") => (ret = RetTok(cs, lvl) /\ Rz(CallableOf(cs, lvl)) = "")
                       /\ (Done /\ out = "raise") => (ret = "exc:" \o Rz(CallableOf(cs, lvl)) \o ":" \o calls[Len(calls)].name /\ Rz(CallableOf(cs, lvl)) # "")
NeverCrashes == out = "crash" => (HiddenButRequiredByPython \/ MethodParameterNamedConfig \/ SubNamedConfigSelected)
\* the clauses of the property, on the derived parser shape (every level of the component; once per case)
ShapeLaws == pc = "defaults" => \A l \in {x \in AllLevels : LvlKind(cs, x) # "none"} : \A i \in 1..Len(LvlParams(cs, l)) :
               LET p == LvlParams(cs, l)[i] IN
                 /\ AlgRequired(p) <=> (~p.hd /\ ~IsOpt(p.t))                               \* required <=> no default (Optional excepted)
                 /\ (~p.hd /\ IsOpt(p.t)) => (AlgDefault(p) = VNull /\ ~Action(p, cs.aspos).pos)   \* Optional without default: option defaulting to None
                 /\ Action(p, cs.aspos).pos <=> (AlgRequired(p) /\ cs.aspos)
                 /\ AlgRequired(p) = RefRequired(p) /\ AlgType(p) = RefType(p) /\ AlgSkipped(p) = RefHidden(p)
                 /\ (~AlgRequired(p) /\ ~UnionDefaultDigits) => AlgDefault(p) = RefDefault(p)
=============================================================================
