------------------------------ MODULE Validate ------------------------------
(***************************************************************************)
(* Unknown keys are never silently ignored; required keys are enforced     *)
(* (property C06).                                                         *)
(*                                                                         *)
(* A parser shape is a function from key paths to nodes [kind, req, of, req_of, ord]: *)
(*   "leaf"  an argument with a scalar value                               *)
(*   "ns"    a mapping node with a fixed set of children: a group of dotted *)
(*           arguments, a dataclass-typed argument, a dataclass field       *)
(*   "dict"  a Dict[str, _] argument: ANY key below it is defined           *)
(*   "list"  a List[dataclass] argument; the item fields live under "#"     *)
(*   "cls"   a class-typed argument {class_path, init_args, dict_kwargs};   *)
(*           the parameters under init_args depend on the class named by    *)
(*           class_path (shape[p].of : class name -> set of parameter paths)*)
(*   "sec"   the section of a sub-command (child of the root)              *)
(* req marks required leaves (for "cls": the argument itself).             *)
(* A configuration is a set of entries [p, v]: key path and a value code    *)
(* ("1", "null", a class name, a sub-command name).                        *)
(*                                                                         *)
(* Ref  Outcome = "err" iff some entry's key is not defined by the parser   *)
(*      or some required key that is in force has no non-null value.        *)
(* Alg  the walk of validate.check_values (_core.py:1111-1143: a key       *)
(*      without action that is not a branch key is an error), the nested    *)
(*      parsers for dataclass / class init_args / list items                *)
(*      (_typehints.py:1031-1050,1372-1452), check_required (:1097-1109)    *)
(*      recursing into the SELECTED sub-command only.                       *)
(***************************************************************************)
EXTENDS Naturals, Sequences, FiniteSets, TLC

IsPrefix(q, p) == Len(q) <= Len(p) /\ \A i \in 1..Len(q) : q[i] = p[i]
Parent(p) == SubSeq(p, 1, Len(p) - 1)
MetaKeys == {"__path__", "__default_config__", "__orig__"}
ValOf(cfg, p) == IF \E e \in cfg : e.p = p THEN (CHOOSE e \in cfg : e.p = p).v ELSE "absent"
HasValue(cfg, p) == ValOf(cfg, p) \notin {"absent", "null"}
\* the chosen sub-command (property C17): the explicit key, else the first section for which settings were given
\* (sections carry their declaration order in the field ord)
SectionGiven(cfg, name) == \E e \in cfg : Len(e.p) >= 1 /\ e.p[1] = name
GivenSections(shape, cfg) == {q \in DOMAIN shape : Len(q) = 1 /\ shape[q].kind = "sec" /\ SectionGiven(cfg, q[1])}
Chosen(shape, cfg) == IF HasValue(cfg, <<"subcommand">>) THEN ValOf(cfg, <<"subcommand">>)
                      ELSE IF GivenSections(shape, cfg) = {} THEN "absent"
                      ELSE (CHOOSE q \in GivenSections(shape, cfg) : \A r \in GivenSections(shape, cfg) : shape[q].ord <= shape[r].ord)[1]

(***************************************************************************)
(* Ref                                                                     *)
(***************************************************************************)
\* Is the key path p defined by the parser?  Walk from the root; q is the longest prefix of p that is a node.
\* the parameters (as relative paths below init_args) of the class named in the class argument at q
\* (init_args without class_path denote the declared class itself, "Base" -- the short form of property C14)
ClassAt(cfg, q) == IF HasValue(cfg, q \o <<"class_path">>) THEN ValOf(cfg, q \o <<"class_path">>) ELSE "Base"
ParamsAt(shape, cfg, q) == LET cls == ClassAt(cfg, q) IN IF cls \in DOMAIN shape[q].of THEN shape[q].of[cls] ELSE {}
RECURSIVE Defined(_, _, _, _)
Defined(shape, cfg, p, i) ==    \* the prefix of length i-1 is a defined container node (or the root)
  IF i > Len(p) THEN TRUE
  ELSE LET q == SubSeq(p, 1, i - 1)
           kind == IF i = 1 THEN "ns" ELSE shape[q].kind
           child == SubSeq(p, 1, i)
           rest == SubSeq(p, i + 1, Len(p))
       IN IF p[i] \in MetaKeys THEN i = Len(p)
          ELSE IF kind = "dict" THEN TRUE                                         \* any key is an item of the dict
          ELSE IF kind = "leaf" THEN FALSE                                        \* nothing lives below a scalar
          ELSE IF kind = "cls" THEN
               (IF p[i] \in {"class_path", "dict_kwargs"} THEN TRUE
                ELSE IF p[i] = "init_args" THEN (i = Len(p) \/ rest \in ParamsAt(shape, cfg, q))
                ELSE FALSE)
          ELSE (child \in DOMAIN shape /\ Defined(shape, cfg, p, i + 1))
IsDefined(shape, cfg, p) == Defined(shape, cfg, p, 1)
Foreign(shape, cfg) == {e \in cfg : ~IsDefined(shape, cfg, e.p)}

\* required keys in force: required leaves outside sections; those of the chosen section; the parameters without
\* default of the class named in a given class argument; item fields of every given list item
ItemGiven(cfg, r) == \E e \in cfg : \E i \in 1..Len(r) : r[i] = "#" /\ IsPrefix(SubSeq(r, 1, i), e.p)
InForce(shape, cfg, r) ==
  /\ shape[r].req
  /\ (shape[<<r[1]>>].kind = "sec" => Chosen(shape, cfg) = r[1])
  /\ ((\E i \in 1..Len(r) : r[i] = "#") => ItemGiven(cfg, r))                 \* fields of a list item are required once the item exists
ClsGiven(cfg, q) == \E e \in cfg : IsPrefix(q, e.p) /\ e.v # "null"
ReqParamsAt(shape, cfg, q) == LET cls == ClassAt(cfg, q) IN IF ~ClsGiven(cfg, q) THEN {} ELSE
                                IF cls \in DOMAIN shape[q].req_of THEN {q \o <<"init_args">> \o par : par \in shape[q].req_of[cls]} ELSE {}
ReqParams(shape, cfg) == UNION {ReqParamsAt(shape, cfg, q) : q \in {x \in DOMAIN shape : shape[x].kind = "cls"}}
Missing(shape, cfg) ==
  {r \in DOMAIN shape : shape[r].kind \in {"leaf", "cls"} /\ InForce(shape, cfg, r) /\
       (IF shape[r].kind = "cls" THEN ~ClsGiven(cfg, r)
        ELSE IF r = <<"subcommand">> THEN Chosen(shape, cfg) = "absent"
        ELSE ~HasValue(cfg, r))}
  \cup {r \in ReqParams(shape, cfg) : ~HasValue(cfg, r)}
Outcome(shape, cfg) == IF Foreign(shape, cfg) # {} \/ Missing(shape, cfg) # {} THEN "err" ELSE "ok"

(***************************************************************************)
(* Alg                                                                     *)
(***************************************************************************)
\* get_subcommands:721-727 + handle_subcommands: the sections of the sub-commands that were NOT chosen are deleted
\* before validation, with whatever they contain.
AfterSelection(shape, cfg) == {e \in cfg : ~(Len(e.p) >= 1 /\ <<e.p[1]>> \in DOMAIN shape /\ shape[<<e.p[1]>>].kind = "sec" /\ e.p[1] # Chosen(shape, cfg))}
\* check_values: _find_action(key) / _is_branch_key(key): a key is fine when it is an action's dest or a PATH prefix
\* ("g" of "g.a") of one; keys below a typed argument are checked by that argument's own (nested) parser
\* A second way for a key to escape validation (finding C06 foreign-key:empty-mapping-dropped): check_values walks
\* cfg.get_sorted_keys(), i.e. the LEAF keys of the namespace; a key whose value is an empty mapping ({} or nested
\* empty mappings) becomes an empty Namespace, which has no leaf and is never looked at.
Visible(cfg) == {e \in cfg : e.v # "emptymap"}
AlgForeign(shape, cfg) == Foreign(shape, Visible(AfterSelection(shape, cfg)))
AlgMissing(shape, cfg) == Missing(shape, Visible(AfterSelection(shape, cfg)))
AlgOutcome(shape, cfg) == IF AlgForeign(shape, cfg) # {} \/ AlgMissing(shape, cfg) # {} THEN "err" ELSE "ok"
\* The same per channel.  get_subcommands:706 takes as candidates the sub-commands whose value in the namespace IS a
\* Namespace, and :722 deletes the extra sections only when there are SEVERAL candidates.  With defaults every
\* sub-command has its namespace of defaults, so the sections that were not chosen always go; with defaults=False
\* (nodef) only the sections the input itself carries are candidates: a lone section of a sub-command that was not
\* chosen stays and is validated (the foreign key in it IS reported).
SectionsGiven(shape, cfg) == {e.p[1] : e \in {x \in cfg : /\ Len(x.p) >= 1 /\ <<x.p[1]>> \in DOMAIN shape /\ shape[<<x.p[1]>>].kind = "sec"
                                                          /\ (Len(x.p) >= 2 \/ x.v = "emptymap")}}
AfterSelectionCh(shape, cfg, nodef) == IF nodef /\ Cardinality(SectionsGiven(shape, cfg)) < 2 THEN cfg ELSE AfterSelection(shape, cfg)
AlgOutcomeCh(shape, cfg, nodef) == LET c == Visible(AfterSelectionCh(shape, cfg, nodef))
                                   IN IF Foreign(shape, c) # {} \/ Missing(shape, c) # {} THEN "err" ELSE "ok"
\* the outcome with the section deviation only (to tell the two findings apart)
AlgOutcomeSel(shape, cfg) == IF Foreign(shape, AfterSelection(shape, cfg)) # {} \/ Missing(shape, AfterSelection(shape, cfg)) # {} THEN "err" ELSE "ok"

\* The named deviation (finding C06 non-chosen-section:foreign-key-dropped): an undefined key inside the section of a
\* sub-command that is not the chosen one disappears with the section and is never reported.
ForeignOnlyInDroppedSection(shape, cfg) == Outcome(shape, cfg) = "err" /\ AlgOutcome(shape, cfg) = "ok"     \* either named deviation
DevKind(shape, cfg) == IF Outcome(shape, cfg) = "err" /\ AlgOutcomeSel(shape, cfg) = "ok" THEN "section"
                       ELSE IF Outcome(shape, cfg) = "err" /\ AlgOutcome(shape, cfg) = "ok" THEN "emptymap" ELSE "none"
=============================================================================
