SPECIFICATION Spec
CONSTANTS
  Tier = "thorough"
  Emit = "all"
  Laws = "all"
INVARIANT InvRefLaws
INVARIANT InvRefPermInvariant
INVARIANT InvAlg
CHECK_DEADLOCK FALSE
