SPECIFICATION Spec
CONSTANTS
  Tier = "thorough"
  Emit = "all"
  Laws = "all"
INVARIANT InvCase
CHECK_DEADLOCK FALSE
