---------------------------- MODULE MC_Channels ----------------------------
(* Bounded instance of Channels.tla: every set of one or two settings over a shape with scalar, Optional, list,   *)
(* dict and nested keys, valid and invalid values, through every channel.                                         *)
EXTENDS Channels, Json, SequencesExt
CONSTANTS MaxSettings, Emit,
          FullPairs     \* TRUE: pairs over all candidates; FALSE: pairs over a reduced candidate set (singles are always complete)

\* "yn" / "g.yn" are yes/no flags (ActionYesNo): booleans like "b", declared differently by the harness
\* "items" and "g.values" are ordinary keys whose NAMES are attributes of the Namespace class (stored under a marked name,
\* _namespace.py:318-331): before fix 737ad47 their values were not normalised on the document channels
Shape == [k \in {"i", "f", "b", "s", "o", "os", "l", "m", "ls", "d", "dl", "g.i", "g.s", "g.h.l", "yn", "g.yn", "items", "g.values", "ds"} |->
  CASE k = "i" -> Ty("scalar", "int", FALSE)   [] k = "f" -> Ty("scalar", "float", FALSE) [] k = "b" -> Ty("scalar", "bool", FALSE)
    [] k = "s" -> Ty("scalar", "str", FALSE)   [] k = "o" -> Ty("scalar", "int", TRUE)    [] k = "os" -> Ty("scalar", "str", TRUE)
    [] k = "l" -> Ty("list", "int", FALSE)     [] k = "m" -> Ty("list", "float", FALSE)   [] k = "ls" -> Ty("list", "str", FALSE)
    [] k = "d" -> Ty("dict", "int", FALSE)     [] k = "dl" -> Ty("dictlist", "int", FALSE)   [] k = "g.i" -> Ty("scalar", "int", FALSE) [] k = "g.s" -> Ty("scalar", "str", FALSE)
    [] k = "g.h.l" -> Ty("list", "int", FALSE) [] k \in {"yn", "g.yn"} -> Ty("scalar", "bool", FALSE)
    [] k = "items" -> Ty("list", "int", FALSE) [] k = "g.values" -> Ty("scalar", "int", FALSE)
    [] k = "ds" -> Ty("dict", "str", FALSE)]        \* a dict of STRINGS: its items are given as --ds.k1=<text> on the command line, and the text may hold an equals sign
KeySeq == <<"i", "f", "b", "s", "o", "os", "l", "m", "ls", "d", "dl", "g.i", "g.s", "g.h.l", "yn", "g.yn", "items", "g.values", "ds">>

List(es) == [c |-> "list", e |-> es]
Dict(es) == [c |-> "dict", e |-> es]
DictList(es) == [c |-> "dictlist", e |-> es]
NonStrings == {Scalar("int", "3"), Scalar("int", "-3"), Scalar("int", "0"), Scalar("float", "2.5"), Scalar("float", "1.0"),
               Scalar("float", "2500.0"), Scalar("float", "1000.0"), Scalar("float", "1e-07"), Scalar("float", "1e+16"),
               Scalar("bool", "true"), Scalar("bool", "false"), Null,
               List(<<El("int", "1", ""), El("int", "2", "")>>), List(<< >>), List(<<El("float", "1.5", "")>>),
               List(<<El("float", "2500.0", ""), El("int", "1", "")>>), List(<<El("bool", "true", "")>>),
               DictList(<<El("int", "1", "k1"), El("int", "2", "k1")>>), DictList(<<El("int", "1", "k1"), El("int", "3", "k2"), El("int", "4", "k2")>>),
               DictList(<<El("int", "1", "k1"), El("float", "1.5", "k1")>>),
               Dict(<<El("int", "1", "k1")>>), Dict(<< >>), Dict(<<El("int", "1", "k1"), El("int", "2", "k2")>>), Dict(<<El("float", "2.5", "k1")>>)}
Texts == {"abc", "", "1", "true", "s p", "1e3", "2.5", "a: b", "#x", "[1]", "{}", "a=b"}
\* strings only where the position is str (the property's "unambiguous" settings); containers of strings also at
\* non-str positions (they are JSON text on every channel)
StrValues(t) ==
  (IF t.c = "scalar" /\ t.st = "str" THEN {Scalar("str", x) : x \in (Texts \cup {"null", "~"}) \ (IF t.opt THEN {x \in Texts \cup {"null", "~"} : ReadsAsNull(x)} ELSE {})} ELSE {})
  \cup (IF t.c = "list" THEN {List(<<El("str", "a", ""), El("str", "1", "")>>)} ELSE {})
  \cup (IF t.c = "dict" THEN {Dict(<<El("str", "x", "k1")>>)} ELSE {})
  \cup (IF t.c = "dict" /\ t.st = "str" THEN {Dict(<<El("str", "a=b", "k1")>>), Dict(<<El("str", "k=v=w", "k1"), El("str", "p:q", "k2")>>)} ELSE {})
\* At a str-typed scalar position EVERY text is a string on the command line (true, [1], null ...), so a non-string
\* value there is ambiguous and outside the property's quantifier: such keys get strings only (and null if Optional).
IsStrScalar(t) == t.c = "scalar" /\ t.st = "str"
Candidates(k) == IF IsStrScalar(Shape[k]) THEN StrValues(Shape[k]) \cup (IF Shape[k].opt THEN {Null} ELSE {})
                 ELSE NonStrings \cup StrValues(Shape[k])

\* reduced candidates for pairs: one accepted value, one rejected value, the null, and a look-alike string where the position is str
Reduced(k) == LET t == Shape[k] IN
  (IF IsStrScalar(t) THEN (IF t.opt THEN {Null} ELSE {}) ELSE {Null, Scalar("bool", "true"), List(<<El("float", "1.5", "")>>)})
  \cup (IF t.c = "scalar" /\ t.st \in {"int", "float"} THEN {Scalar("int", "3")} ELSE {})
  \cup (IF t.c = "scalar" /\ t.st = "str" THEN {Scalar("str", "1"), Scalar("str", "")} ELSE {})
  \cup (IF t.c = "list" THEN {List(<<El("int", "1", ""), El("int", "2", "")>>)} ELSE {})
  \cup (IF t.c = "dict" THEN {Dict(<<El("int", "1", "k1")>>)} ELSE {})
  \cup (IF t.c = "dictlist" THEN {DictList(<<El("int", "1", "k1"), El("int", "2", "k1")>>)} ELSE {})
Cands(k, n) == IF n = 1 \/ FullPairs THEN Candidates(k) ELSE Reduced(k)
Setting(k, v) == [key |-> k, v |-> v]
RECURSIVE SettingsFrom(_, _, _)
SettingsFrom(i, n, tot) == IF n = 0 \/ i > Len(KeySeq) THEN {<< >>}
                      ELSE SettingsFrom(i + 1, n, tot) \cup {<<Setting(KeySeq[i], v)>> \o r : v \in Cands(KeySeq[i], tot), r \in SettingsFrom(i + 1, n - 1, tot)}
AllSettings == {s \in SettingsFrom(1, 1, 1) : Len(s) = 1}
               \cup (IF MaxSettings >= 2 THEN {s \in SettingsFrom(1, 2, 2) : Len(s) = 2} ELSE {})

VARIABLE ss
Init == ss \in AllSettings
Next == UNCHANGED ss
Spec == Init /\ [][Next]_ss

\* C05 at design level: every channel x mode computes the channel-free outcome, except under a named deviation
ChannelIndependent == \A ch \in AllChannels, mode \in AllModes :
                         ~Deviates(ch, mode, Shape, ss) => AlgOutcome(ch, mode, Shape, ss) = Outcome(Shape, ss)
\* accepted results conform: every non-null value has the container and element kinds of its type
ResultConforms == Outcome(Shape, ss).ok =>
                    \A k \in DOMAIN Shape : LET v == Outcome(Shape, ss).cfg[k] IN
                       IsNull(v) \/ ((v.c = Shape[k].c \/ (v.e = << >> /\ v.c = "dict" /\ Shape[k].c = "dictlist")) /\ \A j \in 1..Len(v.e) : v.e[j].k = Shape[k].st)
\* where the algorithm differs from the reference: emitted so that the harness can tell "behaves as the recorded deviation"
Devs == LET S == {<<ch, mode>> \in AllChannels \X AllModes : AlgOutcome(ch, mode, Shape, ss) # Outcome(Shape, ss)}
            q == SetToSeq(S)
        IN [j \in 1..Len(q) |-> [ch |-> q[j][1], mode |-> q[j][2], out |-> AlgOutcome(q[j][1], q[j][2], Shape, ss), why |-> Why(q[j][1], q[j][2], Shape, ss)]]
EmitCase == Emit => PrintT(ToJson([ss |-> ss, ref |-> Outcome(Shape, ss), devs |-> Devs]))
ASSUME Emit => PrintT(ToJson([shape |-> Shape]))
=============================================================================
