SPECIFICATION Spec
CONSTANTS
  MaxClasses = 2
  MaxOwn = 1
  MaxHard = 1
  MaxPop = 1
  PopClasses = 3
  B1 = 2
  B2 = 2
  B3 = 1
  B4 = 0
  B5 = 0
  MaxChain = 1
  FnOwn = 1
  EmitAllUpTo = 0
  Sel = 1000000
  KeepGoing = TRUE
INVARIANT Inv
CHECK_DEADLOCK FALSE
