------------------------------- MODULE GroupsX -------------------------------
(***************************************************************************)
(* Extension of Groups.tla (property C07, round 4): the same ONE node      *)
(* "group g with fields", with                                             *)
(*   - TYPED values: a value is <<typecode, payload...>>, so that the       *)
(*     specification fixes the NORMALISED value AND its type (1.0, not 1;  *)
(*     (1.0, 2.0), not [1, 2]; the Enum member, not its name);              *)
(*   - RAW inputs: an item carries what was WRITTEN (<<rawcode, ...>>);     *)
(*     Norm(kind, raw) is the value the field must hold afterwards, or Bad; *)
(*   - GROUP DEFAULTS: per field gdef \in {"absent", "val", "none"}: the    *)
(*     default given for the whole group (a default INSTANCE of the         *)
(*     dataclass, default={...} of add_class_arguments, set_defaults)       *)
(*     overrides the default the field declares -- None stays None;         *)
(*   - REQUIRED COMPONENTS: kind "sub" (a subclass-typed member without     *)
(*     default) and fields two levels deep (name "h.x");                    *)
(*   - field NAMES are free (values / keys / items / get / update ...).     *)
(* A field is [name, kind, hasdef, gdef].  Kinds: int float str list        *)
(* (List[int]) tuple (Tuple[float, float]) enum oint (Optional[int]) ostr   *)
(* (Optional[str]) sub (class Base or its subclass Sub).                    *)
(* An item is [op, f, raw, gv]: "set" g.f = raw; "group" / "gfile" the      *)
(* whole group as one mapping gv = << <<f, raw>>, ... >> (inline JSON / a   *)
(* file given to --g).  Channels: argv cfg env obj defaults (get_defaults). *)
(***************************************************************************)
EXTENDS Groups

TInt == 1  TFloat == 2  TStr == 3  TList == 4  TTuple == 5  TEnum == 6  TObj == 7
Bad == <<77777>>
\* raw forms: <<21, n>> the number n | <<22, n>> the quoted string "n" | <<23, a, b>> the list [a, b] | <<24, k>> the name of
\* the k-th Enum member | <<25, c>> the class path of class c (1 = Base(w=1), 2 = Sub(w=1, z=2)) | <<26, c, z>> the mapping
\* {class_path: c, init_args: {z: z}} | <<27, n>> the text s<n> | <<28>> the text xx | <<29>> null
Norm(kind, raw) ==
  CASE kind = "int"   /\ raw[1] = 21 -> <<TInt, raw[2]>>
    [] kind = "float" /\ raw[1] = 21 -> <<TFloat, raw[2]>>                         \* 1 given to a float field is 1.0
    [] kind = "str"   /\ raw[1] = 27 -> <<TStr, raw[2]>>
    [] kind = "list"  /\ raw[1] = 23 -> <<TList, raw[2], raw[3]>>
    [] kind = "tuple" /\ raw[1] = 23 -> <<TTuple, raw[2], raw[3]>>                 \* [1, 2] given to Tuple[float, float] is (1.0, 2.0)
    [] kind = "enum"  /\ raw[1] = 24 -> <<TEnum, raw[2]>>                          \* the member, not its name
    [] kind = "oint"  /\ raw[1] \in {21, 22} -> <<TInt, raw[2]>>                   \* "3" given to Optional[int] is 3
    [] kind = "oint"  /\ raw[1] = 29 -> NoneV
    [] kind = "ostr"  /\ raw[1] = 27 -> <<TStr, raw[2]>>
    [] kind = "ostr"  /\ raw[1] = 29 -> NoneV
    [] kind = "sub"   /\ raw[1] = 25 -> <<TObj, raw[2]>>                          \* the class alone: its parameters are decided by Merge
    [] kind = "sub"   /\ raw[1] = 26 /\ raw[2] = 2 -> <<TObj, 2, 1, raw[3]>>
    [] OTHER -> Bad
IsOptional(kind) == kind \in {"oint", "ostr"}
\* the default the FIELD declares (7 of its type); Optional without default: None, never required; otherwise required
Declared(fd) ==
  IF ~fd.hasdef THEN (IF IsOptional(fd.kind) THEN NoneV ELSE Unset)
  ELSE CASE fd.kind \in {"int", "oint"} -> <<TInt, 7>> [] fd.kind = "float" -> <<TFloat, 7>> [] fd.kind \in {"str", "ostr"} -> <<TStr, 7>>
         [] fd.kind = "list" -> <<TList, 7>> [] fd.kind = "tuple" -> <<TTuple, 7, 7>> [] fd.kind = "enum" -> <<TEnum, 1>>
\* the default given for the whole GROUP ("val" = 8 of the field's type)
GVal(kind) == CASE kind \in {"int", "oint"} -> <<TInt, 8>> [] kind = "float" -> <<TFloat, 8>> [] kind \in {"str", "ostr"} -> <<TStr, 8>>
                [] kind = "list" -> <<TList, 8>> [] kind = "tuple" -> <<TTuple, 8, 8>> [] kind = "enum" -> <<TEnum, 2>>
FieldOf(fields, f) == fields[CHOOSE j \in 1..Len(fields) : fields[j].name = f]
Names(fields) == {fields[j].name : j \in 1..Len(fields)}
\* Ref: the group default wins over the declared default, whatever it is -- None included
XInitial(fields) == [f \in Names(fields) |-> LET fd == FieldOf(fields, f) IN
                       CASE fd.gdef = "none" -> NoneV [] fd.gdef = "val" -> GVal(fd.kind) [] OTHER -> Declared(fd)]

\* Giving a class path alone to a subclass-typed member that already holds an instance description of the SAME class keeps the
\* parameters given before (documented: arguments of one class accumulate; _typehints.py:544-574 prev_val, :421-429
\* discard_init_args_on_class_path_change); another class starts from that class's own defaults.
ClassDefaults(c) == IF c = 1 THEN <<TObj, 1, 1>> ELSE <<TObj, 2, 1, 2>>
Merge(old, new) == IF new[1] = TObj /\ Len(new) = 2
                   THEN (IF old[1] = TObj /\ old[2] = new[2] THEN old ELSE ClassDefaults(new[2]))
                   ELSE new
RECURSIVE XSetAll(_, _)
XSetAll(cfg, gv) == IF gv = << >> THEN cfg ELSE XSetAll([cfg EXCEPT ![Head(gv)[1]] = Merge(@, Head(gv)[2])], Tail(gv))
XApply(cfg, it) == IF it.op = "set" THEN [cfg EXCEPT ![it.f] = Merge(@, it.v)] ELSE XSetAll(cfg, it.gv)
RECURSIVE XFold(_, _)
XFold(cfg, nitems) == IF nitems = << >> THEN cfg ELSE XFold(XApply(cfg, Head(nitems)), Tail(nitems))
NormPairs(fields, gv) == [k \in 1..Len(gv) |-> <<gv[k][1], Norm(FieldOf(fields, gv[k][1]).kind, gv[k][2])>>]
\* the items in the vocabulary of Groups.tla: every spelling of "the whole group" is the same assignment of its members
NItem(fields, it) == IF it.op = "set" THEN [op |-> "set", f |-> it.f, v |-> Norm(FieldOf(fields, it.f).kind, it.raw), gv |-> << >>]
                     ELSE [op |-> "group", f |-> it.f, v |-> << >>, gv |-> NormPairs(fields, it.gv)]
NItems(fields, items) == [j \in 1..Len(items) |-> NItem(fields, items[j])]
HasBad(nitems) == \E j \in 1..Len(nitems) : nitems[j].v = Bad \/ \E k \in 1..Len(nitems[j].gv) : nitems[j].gv[k][2] = Bad

\* Ref: one outcome per input.  Rejected iff a value cannot be given to its field, or a field without any default
\* (declared or group) was never given.  get_defaults never rejects; a field without default shows as None.
XOutcome(chan, fields, items) ==
  LET nit == NItems(fields, items)
      final == XFold(XInitial(fields), nit)
  IN IF chan = "defaults" THEN [ok |-> TRUE, cfg |-> [f \in Names(fields) |-> IF XInitial(fields)[f] = Unset THEN NoneV ELSE XInitial(fields)[f]]]
     ELSE IF HasBad(nit) THEN Err
     ELSE IF \E f \in DOMAIN final : final[f] = Unset THEN Err
     ELSE [ok |-> TRUE, cfg |-> final]

(***************************************************************************)
(* Alg: what differs between the styles                                    *)
(***************************************************************************)
IsGroupOp(it) == it.op \in {"group", "gfile"}
\* the whole-group option / variable exists only where there is a group action (see Groups.tla HasGroupAction)
XEffective(style, chan, items) ==
  IF HasGroupAction(style) \/ chan \in {"cfg", "obj", "defaults"} THEN items ELSE SelectSeq(items, LAMBDA it : ~IsGroupOp(it))
\* How the group default reaches the defaults of the parser:
\*  - dataclass type / add_class_arguments with default=<instance or dict>: _signatures.py:117-133 -- the instance is turned
\*    into the mapping of ALL its fields (dataclass_to_dict, :123-124), a dict is taken as it is; every entry, None or not,
\*    becomes set_defaults(g.<k> = v) after the members were added with their declared defaults;
\*  - dotted / inner parser: default= of the argument itself, or set_defaults (_core.py set_defaults) on the (inner / outer) parser.
\* In every style the result is: the given entries replace the declared defaults, the rest keep theirs.
Given(style, fields) == {f \in Names(fields) : FieldOf(fields, f).gdef # "absent"}
AlgInitial(style, fields) == [f \in Names(fields) |-> LET fd == FieldOf(fields, f) IN
                                IF f \in Given(style, fields) THEN (IF fd.gdef = "none" THEN NoneV ELSE GVal(fd.kind)) ELSE Declared(fd)]
\* Required members: whatever declares them (required=True, a parameter / field without default, add_subclass_arguments(required=True),
\* ActionParser moving the inner parser's required set: _actions.py:512-595), the check is the one loop over the parser's
\* required keys in check_required (_core.py) on the final namespace: missing or None => rejected.
XAlgOutcome(style, chan, fields, items) ==
  IF ~HasGroupAction(style) /\ chan = "argv" /\ \E j \in 1..Len(items) : IsGroupOp(items[j]) THEN Err
  ELSE LET nit == NItems(fields, XEffective(style, chan, items))
           final == XFold(AlgInitial(style, fields), nit)
       IN IF chan = "defaults" THEN [ok |-> TRUE, cfg |-> [f \in Names(fields) |-> IF AlgInitial(style, fields)[f] = Unset THEN NoneV ELSE AlgInitial(style, fields)[f]]]
          ELSE IF HasBad(nit) THEN Err
          ELSE IF \E f \in DOMAIN final : final[f] \in {Unset} THEN Err
          ELSE [ok |-> TRUE, cfg |-> final]
\* the named deviation (finding C07 dotted:no-whole-group), here for every spelling of the whole group
XDottedNoWholeGroup(style, chan, items) == style = "dotted" /\ chan \in {"argv", "env"} /\ \E j \in 1..Len(items) : IsGroupOp(items[j])
=============================================================================
