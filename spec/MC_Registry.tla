---------------------------- MODULE MC_Registry ----------------------------
(* Bounded instance of Registry.tla: every sequence of Depth operations of each machine.  The state carries the     *)
(* history, so the state graph is the tree of behaviours; a behaviour is emitted when it is complete.               *)
EXTENDS Registry, Json
CONSTANTS Depth, Emit,
          DepthA,      \* length of the behaviours of machine "alias"
          Aliased      \* FALSE: the transcription of the code; TRUE: the what-if in which a type keeps the caller's list (counterexample cfg)
ASSUME [k |-> "x", v |-> 1] = [k |-> "x", v |-> 1]

\* an operation: [op, c, h, fail, name, spec]  (unused fields "-" / FALSE)
OpReg(c, h, fail) == [op |-> "reg", c |-> c, h |-> h, fail |-> fail, name |-> "-", spec |-> "-"]
OpUse(c, ttag)    == [op |-> "use", c |-> c, h |-> ttag, fail |-> FALSE, name |-> "-", spec |-> "-"]
OpDump(c)         == [op |-> "dump", c |-> c, h |-> "-", fail |-> FALSE, name |-> "-", spec |-> "-"]
OpCreate(nm, sp)  == [op |-> "create", c |-> "-", h |-> "-", fail |-> FALSE, name |-> nm, spec |-> sp]
\* machine "handlers": every registration on class A, one registration on class B (independence), uses of both
HOps == {OpReg("A", h, f) : h \in Handlers, f \in BOOLEAN} \cup {OpReg("B", "hB", TRUE)}
        \cup {OpUse(c, t) : c \in UClasses, t \in UTexts} \cup {OpDump(c) : c \in UClasses}
OpCreateA(nm)     == [op |-> "createa", c |-> "-", h |-> "-", fail |-> FALSE, name |-> nm, spec |-> "-"]
OpMutate(how)     == [op |-> "mutate", c |-> "-", h |-> how, fail |-> FALSE, name |-> "-", spec |-> "-"]
OpProbe(nm)       == [op |-> "probe", c |-> "-", h |-> "-", fail |-> FALSE, name |-> nm, spec |-> "-"]
AOps == {OpCreateA(nm) : nm \in {"N1", "N2"}} \cup {OpMutate(how) : how \in AMutations} \cup {OpProbe(nm) : nm \in {"N1", "N2"}}
COps == {OpCreate(nm, sp) : nm \in {"N1", "N2"}, sp \in CSpecs} \cup {OpCreate("auto", sp) : sp \in {"Nand", "Nor"}}

VARIABLES mach, hist, outs, rreg, ahs, rtypes, akeys, anames, acur
rvars == <<mach, hist, outs, rreg, ahs, rtypes, akeys, anames, acur>>
\* an outcome: [ref, alg, why, sem]   ref / alg: outcome class (Ref may allow two: "raise|new"); sem: acceptance vector (create)
NoSem == <<FALSE, FALSE, FALSE>>
NoSem4 == <<FALSE, FALSE, FALSE, FALSE>>
\* rsem = the acceptance vector Ref demands (create / createa / probe), cont = the content the type stands for (alias)
Out(r, a, w, d, s) == [ref |-> r, alg |-> a, why |-> w, dev |-> d, sem |-> s, rsem |-> NoSem, cont |-> << >>]
OutS(r, a, w, d, s, rs) == [ref |-> r, alg |-> a, why |-> w, dev |-> d, sem |-> s, rsem |-> rs, cont |-> << >>]
OutA(r, a, w, s, rs, ct) == [ref |-> r, alg |-> a, why |-> w, dev |-> "-", sem |-> s, rsem |-> rs, cont |-> ct]

Init == /\ mach \in {"handlers", "create", "alias"} /\ hist = << >> /\ outs = << >> /\ acur = AContent0
        /\ rreg = [c \in UClasses |-> NoHandler] /\ ahs = [c \in UClasses |-> NoObj]
        /\ rtypes = {} /\ akeys = {} /\ anames = {}

StepH(o) ==
  /\ mach = "handlers" /\ o \in HOps
  /\ (o.op \in {"use", "dump"} => rreg[o.c] # NoHandler)             \* a class is used once it is registered
  /\ hist' = Append(hist, o)
  /\ UNCHANGED <<mach, rtypes, akeys, anames, acur>>
  /\ CASE o.op = "reg" ->
            LET r == RefRegister(rreg, o.c, o.h, o.fail)  a == AlgRegister(ahs, o.c, o.h, o.fail) IN
            /\ rreg' = r.reg /\ ahs' = a.hs /\ outs' = Append(outs, Out(r.out, a.out, "-", "-", NoSem))
       [] o.op = "use" ->
            /\ UNCHANGED <<rreg, ahs>>
            /\ outs' = Append(outs, Out(RefUse(rreg, o.c, o.h), AlgDeserWrapper(ahs, o.c, o.h), "-", "-", NoSem))
       [] o.op = "dump" ->
            /\ UNCHANGED <<rreg, ahs>>
            /\ outs' = Append(outs, Out(RefDump(rreg, o.c), AlgSer(ahs, o.c), "-", "-", NoSem))
StepC(o) ==
  /\ mach = "create" /\ o \in COps
  /\ hist' = Append(hist, o)
  /\ UNCHANGED <<mach, rreg, ahs, acur>>
  /\ LET nm == IF o.name = "auto" THEN AutoName(o.spec) ELSE o.name
         R  == RefCreate(rtypes, nm, o.spec)
         a  == AlgCreate(akeys, anames, o.name, o.spec)
     IN /\ akeys' = a.keys /\ anames' = a.names
        /\ rtypes' = IF a.out = "new" THEN rtypes \cup {[name |-> nm, spec |-> o.spec]} ELSE rtypes      \* Ref follows the choice the code made where it allows two
        /\ outs' = Append(outs, OutS(IF R = {"raise", "new"} THEN "raise|new" ELSE CHOOSE x \in R : TRUE, a.out, a.why, a.dev, a.sem, Sem(o.spec)))
\* machine "alias": rtypes holds [name, cont] (Ref), akeys [key, name, cont] (Alg), acur the caller's list
StepA(o) ==
  /\ mach = "alias" /\ o \in AOps
  /\ hist' = Append(hist, o)
  /\ UNCHANGED <<mach, rreg, ahs>>
  /\ CASE o.op = "createa" ->
            /\ acur # << >>                                       \* (the key of the empty list has no per-behaviour reference: not created)
            /\ LET R == RefCreateA(rtypes, o.name, acur)  a == AlgCreateA(akeys, anames, o.name, acur) IN
               /\ akeys' = a.keys /\ anames' = a.names /\ UNCHANGED acur
               /\ rtypes' = IF a.out = "new" THEN rtypes \cup {[name |-> o.name, cont |-> acur]} ELSE rtypes
               /\ outs' = Append(outs, OutA(IF R = {"raise", "new"} THEN "raise|new" ELSE CHOOSE x \in R : TRUE, a.out, a.why, ASem(a.cont), ASem(acur), a.cont))
       [] o.op = "mutate" ->
            /\ AMutEnabled(acur, o.h)
            /\ acur' = AMutate(acur, o.h) /\ UNCHANGED <<rtypes, akeys, anames>>
            /\ outs' = Append(outs, OutA("ok", "ok", "-", NoSem4, NoSem4, AMutate(acur, o.h)))
       [] o.op = "probe" ->
            /\ \E ty \in rtypes : ty.name = o.name
            /\ UNCHANGED <<rtypes, akeys, anames, acur>>
            /\ LET rc == RefProbeA(rtypes, o.name)
                   ac == IF Aliased THEN AliasedProbeA(akeys, o.name, acur) ELSE AlgProbeA(akeys, o.name) IN
               outs' = Append(outs, OutA("probed", "probed", "-", ASem(ac), ASem(rc), ac))
Next == \/ Len(hist) < Depth /\ \E o \in HOps \cup COps : StepH(o) \/ StepC(o)
        \/ Len(hist) < DepthA /\ \E o \in AOps : StepA(o)
Spec == Init /\ [][Next]_rvars

Last == outs[Len(outs)]
LastOp == hist[Len(hist)]
\* ---- invariants
\* handlers: the code's registry is the Ref registry, and every operation has the Ref outcome
HandlersRefine == (mach = "handlers" /\ hist # << >>) =>
     /\ \A c \in UClasses : ahs[c] = IF rreg[c] = NoHandler THEN NoObj ELSE HObj(rreg[c])
     /\ IF LastOp.op = "use" THEN (Last.ref = "value") = (Last.alg = "value") ELSE Last.ref = Last.alg
\* create: outside the named deviation the code's outcome is one the documentation allows, and a returned type has
\* the requested semantics (R1); inside the deviation R1 is violated (the deviation is real in the model)
AllowedByRef(o) == o.alg = o.ref \/ (o.ref = "raise|new" /\ o.alg \in {"raise", "new"})
CreateRefines == (mach = "create" /\ hist # << >>) =>
     IF Last.dev = "-" THEN AllowedByRef(Last) /\ (Last.alg \in {"new", "existing"} => Last.sem = Sem(LastOp.spec))
     ELSE ~AllowedByRef(Last) /\ Last.alg = "existing" /\ Last.sem # Sem(LastOp.spec)
\* the code's key table and the Ref set of types hold the same types
\* alias: whatever was done to the caller's list, a probed type stands for the content it was created from, an "existing"
\* type is the one created from an equal content, and the code's table holds the Ref types
AliasRefines == (mach = "alias" /\ hist # << >>) =>
     /\ (LastOp.op = "probe" => Last.sem = Last.rsem)
     /\ (LastOp.op = "createa" => (AllowedByRef(Last) /\ (Last.alg \in {"new", "existing"} => Last.sem = Last.rsem)))
     /\ {[name |-> e.name, cont |-> e.cont] : e \in akeys} = rtypes
CreateStateAgrees == mach = "create" => {[name |-> e.name, spec |-> e.spec] : e \in akeys} = rtypes
\* the two sets of flags of one pattern text can never both exist (consequence of the key): the model says so
CreateFlagsExclusive == mach = "create" => ~(\E e1 \in akeys, e2 \in akeys : e1.spec = "S1" /\ e2.spec = "S1i")
\* ---- emission of complete behaviours
\* alias behaviours are emitted when they are complete or cannot be extended; only those that probe or create after a mutation are of interest
Complete == IF mach = "alias" THEN Len(hist) = DepthA ELSE Len(hist) = Depth
EmitBehaviour == (Emit /\ Complete) =>
     PrintT(ToJson([mach |-> mach, ops |-> hist, outs |-> outs, want |-> [q \in 1..Len(hist) |-> outs[q].rsem]]))
=============================================================================
