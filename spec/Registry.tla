------------------------------ MODULE Registry ------------------------------
(***************************************************************************)
(* The global type registry of jsonargparse/typing.py as a state machine   *)
(* (property C20, round 4; anchors "registered_type_handlers /             *)
(* registered_types", typing.py:55-57, 60-103, 263-345).                   *)
(*                                                                         *)
(* Machine "handlers": register_type(cls, serializer, deserializer,        *)
(*   fail_already_registered) on user classes, interleaved with uses of    *)
(*   the registered handler (RegisteredType.deserializer directly, a       *)
(*   parser argument of that type, dump).                                  *)
(* Machine "create":  restricted_string_type / restricted_number_type      *)
(*   called repeatedly with names and specifications that collide in the   *)
(*   registry key (registered_types) or in the name.                       *)
(*                                                                         *)
(* Ref* = what the documentation states; Alg* = the code, step by step.    *)
(* MC_Registry enumerates every sequence of Depth operations, checks that  *)
(* Alg refines Ref outside the named deviation and emits every behaviour   *)
(* with the outcomes it expects, for the replay on the real code.          *)
(***************************************************************************)
EXTENDS Restricted

\* ------------------------------------------------------------------ machine "handlers"
\* Three handlers for a user class holding a text payload.  hA and hC share the serializer, hB and hC share the
\* deserializer (RegisteredType.__eq__, typing.py:278-279, compares type_class, serializer AND base_deserializer).
\*   serializer   "a" : value -> "a:" payload          "b" : value -> "b:" payload
\*   deserializer "a" : "a:" payload -> value, otherwise raises ValueError   (one of the deserializer_exceptions)
\*                "b" : "b:" payload -> value, otherwise raises KeyError     (NOT one of them: it escapes the wrapper)
Handlers == {"hA", "hB", "hC"}
NoHandler == "none"
SerTag(h)   == IF h = "hB" THEN "b" ELSE "a"
DeserTag(h) == IF h = "hA" THEN "a" ELSE "b"
DeserRaises(dtag) == IF dtag = "a" THEN "ValueError" ELSE "KeyError"
UClasses == {"A", "B"}
UTexts == {"a", "b"}             \* the tag of the text that is parsed: "a:x" / "b:x"

\* ---- Ref: the registry maps a class to the handler of the last registration that took effect
RefRegister(reg, c, h, fail) ==
  IF reg[c] = NoHandler \/ ~fail THEN [out |-> "ok", reg |-> [reg EXCEPT ![c] = h]]
  ELSE IF reg[c] = h THEN [out |-> "ok", reg |-> reg]                 \* the same registration again: nothing happens
  ELSE [out |-> "raise", reg |-> reg]                                  \* "already registered with different serializer and/or deserializer"
\* using the class: the text is given to the deserializer in force; a value comes back iff the deserializer returns one
RefUse(reg, c, ttag) == IF DeserTag(reg[c]) = ttag THEN "value" ELSE "fail"
RefDump(reg, c) == SerTag(reg[c])

\* ---- Alg: typing.py:304-326.  A handler object = [ser, deser] (the identities of the two functions)
HObj(h) == [ser |-> SerTag(h), deser |-> DeserTag(h)]
NoObj == [ser |-> "-", deser |-> "-"]
AlgRegister(hs, c, h, fail) ==
  LET th == HObj(h) IN                                                                   \* :317
  IF fail /\ hs[c] # NoObj                                                               \* :319  (no uniqueness_key here) get_registered_type(type_class)
  THEN IF th.ser = hs[c].ser /\ th.deser = hs[c].deser THEN [out |-> "ok", hs |-> hs]    \* :320-321  __eq__ :278-279
       ELSE [out |-> "raise", hs |-> hs]                                                 \* :322
  ELSE [out |-> "ok", hs |-> [hs EXCEPT ![c] = th]]                                      \* :323
\* RegisteredType.deserializer :284-291: the listed exceptions become ValueError, anything else escapes as it is
AlgDeserWrapper(hs, c, ttag) ==
  IF hs[c].deser = ttag THEN "value"
  ELSE IF DeserRaises(hs[c].deser) \in DeserExc THEN "ValueError" ELSE DeserRaises(hs[c].deser)
AlgSer(hs, c) == hs[c].ser

\* ------------------------------------------------------------------ machine "create"
\* Specifications that are asked for.  A string specification is a pattern AND its flags (restricted_string_type takes
\* a str or a compiled Pattern); a number specification is base, restrictions and join.
\*   S1  = re.compile("^a+$")      S1i = re.compile("^a+$", re.IGNORECASE)      S2 = "^b+$"
\*   Nand = (int, [(">", 0)], "and")      Nor = (int, [(">", 0)], "or")     (one comparison: the same predicate)
CSpecs == {"S1", "S1i", "S2", "Nand", "Nor"}
CNames == {"N1", "N2", "auto"}                 \* "auto" = name None (numbers only)
P1 == Cat(<<Bol, Plus(Chr({"a"})), Eol>>)
P2 == Cat(<<Bol, Plus(Chr({"b"})), Eol>>)
\* Sem(spec) = what a type of that specification accepts, on three probes (strings: "a" "A" "b"; numbers: 1 0 -1),
\* computed with the operators of Restricted.tla
SProbes == << <<"a">>, <<"A">>, <<"b">> >>
NProbes == <<IntV(1), IntV(0), IntV(0 - 1)>>
TermOf(sp) == CASE sp = "S1" -> P1 [] sp = "S1i" -> NoCase(P1) [] sp = "S2" -> P2
NTypeOf(sp) == NType("int", << <<">", Fin(0, 1)>> >>, IF sp = "Nand" THEN "and" ELSE "or")
IsStrSpec(sp) == sp \in {"S1", "S1i", "S2"}
Sem(sp) == IF IsStrSpec(sp) THEN [q \in 1..3 |-> RefStrAccepts(TermOf(sp), StrV(SProbes[q]))]
           ELSE [q \in 1..3 |-> RefAccepts(NTypeOf(sp), NProbes[q])]

\* ---- Ref.  types = the set of [name, spec] created so far.
\*   R1 (safety)  a call that returns a type returns one that accepts exactly what the requested specification accepts
\*   R2           the same specification under the same name again: the already registered type is returned
\*   R3           a specification that is registered under ANOTHER name: ValueError (documented "Raises")
\*   otherwise    (a new specification) the type is created; the documentation does not say when a creation may be
\*                refused (name taken, automatic names that coincide, ...): raising is allowed, a wrong type is not
RefCreate(types, name, sp) ==
  IF \E ty \in types : ty.spec = sp /\ ty.name = name THEN {"existing"}
  ELSE IF \E ty \in types : ty.spec = sp THEN {"raise"}
  ELSE {"raise", "new"}

\* ---- Alg.  keys = registered_types (key -> [name, spec of the type that was created]); names = globals() of typing.py
KeyOf(sp) == CASE sp \in {"S1", "S1i"} -> "matching ^a+$"        \* typing.py:196, :211  ("matching " + regex.pattern, str): the flags are not part of the key
               [] sp = "S2" -> "matching ^b+$"
               [] sp = "Nand" -> "gt0 int and"                    \* typing.py:141  (tuple(sorted(restrictions)), base_type, join)
               [] sp = "Nor" -> "gt0 int or"
AutoName(sp) == "int_gt0"                                         \* typing.py:146-150: join only appears between comparisons
AlgCreate(keys, names, name0, sp) ==
  LET name == IF name0 = "auto" THEN AutoName(sp) ELSE name0
      key  == KeyOf(sp)
      hit  == {e \in keys : e.key = key}
  IN IF hit # {}                                                                                   \* typing.py:83
     THEN LET e == CHOOSE e \in hit : TRUE IN
          IF e.name # name THEN [out |-> "raise", why |-> "different-name", dev |-> "-", sem |-> Sem(sp), keys |-> keys, names |-> names]    \* :85-86
          ELSE [out |-> "existing", why |-> "-", dev |-> IF e.spec = sp THEN "-" ELSE "string-flags-ignored",      \* :87 returns the registered type
                sem |-> Sem(e.spec), keys |-> keys, names |-> names]
     ELSE IF name \in names THEN [out |-> "raise", why |-> "name-clash", dev |-> "-", sem |-> Sem(sp), keys |-> keys, names |-> names]       \* add_type :349-350
     ELSE [out |-> "new", why |-> "-", dev |-> "-", sem |-> Sem(sp), keys |-> keys \cup {[key |-> key, name |-> name, spec |-> sp]}, names |-> names \cup {name}]

\* ------------------------------------------------------------------ machine "alias" (round 4b)
\* ALIASING between a created type and the ARGUMENTS it was created from.  The caller owns a list `bounds` of
\* restrictions, creates a type from it (restricted_number_type(name, int, bounds)), MUTATES the list afterwards
\* (bounds.append(("<=", r+1)); bounds.clear(); bounds[0] = (">", r)) and possibly creates a second type from it.
\*   content = the current value of the caller's list: a sequence of <<op, offset>> (reference = r + offset)
\*   a type  = [name, cont]: cont is the VALUE of the list at the moment of the creation, never a reference
\* Ref: a type keeps accepting exactly what the content it was created from accepts, whatever happens to the list
\* later, on every channel; its expression text and its registry key keep describing that content (so the same content
\* under the same name is still "the already registered type", and a mutated content is a different specification).
\* Alg: typing.py:141 builds the key as a new tuple (tuple(sorted(restrictions))) and :143 the _restrictions attribute
\* as a new list ([( _operators2[x[0]], x[1]) for x in restrictions]); :144 renders the expression once.  Nothing the
\* class holds is the caller's list.
AContent0 == << <<">=", 0>> >>
AProbes == <<IntV(0 - 1), IntV(0), IntV(1), IntV(2)>>
ANType(cont) == NType("int", [q \in 1..Len(cont) |-> <<cont[q][1], Fin(cont[q][2], 1)>>], "and")
ASem(cont) == [q \in 1..4 |-> RefAccepts(ANType(cont), AProbes[q])]
AKey(cont) == {cont[q] : q \in 1..Len(cont)}                                \* tuple(sorted(...)): the order of the list does not matter
AMutations == {"append", "clear", "set0"}
AMutEnabled(cont, how) == CASE how = "append" -> (Len(cont) < 2 /\ <<"<=", 1>> \notin AKey(cont))
                            [] how = "clear"  -> cont # << >>
                            [] how = "set0"   -> (cont # << >> /\ <<">", 0>> \notin AKey(cont))
AMutate(cont, how) == CASE how = "append" -> Append(cont, <<"<=", 1>>)
                        [] how = "clear"  -> << >>
                        [] how = "set0"   -> [cont EXCEPT ![1] = <<">", 0>>]
\* Ref.  atypes = set of [name, cont]
RefCreateA(atypes, name, cont) ==
  IF \E ty \in atypes : AKey(ty.cont) = AKey(cont) /\ ty.name = name THEN {"existing"}
  ELSE IF \E ty \in atypes : AKey(ty.cont) = AKey(cont) THEN {"raise"}
  ELSE {"raise", "new"}
RefProbeA(atypes, name) == (CHOOSE ty \in atypes : ty.name = name).cont      \* the content the type must still stand for
\* Alg.  akeysA = registered_types restricted to this behaviour: set of [key, name, cont] with cont the list built at :143
AlgCreateA(keysA, namesA, name, cont) ==
  LET key == AKey(cont)                                                                        \* :141 a new tuple
      hit == {e \in keysA : e.key = key}
  IN IF hit # {}
     THEN LET e == CHOOSE e \in hit : TRUE IN
          IF e.name # name THEN [out |-> "raise", why |-> "different-name", cont |-> cont, keys |-> keysA, names |-> namesA]      \* :85-86
          ELSE [out |-> "existing", why |-> "-", cont |-> e.cont, keys |-> keysA, names |-> namesA]                              \* :87
     ELSE IF name \in namesA THEN [out |-> "raise", why |-> "name-clash", cont |-> cont, keys |-> keysA, names |-> namesA]       \* add_type :349-350
     ELSE [out |-> "new", why |-> "-", cont |-> cont,                                                                          \* :143 a new list: the VALUE
           keys |-> keysA \cup {[key |-> key, name |-> name, cont |-> cont]}, names |-> namesA \cup {name}]
AlgProbeA(keysA, name) == (CHOOSE e \in keysA : e.name = name).cont
\* the what-if transcription in which the class keeps the caller's list itself (used by MC_Registry_aliascex.cfg to show
\* that the instance distinguishes the two): the type stands for whatever the list holds NOW
AliasedProbeA(keysA, name, cur) == cur
=============================================================================
