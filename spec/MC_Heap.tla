------------------------------ MODULE MC_Heap ------------------------------
(* Bounded instance of Heap.tla: every container nesting up to Depth over {list, dict, tuple, set, Optional} with int   *)
(* and enum leaves, in three flavours (adapted / raw = still text / bad = a leaf that is rejected after an earlier one   *)
(* was already converted), as the value of a typed key `v` at the top level, inside a nested group `g`, or in the parser   *)
(* of a sub-command of a root parser that has nothing but sub-commands, next to a                                         *)
(* second key `w: Tuple[int, List[int]]` (raw unless the flavour is adapted); the argument is a dict or a Namespace; every public operation.  One state per  *)
(* case.  TLC evaluates the Alg layer on the case, checks the invariants that relate it to the frame property, and       *)
(* prints the case with the verdict of the Alg layer (flagged: an in-place write reaches the caller's objects).          *)
EXTENDS Heap, Json

CONSTANTS Depth, Emit

TInt  == [k |-> "int", a |-> << >>]
TEnum == [k |-> "enum", a |-> << >>]
TC(k, t) == [k |-> k, a |-> <<t>>]
TTup(t)  == [k |-> "tuple", a |-> <<TInt, t>>]
RECURSIVE Hashable(_)
Hashable(t) == t.k \in LeafTypes \/ (t.k = "tuple" /\ \A i \in 1..Len(t.a) : Hashable(t.a[i]))
RECURSIVE Types(_)
Types(d) == IF d = 0 THEN {TInt, TEnum}
            ELSE LET S == Types(d - 1) IN
                 {TInt, TEnum} \cup {TC("list", t) : t \in S} \cup {TC("dict", t) : t \in S} \cup {TTup(t) : t \in S}
                 \cup {TC("set", t) : t \in {x \in S : Hashable(x)}} \cup {TC("opt", t) : t \in {x \in S : x.k \in {"list", "tuple"}}}
\* round 4: Unions other than Optional whose members are containers (a failing member leaves its partial conversion behind),
\* alone, below a tuple (the caller's list is reached through the shared tuple), and - thorough - as element type
TStr == [k |-> "str", a |-> << >>]
TU(t1, t2) == [k |-> "union", a |-> <<t1, t2>>]
U1 == TU(TC("list", TInt), TC("list", TStr))
U2 == TU(TC("list", TStr), TC("list", TInt))
U3 == TU(TInt, TC("list", TInt))
U4 == TU(TC("list", TInt), TC("dict", TInt))
UBase == {U1, U2, U3, U4}
UTypes == IF Depth < 3 THEN {TTup(U1), TTup(U3)}
          ELSE UBase \cup {TTup(u) : u \in UBase} \cup {TC("list", u) : u \in UBase} \cup {TC("dict", u) : u \in UBase} \cup {TTup(TC("list", u)) : u \in UBase}
Flavours == {"adapted", "raw", "bad"}
\* round 4: parse_args_ns = parse_args([], namespace=<the argument>) (thorough instance)
Ops == {"parse_object", "validate", "dump", "instantiate_classes", "merge_config", "strip_unknown", "get_defaults", "save", "format_help", "parse_args"}
       \cup (IF Depth < 3 THEN {} ELSE {"parse_args_ns"})
OnDefaults == {"get_defaults", "format_help", "parse_args"}      \* for these the case's values are the parser's DECLARED DEFAULTS

\* canonical value of type T: -> [h, c, n];  j numbers the leaves so that they differ
LeafVal(T, fl, j) ==
  IF fl = "bad" THEN Sc("x", "str")
  ELSE IF T.k = "int" THEN Sc(ToString(j), IF fl = "raw" THEN "numstr" ELSE "int")
  ELSE IF T.k = "str" THEN (IF fl = "raw" THEN Sc(ToString(j), "numstr") ELSE Sc("s" \o ToString(j), "str"))   \* raw: a text of digits - a str, and convertible to int
  ELSE Sc(IF j % 2 = 1 THEN "RED" ELSE "GREEN", IF fl = "raw" THEN "enumstr" ELSE "enum")
First(fl) == IF fl = "bad" THEN "raw" ELSE fl          \* the element before a bad one is convertible: a partial write becomes visible
RECURSIVE Build(_, _, _, _, _)
Build(T, fl, h, n, j) ==
  IF T.k \in LeafTypes THEN [h |-> h, c |-> LeafVal(T, fl, j), n |-> n]
  ELSE IF T.k = "opt" THEN Build(T.a[1], fl, h, n, j)
  ELSE IF T.k = "union" THEN Build(T.a[2], fl, h, n, j)        \* the canonical value of the LAST member: the first one is tried on it
  ELSE IF T.k = "set" THEN LET e == Build(T.a[1], fl, h, n + 1, j) IN
                           [h |-> Put(e.h, Id(n), Cell("set", <<<<"0", e.c>>>>)), c |-> Rf(Id(n)), n |-> e.n]
  ELSE LET T1 == IF T.k = "tuple" THEN T.a[1] ELSE T.a[1]
           T2 == IF T.k = "tuple" THEN T.a[2] ELSE T.a[1]
           e1 == Build(T1, First(fl), h, n + 1, 2 * j + 1)
           e2 == Build(T2, fl, e1.h, e1.n, 2 * j + 2)
           k1 == IF T.k = "dict" THEN "a" ELSE "0"
           k2 == IF T.k = "dict" THEN "b" ELSE "1"
       IN [h |-> Put(e2.h, Id(n), Cell(T.k, <<<<k1, e1.c>>, <<k2, e2.c>>>>)), c |-> Rf(Id(n)), n |-> e2.n]

TW == TTup(TC("list", TInt))
\* the argument, by placement pl of the typed keys:
\*   "top"  { v: value, w: (1, ['7']) }
\*   "grp"  { g: { v: value }, w: ... }                         v inside a nested group
\*   "sub"  { subcommand: "s", s: { v: value, w: ... } }        a ROOT PARSER THAT HAS ONLY SUB-COMMANDS: every typed key lives in
\*          the parser of sub-command s (the root has no component of its own; instantiate_classes etc. recurse, _core.py:1252-1254)
\* for the operations of OnDefaults the node dest -> declared default { v | g.v: value, w: ... }
Case(T, fl, op, root, pl) ==
  LET bv == Build(T, fl, << >>, 1, 1)
      bw == Build(TW, IF fl = "adapted" THEN "adapted" ELSE "raw", bv.h, bv.n, 3)
      flat == op \in OnDefaults
      inner == IF pl = "sub" THEN <<<<"v", bv.c>>, <<"w", bw.c>>>> ELSE <<<<"v", bv.c>>>>
      nest == pl # "top" /\ ~flat
      hg == IF nest THEN Put(bw.h, Id(bw.n), Cell(root, inner)) ELSE bw.h
      ng == IF nest THEN bw.n + 1 ELSE bw.n
      top == IF flat THEN <<<<IF pl = "grp" THEN "g.v" ELSE "v", bv.c>>, <<"w", bw.c>>>>
             ELSE IF pl = "grp" THEN <<<<"g", Rf(Id(bw.n))>>, <<"w", bw.c>>>>
             ELSE IF pl = "sub" THEN <<<<"subcommand", Sc("s", "str")>>, <<"s", Rf(Id(bw.n))>>>>
             ELSE <<<<"v", bv.c>>, <<"w", bw.c>>>>
      pv == IF flat THEN <<IF pl = "grp" THEN "g.v" ELSE "v">> ELSE IF pl = "grp" THEN <<"g", "v">> ELSE IF pl = "sub" THEN <<"s", "v">> ELSE <<"v">>
      pw == IF pl = "sub" /\ ~flat THEN <<"s", "w">> ELSE <<"w">>
  IN [T |-> T, fl |-> fl, op |-> op, root |-> root, pl |-> pl,
      h |-> Put(hg, Id(ng), Cell(root, top)), arg |-> Rf(Id(ng)), n |-> ng + 1,
      keys |-> <<[p |-> pv, T |-> T, d |-> 1], [p |-> pw, T |-> TW, d |-> 2]>>]

Cases == {Case(T, fl, op, root, pl) : T \in Types(Depth) \cup UTypes, fl \in Flavours, op \in Ops, root \in {"dict", "ns"}, pl \in {"top", "grp", "sub"}}
\* only parse_object takes a dict; a Namespace is what every other operation is given; the declared defaults of a
\* sub-command parser are exercised by the random histories, not here (the copying operations neither)
Legal(c) == (c.root = "ns" \/ c.op = "parse_object")
            /\ (c.pl # "sub" \/ c.op \in {"parse_object", "validate", "dump", "save", "instantiate_classes"})

VARIABLE c
Init == c \in {x \in Cases : Legal(x)}
Next == UNCHANGED c
Spec == Init /\ [][Next]_c

OnD   == c.op \in OnDefaults
Roots == IF OnD THEN [defaults |-> c.arg] ELSE [arg |-> c.arg]
\* the call as data for AlgCall: a parse_args([]) that returns validates every default
X     == [op |-> IF c.op = "parse_args_ns" THEN "parse_args" ELSE c.op, h |-> c.h, roots |-> Roots, arg |-> IF OnD THEN "" ELSE "arg", keys |-> IF OnD THEN << >> ELSE c.keys,
          dkeys |-> IF OnD THEN c.keys ELSE << >>, dactive |-> IF OnD THEN c.keys ELSE << >>, dcf |-> FALSE, sdef |-> FALSE, pser |-> FALSE, returned |-> TRUE]
Run   == AlgCall(X, c.n)
Holds == Frame(c.h, Roots, Run.h, Roots)
--------------------------------------------------------------------------------
\* the operations that work on copies never reach the caller's objects
CopyingOpsFrame == c.op \in {"merge_config", "strip_unknown", "get_defaults", "format_help"} => (Holds /\ Run.ok)
\* validate / dump / instantiate_classes reach the caller's objects only below a tuple (the clone shares tuples)
OnlyBelowTuple == (c.op \in {"validate", "dump", "save", "instantiate_classes", "parse_args", "parse_args_ns"} \/ (CopyOnEntry /\ c.op = "parse_object"))
                  => Touched(c.h, Run.h) \subseteq BelowTuple(c.h)
\* ... and on a configuration whose values are all adapted already (what an earlier parse returned) validate and
\* instantiate_classes change no VALUE; the only thing they can do is replace a set that sits in a list/dict below a
\* tuple by an equal new set (found by TLC at Depth 3: Tuple[int, List[Set[int]]]; confirmed on the real code)
AdaptedIsSafe ==
  ((c.op \in {"validate", "instantiate_classes", "parse_args", "parse_args_ns"} \/ (CopyOnEntry /\ c.op = "parse_object")) /\ c.fl = "adapted") =>
     /\ ValueFrame(c.h, Roots, Run.h, Roots)
     /\ Holds \/ \E id \in BelowTuple(c.h) : c.h[id].t = "set"
\* dump is NOT value-safe even then: serialisation writes the serialised form into a list/dict below a tuple of the
\* caller's configuration - an enum member becomes its name, a tuple or set becomes a list (both confirmed on the real
\* code: (1, [Color.RED]) -> (1, ['RED']), (1, [(2, 3)]) -> (1, [[2, 3]])); nothing else is rewritten
DumpRewritesOnlySerialised ==
  (c.op \in {"dump", "save"} /\ c.fl = "adapted" /\ ~ValueFrame(c.h, Roots, Run.h, Roots)) =>
     \E id \in Touched(c.h, Run.h) \cap BelowTuple(c.h) : \E i \in 1..Len(c.h[id].c) :
        LET e == c.h[id].c[i][2] IN e.y = "enum" \/ (e.k = "r" /\ c.h[e.v].t \in {"tuple", "set"})
\* parse_object of a DICT whose values are already adapted and contain no list/dict writes nothing the caller can see
\* (the conversion to Namespace makes new top-level objects; tuples/sets are rebuilt, not written)
ParseObjectDictShape ==
  (c.op = "parse_object" /\ c.root = "dict" /\ ~Holds) =>
     \E id \in Touched(c.h, Run.h) : c.h[id].t \in {"list", "dict"}
\* recreate_branches: the copy is equal in value, and shares with the original exactly what lies at or below a
\* tuple / set (nothing that is a list, dict or Namespace above every tuple)
CloneLaws ==
  LET cl == Clone(c.h, c.arg, c.n)
      shared == Reach(cl.h, [x |-> cl.c]) \cap DOMAIN c.h
  IN /\ Frame(c.h, Roots, cl.h, Roots)
     /\ \A id \in shared : ~Copied(c.h[id].t) \/ id \in BelowTuple(c.h)
     /\ cl.c # c.arg
\* a call that fails midway leaves its earlier writes behind: exactly the same routes, nothing else
FailureSameRoutes == (~Run.ok /\ c.op # "parse_object") => Touched(c.h, Run.h) \subseteq BelowTuple(c.h)
\* adapting twice changes no value any more (the second pass finds everything adapted; sets may be replaced again)
Idempotent ==
  (c.op = "validate" /\ Run.ok) =>
     LET again == AlgOp("validate", Run.h, c.arg, c.keys, 9000) IN again.ok /\ ValueFrame(Run.h, Roots, again.h, Roots)

EmitCase == Emit => PrintT(ToJson([T |-> c.T, fl |-> c.fl, op |-> c.op, root |-> c.root, pl |-> c.pl, h |-> c.h, arg |-> c.arg,
                                   keys |-> c.keys, flagged |-> ~Holds, value |-> ~ValueFrame(c.h, Roots, Run.h, Roots), ok |-> Run.ok,
                                   touched |-> Cardinality(Touched(c.h, Run.h))]))
=============================================================================
