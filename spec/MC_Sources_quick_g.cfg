SPECIFICATION Spec
CONSTANTS
  Focus = {"g.x", "g.y"}
  NDcf = 2
  MaxArgv = 1
  Repeat = FALSE
  Emit = TRUE
INVARIANT DocumentedOrder
INVARIANT StagesAgree
INVARIANT NoPendingAppend
INVARIANT LastOptWins
INVARIANT EmitCase
CHECK_DEADLOCK FALSE
