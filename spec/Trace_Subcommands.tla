-------------------------- MODULE Trace_Subcommands --------------------------
(* Validation of parses observed on real parsers with sub-commands (code -> spec).  TRACE_FILE: sequence of cases   *)
(*   [nodes, input, obs]:  the tree (list of [path, req, ch]), the abstract input that was rendered into argv /      *)
(*   config / environment, and the observed result [err, levels] (key set and x value at every level).              *)
EXTENDS Subcommands, Json, IOUtils, TLCExt
Cases == JsonDeserialize(IOEnv.TRACE_FILE)
ToSet(q) == {q[j] : j \in 1..Len(q)}
TreeOf(nodes) == [p \in {nodes[j].path : j \in 1..Len(nodes)} |->
                    LET j == CHOOSE j \in 1..Len(nodes) : nodes[j].path = p IN [req |-> nodes[j].req, ch |-> nodes[j].ch]]
SelOf(pairs) == [p \in {pairs[j][1] : j \in 1..Len(pairs)} |-> LET j == CHOOSE j \in 1..Len(pairs) : pairs[j][1] = p IN pairs[j][2]]
InOf(x) == [argv |-> x.argv, aopt |-> ToSet(x.aopt), csel |-> SelOf(x.csel), csec |-> ToSet(x.csec), env |-> x.env,
            esel |-> SelOf(x.esel), eopt |-> ToSet(x.eopt), strict |-> x.strict, dcf |-> x.dcf, icfg |-> ToSet(x.icfg)]
ResOf(o) == [err |-> o.err, levels |-> [j \in 1..Len(o.levels) |-> Level(o.levels[j].x, o.levels[j].chosen, ToSet(o.levels[j].sections))]]
VARIABLE tidx
Init == tidx \in 1..Len(Cases)
Next == UNCHANGED tidx
Say(idx, clause) == PrintT(<<"R", "case", idx, clause>>)
Check == LET c == Cases[tidx]
             T == TreeOf(c.nodes)
             inp == InOf(c.input)
             seen == ResOf(c.obs)
             dcfne == DcfSubSettings(inp) /\ ~DcfOpaque(T, inp)     \* default config file with sub-command content, transcribed part of the class
         IN /\ (seen = Select(T, inp)) \/ Say(tidx, IF DcfOpaque(T, inp) THEN "ref-dcf"
                                                    ELSE IF dcfne /\ seen = AlgSelectDcf(T, inp) THEN (IF DcfFirstSectionOnly(T, inp) THEN "ref-dcf-first" ELSE "ref-dcf-key")
                                                    ELSE IF ~dcfne /\ CfgKeyNamesOther(inp) /\ seen = AlgSelect(T, inp) THEN "ref-dev-as-alg" ELSE "ref")
            /\ (seen = (IF inp.dcf THEN AlgSelectDcf(T, inp) ELSE AlgSelect(T, inp))) \/ DcfOpaque(T, inp) \/ Say(tidx, "alg")
Inv == Check \/ TRUE
=============================================================================
