--------------------------- MODULE Trace_Validate ---------------------------
(* Validation of accept / reject decisions observed on the real code (code -> spec).  TRACE_FILE:                 *)
(*   [shape |-> list of [path, kind, req, of, req_of], cases |-> list of [cfg, outs]]  where cfg is the abstract   *)
(*   configuration (entries [p, v]) that was rendered per channel and outs the observed "ok" / "err" per channel. *)
EXTENDS Validate, Json, IOUtils, TLCExt
Data == JsonDeserialize(IOEnv.TRACE_FILE)
ToSet(q) == {q[j] : j \in 1..Len(q)}
MapOf(pairs) == [k \in {pairs[j][1] : j \in 1..Len(pairs)} |-> LET j == CHOOSE j \in 1..Len(pairs) : pairs[j][1] = k IN ToSet(pairs[j][2])]
ShapeOf(nodes) == [p \in {nodes[j].path : j \in 1..Len(nodes)} |->
                     LET j == CHOOSE j \in 1..Len(nodes) : nodes[j].path = p
                     IN [kind |-> nodes[j].kind, req |-> nodes[j].req, of |-> MapOf(nodes[j].of), req_of |-> MapOf(nodes[j].req_of), ord |-> nodes[j].ord]]
VARIABLE tidx
Init == tidx \in 1..Len(Data.cases)
Next == UNCHANGED tidx
Say(idx, j, clause) == PrintT(<<"R", idx, j, clause>>)
Check == LET c == Data.cases[tidx]
             shape == ShapeOf(Data.shapes[c.shape])
             cfg == ToSet(c.cfg)
             ref == Outcome(shape, cfg)
             NoDef(ch) == ch \in {"object_nodefaults", "string_nodefaults", "argv_nodefaults"}
             alg(j) == AlgOutcomeCh(shape, cfg, NoDef(c.outs[j].ch))
         IN \A j \in 1..Len(c.outs) :
              /\ (c.outs[j].out = ref) \/ Say(tidx, j, IF ref = "err" /\ alg(j) = "ok" /\ c.outs[j].out = "ok" THEN "ref-dev-as-alg:" \o DevKind(shape, cfg) ELSE "ref")
              /\ (c.outs[j].out = alg(j)) \/ Say(tidx, j, "alg")
Inv == Check \/ TRUE
=============================================================================
