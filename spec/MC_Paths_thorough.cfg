SPECIFICATION Spec
CONSTANTS
  CwdVariant = "code"
  StatGuard = FALSE
  CcStopsAtExisting = FALSE
  MaxFlags = 5
  MaxStr = 4
  Emit = TRUE
INVARIANT AlgRefinesRef
INVARIANT FailureIsPathError
INVARIANT StatPartialIsWrongAccept
INVARIANT CcThroughFileIsWrongAccept
INVARIANT OpenOnlyForFifoCreate
INVARIANT RefLaws
INVARIANT ModeLanguage
INVARIANT ModeOfValid
INVARIANT EmitCase
CHECK_DEADLOCK FALSE
