SPECIFICATION Spec
CONSTANTS
  Variant = "dumpfirst"
  Level = 2
  MaxFaults = 2
  Ext = 2
  Emit = TRUE
INVARIANT TypeOK
INVARIANT InvRunAgrees
INVARIANT InvNoSilentOverwrite
INVARIANT InvNoSilentOverwriteLocal
INVARIANT InvAllOrNothingModuloKnown
INVARIANT InvSavedReparsesModuloKnown
INVARIANT InvCauseSound
INVARIANT InvOldDataKept
INVARIANT EmitBehaviour
CHECK_DEADLOCK FALSE
