---------------------------- MODULE MC_SubSources ----------------------------
(* Bounded instance of SubSources.tla: every combination of the sources of a.x / a.l.  Values carry the tag of the  *)
(* source they come from (9 sub default config file, 8 root default config file, 6 environment, 2j documents before *)
(* the name, 3j items after it), so a wrong order shows in the result.                                              *)
EXTENDS SubSources, Json, SequencesExt
CONSTANTS MaxPre, MaxPost, Emit

Doc(t) == {<<Asg("x", "set", <<t>>)>>, <<Asg("l", "set", <<t>>)>>, <<Asg("l", "app", <<t>>)>>, <<Asg("x", "set", <<t>>), Asg("l", "app", <<t>>)>>}
DocOrNone(t) == Doc(t) \cup {<< >>}
EnvChoices == {<< >>, <<Asg("x", "set", <<6>>)>>, <<Asg("l", "set", <<6>>)>>, <<Asg("x", "set", <<6>>), Asg("l", "set", <<6>>)>>}
RECURSIVE PreSeqs(_, _)
PreSeqs(n, from) == IF n = 0 THEN {<< >>} ELSE {<<d>> \o r : d \in Doc(20 + from), r \in PreSeqs(n - 1, from + 1)}
Item(t) == {[kind |-> "cfg", asgs |-> d] : d \in Doc(t)}
           \cup {[kind |-> "opt", asgs |-> <<a>>] : a \in {Asg("x", "set", <<t>>), Asg("l", "set", <<t>>), Asg("l", "app", <<t>>)}}
RECURSIVE PostSeqs(_, _)
PostSeqs(n, from) == IF n = 0 THEN {<< >>} ELSE {<<it>> \o r : it \in Item(30 + from), r \in PostSeqs(n - 1, from + 1)}

VARIABLE s
Rec(rl, sd, d, e, pre, post, sel, first, other, dotted) ==
  [rootl |-> rl, sdcf |-> sd, dcf |-> d, env |-> e, pre |-> pre, post |-> post, sel |-> sel, first |-> first, other |-> other, dotted |-> dotted]
\* the base universe: `a` declared first, a root default config file with the section of `a` only; `a` named on the
\* command line, or (nothing follows and a root-level document carries its section) selected by that section alone
InitBase == \E rl \in BOOLEAN, sd \in DocOrNone(9), d \in DocOrNone(8), e \in EnvChoices,
               pre \in UNION {PreSeqs(n, 1) : n \in 0..MaxPre}, post \in UNION {PostSeqs(n, 1) : n \in 0..MaxPost} :
             \E sel \in {"name", "section"} :
               /\ (sel = "section" => (post = << >> /\ (d # << >> \/ pre # << >>)))
               /\ s = Rec(rl, sd, d, e, pre, post, sel, TRUE, FALSE, "any")
\* the selection universe: declaration order, a second section in the root default config file, selection by an
\* explicit "subcommand" key in a first --cfg; fewer sources (the sub-parser's file sets x or is absent, <= 1 document, <= 1 item)
InitSel == \E rl \in BOOLEAN, sd \in {<< >>, <<Asg("x", "set", <<9>>)>>}, d \in Doc(8), e \in EnvChoices,
              pre \in UNION {PreSeqs(n, 1) : n \in 0..1}, post \in UNION {PostSeqs(n, 1) : n \in 0..1} :
            \E sel \in {"name", "key"}, fo \in {<<FALSE, TRUE>>, <<TRUE, TRUE>>, <<FALSE, FALSE>>, <<TRUE, FALSE>>} :
              /\ (sel = "key" => post = << >>)
              /\ (sel = "name" => fo # <<TRUE, FALSE>>)           \* that combination is the base universe
              /\ \E dotted \in (IF sel = "key" THEN {"yes", "no"} ELSE {"any"}) : s = Rec(rl, sd, d, e, pre, post, sel, fo[1], fo[2], dotted)
Init == InitBase \/ InitSel
Next == UNCHANGED s
Spec == Init /\ [][Next]_s

\* the staged algorithm computes the documented fold, except under a NAMED deviation
InvAlgRefinesRef == AlgRefinesRefModuloNamed(s)
\* design facts: without root-level documents and root default config file the sub-parser's own order is the documented one
InvSubOnlyIsRef == (s.dcf = << >> /\ s.pre = << >>) => AlgFinal(s) \in RefOutcomes(s)
\* a sub-command selected by a config reads its parent's default config file itself, in the documented place: when the
\* root-level merge does not interfere (the section was pruned, no root-level document), the documented order holds
InvParentLookupIsRef == (s.sel = "key" /\ Pruned(s) /\ s.pre = << >> /\ s.dotted = "no") => AlgFinal(s) \in RefOutcomes(s)
\* where the renderer is free to choose the spelling of root-level documents, the spelling cannot change the outcome
InvSpellingIrrelevantWhereFree == s.dotted = "any" => SpellingIrrelevant(s)
\* a root document that only SETS, with no root default config file, is handled in the documented order
InvSetOnlyIsRef == (s.dcf = << >> /\ ~RootDocAppend(s)) => AlgFinal(s) \in RefOutcomes(s)
\* the command line after the name always wins
InvLastWins == (s.post # << >> /\ s.post[Len(s.post)].asgs[1].op = "set") =>
                 AlgFinal(s)[s.post[Len(s.post)].asgs[1].k] = s.post[Len(s.post)].asgs[1].v
EmitCase == Emit => PrintT(ToJson([s |-> s, ref |-> SetToSeq(RefOutcomes(s)), alg |-> AlgFinal(s), dev |-> Deviation(s)]))
=============================================================================
