-------------------------------- MODULE Heap --------------------------------
(***************************************************************************)
(* The heap of containers a public call of jsonargparse is handed, and the *)
(* frame property "calls never modify what they are given" (property C08). *)
(*                                                                         *)
(* A heap is a function  id -> [t, c] :                                    *)
(*   t  "list" | "dict" | "ns" (Namespace) | "tuple" | "set" | "odict" |   *)
(*      "obj" (an instance of a user class)                                *)
(*   c  the content, a sequence of << key, child >>; a child is            *)
(*        [k |-> "s", v |-> text, y |-> kind]   a scalar: kind is          *)
(*             int | numstr (a str holding digits) | str | enum |          *)
(*             enumstr (a str naming an enum member) | none | other        *)
(*        [k |-> "r", v |-> id,   y |-> ""]     a reference to an object   *)
(* Roots are named children (arguments of the call, declared defaults,     *)
(* os.environ, cwd, argparse.Namespace).                                   *)
(*                                                                         *)
(* Ref layer: Frame(h1, r1, h2, r2) - everything reachable from the roots  *)
(*   has the same value, type and - for mutable containers - identity      *)
(*   after the call as before; Fresh - two instantiations share no object. *)
(* Alg layer, transcribed from the code:                                   *)
(*   Clone      recreate_branches (_namespace.py:74-83): copies Namespace, *)
(*              dict and list; shares tuple, set, OrderedDict, the rest    *)
(*   Adapt      adapt_typehints (_typehints.py:849-934): list and dict     *)
(*              elements are assigned back INTO the container given;       *)
(*              tuple/set go through list(val) and come back as new        *)
(*              objects                                                    *)
(*   the public operations built from them (AlgOp).                        *)
(* The Alg layer breaks the frame on two routes, the named deviations:     *)
(*   "arg"          (only with CopyOnEntry = FALSE, the design before fix  *)
(*                  3d23e94) parse_object adapts the caller's containers   *)
(*                  without a copy on entry (_core.py:505, 1327-1378)      *)
(*   "below-tuple"  validate / dump / instantiate_classes work on a        *)
(*                  clone, but the clone shares tuples, so a list or dict  *)
(*                  inside a tuple is the caller's                         *)
(***************************************************************************)
EXTENDS Naturals, Sequences, FiniteSets, TLC

CONSTANT CopyOnEntry    \* TRUE: the tree since fix: commit 3d23e94 - parse_object applies its actions to recreate_branches(cfg_obj)
                        \* (_core.py:509); FALSE: the design before it (the caller's containers were adapted in place, route "arg")

Sc(v, y) == [k |-> "s", v |-> v, y |-> y]
Rf(id)   == [k |-> "r", v |-> id, y |-> ""]
None     == Sc("None", "none")
Cell(t, c) == [t |-> t, c |-> c]
Id(n)    == "n" \o ToString(n)                       \* objects allocated by the model
Put(h, id, cell) == [x \in DOMAIN h \cup {id} |-> IF x = id THEN cell ELSE h[x]]
SetChild(h, id, i, ch) == [h EXCEPT ![id] = Cell(h[id].t, [h[id].c EXCEPT ![i] = <<h[id].c[i][1], ch>>])]

Mutable(t) == t \in {"list", "dict", "ns", "set", "odict", "obj"}
Copied(t)  == t \in {"list", "dict", "ns"}             \* what recreate_branches re-creates
KeyIndex(cell, key) == CHOOSE i \in 1..Len(cell.c) : cell.c[i][1] = key
HasKey(cell, key)   == \E i \in 1..Len(cell.c) : cell.c[i][1] = key

(***************************************************************************)
(* Ref layer                                                               *)
(***************************************************************************)
RECURSIVE ReachFrom(_, _, _)
ReachFrom(h, todo, seen) ==
  IF todo = {} THEN seen
  ELSE LET id == CHOOSE x \in todo : TRUE
           kids == {h[id].c[i][2].v : i \in {j \in 1..Len(h[id].c) : h[id].c[j][2].k = "r"}} \cap DOMAIN h
       IN ReachFrom(h, (todo \cup kids) \ (seen \cup {id}), seen \cup {id})
RootIds(h, roots) == {roots[r].v : r \in {x \in DOMAIN roots : roots[x].k = "r"}} \cap DOMAIN h
Reach(h, roots) == ReachFrom(h, RootIds(h, roots), {})

\* the same value, type and (for mutable containers) identity.  An immutable tuple is compared by content; the
\* elements of a set are matched regardless of order.
RECURSIVE SameChild(_, _, _, _)
SameSeq(h1, h2, c1, c2) == Len(c1) = Len(c2) /\ \A i \in 1..Len(c1) : c1[i][1] = c2[i][1] /\ SameChild(h1, h2, c1[i][2], c2[i][2])
SameBag(h1, h2, c1, c2) == /\ Len(c1) = Len(c2)
                           /\ \A i \in 1..Len(c1) : \E j \in 1..Len(c2) : SameChild(h1, h2, c1[i][2], c2[j][2])
                           /\ \A j \in 1..Len(c2) : \E i \in 1..Len(c1) : SameChild(h1, h2, c1[i][2], c2[j][2])
SameChild(h1, h2, a, b) ==
  IF a.k = "s" \/ b.k = "s" THEN a = b
  ELSE IF a.v \notin DOMAIN h1 \/ b.v \notin DOMAIN h2 THEN FALSE
  ELSE LET x == h1[a.v]  y == h2[b.v] IN
       /\ x.t = y.t
       /\ (Mutable(x.t) => a.v = b.v)
       /\ IF x.t = "set" THEN SameBag(h1, h2, x.c, y.c) ELSE SameSeq(h1, h2, x.c, y.c)

\* the same value and type, identity ignored (to tell a rewritten value from a container replaced by an equal one)
RECURSIVE SameVal(_, _, _, _)
SameValSeq(h1, h2, c1, c2) == Len(c1) = Len(c2) /\ \A i \in 1..Len(c1) : c1[i][1] = c2[i][1] /\ SameVal(h1, h2, c1[i][2], c2[i][2])
SameValBag(h1, h2, c1, c2) == /\ Len(c1) = Len(c2)
                              /\ \A i \in 1..Len(c1) : \E j \in 1..Len(c2) : SameVal(h1, h2, c1[i][2], c2[j][2])
                              /\ \A j \in 1..Len(c2) : \E i \in 1..Len(c1) : SameVal(h1, h2, c1[i][2], c2[j][2])
SameVal(h1, h2, a, b) ==
  IF a.k = "s" \/ b.k = "s" THEN a = b
  ELSE IF a.v \notin DOMAIN h1 \/ b.v \notin DOMAIN h2 THEN FALSE
  ELSE LET x == h1[a.v]  y == h2[b.v] IN
       x.t = y.t /\ (IF x.t = "set" THEN SameValBag(h1, h2, x.c, y.c) ELSE SameValSeq(h1, h2, x.c, y.c))
ValueFrame(h1, r1, h2, r2) == DOMAIN r1 = DOMAIN r2 /\ \A r \in DOMAIN r1 : SameVal(h1, h2, r1[r], r2[r])

\* C08, first half: the frame property over a set of named roots
Frame(h1, r1, h2, r2) == DOMAIN r1 = DOMAIN r2 /\ \A r \in DOMAIN r1 : SameChild(h1, h2, r1[r], r2[r])
\* which roots changed (for diagnosis)
Changed(h1, r1, h2, r2) == {r \in DOMAIN r1 : r \notin DOMAIN r2 \/ ~SameChild(h1, h2, r1[r], r2[r])}
\* C08, second half: two instantiations of one configuration build disjoint objects, none of them an object that
\* already existed in the configuration or the defaults
Fresh(objs1, objs2, old) == objs1 \cap objs2 = {} /\ (objs1 \cup objs2) \cap old = {}

(***************************************************************************)
(* Alg layer: recreate_branches, _namespace.py:74-83                       *)
(***************************************************************************)
RECURSIVE Clone(_, _, _), CloneSeq(_, _, _, _, _)
Clone(h, c, n) ==                                  \* -> [h, c, n]
  IF c.k = "s" THEN [h |-> h, c |-> c, n |-> n]
  ELSE IF ~Copied(h[c.v].t) THEN [h |-> h, c |-> c, n |-> n]               \* tuple / set / OrderedDict / objects: shared
  ELSE LET r == CloneSeq(h, h[c.v].c, 1, n + 1, << >>) IN
       [h |-> Put(r.h, Id(n), Cell(h[c.v].t, r.c)), c |-> Rf(Id(n)), n |-> r.n]
CloneSeq(h, cs, i, n, acc) ==
  IF i > Len(cs) THEN [h |-> h, c |-> acc, n |-> n]
  ELSE LET r == Clone(h, cs[i][2], n) IN CloneSeq(r.h, cs, i + 1, r.n, Append(acc, <<cs[i][1], r.c>>))

(***************************************************************************)
(* Alg layer: adapt_typehints, _typehints.py:733-1100.  Type terms:        *)
(*   [k |-> "int"|"str"|"enum", a |-> << >>]                                *)
(*   [k |-> "opt", a |-> <<T>>]       Optional[T]                           *)
(*   [k |-> "list"|"dict"|"set", a |-> <<T>>]   List[T], Dict[str,T], Set[T]*)
(*   [k |-> "tuple", a |-> <<T1,..,Tn>>]        Tuple[T1,..,Tn]             *)
(*   [k |-> "cls", a |-> << >>]       a class type (class_path/init_args)   *)
(*   [k |-> "union", a |-> <<T1,..,Tn>>]        Union[T1,..,Tn] (round 4)   *)
(* mode: "parse" (checking / parsing), "ser" (serialize=True, dump),       *)
(*       "inst" (instantiate_classes=True).                                *)
(***************************************************************************)
LeafTypes == {"int", "str", "enum"}
Bad == Sc("?", "FAIL")
AdaptLeaf(T, c, mode) ==
  IF c.k # "s" THEN Bad
  ELSE CASE T.k = "int"  -> (IF c.y = "int" THEN c ELSE IF c.y = "numstr" THEN Sc(c.v, "int") ELSE Bad)       \* :782-789 yaml-loads a str
         [] T.k = "str"  -> (IF c.y \in {"str", "numstr", "enumstr"} THEN c ELSE Bad)
         [] T.k = "enum" -> (IF mode = "ser" THEN (IF c.y = "enum" THEN Sc(c.v, "enumstr") ELSE c)             \* :808-811 val.name
                             ELSE IF c.y = "enum" THEN c ELSE IF c.y = "enumstr" THEN Sc(c.v, "enum") ELSE Bad)   \* :812-818 typehint[val]
         [] OTHER -> Bad

\* set(val): equal scalars collapse
Dedup(cs) == SelectSeq([i \in 1..Len(cs) |-> IF \E j \in 1..(i - 1) : cs[j][2] = cs[i][2] /\ cs[i][2].k = "s" THEN <<"", Bad>> ELSE cs[i]],
                       LAMBDA x : x[2] # Bad)
RECURSIVE Adapt(_, _, _, _, _), AdaptElems(_, _, _, _, _, _), AdaptUnion(_, _, _, _, _, _)
Res(h, c, n, ok) == [h |-> h, c |-> c, n |-> n, ok |-> ok]
\* a class-typed value ([k |-> "cls"]), _typehints.py:1060-1100 and adapt_class_type :1369-1453.  What the class parser
\* makes of the init_args is not modelled: it is a NEW object of unknown content ("wild", matches any new object).
\*   an instance is returned as it is; a class name / a dict spec becomes a new Namespace (:1230-1246);
\*   a NAMESPACE spec is kept and written to: value["init_args"] = <parsed init_args> (:1440-1442) - added when absent;
\*   instantiate_classes=True returns the new instance (:1404-1418)
Wild(h, n) == Put(h, Id(n), Cell("wild", << >>))
AdaptSpec(h, c, mode, n) ==
  IF c.k = "s" THEN (IF c.y \in {"clspath", "str"} THEN Res(Wild(h, n), Rf(Id(n)), n + 1, TRUE) ELSE Res(h, c, n, FALSE))
  ELSE LET cell == h[c.v] IN
       IF cell.t = "obj" THEN Res(h, c, n, TRUE)
       ELSE IF cell.t \notin {"ns", "dict"} THEN Res(h, c, n, FALSE)
       ELSE IF mode = "inst" \/ cell.t = "dict" THEN Res(Wild(h, n), Rf(Id(n)), n + 1, TRUE)
       ELSE LET newc == IF HasKey(cell, "init_args") THEN [cell.c EXCEPT ![KeyIndex(cell, "init_args")] = <<"init_args", Rf(Id(n))>>]
                        ELSE Append(cell.c, <<"init_args", Rf(Id(n))>>) IN
            Res([Wild(h, n) EXCEPT ![c.v] = Cell("ns", newc)], c, n + 1, TRUE)
\* elements i.. of container `id`, assigned back into it one after the other ("val[n] = adapt_typehints(v, ...)", :905 / :929 / :861);
\* a failure leaves the earlier assignments in place
AdaptElems(h, id, i, Ts, mode, n) ==
  IF i > Len(h[id].c) THEN Res(h, Rf(id), n, TRUE)
  ELSE LET T == IF Len(Ts) = 1 THEN Ts[1] ELSE Ts[i]
           r == Adapt(h, h[id].c[i][2], T, mode, n) IN
       IF ~r.ok THEN Res(r.h, Rf(id), r.n, FALSE)
       ELSE AdaptElems(SetChild(r.h, id, i, r.c), id, i + 1, Ts, mode, r.n)
\* round 4 - a Union other than Optional ([k |-> "union", a |-> <<T1, .., Tn>>]), _typehints.py:836-850: the members are tried in
\* the declared order on THE SAME value object (sort_subtypes_for_union :1480-1492 only moves NoneType - and, for a text, the
\* sequence types - to the front); the first member that accepts wins.  A member that fails has already assigned the elements
\* it could convert into the list / dict it was given: those writes stay, and the next member sees them.
AdaptUnion(h, c, Ts, i, mode, n) ==
  IF i > Len(Ts) THEN Res(h, c, n, FALSE)                                                                     \* :848-849 every member failed
  ELSE LET r == Adapt(h, c, Ts[i], mode, n) IN
       IF r.ok THEN r ELSE AdaptUnion(r.h, c, Ts, i + 1, mode, r.n)
Adapt(h, c, T, mode, n) ==
  IF T.k \in LeafTypes THEN LET x == AdaptLeaf(T, c, mode) IN Res(h, IF x = Bad THEN c ELSE x, n, x # Bad)
  ELSE IF T.k = "opt" THEN (IF c = None THEN Res(h, c, n, TRUE) ELSE Adapt(h, c, T.a[1], mode, n))            \* Union: NoneType, then T (:834-847)
  ELSE IF T.k = "union" THEN AdaptUnion(h, c, T.a, 1, mode, n)
  ELSE IF T.k = "cls" THEN AdaptSpec(h, c, mode, n)
  ELSE IF c.k = "s" THEN Res(h, c, n, FALSE)
  ELSE LET t == h[c.v].t IN
    CASE T.k = "list" ->                                                                                     \* :866-905
           IF t = "list" THEN AdaptElems(h, c.v, 1, T.a, mode, n)                                             \* in place
           ELSE IF t \in {"tuple", "set"} THEN AdaptElems(Put(h, Id(n), Cell("list", h[c.v].c)), Id(n), 1, T.a, mode, n + 1)   \* :896 list(val)
           ELSE Res(h, c, n, FALSE)
      [] T.k = "dict" ->                                                                                     \* :907-930
           IF t = "dict" THEN AdaptElems(h, c.v, 1, T.a, mode, n) ELSE Res(h, c, n, FALSE)
      [] T.k \in {"tuple", "set"} ->                                                                         \* :849-864
           IF t \notin {"list", "tuple", "set"} THEN Res(h, c, n, FALSE)
           ELSE IF T.k = "tuple" /\ Len(T.a) # Len(h[c.v].c) THEN Res(h, c, n, FALSE)                         \* :856-857
           ELSE LET r == AdaptElems(Put(h, Id(n), Cell("list", h[c.v].c)), Id(n), 1, T.a, mode, n + 1) IN     \* :853 val = list(val)
                IF ~r.ok THEN Res(r.h, c, r.n, FALSE)
                ELSE IF mode = "ser" THEN r                                                                   \* :862 serialised as a list
                ELSE Res([r.h EXCEPT ![Id(n)] = Cell(T.k, IF T.k = "set" THEN Dedup(r.h[Id(n)].c) ELSE r.h[Id(n)].c)], Rf(Id(n)), r.n, TRUE)   \* :863 tuple(val) / set(val)
      [] OTHER -> Res(h, c, n, FALSE)

(***************************************************************************)
(* Alg layer: the public operations on an argument.                        *)
(* arg   child: the configuration object handed to the call                *)
(* keys  the typed keys it contains, in the argument's own order:          *)
(*       sequence of [p |-> path, T |-> type term, d |-> declaration rank] *)
(* A path has length 1 (top level) or more (inside nested groups).         *)
(***************************************************************************)
\* the object holding the last name of path p, walking from child c (assumes the walk stays inside containers)
RECURSIVE Holder(_, _, _)
Holder(h, c, p) == IF Len(p) = 1 THEN c.v ELSE Holder(h, h[c.v].c[KeyIndex(h[c.v], p[1])][2], Tail(p))
ValueAt(h, c, p) == LET o == Holder(h, c, p) IN h[o].c[KeyIndex(h[o], p[Len(p)])][2]
WriteAt(h, c, p, ch) == LET o == Holder(h, c, p) IN SetChild(h, o, KeyIndex(h[o], p[Len(p)]), ch)

\* stable orders over the typed keys (insertion sort on << rank, key >>; equal ranks keep the argument's order)
RECURSIVE InsertR(_, _), SortR(_)
InsertR(s, x) == IF s = << >> THEN <<x>> ELSE IF x[1] <= s[1][1] THEN <<x>> \o s ELSE <<s[1]>> \o InsertR(Tail(s), x)
SortR(s) == IF s = << >> THEN << >> ELSE InsertR(SortR(Tail(s)), s[1])
Ordered(keys, Rank(_)) == LET s == SortR([i \in 1..Len(keys) |-> <<Rank(keys[i]), keys[i]>>]) IN [i \in 1..Len(s) |-> s[i][2]]
Deep(a)     == 100 - Len(a.p)                 \* get_sorted_keys: deepest first (_namespace.py:262-273)
Decl(a)     == a.d                            \* the order of parser._actions
Deepdecl(a) == (100 - Len(a.p)) * 1000 + a.d  \* components.sort(key=-depth), stable over parser._actions (:1226)

\* run Adapt over the keys in the given order; `write`: assign the result back under the key (cfg[dest] = value)
RECURSIVE OverKeys(_, _, _, _, _, _, _)
OverKeys(h, arg, ks, i, mode, write, n) ==
  IF i > Len(ks) THEN [h |-> h, n |-> n, ok |-> TRUE]
  ELSE LET v == ValueAt(h, arg, ks[i].p) IN
       IF v = None THEN OverKeys(h, arg, ks, i + 1, mode, write, n)                              \* None is skipped (:1410, :1126, :826, :1239)
       ELSE LET r == Adapt(h, v, ks[i].T, mode, n) IN
            IF ~r.ok THEN [h |-> r.h, n |-> r.n, ok |-> FALSE]
            ELSE OverKeys(IF write THEN WriteAt(r.h, arg, ks[i].p, r.c) ELSE r.h, arg, ks, i + 1, mode, write, r.n)

\* _apply_actions (_core.py:1319-1379) on the argument of parse_object: a queue of keys, top level first, the keys of
\* nested groups appended at the end (:1361-1363).  A typed key is adapted and assigned back (:1372, :1378); any other
\* value that is a dict becomes a NEW Namespace which is assigned back (:1359-1364) - inside the caller's own Namespace
\* when the argument is one; a dict ARGUMENT itself is first turned into a new Namespace (:1327-1328).
\* Walk: queue of << container id, path of the container >>.
TypeAt(keys, p) == IF \E k \in 1..Len(keys) : keys[k].p = p THEN keys[CHOOSE k \in 1..Len(keys) : keys[k].p = p].T ELSE [k |-> "none", a |-> << >>]
RECURSIVE Walk(_, _, _, _), WalkOne(_, _, _, _, _, _, _)
WalkOne(h, id, pre, i, keys, n, more) ==
  IF i > Len(h[id].c) THEN [h |-> h, n |-> n, ok |-> TRUE, more |-> more]
  ELSE LET ch == h[id].c[i][2]
           p  == Append(pre, h[id].c[i][1])
           T  == TypeAt(keys, p) IN
       IF T.k # "none" THEN
            (IF ch = None THEN WalkOne(h, id, pre, i + 1, keys, n, more)                                   \* None under lenient_check (:1410)
             ELSE LET r == Adapt(h, ch, T, "parse", n) IN
                  IF ~r.ok THEN [h |-> r.h, n |-> r.n, ok |-> FALSE, more |-> more]
                  ELSE WalkOne(SetChild(r.h, id, i, r.c), id, pre, i + 1, keys, r.n, more))
       ELSE IF ch.k = "r" /\ h[ch.v].t = "dict" THEN
            WalkOne(SetChild(Put(h, Id(n), Cell("ns", h[ch.v].c)), id, i, Rf(Id(n))), id, pre, i + 1, keys, n + 1, Append(more, <<Id(n), p>>))
       ELSE IF ch.k = "r" /\ h[ch.v].t = "ns" THEN WalkOne(h, id, pre, i + 1, keys, n, Append(more, <<ch.v, p>>))
       ELSE WalkOne(h, id, pre, i + 1, keys, n, more)
Walk(h, q, keys, n) ==
  IF q = << >> THEN [h |-> h, n |-> n, ok |-> TRUE]
  ELSE LET r == WalkOne(h, q[1][1], q[1][2], 1, keys, n, << >>) IN
       IF ~r.ok THEN [h |-> r.h, n |-> r.n, ok |-> FALSE] ELSE Walk(r.h, Tail(q) \o r.more, keys, r.n)
ApplyActions(h, arg, keys, n) ==
  IF arg.k = "s" \/ h[arg.v].t \notin {"dict", "ns"} THEN [h |-> h, n |-> n, ok |-> TRUE]
  ELSE IF h[arg.v].t = "dict" THEN Walk(Put(h, Id(n), Cell("ns", h[arg.v].c)), <<<<Id(n), << >>>>>>, keys, n + 1)
  ELSE Walk(h, <<<<arg.v, << >>>>>>, keys, n)

Out(h, ok, ret) == [h |-> h, ok |-> ok, ret |-> ret]

AlgOp(op, h, arg, keys, n) ==
  CASE op = "parse_object" ->                                         \* _core.py:509 _apply_actions(recreate_branches(cfg_obj)) since fix 3d23e94;
         IF CopyOnEntry THEN LET cl == Clone(h, arg, n)                  \*   the copy shares tuples, so below a tuple of the ARGUMENT it is still the caller's
                                 r == ApplyActions(cl.h, cl.c, keys, cl.n) IN Out(r.h, r.ok, None)
         ELSE LET r == ApplyActions(h, arg, keys, n) IN Out(r.h, r.ok, None)  \* before the fix: NO copy on entry
    [] op = "validate" ->                                             \* :1091 cfg.clone(), :1111-1129 check_values
         LET cl == Clone(h, arg, n)
             r == OverKeys(cl.h, cl.c, Ordered(keys, Deep), 1, "parse", FALSE, cl.n) IN Out(r.h, r.ok, None)
    [] op \in {"dump", "save1"} ->                                     \* :786 strip_meta, :792 validate, :795 _dump_cleanup_actions; save(multifile=False) = dump (:909-911)
         LET c1 == Clone(h, arg, n)
             c2 == Clone(c1.h, c1.c, c1.n)
             v  == OverKeys(c2.h, c2.c, Ordered(keys, Deep), 1, "parse", FALSE, c2.n) IN
         IF ~v.ok THEN Out(v.h, FALSE, None)
         ELSE LET s == OverKeys(v.h, c1.c, Ordered(keys, Decl), 1, "ser", TRUE, v.n) IN Out(s.h, s.ok, None)
    [] op = "instantiate_classes" ->                                  \* :1230 strip_meta, :1245 parent[key] = component.instantiate_classes(value)
         LET cl == Clone(h, arg, n)
             r == OverKeys(cl.h, cl.c, Ordered(keys, Deepdecl), 1, "inst", TRUE, cl.n) IN Out(r.h, r.ok, cl.c)
    [] op = "save" ->                                                 \* multifile: :914 clone FIRST, :915 strip_link_target_keys on the clone, :919 validate(strip_meta(cfg)), :951 dump(cfg, skip_validation=True)
         LET c0 == Clone(h, arg, n)
             c1 == Clone(c0.h, c0.c, c0.n)
             c2 == Clone(c1.h, c1.c, c1.n)
             v  == OverKeys(c2.h, c2.c, Ordered(keys, Deep), 1, "parse", FALSE, c2.n) IN
         IF ~v.ok THEN Out(v.h, FALSE, None)
         ELSE LET c3 == Clone(v.h, c0.c, v.n)
                  s  == OverKeys(c3.h, c3.c, Ordered(keys, Decl), 1, "ser", TRUE, c3.n) IN Out(s.h, s.ok, None)
    [] op \in {"merge_config", "strip_unknown", "clone", "get_defaults"} ->     \* :1391-1392, :1267, _namespace.py:275, :1015: work on copies
         LET cl == Clone(h, arg, n) IN Out(cl.h, TRUE, cl.c)
    [] OTHER -> Out(h, TRUE, None)                                    \* format_help, parse_args/parse_string/parse_env: nothing to write to

(***************************************************************************)
(* Alg layer: a whole call, including what it does to the parser's         *)
(* DECLARED DEFAULTS.  get_defaults hands out recreate_branches(default)   *)
(* (_core.py:1015): lists/dicts are copied, tuples are shared - so every   *)
(* pass that adapts a configuration built from the defaults works, below   *)
(* a tuple, on the declared default itself:                                *)
(*   parse_object   _apply_actions on the defaults configuration BEFORE    *)
(*                  the argument is looked at (:504), result assigned back *)
(*   parse_*        the final validate of _parse_common (:384) over the    *)
(*                  keys whose default is still in the configuration       *)
(*   get_defaults / format_help with an existing default config file:      *)
(*                  the validate of :1029-1036                             *)
(*   dump(skip_default=True)  serialises get_defaults() in place (:800-802)*)
(*   --print_config  print_config_if_requested dumps the configuration     *)
(*                  (_actions.py:288): the same serialisation in place     *)
(* x = [op, h, roots, arg, keys, dkeys, dactive, dcf, sdef, pser,          *)
(*      returned]:                                                         *)
(*   roots.defaults  a Namespace-like node dest -> action.default          *)
(*   dkeys / dactive typed default keys (all / those still in the final    *)
(*                   configuration), paths of length 1 (the dest)          *)
(*   pser            the call prints the configuration and exits           *)
(*   returned        the observed call returned (the final validate ran)   *)
(***************************************************************************)
\* a scalar that equals the declared default is accepted as it is (_typehints.py:746-747): leaf-typed defaults are never
\* looked at, whatever they hold
NonLeaf(keys) == SelectSeq(keys, LAMBDA k : k.T.k \notin LeafTypes)
PassOver(h, root, keys, mode, write, n) ==
  IF NonLeaf(keys) = << >> THEN [h |-> h, n |-> n, ok |-> TRUE]
  ELSE LET cl == Clone(h, root, n) IN OverKeys(cl.h, cl.c, NonLeaf(keys), 1, mode, write, cl.n)
ParseOps == {"parse_args", "parse_object", "parse_string", "parse_env", "parse_path"}
AlgCall(x, n) ==
  LET hasD   == "defaults" \in DOMAIN x.roots
      before == IF hasD /\ x.op = "parse_object" THEN PassOver(x.h, x.roots["defaults"], x.dkeys, "parse", TRUE, n + 3000)
                ELSE [h |-> x.h, n |-> n, ok |-> TRUE]
      main   == IF x.arg = "" \/ x.arg = "defaults" THEN Out(before.h, TRUE, None)
                ELSE IF x.op = "parse_args" THEN                      \* parse_args(argv, namespace=arg): merged as a clone (:452), then the final validate
                     (IF x.pser THEN LET cl == Clone(before.h, x.roots[x.arg], n)                      \* --print_config: dumped, not validated
                                         r == OverKeys(cl.h, cl.c, Ordered(x.keys, Decl), 1, "ser", TRUE, cl.n) IN Out(r.h, r.ok, None)
                      ELSE IF x.returned THEN AlgOp("validate", before.h, x.roots[x.arg], x.keys, n) ELSE Out(before.h, TRUE, None))
                ELSE AlgOp(x.op, before.h, x.roots[x.arg], x.keys, n)
      after  == IF ~hasD \/ ~main.ok THEN [h |-> main.h, ok |-> main.ok]
                ELSE IF x.op \in ParseOps /\ x.pser THEN PassOver(main.h, x.roots["defaults"], x.dactive, "ser", TRUE, n + 6000)
                ELSE IF x.op \in ParseOps /\ x.returned THEN PassOver(main.h, x.roots["defaults"], x.dactive, "parse", FALSE, n + 6000)
                ELSE IF x.op \in {"get_defaults", "format_help"} /\ x.dcf THEN PassOver(main.h, x.roots["defaults"], x.dactive, "parse", FALSE, n + 6000)
                ELSE IF x.op = "dump" /\ x.sdef THEN PassOver(main.h, x.roots["defaults"], x.dkeys, "ser", TRUE, n + 6000)
                ELSE [h |-> main.h, ok |-> main.ok]
  IN [h |-> after.h, ok |-> main.ok /\ after.ok]

(***************************************************************************)
(* Comparing an observed post-heap with the Alg prediction: objects that    *)
(* existed before the call are compared cell by cell; objects created by    *)
(* the call have different names in the two heaps and are compared by       *)
(* structure.                                                               *)
(***************************************************************************)
RECURSIVE Match(_, _, _, _, _)
MatchSeq(ho, ha, co, ca, pre) == Len(co) = Len(ca) /\ \A i \in 1..Len(co) : co[i][1] = ca[i][1] /\ Match(ho, ha, co[i][2], ca[i][2], pre)
MatchBag(ho, ha, co, ca, pre) == /\ Len(co) = Len(ca)
                                 /\ \A i \in 1..Len(co) : \E j \in 1..Len(ca) : Match(ho, ha, co[i][2], ca[j][2], pre)
                                 /\ \A j \in 1..Len(ca) : \E i \in 1..Len(co) : Match(ho, ha, co[i][2], ca[j][2], pre)
Match(ho, ha, a, b, pre) ==
  IF a.k = "s" \/ b.k = "s" THEN a = b
  ELSE IF a.v \in pre \/ b.v \in pre THEN a.v = b.v                    \* an object that existed before: same identity (its cell is compared on its own)
  ELSE IF a.v \notin DOMAIN ho \/ b.v \notin DOMAIN ha THEN FALSE
  ELSE IF ha[b.v].t = "wild" THEN TRUE                                  \* a new object whose content the Alg layer does not predict
  ELSE /\ ho[a.v].t = ha[b.v].t
       /\ IF ho[a.v].t = "set" THEN MatchBag(ho, ha, ho[a.v].c, ha[b.v].c, pre) ELSE MatchSeq(ho, ha, ho[a.v].c, ha[b.v].c, pre)
\* every object reachable from the roots before the call (and still reachable afterwards: the snapshot sees nothing
\* else) looks in the observed post-heap as the Alg layer says
AsAlg(hpre, roots, hobs, halg) ==
  \A id \in Reach(hpre, roots) \cap DOMAIN hobs :
     /\ id \in DOMAIN halg /\ hobs[id].t = halg[id].t
     /\ IF hobs[id].t = "set" THEN MatchBag(hobs, halg, hobs[id].c, halg[id].c, DOMAIN hpre)
        ELSE MatchSeq(hobs, halg, hobs[id].c, halg[id].c, DOMAIN hpre)

\* the route by which the Alg layer reaches the caller's objects (named deviations):
\*   arg                    (CopyOnEntry = FALSE only) parse_object adapts the containers it is given, no copy on entry
\*   below-tuple/argument   parse_object adapts a copy of its argument that shares tuples with it (and, like every parse,
\*                          a configuration that shares tuples with the declared defaults)
\*   below-tuple/check      validate / instantiate_classes adapt a clone that shares tuples with the caller's configuration
\*   below-tuple/serialise  dump / save serialise such a clone in place
\*   below-tuple/defaults   every parse (and get_defaults / format_help with a default config file) validates a
\*                          configuration that shares tuples with the parser's declared defaults (or with namespace=)
Route(op) == IF op = "parse_object" THEN (IF CopyOnEntry THEN "below-tuple/argument" ELSE "arg")
             ELSE IF op \in {"validate", "instantiate_classes"} THEN "below-tuple/check"
             ELSE IF op \in {"dump", "save", "save1"} THEN "below-tuple/serialise"
             ELSE "below-tuple/defaults"
\* objects of the pre-heap that the Alg layer modified
Touched(hpre, halg) == {id \in DOMAIN hpre : id \notin DOMAIN halg \/ halg[id] # hpre[id]}
\* ... and those among them that sit below a tuple (reachable from a tuple of the pre-heap)
BelowTuple(hpre) == UNION {ReachFrom(hpre, {id}, {}) \ {id} : id \in {x \in DOMAIN hpre : hpre[x].t \in {"tuple", "set", "odict"}}}

(***************************************************************************)
(* Round 4.  PROCESS STATE as something the calls are given: the working   *)
(* directory, the context variable current_path_dir, digests of            *)
(* os.environ / sys.argv / sys.path, the identity of argparse.Namespace.   *)
(*   ps = [cwd, cpd, env, argv, syspath, ns]   (all texts; cpd "" = None)  *)
(* A directory is named relative to the root of the scratch tree.  A Path  *)
(* object remembers the directory it was CREATED in (Path.cwd) and the     *)
(* directory of its absolute path; the process may be somewhere else when  *)
(* the object is handed to a call.                                         *)
(* Ref: ProcFrame - the process state after the call is the one on entry,  *)
(*      whether the call returns or raises.                                *)
(* Alg: change_to_path_dir (_util.py:284-312) as enter / leave frames, a   *)
(*      call as a program of steps, `fail` unwinds the open frames (the    *)
(*      try/finally of :307-312).                                          *)
(***************************************************************************)
ProcFrame(ps1, ps2)   == ps1 = ps2
ProcChanged(ps1, ps2) == {f \in DOMAIN ps1 : f \notin DOMAIN ps2 \/ ps1[f] # ps2[f]}

CtFrame(ps)       == [cwd |-> ps.cwd, cpd |-> ps.cpd]                         \* :303 chdir = os.getcwd() (the cwd ON ENTRY, not Path.cwd), :301 token
CtEnter(ps, dir)  == [ps EXCEPT !.cwd = dir, !.cpd = dir]                      \* :301 current_path_dir.set, :305 os.chdir(path_dir)
CtLeave(ps, fr)   == [ps EXCEPT !.cwd = fr.cwd, !.cpd = fr.cpd]                \* :310 reset(token), :312 os.chdir(chdir)
RECURSIVE Unwind(_, _)
Unwind(ps, stack) == IF stack = << >> THEN ps ELSE Unwind(CtLeave(ps, stack[1]), Tail(stack))     \* innermost frame first
\* steps: <<"enter", dir>> | <<"leave", "">> | <<"probe", "">> (user code - a type function, the body of a with - looks at
\* the process state) | <<"fail", "">> (an exception: every open frame is left on the way out)
RECURSIVE Exec(_, _, _, _, _)
Exec(ps, prog, j, stack, seen) ==
  IF j > Len(prog) THEN [ps |-> Unwind(ps, stack), ok |-> TRUE, seen |-> seen]
  ELSE LET s == prog[j] IN
       CASE s[1] = "enter" -> Exec(CtEnter(ps, s[2]), prog, j + 1, <<CtFrame(ps)>> \o stack, seen)
         [] s[1] = "leave" -> Exec(CtLeave(ps, stack[1]), prog, j + 1, Tail(stack), seen)
         [] s[1] = "probe" -> Exec(ps, prog, j + 1, stack, seen \cup {<<ps.cwd, ps.cpd>>})
         [] OTHER          -> [ps |-> Unwind(ps, stack), ok |-> FALSE, seen |-> seen]
St(x) == <<x, "">>
\* the calls that are handed a path.  pc = [op, fl, entry, home]: the files live in <home>/conf (configs) and <home>/out
\* (save); the Path object was created while the process was in <home> (parse_path, rpc, save, dcf_*), by an earlier parse
\* of <home>/conf/x.yaml (parse_path_res: a Path_fr value of the result, created in <home>/conf), or is created by the call
\* itself from an absolute text (cfgarg); the process is in <entry> when the call is made.
\*   parse_path / parse_path_res  _core.py:626-645: Path(cfg_path) checks the file again (:627), then parse_string - the
\*        conversions and the final validate - runs inside `with change_to_path_dir(fpath)` (:632)
\*   rpc      Path.relative_path_context (_util.py:738-742) around a body that returns / raises
\*   save     multi-file (_core.py:907 check_overwrite, :919 validate BEFORE any chdir, :963 save_paths inside
\*            change_to_path_dir(path_fc)); save1 = multifile=False: no chdir at all (:909-911)
\*   dcf_*    a default config file (_core.py:1041): loaded and checked inside change_to_path_dir(default_config_file);
\*            parse_args then validates the whole configuration again outside (:384)
\*   cfgarg   --cfg <absolute text>: ActionConfigFile.apply_config -> parse_path (_actions.py:197-207), final validate outside
PathProg(pc) ==
  LET d == pc.home \o "/conf"
      o == pc.home \o "/out"
      loaded(tail) == IF pc.fl = "ok" THEN <<<<"enter", d>>, St("probe"), St("probe"), St("leave")>> \o tail
                      ELSE <<<<"enter", d>>, St("probe"), St("fail")>>          \* badval: the value of n is rejected; badpath: n converted, then p
  IN CASE pc.op \in {"parse_path", "parse_path_res"} -> IF pc.fl = "missing" THEN <<St("fail")>> ELSE loaded(<< >>)
       [] pc.op = "rpc"  -> <<<<"enter", d>>, St("probe"), St(IF pc.fl = "raises" THEN "fail" ELSE "leave")>>
       [] pc.op = "save" -> IF pc.fl = "refuse" THEN <<St("fail")>>
                            ELSE IF pc.fl = "invalid" THEN <<St("probe"), St("fail")>>
                            ELSE <<St("probe"), <<"enter", o>>, St("leave")>>
       [] pc.op = "save1" -> <<St("probe")>>
       [] pc.op \in {"dcf_get_defaults", "dcf_format_help"} -> loaded(<< >>)
       [] pc.op \in {"dcf_parse_args", "cfgarg"} -> loaded(<<St("probe")>>)
       [] OTHER -> << >>
AlgPathCall(pc, ps) == Exec(ps, PathProg(pc), 1, << >>, {})

(***************************************************************************)
(* Round 4.  FRESHNESS for class-INSTANCE signature defaults.              *)
(* A parameter  cal: Cal = <expr>  of the __init__ that the OWNER class    *)
(* uses.  fam = [owner, where, nis, dform, use]:                           *)
(*   owner  "base"    the class that defines __init__(self, cal: Cal = ..) *)
(*          "sub"     a subclass that inherits __init__ unchanged          *)
(*          "subinit" a subclass with __init__(self, m=0, **kwargs) that   *)
(*                    passes **kwargs to super().__init__                  *)
(*   where  "same" | "other": the subclass is defined in the base's module *)
(*          or in a different module that imports Base                     *)
(*   nis    the name Cal is a global of the subclass's module              *)
(*   dform  "kw" Cal(firstweekday=1) | "nokw" Cal() | "lazy"               *)
(*          lazy_instance(Cal, firstweekday=1) | "pos" Cal(1) | "nonconst" *)
(*          Cal(firstweekday=K)                                            *)
(*   use    how the owner reaches the parser (add_class_arguments, a typed *)
(*          argument with a lazy default, add_subclass_arguments, a        *)
(*          class_path given for an argument typed with the base)          *)
(* Ref: a default that IS a class_path/init_args spec - a lazy_instance by *)
(*   construction (_typehints.py:1592-1663), a call with constant keyword  *)
(*   arguments because the signature resolver derives the spec from the    *)
(*   source (_parameter_resolvers.py:695-725) - yields a new object in     *)
(*   every instantiation, never the object held by the parser's defaults.  *)
(*   Any other default expression stays a live instance (not a spec:       *)
(*   outside the claim).  Objects built from the owner's own spec are      *)
(*   always new.                                                           *)
(* Alg: the resolver looks the class name of the call up in the globals of *)
(*   the module that DEFINES THE FUNCTION (:633 self.component.__module__),*)
(*   where the default expression was evaluated - lookup "function".  The  *)
(*   what-if lookup "class" (globals of the owner's module) is kept to say *)
(*   why where / nis are enumerated: it loses the spec exactly for a       *)
(*   subclass in another module that does not import the name.             *)
(***************************************************************************)
SpecForm(d)      == d \in {"kw", "nokw", "lazy"}
MustBeFresh(fam) == SpecForm(fam.dform)
OwnerModule(fam) == IF fam.owner = "base" \/ fam.where = "same" THEN "base" ELSE "other"
ModGlobals(fam, m) == IF m = "base" THEN {"Cal", "Base", "K", "lazy_instance"} ELSE {"Base"} \cup (IF fam.nis THEN {"Cal"} ELSE {})
AlgDerivesSpec(fam, lookup) ==
  \/ fam.dform = "lazy"                                                                     \* normalize_default: lazy_get_init_data (_typehints.py:258-259)
  \/ /\ fam.dform \in {"kw", "nokw"}                                                         \* :712-719 keywords with constants only, no positionals (:721)
     /\ "Cal" \in ModGlobals(fam, IF lookup = "function" THEN "base" ELSE OwnerModule(fam))   \* :727-731 get_call_class_type
\* observed identities: own = objects built for the owner's spec, cal = objects found in their parameter, per instantiation
\* (first and second instantiation of the configuration of parse 1, instantiation of the configuration of parse 2);
\* old = instances that existed before (in the declared defaults, in the two configurations)
AllDistinct(a, b, c, old) == Fresh(a, b, old) /\ Fresh(a, c, old) /\ Fresh(b, c, old)
AllTheLive(a, b, c, old)  == a = b /\ b = c /\ Cardinality(a) = 1 /\ a \subseteq old
=============================================================================
