SPECIFICATION Spec
CONSTANTS
  MinClasses = 3
  MaxClasses = 3
  MroOnly = TRUE
  AscBases = TRUE
  MaxOwn = 1
  MaxHard = 1
  MaxPop = 1
  PopClasses = 3
  AttrClasses = 3
  B1 = 0
  B2 = 0
  B3 = 3
  B4 = 0
  B5 = 0
  MaxChain = 1
  FnOwn = 0
  BFn = 4
  EmitAllUpTo = 0
  Sel = 150
  CondSel = 12
  AltMode = 0
  KeepGoing = TRUE
INVARIANT Inv
CHECK_DEADLOCK FALSE
