--------------------------- MODULE Trace_Restricted ---------------------------
(* Validation of observations recorded from the real jsonargparse (code -> spec), property C20.        *)
(* TRACE_FILE holds [num |-> <<...>>, str |-> <<...>>, reg |-> <<...>>, secret |-> <<...>>]:           *)
(*   num     [T, x, chan, ld, obs]     one call of a restricted NUMBER type T on a candidate x through *)
(*                                      channel direct / object / cli; obs = what came back            *)
(*   str     [re, x, chan, ld, obs]    the same for a restricted STRING type with pattern re           *)
(*   reg     [ty, f, dcls, chan, rep, obs]   one round trip dump -> parse of a registered value through *)
(*                                      channel yaml / json / cli; rep = the representation that was   *)
(*                                      written, obs = outcome class eq / via-float / reject / other   *)
(*   secret  [ctx, secret, dump, dump2]     a dump of a configuration holding a SecretStr, and the     *)
(*                                      dump of the same configuration with another secret             *)
(* Every observation is evaluated independently with the operators of Restricted.tla; each failing     *)
(* clause is printed as <<"R", kind, index, clause>> (never stops at the first).  Clauses starting     *)
(* with "ref" are property-level (verdict), the others are Alg-level (drift).                          *)
EXTENDS Restricted, Json, IOUtils, TLCExt
CONSTANT TGroups

Data == JsonDeserialize(IOEnv.TRACE_FILE)
Kinds == <<"num", "str", "reg", "secret">>
\* (round 4) regx [ty, f, dcls, mode, ctx, chan, rep, obs]: a registered value through a parser of another mode (ctx = "bare",
\* chan file / cli) or inside a container / dataclass field / default (mode = "yaml", chan yaml / json / cli)
CountOf(kd) == CASE kd = "num" -> Len(Data.num) [] kd = "str" -> Len(Data.str) [] kd = "reg" -> Len(Data.reg) [] kd = "secret" -> Len(Data.secret)
                 [] kd = "regx" -> Len(Data.regx)

\* root -> groups -> observations (so that the workers share the observations)
VARIABLES tkind, tnum
tvars == <<tkind, tnum>>
Init == tkind = "root" /\ tnum = 0
Next == \/ tkind = "root" /\ \E g \in 1..TGroups : tkind' = "group" /\ tnum' = g
        \/ tkind = "group" /\ \E kd \in {"num", "str", "reg", "secret", "regx"} : \E n \in {m \in 1..CountOf(kd) : m % TGroups = tnum % TGroups} :
                                  tkind' = kd /\ tnum' = n

Say(kind, index, clause) == PrintT(<<"R", kind, index, clause>>)

\* ---- decoding
NumOf(j) == [s |-> j[1], n |-> <<j[2], j[3]>>]
ValOf(j) == IF j.k \in {"str", "bytes"} THEN TextV(j.k, j.t) ELSE Val(j.k, NumOf(j.v), << >>)
TypeOf(j) == NType(j.base, [n \in 1..Len(j.r) |-> <<j.r[n][1], Fin(j.r[n][2], j.r[n][3])>>], j.join)
RECURSIVE ToRe(_)
ToRe(j) == CASE j.k = "chr" -> [k |-> "chr", s |-> {j.s[n] : n \in 1..Len(j.s)}, neg |-> j.neg]
             [] j.k \in {"cat", "alt"} -> [k |-> j.k, a |-> [n \in 1..Len(j.a) |-> ToRe(j.a[n])]]
             [] j.k \in {"star", "plus", "opt", "ci"} -> [k |-> j.k, r |-> ToRe(j.r)]
             [] j.k = "rep" -> [k |-> "rep", r |-> ToRe(j.r), lo |-> j.lo, hi |-> j.hi]
             [] OTHER -> [k |-> j.k]
\* what was observed: the accepted value (class of the result and its number / text), or Rejected
SeenOf(ob) == IF ob.r = "ok" THEN [k |-> ob.k, v |-> NumOf(ob.v), t |-> ob.t, ni |-> NoNum, nf |-> NoNum] ELSE Rejected
\* the exception class as the channel shows it: a parser turns (TypeError, ValueError) into its own error
ExcAgrees(alg, ob) == alg.r = "ok" \/ alg.exc = ob.exc

CheckNum(n) ==
  LET o    == Data.num[n]
      T    == TypeOf(o.T)
      x    == ValOf(o.x)
      seen == SeenOf(o.obs)
      ref  == RefOutcome(T, x)
      ld   == IF x.k = "str" /\ LoaderCrash(x.t) THEN "crash" ELSE o.ld
      alg  == IF o.chan = "direct" THEN AlgNew(T, x) ELSE AlgParse(LAMBDA y : AlgNew(T, y), x, ld)
  IN /\ SameVal(ref, seen) \/ Say("num", n, IF o.chan # "direct" /\ ld = "crash" /\ SameVal(alg.v, seen) THEN "ref-dev-loader-crash" ELSE "ref")
     /\ (o.chan = "direct" \/ x.k # "str" \/ (o.ld = "crash") = (ld = "crash")) \/ Say("num", n, "alg-ld")       \* the crash model against the real loader
     /\ (o.obs.r = "ok" => o.obs.idem) \/ Say("num", n, "ref-idempotent")          \* casting the result again gave an equal value of the same class
     /\ (o.obs.r = "ok" => o.obs.inst) \/ Say("num", n, "ref-instance")            \* the result is an instance of T and of the base type
     /\ (SameVal(alg.v, seen) /\ ExcAgrees(alg, o.obs)) \/ Say("num", n, "alg")

CheckStr(n) ==
  LET o    == Data.str[n]
      re   == ToRe(o.re)
      x    == ValOf(o.x)
      seen == SeenOf(o.obs)
      ref  == RefStrOutcome(re, x)
      ld   == IF x.k = "str" /\ LoaderCrash(x.t) THEN "crash" ELSE o.ld
      alg  == IF o.chan = "direct" THEN AlgStrNew(re, x) ELSE AlgParse(LAMBDA y : AlgStrNew(re, y), x, ld)
  IN /\ SameVal(ref, seen) \/ Say("str", n, IF o.chan # "direct" /\ ld = "crash" /\ SameVal(alg.v, seen) THEN "ref-dev-loader-crash" ELSE "ref")
     /\ (o.chan = "direct" \/ x.k # "str" \/ (o.ld = "crash") = (ld = "crash")) \/ Say("str", n, "alg-ld")
     /\ (o.obs.r = "ok" => o.obs.idem) \/ Say("str", n, "ref-idempotent")
     /\ (o.obs.r = "ok" => o.obs.inst) \/ Say("str", n, "ref-instance")
     /\ (SameVal(alg.v, seen) /\ ExcAgrees(alg, o.obs)) \/ Say("str", n, "alg")

\* opaque decimals (coefficient / exponent beyond TLC's integers): the two facts are supplied, f = <<"exact"|"inexact", digit class>>
XFacts(f) == LET e == IF f[1] = "exact" THEN "eq" ELSE "via-float"
                 c == CASE f[2] = "le15" -> "eq" [] f[2] = "gt17" -> "via-float" [] OTHER -> "eq|via-float"
             IN [rep |-> Flt(NoNum), mis |-> FALSE, crash |-> FALSE, alg |-> <<e, e, c>>,
                 dev |-> <<IF f[1] = "exact" THEN "none" ELSE "float-serializer", IF f[1] = "exact" THEN "none" ELSE "float-serializer",
                           IF f[2] = "le15" THEN "none" ELSE "float-serializer">>]
CheckReg(n) ==
  LET o == Data.reg[n]
      v == RV(o.ty, o.f)
      F == IF o.ty = "DecimalX" THEN XFacts(o.f) ELSE RegFacts(v, o.dcls)
      c == ChanIdx(o.chan)
  IN /\ (o.obs = RefRoundTrip(v, o.chan)) \/ Say("reg", n, IF AlgAllows(F.alg[c], o.obs) /\ F.dev[c] # "none" THEN "ref-dev-" \o F.dev[c] ELSE "ref-other")
     /\ AlgAllows(F.alg[c], o.obs) \/ Say("reg", n, "alg")
     /\ (F.rep.k # "str" \/ o.rep.k # "str" \/ o.rep.t = F.rep.t) \/ Say("reg", n, "alg-rep")      \* the representation that was written
     /\ (o.ty # "Decimal" \/ o.exact = DecExact(o.f)) \/ Say("reg", n, "alpha-exact")               \* self-check of the harness' abstraction

CheckRegX(n) ==
  LET o   == Data.regx[n]
      v   == RV(o.ty, o.f)
      inC == o.ctx # "bare"
      F   == IF inC THEN RegFactsCtx(v, o.dcls, o.ctx) ELSE RegFactsM(v, o.dcls, o.mode)
      c   == IF inC THEN ChanIdx(o.chan) ELSE MChanIdx(o.chan)
      ref == IF inC THEN RefRoundTripCtx(v, o.ctx, o.chan) ELSE "eq"
  IN /\ RefAllows(ref, o.obs) \/ Say("regx", n, IF AlgAllows(F.alg[c], o.obs) /\ F.dev[c] \notin {"none", "null-text"} THEN "ref-dev-" \o F.dev[c] ELSE "ref-other")
     /\ AlgAllows(F.alg[c], o.obs) \/ Say("regx", n, "alg")
     /\ (F.rep.k # "str" \/ o.rep.k # "str" \/ o.rep.t = F.rep.t) \/ Say("regx", n, "alg-rep")

CheckSecret(n) ==
  LET o == Data.secret[n] IN
     /\ RefNoLeak(o.secret, o.dump, o.dump2) \/ Say("secret", n, "ref-leak")
     /\ (o.dump = o.dump2) \/ Say("secret", n, "ref-interference")                                  \* the dump does not depend on the secret
     /\ (~o.leafdumped \/ Occurs(AlgDumpedLeaf(o.ctx, o.secret), o.dump)) \/ Say("secret", n, "alg")      \* leafdumped: the entry is not dropped (skip_default)

Check == CASE tkind = "num" -> CheckNum(tnum) [] tkind = "str" -> CheckStr(tnum) [] tkind = "reg" -> CheckReg(tnum)
           [] tkind = "secret" -> CheckSecret(tnum) [] tkind = "regx" -> CheckRegX(tnum) [] OTHER -> TRUE
Inv == Check \/ TRUE
=============================================================================
