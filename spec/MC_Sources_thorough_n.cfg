SPECIFICATION Spec
CONSTANTS
  Focus = {"n"}
  NDcf = 3
  MaxArgv = 4
  Repeat = TRUE
  Emit = TRUE
INVARIANT DocumentedOrder
INVARIANT StagesAgree
INVARIANT NoPendingAppend
INVARIANT LastOptWins
INVARIANT EmitCase
CHECK_DEADLOCK FALSE
