----------------------------- MODULE SubSources -----------------------------
(***************************************************************************)
(* The sources of an option that belongs to a SUB-COMMAND (property C04    *)
(* below a sub-command: "sources override each other in the documented     *)
(* order").  Sources.tla specifies the flat parser; this module the        *)
(* situation                                                               *)
(*                                                                         *)
(*   root parser   --cfg, [--l : List[int] = [7]]   default_config_files   *)
(*     sub-command a   --cfg, --x : int = 0, --l : List[int] = [0]         *)
(*                     default_config_files of its own                     *)
(*     sub-command b   (the other one)                                     *)
(*                                                                         *)
(* where a value for a.x / a.l can come from: the sub-parser's defaults,   *)
(* the sub-parser's default config file, the SECTION `a:` of the root      *)
(* parser's default config file, the environment (APP_A__X, APP_A__L),     *)
(* the section `a:` of a --cfg given BEFORE the sub-command name, and,     *)
(* after the name, the sub-parser's own --cfg and options (--x, --l,       *)
(* --l+).                                                                  *)
(*                                                                         *)
(* Ref   the documented order  defaults < default config files <           *)
(*       environment < command line (left to right); the order BETWEEN the *)
(*       two default config files is not documented: both are allowed.     *)
(* Alg   what the code does: root-level documents are merged into the ROOT *)
(*       namespace (apply_appends at the root), the sub-parser parses on   *)
(*       its own (defaults < its file < its environment) and the section   *)
(*       collected at the root is merged OVER that result when the name is *)
(*       reached (_ActionSubCommands.__call__, _actions.py:661-673, and    *)
(*       handle_subcommands :783-797).                                     *)
(***************************************************************************)
EXTENDS Naturals, Sequences, FiniteSets, TLC

Keys == {"x", "l"}
NoVal == <<99998>>                                       \* "the section holds no value for this key"
Asg(k, op, v) == [k |-> k, op |-> op, v |-> v]          \* op: "set" | "app" (key+ in a document, --l+ on the command line)
SubDefaults == [x |-> <<0>>, l |-> <<0>>]
RootL == <<7>>                                          \* the root parser's own --l, when it has one

(***************************************************************************)
(* Ref                                                                     *)
(***************************************************************************)
Apply(cfg, a) == IF a.op = "set" THEN [cfg EXCEPT ![a.k] = a.v] ELSE [cfg EXCEPT ![a.k] = @ \o a.v]
RECURSIVE FoldAsgs(_, _, _)
FoldAsgs(cfg, asgs, i) == IF i > Len(asgs) THEN cfg ELSE FoldAsgs(Apply(cfg, asgs[i]), asgs, i + 1)
RECURSIVE Flatten(_, _)
Flatten(docs, i) == IF i > Len(docs) THEN << >> ELSE docs[i] \o Flatten(docs, i + 1)
ItemAsgs(items) == Flatten([j \in 1..Len(items) |-> items[j].asgs], 1)
\* s = [rootl, sdcf, dcf, env, pre (documents before the name), post (items after the name),
\*      sel    how sub-command `a` is selected: "name" (named on the command line), "section" (by the section of a
\*             root-level document alone; post is empty) or "key" (a first --cfg={"subcommand": "a"}; post is empty),
\*      first  `a` is declared before the other sub-command `b`,
\*      other  the root default config file ALSO holds a section for `b`,
\*      dotted the root-level documents spell the section with dotted keys ("a.x": 8) instead of nested mappings;
\*             "yes" | "no" | "any" (the renderer chooses; the invariant SpellingIrrelevant shows it cannot matter)]
RefWith(s, files) == FoldAsgs(SubDefaults, files \o s.env \o Flatten(s.pre, 1) \o ItemAsgs(s.post), 1)
RefOutcomes(s) == {RefWith(s, s.sdcf \o s.dcf), RefWith(s, s.dcf \o s.sdcf)}

(***************************************************************************)
(* Alg                                                                     *)
(***************************************************************************)
\* the sub-parser's own parse (parse_args of the sub-parser, or parse_env / get_defaults in handle_subcommands):
\* its defaults < its default config file < its environment variables
\* When handle_subcommands runs the sub-parser (parse_env / get_defaults inside parent_parsers_context, _actions.py:
\* 783-791) the sub-parser ALSO reads the section `a:` of its parent's default config files (_get_default_config_files,
\* _core.py:972-987: the parents' files come first, each with its key) -- with the sub-parser's own semantics, so an
\* `l+` there extends the sub-parser's default.  The parse started by the NAME on the command line
\* (_ActionSubCommands.__call__) runs outside that context: no parent lookup.
\* The lookup takes the MAPPING found under the key `a` of the document (_load_config_parser_mode, _core.py:722-725
\* cfg_dict.get(key, {})): a file that spells the section with dotted keys has no such mapping and contributes nothing.
SubBaseD(s, withEnv, withParent, dotted) == FoldAsgs(SubDefaults, (IF withParent /\ dotted # "yes" THEN s.dcf ELSE << >>) \o s.sdcf \o (IF withEnv THEN s.env ELSE << >>), 1)
SubBaseP(s, withEnv, withParent) == SubBaseD(s, withEnv, withParent, s.dotted)
SubBase(s, withEnv) == SubBaseP(s, withEnv, FALSE)
\* a document given at the ROOT level is merged into the root namespace: merge_config (_core.py:1405-1412) updates the
\* keys a.x / a.l and then apply_appends (_typehints.py:488-495) resolves `a.l+`: the action found is the SUB-parser's
\* --l, whose _check_type looks its previous value up under its own dest, `l`, in the namespace it is handed -- the
\* ROOT namespace (:567 prev_val = cfg.get(self.dest)): the root parser's own --l if there is one, else nothing.
RootPrev(s) == IF s.rootl THEN RootL ELSE << >>
RootApply(s, sec, a) == IF a.op = "set" THEN [sec EXCEPT ![a.k] = a.v] ELSE [sec EXCEPT ![a.k] = RootPrev(s) \o a.v]
RECURSIVE RootMerge(_, _, _, _)
RootMerge(s, sec, asgs, i) == IF i > Len(asgs) THEN sec ELSE RootMerge(s, RootApply(s, sec, asgs[i]), asgs, i + 1)
Over(sec, base) == [k \in Keys |-> IF sec[k] = NoVal THEN base[k] ELSE sec[k]]
EmptySec == [k \in Keys |-> NoVal]
\* get_defaults (_core.py:1030-1062) parses the root default config file and merges it into the root defaults: the keys
\* of its section `a:` (and only those) are in the root namespace from then on
\* ... unless the file holds sections for SEVERAL sub-commands: get_defaults parses the file in the single-sub-command
\* mode (get_subcommands:713-724), which chooses the first DECLARED sub-command that has a section and deletes the others
Pruned(s) == s.other /\ ~s.first /\ s.dcf # << >>
AfterDcf(s) == IF Pruned(s) THEN EmptySec ELSE RootMerge(s, EmptySec, s.dcf, 1)
AfterPre(s) == RootMerge(s, AfterDcf(s), Flatten(s.pre, 1), 1)
\* the sub-command name: the sub-parser parses the rest of the command line starting from its own defaults, file and
\* environment with the section collected so far merged OVER them
\* (without a name on the command line handle_subcommands does the merge, over the sub-parser's result WITH the parent lookup)
AtName(s) == Over(AfterPre(s), SubBaseP(s, TRUE, s.sel # "name"))
AlgFinal(s) == FoldAsgs(AtName(s), ItemAsgs(s.post), 1)
AlgFinalSpelled(s, dotted) == FoldAsgs(Over(AfterPre(s), SubBaseD(s, TRUE, s.sel # "name", dotted)), ItemAsgs(s.post), 1)
SpellingIrrelevant(s) == AlgFinalSpelled(s, "yes") = AlgFinalSpelled(s, "no")

(***************************************************************************)
(* Named deviations (genuine defects of the pinned tree)                   *)
(***************************************************************************)
HasApp(asgs) == \E i \in 1..Len(asgs) : asgs[i].op = "app"
\* C04 sub-command:root-doc-append -- `l+` inside the section of a root-level document does not extend the value the
\* sub-command's --l has at that point
RootDocAppend(s) == HasApp(s.dcf) \/ HasApp(Flatten(s.pre, 1))
\* C17 dcf:subcommand-settings seen from C04 -- the section of the root default config file beats the environment
DcfOverEnv(s) == ~Pruned(s) /\ \E i \in 1..Len(s.dcf), j \in 1..Len(s.env) : s.dcf[i].k = s.env[j].k
\* C04 sub-command:dcf-section-pruned -- the root default config file has sections for several sub-commands and `a` is
\* not the first declared one: its section is deleted when the file is loaded; a sub-command NAMED on the command line
\* never sees it again (one selected by a config does, through the parent lookup)
DcfSectionPruned(s) == Pruned(s) /\ s.sel = "name"
\* C04 sub-command:dcf-dotted-section-not-looked-up -- the same sub-command selected by a config reads the pruned section
\* back through the parent lookup only when the file spells it as a nested mapping
DcfDottedNotLookedUp(s) == Pruned(s) /\ s.sel # "name" /\ s.dotted = "yes"
Deviation(s) == IF AlgFinal(s) \in RefOutcomes(s) THEN "none"
                ELSE IF DcfSectionPruned(s) THEN (IF HasApp(Flatten(s.pre, 1)) THEN "dcf-section-pruned+root-doc-append" ELSE "dcf-section-pruned")
                ELSE IF DcfDottedNotLookedUp(s) THEN (IF HasApp(Flatten(s.pre, 1)) THEN "dcf-dotted-section-not-looked-up+root-doc-append" ELSE "dcf-dotted-section-not-looked-up")
                ELSE IF RootDocAppend(s) /\ DcfOverEnv(s) THEN "root-doc-append+dcf-over-env"
                ELSE IF RootDocAppend(s) THEN "root-doc-append"
                ELSE IF DcfOverEnv(s) THEN "dcf-over-env"
                ELSE "unnamed"
AlgRefinesRefModuloNamed(s) == Deviation(s) # "unnamed"
=============================================================================
