----------------------------- MODULE SubSources -----------------------------
(***************************************************************************)
(* The sources of an option that belongs to a SUB-COMMAND (property C04    *)
(* below a sub-command: "sources override each other in the documented     *)
(* order").  Sources.tla specifies the flat parser; this module the        *)
(* situation                                                               *)
(*                                                                         *)
(*   root parser   --cfg, [--l : List[int] = [7]]   default_config_files   *)
(*     sub-command a   --cfg, --x : int = 0, --l : List[int] = [0]         *)
(*                     default_config_files of its own                     *)
(*     sub-command b   (the other one)                                     *)
(*                                                                         *)
(* where a value for a.x / a.l can come from: the sub-parser's defaults,   *)
(* the sub-parser's default config file, the SECTION `a:` of the root      *)
(* parser's default config file, the environment (APP_A__X, APP_A__L),     *)
(* the section `a:` of a --cfg given BEFORE the sub-command name, and,     *)
(* after the name, the sub-parser's own --cfg and options (--x, --l,       *)
(* --l+).                                                                  *)
(*                                                                         *)
(* Ref   the documented order  defaults < default config files <           *)
(*       environment < command line (left to right); the order BETWEEN the *)
(*       two default config files is not documented: both are allowed.     *)
(* Alg   what the code does: root-level documents are merged into the ROOT *)
(*       namespace (apply_appends at the root), the sub-parser parses on   *)
(*       its own (defaults < its file < its environment) and the section   *)
(*       collected at the root is merged OVER that result when the name is *)
(*       reached (_ActionSubCommands.__call__, _actions.py:661-673, and    *)
(*       handle_subcommands :783-797).                                     *)
(***************************************************************************)
EXTENDS Naturals, Sequences, FiniteSets, TLC

Keys == {"x", "l"}
NoVal == <<99998>>                                       \* "the section holds no value for this key"
Asg(k, op, v) == [k |-> k, op |-> op, v |-> v]          \* op: "set" | "app" (key+ in a document, --l+ on the command line)
SubDefaults == [x |-> <<0>>, l |-> <<0>>]
RootL == <<7>>                                          \* the root parser's own --l, when it has one

(***************************************************************************)
(* Ref                                                                     *)
(***************************************************************************)
Apply(cfg, a) == IF a.op = "set" THEN [cfg EXCEPT ![a.k] = a.v] ELSE [cfg EXCEPT ![a.k] = @ \o a.v]
RECURSIVE FoldAsgs(_, _, _)
FoldAsgs(cfg, asgs, i) == IF i > Len(asgs) THEN cfg ELSE FoldAsgs(Apply(cfg, asgs[i]), asgs, i + 1)
RECURSIVE Flatten(_, _)
Flatten(docs, i) == IF i > Len(docs) THEN << >> ELSE docs[i] \o Flatten(docs, i + 1)
ItemAsgs(items) == Flatten([j \in 1..Len(items) |-> items[j].asgs], 1)
\* s = [rootl, sdcf, dcf, env, pre (documents before the name), post (items after the name), named (the sub-command is
\* named on the command line; otherwise it is selected by the section of a root-level document and post is empty)]
RefWith(s, files) == FoldAsgs(SubDefaults, files \o s.env \o Flatten(s.pre, 1) \o ItemAsgs(s.post), 1)
RefOutcomes(s) == {RefWith(s, s.sdcf \o s.dcf), RefWith(s, s.dcf \o s.sdcf)}

(***************************************************************************)
(* Alg                                                                     *)
(***************************************************************************)
\* the sub-parser's own parse (parse_args of the sub-parser, or parse_env / get_defaults in handle_subcommands):
\* its defaults < its default config file < its environment variables
SubBase(s, withEnv) == FoldAsgs(SubDefaults, s.sdcf \o (IF withEnv THEN s.env ELSE << >>), 1)
\* a document given at the ROOT level is merged into the root namespace: merge_config (_core.py:1405-1412) updates the
\* keys a.x / a.l and then apply_appends (_typehints.py:488-495) resolves `a.l+`: the action found is the SUB-parser's
\* --l, whose _check_type looks its previous value up under its own dest, `l`, in the namespace it is handed -- the
\* ROOT namespace (:567 prev_val = cfg.get(self.dest)): the root parser's own --l if there is one, else nothing.
RootPrev(s) == IF s.rootl THEN RootL ELSE << >>
RootApply(s, sec, a) == IF a.op = "set" THEN [sec EXCEPT ![a.k] = a.v] ELSE [sec EXCEPT ![a.k] = RootPrev(s) \o a.v]
RECURSIVE RootMerge(_, _, _, _)
RootMerge(s, sec, asgs, i) == IF i > Len(asgs) THEN sec ELSE RootMerge(s, RootApply(s, sec, asgs[i]), asgs, i + 1)
Over(sec, base) == [k \in Keys |-> IF sec[k] = NoVal THEN base[k] ELSE sec[k]]
EmptySec == [k \in Keys |-> NoVal]
\* get_defaults (_core.py:1030-1062) parses the root default config file and merges it into the root defaults: the keys
\* of its section `a:` (and only those) are in the root namespace from then on
AfterDcf(s) == RootMerge(s, EmptySec, s.dcf, 1)
AfterPre(s) == RootMerge(s, AfterDcf(s), Flatten(s.pre, 1), 1)
\* the sub-command name: the sub-parser parses the rest of the command line starting from its own defaults, file and
\* environment with the section collected so far merged OVER them
\* (without a name on the command line handle_subcommands does the same merge with parse_env of the sub-parser)
AtName(s) == Over(AfterPre(s), SubBase(s, TRUE))
AlgFinal(s) == FoldAsgs(AtName(s), ItemAsgs(s.post), 1)

(***************************************************************************)
(* Named deviations (genuine defects of the pinned tree)                   *)
(***************************************************************************)
HasApp(asgs) == \E i \in 1..Len(asgs) : asgs[i].op = "app"
\* C04 sub-command:root-doc-append -- `l+` inside the section of a root-level document does not extend the value the
\* sub-command's --l has at that point
RootDocAppend(s) == HasApp(s.dcf) \/ HasApp(Flatten(s.pre, 1))
\* C17 dcf:subcommand-settings seen from C04 -- the section of the root default config file beats the environment
DcfOverEnv(s) == \E i \in 1..Len(s.dcf), j \in 1..Len(s.env) : s.dcf[i].k = s.env[j].k
Deviation(s) == IF AlgFinal(s) \in RefOutcomes(s) THEN "none"
                ELSE IF RootDocAppend(s) /\ DcfOverEnv(s) THEN "root-doc-append+dcf-over-env"
                ELSE IF RootDocAppend(s) THEN "root-doc-append"
                ELSE IF DcfOverEnv(s) THEN "dcf-over-env"
                ELSE "unnamed"
AlgRefinesRefModuloNamed(s) == Deviation(s) # "unnamed"
=============================================================================
