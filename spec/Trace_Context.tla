---------------------------- MODULE Trace_Context ----------------------------
(* Validation of histories recorded from the real jsonargparse (code -> spec), properties C09 / C08 (process state). *)
(* TRACE_FILE holds                                                                                                  *)
(*   roots, names   the root parsers of the process and all parsers (roots and their sub-parsers)                    *)
(*   ops            table of abstract calls (the records of Context.tla)                                             *)
(*   posts          table of residual states observed from outside after a call                                      *)
(*                  [hskip, pending, args, shtab, dcf, pk, sap, dk, managed]  ("n/a": component not observable)                  *)
(*   outs           table of outcomes [c |-> class, d |-> digest of channel/exit status/stdout/result/message]       *)
(*   traces         one sequence of steps per history (each history ran in its own process, from the initial         *)
(*                  state): step = [o, q, r, f, p] = call, observed post state, outcome on the REUSED parser,        *)
(*                  on a FRESH identical parser in the same process, on a fresh parser in a PRISTINE process.        *)
(* The Alg machine of Context.tla is run along every trace from the initial residual state (no re-synchronisation    *)
(* with the observations: a residue the model does not predict never excuses a later deviation).  For every step:    *)
(*   ref       (verdict, C09)  the three outcomes are equal.  If not, and the MODEL says a print-config request is    *)
(*             pending on that parser and the reused outcome is the one the model predicts while both fresh outcomes  *)
(*             are the Ref outcome: "ref-pending-as-alg" (the recorded deviation; impossible with ClearOnError = TRUE);  *)
(*             likewise "ref-shtab-as-alg" when the model says --print_shtab=<shell> was run on that root parser and    *)
(*             the call is a parse_args that fails as predicted; "ref-helpskip-as-alg" when the MODEL says the call     *)
(*             prints the class help of a class-typed argument from a dict in which an earlier help request for a       *)
(*             callable type left skip = {k} (run.dev), the answer class is the model's, the fresh parser in the SAME   *)
(*             process answers identically (the class-level dict is process-wide) and the pristine                     *)
(*             process gives the Ref class; a difference only against the                                               *)
(*             pristine process: "ref-process"; anything else: "ref".                                                *)
(*   alg-out   the class of the reused outcome is the model's                                                        *)
(*   gamma     the class of the pristine outcome is RefOutcome (cross-check of the declared call attributes)         *)
(*   alg-post:<component>  the observed residual state is the model's                                                *)
(*   managed   every try/finally-managed piece of process state is back to its initial value                         *)
(*   stale     the model says the call read residue of an earlier call                                               *)
(* Failing clauses are printed as <<"R", trace, step, clause, detail>>; nothing stops at the first failure.          *)
EXTENDS Context, Json, IOUtils

Data   == JsonDeserialize(IOEnv.TRACE_FILE)
TOps   == Data.ops
Posts  == Data.posts
Outs   == Data.outs
Traces == Data.traces
RootSet == {Data.roots[i] : i \in 1..Len(Data.roots)}
NameSet == {Data.names[i] : i \in 1..Len(Data.names)}

VARIABLES tid, k, res
vars == <<tid, k, res>>
Init == tid \in 1..Len(Traces) /\ k = 1 /\ res = Res0(RootSet, NameSet)
Next == /\ k <= Len(Traces[tid])
        /\ res' = AlgRun(TOps[Traces[tid][k].o], res).res
        /\ k' = k + 1 /\ UNCHANGED tid

Say(clause, detail) == PrintT(<<"R", tid, k, clause, detail>>)
Same(x, y) == x = "n/a" \/ x = y

CheckStep ==
  LET s   == Traces[tid][k]
      o   == TOps[s.o]
      q   == Posts[s.q]
      ru  == Outs[s.r]
      fr  == Outs[IF s.f = 0 THEN s.r ELSE s.f]
      pr  == Outs[s.p]
      run == AlgRun(o, res)
      exp == RefOutcome(o)
  IN /\ (s.f = 0 \/ (ru = fr /\ ru = pr))                       \* s.f = 0: a positioning step of a tour, not probed on a fresh parser
        \/ Say(IF PendingResidue(o, res) /\ ru.c = run.out /\ fr.c = exp /\ pr.c = exp /\ fr = pr THEN "ref-pending-as-alg"
               ELSE IF ShtabResidue(o, res) /\ ru.c = run.out /\ fr.c = exp /\ pr.c = exp /\ fr = pr THEN "ref-shtab-as-alg"
               ELSE IF run.dev /\ HelpSkipResidue(o, res) /\ o.hscope = "shared" /\ ru.c = run.out /\ ru = fr /\ pr.c = exp THEN "ref-helpskip-as-alg"
               ELSE IF ru = fr THEN "ref-process" ELSE "ref",
               IF ShtabResidue(o, res) THEN "broken" ELSE IF run.dev THEN "skip=" \o res.hskip[o.hscope] ELSE res.pending[o.p])
     /\ ru.c = run.out \/ Say("alg-out", run.out \o " expected, observed " \o ru.c)
     /\ pr.c = exp \/ Say("gamma", exp \o " expected, observed " \o pr.c)
     /\ q.pending = run.res.pending \/ Say("alg-post:pending", ToString(run.res.pending))
     /\ q.args = run.res.args \/ Say("alg-post:args", ToString(run.res.args))
     /\ q.shtab = run.res.shtab \/ Say("alg-post:shtab", ToString(run.res.shtab))
     /\ q.dcf = run.res.dcf \/ Say("alg-post:dcf", ToString(run.res.dcf))
     /\ (\A sc \in HelpScopes : Same(q.hskip[sc], run.res.hskip[sc])) \/ Say("alg-post:hskip", ToString(run.res.hskip))
     /\ Same(q.pk, run.res.pk) \/ Say("alg-post:pk", run.res.pk)
     /\ Same(q.sap, run.res.sap) \/ Say("alg-post:sap", run.res.sap)
     /\ Same(q.dk, run.res.dk) \/ Say("alg-post:dk", run.res.dk)
     /\ q.managed \/ Say("managed", "")
     /\ ~run.stale \/ Say("stale", "")

Inv == k > Len(Traces[tid]) \/ CheckStep \/ TRUE
=============================================================================
