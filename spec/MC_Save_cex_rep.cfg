SPECIFICATION Spec
CONSTANTS
  Variant = "code"
  Level = 1
  MaxFaults = 1
  Ext = 0
  Emit = FALSE
INVARIANT InvSavedReparses
CHECK_DEADLOCK FALSE
