INIT InitMachine
NEXT NextMachine
CONSTANTS
  MaxFlat = 3
  FullPermsUpTo = 2
  AllKindsUpTo = 2
  MaxDeepLinks = 1
  DeepFull = FALSE
  Emit = FALSE
INVARIANT MTypeOK
INVARIANT Bookkeeping
INVARIANT NoStale
INVARIANT AppliedBeforeBuilt
INVARIANT MachineAgreesWithFold
INVARIANT DoneRefinesRef
INVARIANT RejectedRefinesRef
CHECK_DEADLOCK FALSE
