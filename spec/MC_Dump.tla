----------------------------- MODULE MC_Dump -----------------------------
(* Bounded instance of Dump.tla.                                                                                  *)
(*  leaf cases   (type term, input tree, format): the input is accepted (Accept) into a configuration value, the  *)
(*               value is serialised, written, read back and adapted again; TLC checks IdealRoundTrip,           *)
(*               RoundTripModuloKnown and HazardsAreReal on every case and prints the case with its predictions.  *)
(*  cfg cases    (parser shape, configuration, format, skip_none, skip_default): CfgRoundTripModuloKnown, and     *)
(*               IdealCfgRoundTrip outside the named cfg-level deviations.                                        *)
(* The heavy evaluation happens in the Next step (so that the workers share it) and is cached in `f`.             *)
EXTENDS Dump, Json, SequencesExt
CONSTANTS Depth2,     \* TRUE: also the depth-2 type terms and the larger text set
          Emit

\* ------------------------------------------------------------------ leaf vocabulary
HazardTexts  == {<<"1","e","3">>, <<".","_","1">>, <<"a","NEL","b">>}
ControlTexts == {<<"a","b","c">>, <<"1">>, <<"t","r","u","e">>, <<"n","u","l","l">>, << >>, <<"R","E","D">>, <<" ","x">>}
MoreTexts    == {<<"1","E","3">>, <<"1",".","e","3">>, <<"-","9","e","1">>, <<".","_">>, <<"1",".","5">>, <<"2","0","0","1","-","0","1","-","0","1">>, <<"~">>, <<"o","n">>, <<"0","x","1","F">>, <<"1","_","0","0","0">>, <<".","i","n","f">>, <<"I","n","f","i","n","i","t","y">>, <<"1","e","+","3">>, <<"-"," ","a">>, <<"#","c">>, <<"x",":"," ","y">>, <<"[","1","]">>}
\* round 4: the parser modes json / jsonnet (cfg: CONSTANT ParserMode <- ModeJson / ModeJsonnet) get the texts and numbers
\* that matter there: raw LS / unprintable characters in JSON strings, integral floats, -0.0, ints beyond 2^53
ModeJson == "json"
ModeJsonnet == "jsonnet"
OtherMode == ParserMode # "yaml"
ModeTexts    == IF OtherMode THEN {<<"a"," ","LS"," ","b">>, <<"a","NPR","b">>, <<"[","1","]">>, <<"1",".","0">>} ELSE {}
StrTexts     == HazardTexts \cup ControlTexts \cup ModeTexts \cup (IF Depth2 THEN MoreTexts ELSE {})
IntTexts     == {<<"0">>, <<"1">>, <<"-","5">>} \cup (IF OtherMode THEN {<<"9","0","0","7","1","9","9","2","5","4","7","4","0","9","9","3">>} ELSE {})
FloatReprs   == {<<"1",".","5">>, <<"1","e","+","1","6">>, <<"i","n","f">>, <<"n","a","n">>} \cup (IF Depth2 THEN {<<"-","0",".","0">>, <<"-","i","n","f">>, <<"1","e","-","0","7">>, <<"3",".","0">>} ELSE {})
                \cup (IF OtherMode THEN {<<"3",".","0">>, <<"-","0",".","0">>, <<"1","e","+","2","2">>, <<"1","e","-","0","7">>} ELSE {})
KeyTexts     == {<<"a">>, <<"1","e","3">>, <<"1">>} \cup (IF Depth2 THEN {<<"t","r","u","e">>, <<".","_","1">>, << >>} ELSE {}) \cup (IF OtherMode THEN {<<"a","LS","b">>, <<"o","n">>} ELSE {})

Color  == TEnum(<<<<"R","E","D">>, <<"G","R","E","E","N">>>>)
Color2 == TEnum(<<<<"A">>, <<"B">>>>)
RPath  == TReg("Rpath")    RTd == TReg("Rtd")    RUuid == TReg("Ruuid")    RCplx == TReg("Rcomplex")
RRange == TReg("Rrange")   RDec == TReg("Rdec")  RBytes == TReg("Rbytes")  RBArr == TReg("Rbytearray")  RPLike == TReg("Rpathlike")
\* what a config file can hold for a registered type: every branch of its serializer / deserializer
RegTexts(name) == CASE name = "Rpath" -> {<<"/","x">>, <<"a","/","b">>, <<"N","o","n","e">>}
                    [] name = "Rpathlike" -> {<<"/","x">>, <<"a"," ","b">>}
                    [] name = "Rtd"   -> {<<"0",":","0","0",":","0","1">>, <<"1",":","0","2",":","0","3">>, <<"1"," ","d","a","y",","," ","2",":","0","3",":","0","4">>, <<"-","1"," ","d","a","y",","," ","2","3",":","5","9",":","5","9">>, <<"2"," ","d","a","y","s",","," ","0",":","0","0",":","0","0">>, <<"0",":","0","0",":","0","1",".","5","0","0","0","0","0">>, <<"2","6",":","0","3",":","0","4">>, <<"4","7",":","5","9",":","5","9">>}
                    [] name = "Ruuid" -> {<<"1","2","3","4","5","6","7","8","-","1","2","3","4","-","5","6","7","8","-","1","2","3","4","-","5","6","7","8","1","2","3","4","5","6","7","8">>}
                    [] name = "Rrange" -> {<<"r","a","n","g","e","(","5",")">>, <<"r","a","n","g","e","(","2",","," ","5",")">>, <<"r","a","n","g","e","(","0",","," ","1","0",","," ","2",")">>, <<"r","a","n","g","e","(","1",","," ","1","0",","," ","3",")">>, <<"r","a","n","g","e","(","1","0",","," ","0",","," ","-","2",")">>, <<"r","a","n","g","e","(","0",")">>, <<"r","a","n","g","e","(","5",","," ","1",")">>, <<"r","a","n","g","e","(","0",","," ","5",","," ","1",")">>, <<"r","a","n","g","e","(","-","3",",","3",")">>}
                    [] name = "Rdec"  -> {<<"0",".","5">>, <<"3">>, <<"-","2",".","2","5">>, <<"0",".","1">>}
                    [] name \in {"Rbytes", "Rbytearray"} -> {<<"a","G","k","=">>, << >>, <<"/","+","8","=">>}
                    [] OTHER          -> {<<"(","1","+","2","j",")">>, <<"3","j">>}
LitT   == TLiteral(<<Str(<<"a">>), Str(<<"1","e","3">>), IntV(<<"1">>), NullV>>)
DC1    == TDC(<< <<<<"a">>, TInt, IntV(<<"1">>)>>, <<<<"s">>, TStr, Str(<<"x">>)>> , <<<<"o">>, TOpt(TStr), NullV>> >>)
DCR    == TDC(<< <<<<"r">>, RRange, RegV("Rrange", <<"r","a","n","g","e","(","0",","," ","4",","," ","2",")">>)>>, <<<<"t">>, TOpt(RTd), NullV>> >>)
\* TLC orders the fields of a record by the order in which it first met their names, so a set that holds records of
\* different kinds may compare a text with a sequence of records and abort.  Every set of types / values below therefore
\* holds PAIRS <<ToString(x), x>>: the string decides the comparison.
Tag(x) == <<ToString(x), x>>
Untag(S) == {p[2] : p \in S}
RegNumbers(name) == IF name = "Rdec" THEN {Tag(Flt(<<"0",".","5">>)), Tag(IntV(<<"3">>)), Tag(Flt(<<"2",".","0">>))} ELSE {}     \* a Decimal may also be written as a yaml number
LeavesSeq  == <<TStr, TInt, TFloat, TBool, Color, LitT>>
ULeavesSeq == <<TStr, TInt, TFloat, TBool, Color>>
SeqSet(s) == {Tag(s[i]) : i \in 1..Len(s)}
Leaves == SeqSet(LeavesSeq)
Depth1 == {Tag(TOpt(LeavesSeq[i])) : i \in 1..Len(LeavesSeq)}
     \cup ({Tag(TUnion(<<ULeavesSeq[i], ULeavesSeq[j]>>)) : i, j \in 1..Len(ULeavesSeq)} \ {Tag(TUnion(<<ULeavesSeq[i], ULeavesSeq[i]>>)) : i \in 1..Len(ULeavesSeq)})
     \cup SeqSet(<<TList(TStr), TList(TInt), TList(TFloat), TList(Color)>>)
     \cup (IF Depth2 THEN SeqSet(<<TSet(TStr)>>) ELSE {}) \cup SeqSet(<<TSet(TInt), TTuple(<<TInt, TStr>>), TTuple(<<TStr, TFloat>>), TTupleE(TStr)>>)
     \cup SeqSet(<<TDict(TStr, TStr), TDict(TStr, TInt), TDict(TStr, Color), TDict(TInt, TStr)>>)
     \cup SeqSet(<<TOpt(DC1), TList(DC1), TDict(TStr, DC1)>>)
     \cup SeqSet(<<TUnion(<<Color, Color2>>), TUnion(<<Color2, Color>>), TUnion(<<TTupleE(Color2), TList(Color)>>)>>)
     \* registered types serialised with str(): None ITEMS inside containers must be written null, not 'None'
     \cup SeqSet(<<RPath, TOpt(RPath), TList(TOpt(RPath)), TDict(TStr, TOpt(RTd)), TTuple(<<TOpt(RUuid), TInt>>), TList(TOpt(RCplx)), TList(RTd), TDict(TStr, TOpt(RPath)),
                  TTuple(<<TOpt(RTd), TOpt(RPath)>>)>>)
     \* every registered type at top level, under Optional, as a list item and as a dict value; range / timedelta also in a dataclass
     \cup UNION {SeqSet(<<r, TOpt(r)>>) : r \in {RRange, RTd, RDec, RBytes, RBArr, RPLike, RUuid, RCplx}}
     \cup SeqSet(<<TList(RRange), TList(TOpt(RRange)), TDict(TStr, RRange), TTuple(<<RRange, TInt>>), TList(RDec), TDict(TStr, TOpt(RDec)), TList(RBytes),
                  TList(TOpt(RTd)), TOpt(DCR), TList(DCR)>>)
\* round 4: Enum members named like YAML keywords / numbers, typing.Any, a dataclass with a Union[int, float] field
EnumK  == TEnum(<<<<"o","n">>, <<"n","u","l","l">>, <<"1","e","3">>>>)
DCU    == TDC(<< <<<<"u">>, TUnion(<<TInt, TFloat>>), IntV(<<"1">>)>>, <<<<"s">>, TStr, Str(<<"x">>)>> >>)
DC1Defaults == NSV(<< <<<<"a">>, IntV(<<"1">>)>>, <<<<"s">>, Str(<<"x">>)>>, <<<<"o">>, NullV>> >>)
DCO    == TDC(<< <<<<"i">>, DC1, DC1Defaults>>, <<<<"n">>, TInt, IntV(<<"0">>)>> >>)             \* a dataclass inside a dataclass
\* round 5: order-sensitive mappings (keys NOT in sorted order) and sets whose members are of several kinds
ODSI   == TODict(TStr, TInt)
SetIS  == TSet(TUnion(<<TInt, TStr>>))
SetOI  == TSet(TOpt(TInt))
DCS    == TDC(<< <<<<"o","d">>, ODSI, ODictV(<< >>)>>, <<<<"s","t">>, SetIS, SetV(<< >>)>> >>)
Round5Quick == SeqSet(<<ODSI, TOpt(ODSI), SetIS, SetOI, TSetB, TOpt(DCS)>>)
Round5Types == Round5Quick \cup SeqSet(<<TOpt(SetIS), TList(DCS), TODict(TStr, TStr), TDict(TStr, ODSI), TList(SetOI)>>)
Round4Types == SeqSet(<<EnumK, TOpt(EnumK), TList(EnumK), TDict(TStr, EnumK), TAny, TList(TAny), TDict(TStr, TAny), TOpt(DCU), TOpt(DCO), TList(DCO), TDict(TStr, DCO)>>)
\* the types of the json / jsonnet instances (quick): where the reading of the text matters
ModeTypes == SeqSet(<<TStr, TInt, TFloat, Color, TOpt(TStr), TUnion(<<TInt, TFloat>>), TUnion(<<TStr, TFloat>>),
                     TList(TStr), TDict(TStr, TStr), TDict(TInt, TStr), TOpt(DC1), RDec, EnumK, TAny, TOpt(DCU)>>)
Depth2Types == SeqSet(<<TOpt(TList(TStr)), TOpt(TList(TInt)), TList(TOpt(TStr)), TList(TOpt(TInt)), TDict(TStr, TList(TStr)), TList(TDict(TStr, TInt)),
                TUnion(<<TInt, TList(TInt)>>), TUnion(<<TStr, TList(TStr)>>), TUnion(<<TList(TStr), TStr>>), TList(TTuple(<<TInt, TStr>>)),
                TDict(TStr, TUnion(<<TInt, TStr>>)), TDict(TStr, TOpt(TFloat)), TOpt(TDict(TStr, TStr)), TList(TUnion(<<TStr, TFloat>>)),
                TTuple(<<TOpt(TStr), TList(TInt)>>), TUnion(<<TStr, TInt, TNone>>), TUnion(<<TFloat, TStr, TNone>>), TDict(TInt, TList(TStr)),
                TOpt(TSet(TStr)), TList(TOpt(DC1)), TUnion(<<TBool, TStr>>), TUnion(<<TDict(TStr, TInt), TStr>>), TTuple(<<DC1, TInt>>), TList(TDict(TStr, DC1))>>)
Round4Quick == SeqSet(<<EnumK, TOpt(EnumK), TAny, TOpt(DCU), TOpt(DCO), TDict(TStr, DCO)>>)
Types == IF OtherMode /\ ~Depth2 THEN ModeTypes ELSE Leaves \cup Depth1 \cup (IF Depth2 THEN Round4Types \cup Round5Types \cup Depth2Types ELSE Round4Quick \cup Round5Quick)

\* ------------------------------------------------------------------ inputs of a type: the trees a config file could hold for it (tagged)
Pairs(S) == {<<a, b>> : a, b \in S}
IntOrStr(t, d) == IF t.c = "int" THEN IntV(d) ELSE Str(d)
RECURSIVE InputsOf(_), Few(_)
Few(t) == LET all == InputsOf(t) IN                                    \* a few representatives, for the elements of containers
  IF Cardinality(all) <= 4 THEN all
  ELSE CASE t.c = "str" -> {Tag(Str(<<"a","b","c">>)), Tag(Str(<<"1","e","3">>)), Tag(Str(<<"1">>)), Tag(Str(<< >>))}
         [] t.c = "union" -> UNION {Few(t.p[i]) : i \in 1..Len(t.p)}
         [] OTHER -> {SetToSeq(all)[i] : i \in 1..4}
InputsOf(t) ==
  CASE t.c = "str"   -> {Tag(Str(s)) : s \in StrTexts}
    [] t.c = "int"   -> {Tag(IntV(s)) : s \in IntTexts}
    [] t.c = "float" -> {Tag(Flt(r)) : r \in FloatReprs} \cup {Tag(IntV(<<"1">>))}
    [] t.c = "bool"  -> {Tag(BoolV(TRUE)), Tag(BoolV(FALSE))}
    [] t.c = "none"  -> {Tag(NullV)}
    [] t.c = "reg"   -> {Tag(Str(s)) : s \in RegTexts(t.p[1])} \cup RegNumbers(t.p[1])
    [] t.c = "any"   -> {Tag(Str(s)) : s \in StrTexts} \cup {Tag(IntV(s)) : s \in IntTexts} \cup {Tag(Flt(r)) : r \in FloatReprs} \cup {Tag(NullV), Tag(BoolV(TRUE))}
                        \cup {Tag(ListV(<<Str(<<"1">>), IntV(<<"1">>), Str(<<"1","e","3">>)>>)), Tag(DictV(<< <<Str(<<"a">>), Str(<<"1">>)>>, <<Str(<<"1","e","3">>), Flt(<<"3",".","0">>)>> >>))}
    [] t.c = "enum"  -> {Tag(Str(t.p[i])) : i \in 1..Len(t.p)} \cup {Tag(Str(<<"a","b","c">>))}
    [] t.c = "literal" -> {Tag(t.p[i]) : i \in 1..Len(t.p)} \cup {Tag(Str(<<"z","z">>)), Tag(Str(<<"1">>))}
    [] t.c = "union" -> UNION {InputsOf(t.p[i]) : i \in 1..Len(t.p)}
    [] t.c = "odict" ->                                                          \* keys in an order that no sorting produces, a hazard key, the sorted order
         LET P(k1, a, k2, b) == DictV(<< <<Str(k1), IntOrStr(t.p[2], a)>>, <<Str(k2), IntOrStr(t.p[2], b)>> >>) IN
         {Tag(DictV(<< >>)), Tag(DictV(<< <<Str(<<"b">>), IntOrStr(t.p[2], <<"1">>)>> >>)), Tag(P(<<"b">>, <<"1">>, <<"a">>, <<"2">>)), Tag(P(<<"a">>, <<"1">>, <<"b">>, <<"2">>)),
          Tag(P(<<"b">>, <<"2">>, <<"1","e","3">>, <<"1">>)), Tag(P(<<"z">>, <<"1">>, <<"B">>, <<"1">>)),
          Tag(DictV(<< <<Str(<<"c">>), IntOrStr(t.p[2], <<"3">>)>>, <<Str(<<"a">>), IntOrStr(t.p[2], <<"1">>)>>, <<Str(<<"b">>), IntOrStr(t.p[2], <<"2">>)>> >>))}
    [] t.c = "setb" -> {Tag(ListV(<< >>)), Tag(ListV(<<IntV(<<"1">>), Str(<<"a">>)>>)), Tag(ListV(<<NullV, IntV(<<"3">>)>>)), Tag(ListV(<<Str(<<"b">>), Str(<<"a">>)>>)),
                        Tag(ListV(<<Str(<<"1">>), IntV(<<"1">>), Flt(<<"1",".","5">>)>>))}
    [] t.c = "set" /\ t.p[1].c = "union" ->                                       \* members of SEVERAL kinds: 1 and 'a', None and 3
         {Tag(ListV(<< >>))} \cup {Tag(ListV(<<a[2]>>)) : a \in Few(t.p[1])}
         \cup {Tag(ListV(<<q[1][2], q[2][2]>>)) : q \in {q \in Pairs(Few(t.p[1])) : q[1][2].k # q[2][2].k}}
         \cup {Tag(ListV(<<IntV(<<"1">>), IF t.p[1].p[2].c = "none" THEN NullV ELSE Str(<<"a">>), IntV(<<"-","5">>)>>))}
    [] t.c = "dc" /\ t.p[1][1] = <<"o","d">> ->
         {Tag(DictV(<< >>)), Tag(DictV(<< <<Str(<<"o","d">>), DictV(<< <<Str(<<"b">>), IntV(<<"1">>)>>, <<Str(<<"a">>), IntV(<<"2">>)>> >>)>> >>)),
          Tag(DictV(<< <<Str(<<"s","t">>), ListV(<<IntV(<<"1">>), Str(<<"a">>)>>)>> >>)),
          Tag(DictV(<< <<Str(<<"o","d">>), DictV(<< <<Str(<<"b">>), IntV(<<"1">>)>>, <<Str(<<"a">>), IntV(<<"2">>)>> >>)>>, <<Str(<<"s","t">>), ListV(<<Str(<<"1">>), IntV(<<"1">>)>>)>> >>))}
    [] t.c \in {"list", "tuplee", "set"} ->
         {Tag(ListV(<< >>))} \cup {Tag(ListV(<<a[2]>>)) : a \in InputsOf(t.p[1])}
         \cup {Tag(ListV(<<q[1][2], q[2][2]>>)) : q \in {q \in Pairs(Few(t.p[1])) : t.c # "set" \/ q[1] # q[2]}}
    [] t.c = "tuple" -> {Tag(ListV(<<a[2], b[2]>>)) : a \in InputsOf(t.p[1]), b \in Few(t.p[2])} \cup {Tag(ListV(<<a[2]>>)) : a \in Few(t.p[1])}
    [] t.c = "dict" ->
         LET keys == IF t.p[1].c = "int" THEN {Tag(Str(<<"1">>)), Tag(Str(<<"2">>)), Tag(IntV(<<"7">>))} ELSE {Tag(Str(s)) : s \in KeyTexts} IN
         {Tag(DictV(<< >>))} \cup {Tag(DictV(<< <<key[2], a[2]>> >>)) : key \in keys, a \in InputsOf(t.p[2])}
         \cup {Tag(DictV(<< <<Str(IF t.p[1].c = "int" THEN <<"1">> ELSE <<"a">>), q[1][2]>>, <<Str(IF t.p[1].c = "int" THEN <<"2">> ELSE <<"1","e","3">>), q[2][2]>> >>)) : q \in Pairs(Few(t.p[2]))}
    [] t.c = "dc" /\ t.p[1][1] = <<"r">> ->
         {Tag(DictV(<< >>))}
         \cup {Tag(DictV(<< <<Str(<<"r">>), Str(s)>> >>)) : s \in {<<"r","a","n","g","e","(","0",","," ","1","0",","," ","2",")">>, <<"r","a","n","g","e","(","3",")">>}}
         \cup {Tag(DictV(<< <<Str(<<"r">>), Str(<<"r","a","n","g","e","(","2",","," ","5",")">>)>>, <<Str(<<"t">>), Str(s)>> >>)) : s \in {<<"1"," ","d","a","y",","," ","2",":","0","3",":","0","4">>, <<"0",":","0","0",":","0","1">>}}
    [] t.c = "dc" /\ t.p[1][1] = <<"i">> ->
         LET In(ps) == DictV(<< <<Str(<<"i">>), DictV(ps)>> >>) IN
         {Tag(DictV(<< >>)), Tag(DictV(<< <<Str(<<"n">>), IntV(<<"2">>)>> >>)), Tag(In(<< >>)), Tag(In(<< <<Str(<<"a">>), IntV(<<"2">>)>> >>)), Tag(In(<< <<Str(<<"z","z">>), IntV(<<"1">>)>> >>)),
          Tag(DictV(<< <<Str(<<"i">>), DictV(<< <<Str(<<"s">>), Str(<<"1","e","3">>)>>, <<Str(<<"o">>), Str(<<"u">>)>> >>)>>, <<Str(<<"n">>), IntV(<<"3">>)>> >>)),
          Tag(In(<< <<Str(<<"s">>), Str(<<"a","NEL","b">>)>> >>)), Tag(In(<< <<Str(<<"o">>), NullV>>, <<Str(<<"a">>), IntV(<<"5">>)>> >>))}
    [] t.c = "dc" /\ t.p[1][1] = <<"u">> ->
         {Tag(DictV(<< >>))} \cup {Tag(DictV(<< <<Str(<<"u">>), u[2]>> >>)) : u \in {Tag(IntV(<<"2">>)), Tag(Flt(<<"3",".","0">>)), Tag(Flt(<<"2",".","5">>))}}
         \cup {Tag(DictV(<< <<Str(<<"u">>), Flt(<<"2",".","5">>)>>, <<Str(<<"s">>), Str(s)>> >>)) : s \in {<<"a","NEL","b">>, <<"1","e","3">>}}
    [] t.c = "dc" ->
         {Tag(DictV(<< >>)), Tag(DictV(<< <<Str(<<"a">>), IntV(<<"2">>)>> >>)), Tag(DictV(<< <<Str(<<"z","z">>), IntV(<<"2">>)>> >>))}
         \cup {Tag(DictV(<< <<Str(<<"a">>), IntV(<<"2">>)>>, <<Str(<<"s">>), Str(s)>> >>)) : s \in {<<"y">>, <<"1","e","3">>, <<".","_","1">>}}
         \cup {Tag(DictV(<< <<Str(<<"s">>), Str(<<"y">>)>>, <<Str(<<"o">>), o[2]>> >>)) : o \in {Tag(NullV), Tag(Str(<<"u">>)), Tag(Str(<<"1","e","3">>))}}
Formats == IF ParserMode = "yaml" THEN {"yaml", "json"} ELSE IF ParserMode = "jsonnet" /\ Depth2 THEN {"json", "yaml"} ELSE {"json"}
TypedInputs == UNION {{<<tt[1], x[1], tt[2], x[2]>> : x \in InputsOf(tt[2])} : tt \in Types}
LeafCases == {Tag([kind |-> "leaf", t |-> tx[3], x |-> tx[4], fmt |-> fmt]) : fmt \in Formats, tx \in TypedInputs}

\* ------------------------------------------------------------------ configuration-level cases
E(p, t, d) == [p |-> p, t |-> t, d |-> d]
DictAB(a, b) == DictV(<< <<Str(<<"a">>), IntV(a)>>, <<Str(<<"b">>), IntV(b)>> >>)
ShapeA == [top |-> << E(<<<<"s">>>>, TStr, Str(<<"x">>)), E(<<<<"n">>>>, TOpt(TInt), IntV(<<"3">>)), E(<<<<"g">>, <<"a">>>>, TInt, IntV(<<"1">>)), E(<<<<"g">>, <<"b">>>>, TOpt(TStr), NullV),
                      E(<<<<"d">>>>, TDict(TStr, TInt), DictAB(<<"1">>, <<"2">>)), E(<<<<"l">>>>, TList(TInt), ListV(<<IntV(<<"1">>), IntV(<<"2">>)>>)),
                      E(<<<<"u">>>>, TUnion(<<TInt, TFloat>>), Flt(<<"1",".","0">>)) >>,
           subs |-> << >>, required |-> FALSE]
SubsB  == << <<<<"a">>, << E(<<<<"x">>>>, TInt, IntV(<<"1">>)), E(<<<<"s">>>>, TStr, Str(<<"q">>)) >> >>, <<<<"b">>, << >> >>, <<<<"c">>, << E(<<<<"y">>>>, TOpt(TStr), NullV) >> >> >>
ShapeB == [top |-> << E(<<<<"t","o","p">>>>, TInt, IntV(<<"0">>)) >>, subs |-> SubsB, required |-> TRUE]
ShapeC == [top |-> << E(<<<<"t","o","p">>>>, TInt, IntV(<<"0">>)) >>, subs |-> SubsB, required |-> FALSE]
\* registered types as plain arguments whose DEFAULTS are python objects (they are dumped without ever having been parsed)
RgV(s) == RegV("Rrange", s)   TdV(s) == RegV("Rtd", s)
ShapeD == [top |-> << E(<<<<"r">>>>, RRange, RgV(<<"r","a","n","g","e","(","0",","," ","1","0",","," ","2",")">>)), E(<<<<"t">>>>, RTd, TdV(<<"-","1"," ","d","a","y",","," ","2","3",":","5","9",":","5","9">>)), E(<<<<"g">>, <<"d">>>>, TOpt(RDec), NullV),
                      E(<<<<"b">>>>, RBytes, RegV("Rbytes", <<"a","G","k","=">>)), E(<<<<"w">>>>, TOpt(RTd), TdV(<<"1"," ","d","a","y",","," ","0",":","0","0",":","0","0">>)) >>,
           subs |-> << >>, required |-> FALSE]
Shapes == <<ShapeA, ShapeB, ShapeC, ShapeD>>

TS(s) == {Tag(s[i]) : i \in 1..Len(s)}
CfgsA == {Tag(CfgV(<<s[2], n[2], ga[2], gb[2], d[2], l[2], u[2]>>, 0, << >>)) :
            u \in TS(<<Flt(<<"1",".","0">>), IntV(<<"1">>)>> \o (IF Depth2 THEN <<IntV(<<"2">>)>> ELSE << >>)),
            s \in TS(<<Str(<<"x">>), Str(<<"1","e","3">>)>> \o (IF Depth2 THEN <<Str(<<"a","b","c">>)>> ELSE << >>)), n \in TS(<<IntV(<<"3">>), NullV>> \o (IF Depth2 THEN <<IntV(<<"5">>)>> ELSE << >>)),
            ga \in TS(<<IntV(<<"1">>)>> \o (IF Depth2 THEN <<IntV(<<"2">>)>> ELSE << >>)), gb \in TS(<<NullV, Str(<<"u">>)>>),
            d \in TS(<<DictAB(<<"1">>, <<"2">>), DictAB(<<"1">>, <<"3">>), DictV(<< <<Str(<<"c">>), IntV(<<"5">>)>> >>), DictV(<< >>)>>),
            l \in TS(<<ListV(<<IntV(<<"1">>), IntV(<<"2">>)>>)>> \o (IF Depth2 THEN <<ListV(<<IntV(<<"3">>)>>)>> ELSE << >>))}
CfgsD == {Tag(CfgV(<<r[2], t[2], d[2], RegV("Rbytes", <<"a","G","k","=">>), w[2]>>, 0, << >>)) :
            r \in TS(<<RgV(<<"r","a","n","g","e","(","0",","," ","1","0",","," ","2",")">>), RgV(<<"r","a","n","g","e","(","2",","," ","5",")">>)>>), t \in TS(<<TdV(<<"-","1"," ","d","a","y",","," ","2","3",":","5","9",":","5","9">>), TdV(<<"0",":","0","0",":","0","1">>), TdV(<<"1"," ","d","a","y",","," ","2",":","0","3",":","0","4">>)>>),
            d \in TS(<<NullV, RegV("Rdec", <<"0",".","5">>)>>), w \in TS(<<TdV(<<"1"," ","d","a","y",","," ","0",":","0","0",":","0","0">>), NullV>>)}
CfgsBC(withNone) ==
       {Tag(CfgV(<<top[2]>>, 1, <<x[2], s[2]>>)) : top \in TS(<<IntV(<<"0">>), IntV(<<"2">>)>>), x \in TS(<<IntV(<<"1">>), IntV(<<"3">>)>>), s \in TS(<<Str(<<"q">>), Str(<<"1","e","3">>)>>)}
  \cup {Tag(CfgV(<<top[2]>>, 2, << >>)) : top \in TS(<<IntV(<<"0">>), IntV(<<"2">>)>>)}
  \cup {Tag(CfgV(<<top[2]>>, 3, <<y[2]>>)) : top \in TS(<<IntV(<<"0">>), IntV(<<"2">>)>>), y \in TS(<<NullV, Str(<<"u">>), Str(<<"1","e","3">>)>>)}
  \cup (IF withNone THEN {Tag(CfgV(<<top[2]>>, 0, << >>)) : top \in TS(<<IntV(<<"0">>), IntV(<<"2">>)>>)} ELSE {})
ShapedCfgs == {<<1, c[1], c[2]>> : c \in CfgsA} \cup {<<2, c[1], c[2]>> : c \in CfgsBC(FALSE)}
              \cup (IF OtherMode /\ ~Depth2 THEN {} ELSE {<<3, c[1], c[2]>> : c \in CfgsBC(TRUE)} \cup {<<4, c[1], c[2]>> : c \in CfgsD})   \* the quick mode instances: shapes A and B
CfgCases == {Tag([kind |-> "cfg", sh |-> sc[1], cfg |-> sc[3], fmt |-> fmt, sn |-> sn, sd |-> sd]) :
               fmt \in Formats, sn \in BOOLEAN, sd \in BOOLEAN, sc \in ShapedCfgs}

\* ------------------------------------------------------------------ the facts of a case (computed once, in Next)
SetSeq(S) == SetToSeq(S)
LeafFacts(c) ==
  LET v == Accept(c.t, c.x) IN
  IF Bad(v) THEN [v |-> v, tree |-> v, doc |-> v, rt |-> v, irt |-> v, hz |-> << >>, hy |-> << >>, mrt |-> Unsure, mhz |-> << >>]
  ELSE LET tree == SerializeLeaf(c.t, v, FALSE)
           rt   == AlgRT(c.t, v, c.fmt)
           irt  == IdealRT(c.t, v, c.fmt)
       IN [v |-> v, tree |-> tree, doc |-> IF Bad(tree) THEN tree ELSE WriteDoc(c.fmt, tree), rt |-> rt, irt |-> irt, hz |-> SetSeq(LeafHazards(c.t, v, c.fmt)),
           \* round 4: in the json / jsonnet instances, the families the YAML reader WOULD have had on this text: where the mode matters (always replayed)
           hy |-> IF OtherMode /\ ~Bad(tree) THEN SetSeq(HazardsY("json", tree) \cup HazardsY("yaml", tree)) ELSE << >>,
           \* round 4: the multi-file save of a Dict value that came from its own file (parser_mode yaml)
           mrt |-> IF ParserMode = "yaml" /\ c.t.c = "dict" THEN ReparseMultiLeaf(c.t, v, c.fmt, FALSE) ELSE Unsure,
           mhz |-> IF ParserMode = "yaml" /\ c.t.c = "dict" THEN SetSeq(MultiHazards(c.t, v, c.fmt)) ELSE << >>]
CfgFacts(c) ==
  LET shape == Shapes[c.sh]
      fl    == Flags(FALSE, c.sn, c.sd)
      ifl   == Flags(TRUE, c.sn, c.sd)
  IN [v |-> c.cfg, tree |-> DumpTree(shape, c.cfg, fl), doc |-> NullV, rt |-> ReparseCfg(shape, c.cfg, c.fmt, fl), irt |-> ReparseCfg(shape, c.cfg, c.fmt, ifl),
      hz |-> SetSeq(CfgDeviations(shape, c.cfg, c.fmt, fl)), hy |-> << >>, mrt |-> Unsure, mhz |-> << >>]
NoFacts == [v |-> NullV, tree |-> NullV, doc |-> NullV, rt |-> NullV, irt |-> NullV, hz |-> << >>, hy |-> << >>, mrt |-> Unsure, mhz |-> << >>]

VARIABLES c, ph, f
vars == <<c, ph, f>>
Init == (\E tc \in LeafCases \cup CfgCases : c = tc[2]) /\ ph = 0 /\ f = NoFacts
Next == ph = 0 /\ ph' = 1 /\ c' = c /\ f' = (IF c.kind = "leaf" THEN LeafFacts(c) ELSE CfgFacts(c))
Spec == Init /\ [][Next]_vars

Done    == ph = 1
IsLeaf  == Done /\ c.kind = "leaf" /\ ~Bad(f.v)
IsCfg   == Done /\ c.kind = "cfg"
\* ---- leaf level
InvIdealRoundTrip       == IsLeaf => (Same(f.irt, f.v) \/ IsUnsure(f.irt))                           \* serialising mirrors deserialising
InvRoundTripModuloKnown == IsLeaf => (Same(f.rt, f.v) \/ IsUnsure(f.rt) \/ f.hz # << >>)             \* only the named hazards break the round trip
InvHazardsAreReal       == IsLeaf => (((\E n \in 1..Len(f.hz) : f.hz[n] \notin SoftFamilies) /\ ~IsUnsure(f.rt)) => ~Same(f.rt, f.v))   \* and they do break it (the soft families: only where the type keeps the int)
\* ---- multi-file save of a Dict value (round 4): only the named deviations break it, and the unserialised sub-file does break it
InvMultiModuloKnown == IsLeaf => (Same(f.mrt, f.v) \/ IsUnsure(f.mrt) \/ f.mhz # << >>)
InvMultiHazardReal  == IsLeaf => ((\E n \in 1..Len(f.mhz) : f.mhz[n] = "multifile-subconfig-not-serialised") => IsErr(f.mrt))
\* ---- configuration level
Want == Expected(Shapes[c.sh], c.cfg, Flags(FALSE, c.sn, c.sd))
CfgOK(r) == ~Bad(r) /\ SameCfg(r, Want)
InvCfgRoundTripModuloKnown == IsCfg => (CfgOK(f.rt) \/ IsUnsure(f.rt) \/ f.hz # << >>)
InvCfgIdeal == IsCfg => (CfgOK(f.irt) \/ IsUnsure(f.irt)
                         \/ \E i \in 1..Len(f.hz) : f.hz[i] \in {"subcommand-selector-not-dumped", "skip-default-required-subcommand-raises", "skip-default-inside-dict-value", "skip-default-equal-but-other-type"})
\* ---- the plain law, for the record (print-and-continue): every case that breaks it, with the families that explain it
PlainLaw == IF ~Done THEN TRUE ELSE IF c.kind = "leaf" THEN (Bad(f.v) \/ Same(f.rt, f.v) \/ IsUnsure(f.rt)) ELSE (CfgOK(f.rt) \/ IsUnsure(f.rt))
InvFind  == PlainLaw \/ PrintT(ToJson([cex |-> c, hz |-> f.hz]))
\* ---- emission for the replay
EmitCase == (Emit /\ Done) => PrintT(ToJson([case |-> c, v |-> f.v, tree |-> f.tree, doc |-> f.doc, rt |-> f.rt, irt |-> f.irt, hz |-> f.hz, hy |-> f.hy, mrt |-> f.mrt, mhz |-> f.mhz]))
ASSUME Emit => PrintT(ToJson([shapes |-> Shapes, mode |-> ParserMode]))
=============================================================================
