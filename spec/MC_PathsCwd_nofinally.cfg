SPECIFICATION Spec
CONSTANTS
  CwdVariant = "nofinally"
  StatGuard = FALSE
  CcStopsAtExisting = FALSE
  MaxDepth = 2
  Emit = FALSE
INVARIANT InvRestored
CHECK_DEADLOCK FALSE
