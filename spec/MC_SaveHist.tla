---------------------------- MODULE MC_SaveHist ----------------------------
(* Bounded instance of SaveHist.tla: every history (first call, second call) of the universe below.              *)
(* One state per history (root -> group states -> histories, so that the workers share them); the two calls are  *)
(* run by the recursive Run of Save.tla (InvRunAgrees of MC_Save: the same machine as the step actions).         *)
(*   HLevel 1 (quick)   <= 2 sub-files, first-call faults {none, unserialisable main value, OSError at open 2}   *)
(*   HLevel 2 (thorough) + a collision, + invalid values, more fault positions, pre-existing empty files          *)
EXTENDS SaveHist, Json, SequencesExt
CONSTANTS HLevel

Probe == [k |-> "k", v |-> "v"]
S(k, n) == <<k, n, "cfg">>
Files == {"main", "f1", "f2"}
Layouts == { << >>, <<S("s1", "f1")>>, <<S("s1", "f1"), S("s2", "f2")>> }
           \cup (IF HLevel >= 2 THEN { <<S("s1", "f1"), S("s2", "f1")>>, <<S("d", "f2"), S("s1", "f1")>> } ELSE {})
F(k, n) == [kind |-> k, n |-> n]
\* <<invalid, unser, fault>> of one call
Troubles1 == { <<"none", "none", NoFault>>, <<"none", "main", NoFault>>, <<"none", "none", F("open", 2)>> }
             \cup (IF HLevel >= 2 THEN { <<"main", "none", NoFault>>, <<"none", "s1", NoFault>>, <<"none", "none", F("open", 1)>>,
                                         <<"none", "none", F("write", 1)>>, <<"none", "none", F("write", 2)>>, <<"none", "none", F("format", 0)>> } ELSE {})
Troubles2 == { <<"none", "none", NoFault>>, <<"none", "main", NoFault>> }
             \cup (IF HLevel >= 2 THEN { <<"main", "none", NoFault>>, <<"none", "none", F("open", 1)>>, <<"none", "none", F("write", 2)>> } ELSE {})
UsedNames(q) == {"main"} \cup {SubName(x) : x \in Range(q)}
Pres(q) == {[f \in Files |-> IF f \in UsedNames(q) THEN c ELSE "absent"] : c \in {"absent", "old"}}
           \cup {[f \in Files |-> IF f = "main" THEN "old" ELSE "absent"]}
           \cup (IF HLevel >= 2 THEN {[f \in Files |-> IF f = "main" THEN "absent" ELSE IF f \in UsedNames(q) THEN "old" ELSE "absent"],
                                      [f \in Files |-> IF f \in UsedNames(q) THEN "empty" ELSE "absent"]} ELSE {})
\* the metas that are still there at the second call: all of them, or none, or (thorough) any subsequence
Keep(q) == IF HLevel >= 2 THEN {SelectSeq(q, LAMBDA x : SubKey(x) \in ks) : ks \in SUBSET {SubKey(x) : x \in Range(q)}}
           ELSE {q, << >>}
HasKey(q, k) == k \in {"none", "main"} \/ \E x \in Range(q) : SubKey(x) = k

VARIABLES ph, h, res
vars == <<ph, h, res>>
None == [x |-> 0]

Init == ph = "root" /\ h = None /\ res = None
Groups == ph = "root" /\ \E q \in Layouts, mf \in BOOLEAN : ph' = "group" /\ h' = [q |-> q, mf |-> mf] /\ res' = None
Hist(q, mf1, ow1, t1, pre, mf2, ow2, t2, q2) ==
  [first  |-> [multifile |-> mf1, overwrite |-> ow1, subs |-> q, invalid |-> t1[1], unser |-> t1[2], fault |-> t1[3], pre |-> pre,
               inplace |-> FALSE, skipval |-> FALSE, edited |-> "none", scheme |-> "path"],
   second |-> [multifile |-> mf2, overwrite |-> ow2, subs |-> q2, invalid |-> t2[1], unser |-> t2[2], fault |-> t2[3]]]
Facts(hh) == LET r1 == Run1(hh)
                 sc2 == SecondSc(hh, r1.fs)
                 r2 == Run(sc2) IN
             [r1 |-> r1, sc2 |-> sc2, r2 |-> r2]
Cases == ph = "group" /\ \E ow1 \in BOOLEAN, t1 \in Troubles1, pre \in Pres(h.q), mf2 \in BOOLEAN, ow2 \in BOOLEAN, t2 \in Troubles2, q2 \in Keep(h.q) :
           /\ HasKey(h.q, t1[2]) /\ HasKey(h.q, t2[2])
           /\ ph' = "case" /\ h' = Hist(h.q, h.mf, ow1, t1, pre, mf2, ow2, t2, q2) /\ res' = Facts(h')
Next == Groups \/ Cases
Spec == Init /\ [][Next]_vars

Is == ph = "case"
\* ---- invariants: one evaluation per history
\* each call on its own satisfies C18 outside the named deviations (the second call starts from what the first one left)
KnownAtomicityDevs == {"single-open-before-dump", "multi-written-before-main-dump", "multi-written-before-sub-dump"}
HInvSecondCall == Is => /\ NoSilentOverwrite(res.sc2, res.r2.fs)
                        /\ (AllOrNothing(res.sc2, Out(res.r2), res.r2.fired, res.r2.fs) \/ DevName(res.sc2, res.r2) \in KnownAtomicityDevs)
                        /\ (SavedReparses(res.sc2, Out(res.r2), res.r2.fs, res.r2.refs) \/ DevName(res.sc2, res.r2) = "multi-name-collision")
\* the laws of a history
HInvNeverLost == Is => NeverLost(h, h.first.pre, res.r2.fs)
HInvFirstResultKept == Is => FirstResultKept(h, res.r1.fs, res.r2.fs)
HInvStaleNotMistaken == Is => (StaleNotMistaken(h, Out(res.r2), res.r1.fs, res.r2.fs, res.r2.refs) \/ DevName(res.sc2, res.r2) = "multi-name-collision")
HInvFailedFirstIsInvisible == Is => FailedFirstIsInvisible(h, res.r1.fs, Out(res.r2), res.r2.fs)
\* a failed first call does not poison the second: when nothing is wrong with the second call it succeeds
HInvRetrySucceeds == Is => (Causes(res.sc2, res.r2.fired) = {} => res.r2.pc = "done")
\* the directory the second call starts from is one of the pre-states of the single-call universe (closure under Age o Run)
HInvClosed == Is => \A f \in Files : res.sc2.pre[f] \in {"absent", "old", "empty"}

FsSeq(f) == LET q == SetToSeq(DOMAIN f) IN [j \in 1..Len(q) |-> <<q[j], f[q[j]]>>]
ScJson(sc) == [multifile |-> sc.multifile, overwrite |-> sc.overwrite, subs |-> sc.subs, invalid |-> sc.invalid, unser |-> sc.unser,
               fault |-> <<sc.fault.kind, sc.fault.n>>, pre |-> FsSeq(sc.pre), inplace |-> FALSE, skipval |-> FALSE, edited |-> "none", scheme |-> sc.scheme]
EmitHistory == Is => PrintT(ToJson([hist |-> [first |-> ScJson(h.first), second |-> ScJson(res.sc2)],
                                    out1 |-> Out(res.r1), fs1 |-> FsSeq(res.r1.fs), out2 |-> Out(res.r2), fs2 |-> FsSeq(res.r2.fs),
                                    dev1 |-> DevName(h.first, res.r1), dev2 |-> DevName(res.sc2, res.r2)]))
=============================================================================
