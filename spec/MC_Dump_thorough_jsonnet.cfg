SPECIFICATION Spec
CONSTANTS
  ParserMode <- ModeJsonnet
  Depth2 = TRUE
  Emit = TRUE
INVARIANT InvIdealRoundTrip
INVARIANT InvRoundTripModuloKnown
INVARIANT InvHazardsAreReal
INVARIANT InvMultiModuloKnown
INVARIANT InvMultiHazardReal
INVARIANT InvCfgRoundTripModuloKnown
INVARIANT InvCfgIdeal
INVARIANT InvFind
INVARIANT EmitCase
CHECK_DEADLOCK FALSE
