INIT Init
NEXT Next
CONSTANTS
  CopyOnEntry = TRUE
INVARIANT Inv
CHECK_DEADLOCK FALSE
