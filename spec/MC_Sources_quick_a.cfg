SPECIFICATION Spec
CONSTANTS
  Focus = {"a"}
  NDcf = 2
  MaxArgv = 3
  Repeat = TRUE
  Emit = TRUE
INVARIANT DocumentedOrder
INVARIANT StagesAgree
INVARIANT NoPendingAppend
INVARIANT LastOptWins
INVARIANT EmitCase
CHECK_DEADLOCK FALSE
