----------------------------- MODULE Trace_Links -----------------------------
(* Validation of observations recorded from the real jsonargparse (code -> spec), property C16.            *)
(* TRACE_FILE holds [graphs |-> <<...>>, insts |-> <<...>>]:                                                 *)
(*   a graph observation = [es, raised, order]   the edges given to a real DirectedGraph in insertion order  *)
(*        (nodes are strings), whether get_topological_order raised ValueError, and the order it returned;   *)
(*   an inst observation = [shape, add, ran, failed, log, final]   a real parser built from a shape: the    *)
(*        outcome of each link_arguments call ("ok" / "rejected" / other), and -- when every link was       *)
(*        accepted (ran) -- whether parse + instantiate_classes raised, the construction log of the         *)
(*        generated classes and compute functions, and the plain link targets in the returned config.       *)
(* Every observation is checked on its own; each failing clause is printed as <<"R", kind, index, clause>>. *)
(* Clauses starting with "ref" are the property (verdict), "alg" is the transcription (drift).              *)
EXTENDS Links, Json, IOUtils

Data   == JsonDeserialize(IOEnv.TRACE_FILE)
Graphs == Data.graphs
Insts  == Data.insts
NG == Len(Graphs)
NI == Len(Insts)

VARIABLE i
Init == i \in 1..(NG + NI)
Next == UNCHANGED i
Say(kind, idx, clause) == PrintT(<<"R", kind, idx, clause>>)

\* ------------------------------------------------------------------ DirectedGraph
CheckGraph(n) ==
  LET g   == Graphs[n]
      E   == EdgeSet(g.es)
      out == [raised |-> g.raised, order |-> g.order]
      alg == AlgGraphRun(g.es)
  IN /\ (Cyclic(E) = CyclicTC(E)) \/ Say("graph", n, "ref-laws")
     /\ (Cyclic(E) => g.raised) \/ Say("graph", n, "ref-cycle-not-reported")
     /\ (~Cyclic(E) => ~g.raised) \/ Say("graph", n, "ref-raises-on-dag")
     /\ ((~Cyclic(E) /\ ~g.raised) => IsPermOf(g.order, NodesOf(E))) \/ Say("graph", n, "ref-not-a-permutation")
     /\ ((~Cyclic(E) /\ ~g.raised /\ IsPermOf(g.order, NodesOf(E))) => IsTopo(g.order, E)) \/ Say("graph", n, "ref-not-topological")
     /\ (alg = out) \/ Say("graph", n, "alg")

\* ------------------------------------------------------------------ instantiate_classes
SeqSet(s)   == {s[n] : n \in DOMAIN s}
KwFn(pairs) == [p \in {pairs[n][1] : n \in DOMAIN pairs} |-> pairs[CHOOSE n \in DOMAIN pairs : pairs[n][1] = p][2]]
ToShape(j)  == [decl |-> j.decl, objs |-> SeqSet(j.objs), plains |-> SeqSet(j.plains), links |-> j.links]
ToLog(jl)   == [n \in DOMAIN jl |-> IF jl[n].ev = "new" THEN [ev |-> "new", obj |-> jl[n].obj, kw |-> KwFn(jl[n].kw)]
                                    ELSE [ev |-> "fn", link |-> jl[n].link, args |-> jl[n].args]]
Plan(sh)    == PlannedComponents(sh, InstantiationOrder(sh, sh.links).order)
\* the recorded deviations, as in MC_LinksInst
NestedTarget(sh, l) == \E c \in CompDests(sh) : Inside(l.tobj, c)
MisorderedLinks(sh, plan) == {x \in DOMAIN sh.links : NestedTarget(sh, sh.links[x]) /\ \E j \in DOMAIN sh.links[x].srcs :
                                 Index(plan, OwnerOf(sh, sh.links[x].tobj)) < Index(plan, sh.links[x].srcs[j].obj)}
UnreachableLinks(sh, plan) == {x \in DOMAIN sh.links : \E j \in DOMAIN sh.links[x].srcs : \E g \in CompDests(sh) :
                                 /\ IsGroup(sh, g) /\ Inside(sh.links[x].srcs[j].obj, g)
                                 /\ (sh.links[x].tobj \in sh.plains \/ Index(plan, g) < Index(plan, OwnerOf(sh, sh.links[x].tobj)))}
\* the damage of a misordered link is confined to that link and its sources: every other link still satisfies the
\* property, every object that is not a source of a misordered link is constructed exactly once.  (A source whose
\* un-instantiated spec arrives too early can be constructed a second time inside the target; another link fed from
\* that source may then see either instance: occurrence numbers of such sources are not compared.)
AnyOcc(v, S) == IF v.k \in {"obj", "attr"} /\ v.o \in S THEN [v EXCEPT !.n = 1] ELSE v
NormVal(v, S) == IF v.k = "fn" THEN [v EXCEPT !.args = [j \in DOMAIN v.args |-> AnyOcc(v.args[j], S)]] ELSE AnyOcc(v, S)
Confined(sh, log, bad) ==
  LET okl  == {x \in DOMAIN sh.links : x \notin bad}
      srcs == UNION {{sh.links[x].srcs[j].obj : j \in DOMAIN sh.links[x].srcs} : x \in bad}
  IN /\ \A o \in sh.objs \ srcs : Cardinality(NewOf(log, o)) = 1
     /\ \A o \in srcs : Cardinality(NewOf(log, o)) \in {1, 2}
     /\ \A n \in News(log) : log[n].obj \in sh.objs
     /\ \A x \in okl : /\ \A j \in DOMAIN sh.links[x].srcs : sh.links[x].tobj \in sh.objs =>
                               FirstNew(log, sh.links[x].srcs[j].obj) < FirstNew(log, sh.links[x].tobj)
                        /\ \A n \in NewOf(log, sh.links[x].tobj) :
                               sh.links[x].param \in DOMAIN log[n].kw /\ NormVal(log[n].kw[sh.links[x].param], srcs) = Expected(sh.links, x)

CheckInst(n) ==
  LET ob    == Insts[n]
      sh    == ToShape(ob.shape)
      log   == ToLog(ob.log)
      final == KwFn(ob.final)
      acc   == AllAccepted(sh, ob.add)
      alg   == AlgInstantiate(sh)
      ran   == ob.ran /\ acc /\ Feasible(sh)
      plan  == Plan(sh)
      mis   == MisorderedLinks(sh, plan)
      unr   == UnreachableLinks(sh, plan)
      asalg == ob.failed = alg.failed /\ (~alg.failed => (log = alg.log /\ final = FinalPlain(sh, alg)))
      good  == ~ob.failed /\ RefInstOK(sh, log) /\ RefPlainOK(sh, final)
  IN /\ RefAddOK(sh, ob.add) \/ Say("inst", n, "ref-add")
     /\ (ob.ran = acc) \/ Say("inst", n, "ref-add")
     /\ (ob.add = AlgAddLinks(sh, 1)) \/ Say("inst", n, "alg-add")
     /\ IF ~ran THEN TRUE
        ELSE IF mis # {} THEN good \/ Say("inst", n, IF ob.failed THEN "ref-dev-target-raises"
                                                     ELSE IF Confined(sh, log, mis) THEN "ref-dev-target-confined" ELSE "ref-dev-other")
        ELSE IF unr # {} THEN good \/ Say("inst", n, IF ob.failed /\ alg.failed THEN "ref-dev-source-raises" ELSE "ref-dev-other")
        ELSE /\ ~ob.failed \/ Say("inst", n, "ref-raised")
             /\ (ob.failed \/ ExactlyOnce(log, sh.objs)) \/ Say("inst", n, "ref-exactly-once")
             /\ (ob.failed \/ BuiltBefore(log, sh.links, sh.objs)) \/ Say("inst", n, "ref-built-before")
             /\ (ob.failed \/ ReceivesSource(log, sh.links)) \/ Say("inst", n, "ref-receives-source")
             /\ (ob.failed \/ RefPlainOK(sh, final)) \/ Say("inst", n, "ref-plain-target")
             /\ (ob.failed \/ FnCalledOnce(log, sh.links)) \/ Say("inst", n, "alg-fn-calls")
     /\ (~ran \/ mis # {} \/ asalg) \/ Say("inst", n, "alg")

Check == IF i <= NG THEN CheckGraph(i) ELSE CheckInst(i - NG)
Inv == Check \/ TRUE
=============================================================================
