----------------------------- MODULE Trace_Links -----------------------------
(* Validation of observations recorded from the real jsonargparse (code -> spec), property C16.            *)
(* TRACE_FILE holds [graphs |-> <<...>>, insts |-> <<...>>]:                                                 *)
(*   a graph observation = [es, raised, order]   the edges given to a real DirectedGraph in insertion order  *)
(*        (nodes are strings), whether get_topological_order raised ValueError, and the order it returned;   *)
(*   an inst observation = [shape, add, ran, failed, log, final]   a real parser built from a shape: the    *)
(*        outcome of each link_arguments call ("ok" / "rejected" / other), and -- when every link was       *)
(*        accepted (ran) -- whether parse + instantiate_classes raised, the construction log of the         *)
(*        generated classes and compute functions, and the plain link targets in the returned config.       *)
(* Every observation is checked on its own; each failing clause is printed as <<"R", kind, index, clause>>. *)
(* Clauses starting with "ref" are the property (verdict), "alg" is the transcription (drift).              *)
EXTENDS Links, Json, IOUtils

Data   == JsonDeserialize(IOEnv.TRACE_FILE)
Graphs == Data.graphs
Insts  == Data.insts
NG == Len(Graphs)
NI == Len(Insts)

VARIABLE i
Init == i \in 1..(NG + NI)
Next == UNCHANGED i
Say(kind, idx, clause) == PrintT(<<"R", kind, idx, clause>>)

\* ------------------------------------------------------------------ DirectedGraph
CheckGraph(n) ==
  LET g   == Graphs[n]
      E   == EdgeSet(g.es)
      out == [raised |-> g.raised, order |-> g.order]
      alg == AlgGraphRun(g.es)
  \* (the transcription is evaluated FIRST: with `alg` forced after E, TLC 1.8 ended about every second run of 400 random
  \* graphs with a Java StackOverflowError on one 15-edge observation -- whatever the thread stack size, 1 GB included, and
  \* never with the clause alone or in front; 0 of 30 runs in this order.  The harness also gives every run a 64 MB stack
  \* and repeats a run that ended at machinery level.)
  IN /\ (alg = out) \/ Say("graph", n, "alg")
     /\ (Cyclic(E) = CyclicTC(E)) \/ Say("graph", n, "ref-laws")
     /\ (Cyclic(E) => g.raised) \/ Say("graph", n, "ref-cycle-not-reported")
     /\ (~Cyclic(E) => ~g.raised) \/ Say("graph", n, "ref-raises-on-dag")
     /\ ((~Cyclic(E) /\ ~g.raised) => IsPermOf(g.order, NodesOf(E))) \/ Say("graph", n, "ref-not-a-permutation")
     /\ ((~Cyclic(E) /\ ~g.raised /\ IsPermOf(g.order, NodesOf(E))) => IsTopo(g.order, E)) \/ Say("graph", n, "ref-not-topological")

\* ------------------------------------------------------------------ instantiate_classes
SeqSet(s)   == {s[n] : n \in DOMAIN s}
KwFn(pairs) == [p \in {pairs[n][1] : n \in DOMAIN pairs} |-> pairs[CHOOSE n \in DOMAIN pairs : pairs[n][1] = p][2]]
ToShape(j)  == IF "sig" \in DOMAIN j THEN [decl |-> j.decl, objs |-> SeqSet(j.objs), plains |-> SeqSet(j.plains), links |-> j.links, sig |-> j.sig]
               ELSE [decl |-> j.decl, objs |-> SeqSet(j.objs), plains |-> SeqSet(j.plains), links |-> j.links]
ToLog(jl)   == [n \in DOMAIN jl |-> IF jl[n].ev = "new" THEN [ev |-> "new", obj |-> jl[n].obj, kw |-> KwFn(jl[n].kw)]
                                    ELSE [ev |-> "fn", link |-> jl[n].link, args |-> jl[n].args]]
Plan(sh)    == PlannedComponents(sh, InstantiationOrder(sh, sh.links).order)
\* the recorded deviations, as in MC_LinksInst
NestedTarget(sh, l) == \E c \in CompDests(sh) : Inside(l.tobj, c)
MisorderedLinks(sh, plan) == {x \in DOMAIN sh.links : NestedTarget(sh, sh.links[x]) /\ \E j \in DOMAIN sh.links[x].srcs :
                                 Index(plan, OwnerOf(sh, sh.links[x].tobj)) < Index(plan, SrcDest(sh, sh.links[x].srcs[j]))}
UnreachableLinks(sh, plan) == {x \in DOMAIN sh.links : \E j \in DOMAIN sh.links[x].srcs : \E g \in CompDests(sh) :
                                 /\ IsGroup(sh, g) /\ Inside(sh.links[x].srcs[j].obj, g)
                                 /\ (sh.links[x].tobj \in sh.plains \/ Index(plan, g) < Index(plan, OwnerOf(sh, sh.links[x].tobj)))}
\* the damage of a misordered link is confined to that link and its sources: every other link still satisfies the
\* property, every object that is not a source of a misordered link is constructed exactly once.  (A source whose
\* un-instantiated spec arrives too early can be constructed a second time inside the target; another link fed from
\* that source may then see either instance: occurrence numbers of such sources are not compared.)
AnyOcc(v, S) == IF v.k \in {"obj", "attr"} /\ v.o \in S THEN [v EXCEPT !.n = 1] ELSE v
NormVal(v, S) == IF v.k = "fn" THEN [v EXCEPT !.args = [j \in DOMAIN v.args |-> AnyOcc(v.args[j], S)]] ELSE AnyOcc(v, S)
LastNew(log, o) == CHOOSE x \in NewOf(log, o) : \A y \in NewOf(log, o) : y <= x
Confined(sh, log, bad) ==
  LET okl  == {x \in DOMAIN sh.links : x \notin bad}
      srcs0 == UNION {{sh.links[x].srcs[j].obj : j \in DOMAIN sh.links[x].srcs} : x \in bad}
      \* (round 4: the premature instance of such a source is built from its spec, nested classes included)
      srcs == srcs0 \cup {o \in sh.objs : \E q \in srcs0 : Inside(o, q)}
  IN /\ \A o \in sh.objs \ srcs : Cardinality(NewOf(log, o)) = 1
     \* (round 4: a source that feeds k misordered links as an un-instantiated spec is instantiated once per such link)
     /\ \A o \in srcs \cap sh.objs : Cardinality(NewOf(log, o)) \in 1..(1 + Cardinality(bad))
     /\ \A n \in News(log) : log[n].obj \in sh.objs
     \* (round 4: when such a twice-constructed source is also the TARGET of a correct link, its premature first instance
     \* -- built inside the misordered target -- has not been fed yet: the correct link is checked on the last instance)
     /\ \A x \in okl : \A r \in Receivers(sh, sh.links[x]) :
           /\ \A j \in DOMAIN sh.links[x].srcs : sh.links[x].srcs[j].obj \in sh.objs =>
                   FirstNew(log, sh.links[x].srcs[j].obj) < (IF r \in srcs THEN LastNew(log, r) ELSE FirstNew(log, r))
           /\ LiveLink(sh, sh.links[x]) => \A n \in (IF r \in srcs THEN {LastNew(log, r)} ELSE NewOf(log, r)) :
                   sh.links[x].param \in DOMAIN log[n].kw /\ NormVal(log[n].kw[sh.links[x].param], srcs) = Expected(sh.links, x)

\* Round 4: shapes with List[Class] targets, Optional arguments that are None, sources nested inside a class argument and
\* nested links (see MC_LinksExt).  Three more recorded deviations, each reported only when the real code behaves exactly
\* as the transcription predicts: nested-link-owner-targeted / nested-cycle-accepted (link_arguments) and
\* nested-attr-source (the value of a source two or more names below its action).  The run of a shape with nested links
\* (applied by the type hint inside the class argument) is validated against the Ref clauses only.
CheckInst(n) ==
  LET ob    == Insts[n]
      sh    == ToShape(ob.shape)
      log   == ToLog(ob.log)
      final == KwFn(ob.final)
      acc   == AllAccepted(sh, ob.add)
      nst   == NestedLinks(sh) # {}
      alg   == IF nst THEN MachineInit ELSE AlgInstantiate(sh)
      algadd == AlgAddLinks(sh, 1)
      ran   == ob.ran /\ acc /\ Feasible(sh)
      plan  == Plan(sh)
      mis   == MisorderedLinks(sh, plan)
      unr   == UnreachableLinks(sh, plan)
      leaf  == LeafLinks(sh)
      asalg == ob.failed = alg.failed /\ (~alg.failed => (log = alg.log /\ final = FinalPlain(sh, alg)))
      good  == ~ob.failed /\ RefInstOK(sh, log) /\ RefPlainOK(sh, final)
  IN /\ RefAddOK(sh, ob.add) \/ Say("inst", n, IF ob.add = algadd /\ NestedCycleAccepted(sh, ob.add) THEN "ref-dev-nested-cycle"
                                                ELSE IF ob.add = algadd /\ OwnerTargeted(sh, Len(ob.add)) THEN "ref-dev-owner-targeted"
                                                ELSE "ref-add")
     /\ (ob.ran = acc) \/ Say("inst", n, "ref-add")
     /\ (ob.add = algadd) \/ Say("inst", n, "alg-add")
     /\ IF ~ran THEN TRUE
        ELSE IF mis # {} THEN good \/ Say("inst", n, IF ob.failed THEN "ref-dev-target-raises"
                                                     ELSE IF Confined(sh, log, mis \cup leaf) THEN "ref-dev-target-confined" ELSE "ref-dev-other")
        ELSE IF unr # {} THEN good \/ Say("inst", n, IF ob.failed /\ alg.failed THEN "ref-dev-source-raises" ELSE "ref-dev-other")
        ELSE IF leaf # {} THEN good \/ Say("inst", n, IF ~ob.failed /\ (nst \/ asalg) /\ Confined(sh, log, leaf) THEN "ref-dev-leaf" ELSE "ref-dev-other")
        ELSE /\ ~ob.failed \/ Say("inst", n, "ref-raised")
             /\ (ob.failed \/ ExactlyOnce(log, sh.objs)) \/ Say("inst", n, "ref-exactly-once")
             /\ (ob.failed \/ BuiltBeforeX(sh, log)) \/ Say("inst", n, "ref-built-before")
             /\ (ob.failed \/ ReceivesSourceX(sh, log)) \/ Say("inst", n, "ref-receives-source")
             /\ (ob.failed \/ RefPlainOK(sh, final)) \/ Say("inst", n, "ref-plain-target")
             /\ (ob.failed \/ FnCalledOnceX(sh, log)) \/ Say("inst", n, "alg-fn-calls")
     /\ (~ran \/ mis # {} \/ nst \/ asalg) \/ Say("inst", n, "alg")

Check == IF i <= NG THEN CheckGraph(i) ELSE CheckInst(i - NG)
Inv == Check \/ TRUE
=============================================================================
