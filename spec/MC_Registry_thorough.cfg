SPECIFICATION Spec
CONSTANTS
  Depth = 4
  Emit = TRUE
INVARIANT HandlersRefine
INVARIANT CreateRefines
INVARIANT CreateStateAgrees
INVARIANT CreateFlagsExclusive
INVARIANT EmitBehaviour
CHECK_DEADLOCK FALSE
