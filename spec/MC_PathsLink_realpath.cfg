SPECIFICATION Spec
CONSTANTS
  CwdVariant = "realpath"
  StatGuard = FALSE
  CcStopsAtExisting = FALSE
  MaxDepth = 1
  Universe = "link"
  Emit = FALSE
INVARIANT InvResolves
CHECK_DEADLOCK FALSE
