SPECIFICATION Spec
CONSTANTS
  CwdVariant = "code"
  StatGuard = FALSE
  CcStopsAtExisting = FALSE
  MaxDepth = 2
  Universe = "link"
  Emit = TRUE
INVARIANT CTypeOK
INVARIANT InvResolves
INVARIANT InvRestored
INVARIANT InvStack
INVARIANT InvRunAgrees
INVARIANT InvOutcome
INVARIANT InvTargetIrrelevant
INVARIANT EmitBehaviour
CHECK_DEADLOCK FALSE
