SPECIFICATION Spec
CONSTANTS
  Tree = "T2"
  EnvFull = TRUE
  AoptFull = TRUE
  WithDcf = TRUE
  Emit = TRUE
INVARIANT AlgIsSelect
INVARIANT AlgDcfIsSelect
INVARIANT DcfPlainSame
INVARIANT OneSectionPerLevel
INVARIANT ArgvWins
INVARIANT EmitCase
CHECK_DEADLOCK FALSE
