------------------------------- MODULE MC_Cli -------------------------------
(* Bounded instance of Cli.tla: a universe of (component, command line) cases built from parameter       *)
(* variants x ways of giving each parameter.  One behaviour of the Alg machine per case; the invariants  *)
(* of Cli.tla are checked in every state; every finished case is emitted as JSON for the replay.         *)
EXTENDS Cli, Json
\* TLC orders record fields by first appearance of the name in the root module: keep the tag first
FieldOrder == [aid |-> 0, k |-> 0]
CONSTANTS Thorough,    \* FALSE: quick universe, TRUE: thorough universe
          Emit         \* TRUE: print every finished case as JSON (for the replay)

V(t, hd, d) == [t |-> t, hd |-> hd, d |-> d]
P(n, kind, v) == [n |-> n, kind |-> kind, t |-> v.t, hd |-> v.hd, d |-> v.d]
GT == <<"int", "str", "bool", "opt_int", "listint", "enum">>
NoDef == [i \in 1..6 |-> V(GT[i], FALSE, NoVal)]
WithDef == << V("int", TRUE, VInt(7)), V("str", TRUE, VStr("dflt")), V("bool", TRUE, VBool(FALSE)), V("opt_int", TRUE, VInt(5)),
              V("listint", TRUE, VList(<<1, 2>>)), V("enum", TRUE, VEnum("B")), V("int", TRUE, VNull), V("opt_int", TRUE, VNull) >>
\* generic aliases: Optional[List[int]], Optional[Dict[str,int]], Optional[Tuple[int,str]] without default; Dict / Tuple
NoDefX == << V("opt_listint", FALSE, NoVal), V("opt_dictint", FALSE, NoVal), V("opt_tupis", FALSE, NoVal), V("dictint", FALSE, NoVal), V("tupis", FALSE, NoVal) >>
WithDefX == << V("dictint", TRUE, VDict([x \in {"a"} |-> 1])), V("tupis", TRUE, VTup(1, "x")),
              V("unionis", FALSE, NoVal), V("unionis", TRUE, VStr("ab")), V("unionis", TRUE, VStr("5")) >>       \* Union[int, str]; the last default is the recorded deviation
Variants == NoDef \o WithDef \o NoDefX \o WithDefX         \* 24 (type, default) variants of one parameter; 1..14 are the scalar / list ones
NV == Len(Variants)
Names == <<"a", "b", "c", "d", "e", "f">>

\* values used on the command line (1: first assignment, 2: a later, different one), per declared type and channel
RECURSIVE Val(_, _, _), Wrong(_, _)
Val(t, src, w) ==
  CASE IsOpt(t) /\ t # "opt_int" -> IF w = 1 THEN Val(Unopt(t), src, 1) ELSE VNull
    [] t = "obj"     -> IF w = 1 THEN VSpec("Sub", 5) ELSE VSpec("Base", 6)
    [] t = "any"     -> IF src = "argv" THEN VStr("ab") ELSE VDict([x \in {"k"} |-> 3])       \* (untyped: any value)
    [] t = "dictint" -> IF w = 1 THEN VDict([x \in {"k"} |-> 3]) ELSE VDict(EmptyFn)
    [] t = "tupis"   -> IF w = 1 THEN VTup(4, "y") ELSE VTup(5, "z")
    [] t = "unionis" -> IF w = 1 THEN VStr("ab") ELSE (IF src = "argv" THEN VInt(12) ELSE VStr("7"))
    [] t = "int"     -> IF w = 1 THEN VInt(3) ELSE VInt(-2)
    [] t = "str"     -> IF w = 1 THEN VStr("ab") ELSE (IF src = "argv" THEN VInt(12) ELSE VStr("cd"))
    [] t = "bool"    -> IF w = 1 THEN VBool(TRUE) ELSE VBool(FALSE)
    [] t = "opt_int" -> IF w = 1 THEN VInt(4) ELSE VNull
    [] t = "listint" -> IF w = 1 THEN VList(<<4, 5>>) ELSE VList(<< >>)
    [] t = "enum"    -> IF w = 1 THEN VStr("A") ELSE VStr("B")
Wrong(t, src) ==
  CASE IsOpt(t) /\ t # "opt_int" -> Wrong(Unopt(t), src)
    [] t \in {"dictint", "tupis"} -> VInt(3)
    [] t = "obj"     -> VInt(3)
    [] t = "any"     -> VInt(3)                                       \* (nothing is wrong for an untyped parameter)
    [] t = "unionis" -> VBool(TRUE)                                   \* (a word: every text is a str)
    [] t = "int"     -> VStr("ab")
    [] t = "str"     -> IF src = "argv" THEN VBool(TRUE) ELSE VInt(12)      \* on the command line every text is a str
    [] t = "bool"    -> VInt(1)
    [] t = "opt_int" -> VBool(TRUE)
    [] t = "listint" -> VInt(3)
    [] t = "enum"    -> VStr("Z")

\* ways of giving one parameter
Modes == <<"absent", "pos", "opt", "cfg", "cfg_opt", "opt_cfg", "pos_cfg", "bad_arg", "bad_cfg", "null_opt">>
NM == Len(Modes)
Tok(k, n, v) == [k |-> k, n |-> n, v |-> v]
PosTok(v) == [k |-> "pos", v |-> v]
CfgTok(m) == [k |-> "cfg", m |-> m]
\* "pos" only makes sense for a required parameter (as_positional); otherwise it is given by option
Eff(p, m, aspos) == IF m \in {"pos", "pos_cfg"} /\ ~(RefRequired(p) /\ aspos) THEN (IF m = "pos" THEN "opt" ELSE "opt_cfg")
                    ELSE IF m = "bad_arg" THEN (IF RefRequired(p) /\ aspos THEN "bad_pos" ELSE "bad_opt") ELSE m
\* the tokens of one level: [early config] (words, options in either order) [late config]
LevelToks(ps, ms, aspos, inter) ==
  LET n == Len(ps)
      e(i) == Eff(ps[i], ms[i], aspos)
      early == {i \in 1..n : e(i) \in {"cfg", "cfg_opt"}}
      late  == {i \in 1..n : e(i) \in {"opt_cfg", "pos_cfg", "bad_cfg"}}
      words == SelectSeq([i \in 1..n |-> i], LAMBDA i : e(i) \in {"pos", "pos_cfg", "bad_pos"})
      opts  == SelectSeq([i \in 1..n |-> i], LAMBDA i : e(i) \in {"opt", "cfg_opt", "opt_cfg", "bad_opt", "null_opt"})
      wtoks == [j \in 1..Len(words) |-> PosTok(IF e(words[j]) = "bad_pos" THEN Wrong(ps[words[j]].t, "argv") ELSE Val(ps[words[j]].t, "argv", 1))]
      otoks == [j \in 1..Len(opts) |-> LET i == opts[j] IN
                  Tok("opt", ps[i].n, CASE e(i) = "bad_opt"  -> Wrong(ps[i].t, "argv")
                                        [] e(i) = "null_opt" -> VNull
                                        [] e(i) = "cfg_opt"  -> Val(ps[i].t, "argv", 2)
                                        [] OTHER             -> Val(ps[i].t, "argv", 1))]
      emap == [x \in {ps[i].n : i \in early} |-> Val(ParamOf(ps, x).t, "cfg", 1)]
      lmap == [x \in {ps[i].n : i \in late} |-> IF e(CHOOSE i \in late : ps[i].n = x) = "bad_cfg" THEN Wrong(ParamOf(ps, x).t, "cfg") ELSE Val(ParamOf(ps, x).t, "cfg", 2)]
  IN (IF early = {} THEN << >> ELSE <<CfgTok(emap)>>)
     \o (IF inter = 0 THEN wtoks \o otoks ELSE otoks \o wtoks)
     \o (IF late = {} THEN << >> ELSE <<CfgTok(lmap)>>)
\* the same settings as one config section (for the implicit, config-only form)
LevelMap(ps, ms) == LET given == {i \in 1..Len(ps) : ms[i] # "absent"}
                    IN [x \in {ps[i].n : i \in given} |-> Val(ParamOf(ps, x).t, "cfg", 1)]

\* kinds: positional-or-keyword while Python allows it (no parameter without default after one with default), then keyword-only
RECURSIVE Kinds(_, _, _)
Kinds(vs, i, ko) == IF i > Len(vs) THEN << >>
                    ELSE LET mustko == ko \/ (\E j \in 1..(i - 1) : vs[j].hd /\ ~vs[i].hd) \/ (i = Len(vs) /\ i > 2)
                         IN <<IF mustko THEN "ko" ELSE "pk">> \o Kinds(vs, i + 1, mustko)
Sig(vs) == LET ks == Kinds(vs, 1, FALSE) IN [i \in 1..Len(vs) |-> P(Names[i], ks[i], vs[i])]
Fn(name, ps) == [k |-> "fn", name |-> name, params |-> ps, methods |-> << >>]
Cls(name, ps, ms) == [k |-> "cls", name |-> name, params |-> ps, methods |-> ms]
Meth(name, ps) == [name |-> name, params |-> ps]
Leaf(path, c) == [path |-> path, c |-> c]
Case(id, aspos, leaves, argv) == [aid |-> id, aspos |-> aspos, leaves |-> leaves, argv |-> argv]

\* ---------------------------------------------------------------- universe F: one function
\* F1: one parameter: every variant x every mode x as_positional
F1 == {<<"F1", v, m, ap>> : v \in 1..NV, m \in 1..NM, ap \in 0..1}
BuildF1(id) == LET v == id[2] m == id[3] ap == id[4] = 1 IN
  Case(id, ap, <<Leaf(<< >>, Fn("f", Sig(<<Variants[v]>>)))>>, LevelToks(Sig(<<Variants[v]>>), <<Modes[m]>>, ap, 0))
\* F2: two parameters: every pair of variants x a square of modes
M2 == IF Thorough THEN 1..NM ELSE {2, 4, 7}
F2 == {<<"F2", v1, v2, m1, m2>> : v1 \in 1..14, v2 \in 1..14, m1 \in M2, m2 \in M2}
      \cup {id \in {<<"F2", v1, v2, mm[1], mm[2]>> : v1 \in 1..NV, v2 \in 1..NV,
                                                         mm \in (IF Thorough THEN {2, 3, 4, 7} \X {2, 3, 4, 7} ELSE {<<3, 3>>, <<2, 4>>})}
               : id[2] > 14 \/ id[3] > 14}                                              \* pairs with a generic-alias variant
BuildF2(id) == LET v1 == id[2] v2 == id[3] m1 == id[4] m2 == id[5] IN
  Case(id, TRUE, <<Leaf(<< >>, Fn("f", Sig(<<Variants[v1], Variants[v2]>>)))>>,
       LevelToks(Sig(<<Variants[v1], Variants[v2]>>), <<Modes[m1], Modes[m2]>>, TRUE, (v1 + m2) % 2))
\* Fn: n parameters, types rotating through the grammar, every default pattern, modes rotating
Bit(h, i) == (h \div (2 ^ (i - 1))) % 2 = 1
RotVariant(r, h, i) == LET t == ((r + i) % 6) + 1 IN IF Bit(h, i) THEN WithDef[IF (t + h) % 4 = 0 /\ t \in {1, 4} THEN (IF t = 1 THEN 7 ELSE 8) ELSE t] ELSE NoDef[t]
RotSig(n, r, h) == Sig([i \in 1..n |-> RotVariant(r, h, i)])
\* modes rotating through the valid ways; for s >= 7 exactly one parameter is given in an invalid way
RotModes(n, s) == [i \in 1..n |-> IF s >= 7 /\ i = (s % n) + 1 THEN Modes[s + 1] ELSE Modes[((s + 3 * i) % 7) + 1]]
\* in the FN universe a required parameter is never left out (missing required parameters are the subject of F1/F2)
\* ... and is given as a word where it has no option (unknown options are the subject of F1/F2)
NeverAbsent(ps, ms, aspos) == [i \in 1..Len(ps) |->
   IF ~RefRequired(ps[i]) THEN ms[i]
   ELSE IF ms[i] = "absent" THEN "cfg"
   ELSE IF aspos /\ ms[i] = "opt" THEN "pos"
   ELSE IF aspos /\ ms[i] \in {"cfg_opt", "opt_cfg"} THEN "pos_cfg" ELSE ms[i]]
FN(n) == {<<"FN", n, r, h, s>> : r \in 0..5, h \in 0..(2 ^ n - 1), s \in 0..(NM - 1)}
BuildFN(id) == LET n == id[2] r == id[3] h == id[4] s == id[5] IN
  Case(id, (r + s) % 5 # 0, <<Leaf(<< >>, Fn("f", RotSig(n, r, h)))>>, LevelToks(RotSig(n, r, h), NeverAbsent(RotSig(n, r, h), RotModes(n, s), (r + s) % 5 # 0), (r + s) % 5 # 0, s % 2))
\* F3full (thorough): three parameters, every triple of variants, modes rotating
F3full == {<<"F3", v1, v2, v3, s>> : v1 \in 1..14, v2 \in 1..14, v3 \in 1..14, s \in {0, 5}}
BuildF3(id) == LET v1 == id[2] v2 == id[3] v3 == id[4] s == id[5] IN
  Case(id, TRUE, <<Leaf(<< >>, Fn("f", Sig(<<Variants[v1], Variants[v2], Variants[v3]>>)))>>,
       LevelToks(Sig(<<Variants[v1], Variants[v2], Variants[v3]>>), RotModes(3, s), TRUE, s % 2))

\* ---------------------------------------------------------------- palette of signatures for structured components
Pal == << << >>,                                                                       \* ()
          Sig(<<NoDef[1]>>),                                                            \* (a: int)
          Sig(<<NoDef[1], WithDef[2]>>),                                                \* (a: int, b: str = "dflt")
          Sig(<<NoDef[3], NoDef[4]>>),                                                  \* (a: bool, b: Optional[int])
          Sig(<<NoDef[2], WithDef[5], WithDef[6]>>),                                    \* (a: str, b: List[int] = [1, 2], *, c: Enum = B)
          Sig(<<WithDef[7], NoDef[5], NoDef[6]>>),                                      \* (a: int = None, *, b: List[int], c: Enum)
          <<P("_h", "pk", WithDef[1]), P("x", "pk", WithDef[3])>>,                      \* (_h: int = 7, x: bool = False)
          <<P("_h", "pk", NoDef[4]), P("x", "pk", WithDef[1])>>,                        \* (_h: Optional[int], x: int = 7)   the recorded deviation
          <<P("bb", "pk", WithDef[5]), P("x", "pk", WithDef[1])>>,                      \* (bb: List[int] = [1, 2], x: int = 7)   --b of a method is ambiguous (--bb, --bb+)
          Sig(<<NoDefX[1], NoDefX[2], NoDefX[3]>>),                                     \* (a: Optional[List[int]], b: Optional[Dict[str,int]], *, c: Optional[Tuple[int,str]])   no defaults
          <<P("config", "pk", WithDef[1]), P("a", "pk", WithDef[1])>>,                  \* 11 (config: int = 7, a: int = 7)   METHODS ONLY: the recorded deviation
          <<P("config", "pk", NoDef[1])>>                                               \* 12 (config: int)                  METHODS ONLY
       >>
NPF == 10      \* palette entries usable as function / __init__ signature
NP == Len(Pal)
PalModes(ps, s) == [i \in 1..Len(ps) |-> Modes[((s + 3 * i) % NM) + 1]]

\* every visible parameter of a level, as config settings
AllMap(ps) == [x \in {ps[i].n : i \in {j \in 1..Len(ps) : ~RefHidden(ps[j])}} |-> Val(ParamOf(ps, x).t, "cfg", 1)]
\* ONE config for the whole component: the settings of EVERY level, i.e. sections for all sibling sub-commands at every
\* level; expl: the sub-commands along `sel` are selected by "subcommand" keys inside the config, otherwise implicitly
RECURSIVE FullMap(_, _, _, _)
FullMap(c0, l, sel, expl) ==
  LET pm == AllMap(LvlParams(c0, l))
      subs == LvlSubSeq(c0, l)
      secs == {subs[j] : j \in {q \in 1..Len(subs) : subs[q] # "config" /\ DOMAIN FullMap(c0, l \o <<subs[q]>>, sel, expl) # {}}}   \* (no section for a component called config: the key is the option's own dest)
      selk == IF expl /\ Len(subs) > 0 /\ Len(sel) > Len(l) /\ IsPrefixSeq(l, sel) THEN {"subcommand"} ELSE {}
  IN [x \in (DOMAIN pm) \cup secs \cup selk |->
        IF x \in selk THEN VStr(sel[Len(l) + 1])
        ELSE IF x \in secs THEN VMap(FullMap(c0, l \o <<x>>, sel, expl)) ELSE pm[x]]

\* options for the callable that runs, after everything else: every other visible non-required parameter, a second value
OptTail(ps) == LET idx == SelectSeq([i \in 1..Len(ps) |-> i], LAMBDA i : i % 2 = 1 /\ ~RefRequired(ps[i]) /\ ~RefHidden(ps[i]))
               IN [j \in 1..Len(idx) |-> Tok("opt", ps[idx[j]].n, Val(ps[idx[j]].t, "argv", 2))]

\* K: a class with 1..3 methods; the init and the called method get rotating modes; explicit sub-command word,
\*    or everything in one config (implicit selection)
MethNames == <<"m1", "m2", "m3">>
BuildK(id) ==
  LET i0 == id[2] ms == id[3] call == id[4] s == id[5] form == id[6]
      init == Pal[i0]
      meths == [j \in 1..Len(ms) |-> Meth(MethNames[j], Pal[ms[j]])]
      mp == Pal[ms[call]]
      comp == Cls("K", init, meths)
      explicit == LevelToks(init, PalModes(init, s), TRUE, s % 2) \o <<PosTok(VStr(MethNames[call]))>> \o LevelToks(mp, PalModes(mp, s + 1), TRUE, (s + 1) % 2)
      section == LevelMap(mp, PalModes(mp, s + 1))
      implicit == <<CfgTok([x \in (DOMAIN LevelMap(init, PalModes(init, s))) \cup {MethNames[call]} |->
                              IF x = MethNames[call] THEN VMap(section) ELSE LevelMap(init, PalModes(init, s))[x]])>>
      mixed == <<CfgTok([x \in {MethNames[call]} |-> VMap(section)])>> \o LevelToks(init, PalModes(init, s), TRUE, 0) \o <<PosTok(VStr(MethNames[call]))>>
  IN Case(id, TRUE, <<Leaf(<< >>, comp)>>,
          CASE form = 1 -> explicit
            [] form = 2 -> (IF DOMAIN section = {} THEN explicit ELSE implicit)
            [] form = 3 -> (IF DOMAIN section = {} THEN explicit ELSE mixed)
            [] form = 4 -> LevelToks(init, PalModes(init, s), TRUE, 0)                                   \* no sub-command at all
            [] form = 6 -> <<CfgTok(FullMap([leaves |-> <<Leaf(<< >>, comp)>>], << >>, <<MethNames[call]>>, TRUE))>>    \* selected inside the config, sibling sections
            [] form = 7 -> <<CfgTok(FullMap([leaves |-> <<Leaf(<< >>, comp)>>], << >>, <<MethNames[call]>>, FALSE))>>   \* implicit, several sibling sections
            [] form = 8 -> <<CfgTok(FullMap([leaves |-> <<Leaf(<< >>, comp)>>], << >>, <<MethNames[call]>>, FALSE))>>   \* sections for all methods, the WORD names one
                           \o <<PosTok(VStr(MethNames[call]))>> \o OptTail(mp)
            [] OTHER    -> LevelToks(init, PalModes(init, s), TRUE, 0) \o <<PosTok(VStr("zz"))>>)        \* unknown sub-command
KS == IF Thorough THEN {0, 2, 3, 5, 7, 9} ELSE {0, 7}
KJ == IF Thorough THEN 1..NP ELSE {2, 3, 4, 6, 8, 9, 10, 11}
K1 == {<<"K", i0, <<j>>, 1, s, f>> : i0 \in 1..NPF, j \in 1..NP, s \in (IF Thorough THEN KS ELSE {0}), f \in 1..5}
K2 == {<<"K", i0, <<j1, j2>>, c, s, f>> : i0 \in {1, 2, 4, 7, 9, 10}, j1 \in KJ, j2 \in {1, 3, 5}, c \in 1..2, s \in KS, f \in 1..3}
KX == {<<"K", i0, <<j1, j2>>, c, 0, f>> : i0 \in {1, 2, 4, 7, 9, 10}, j1 \in KJ, j2 \in {1, 3, 5}, c \in 1..2, f \in 6..8}
      \cup {<<"K", i0, <<j1, j2, 3>>, c, 0, f>> : i0 \in {1, 3, 7}, j1 \in {2, 4, 6, 10}, j2 \in {3, 5, 11}, c \in 1..3, f \in 6..8}
K3 == {<<"K", i0, <<j1, j2, 1>>, c, s, f>> : i0 \in {1, 3}, j1 \in {2, 4, 6}, j2 \in {3, 5}, c \in 1..3, s \in KS, f \in 1..2}

\* T: lists and nested dicts of functions (and a class inside them)
TLeaves(shape, j1, j2, j3) ==
  CASE shape = 1 -> <<Leaf(<<"f">>, Fn("f", Pal[j1])), Leaf(<<"g">>, Fn("g", Pal[j2]))>>                                      \* [f, g]
    [] shape = 2 -> <<Leaf(<<"f">>, Fn("f", Pal[j1])), Leaf(<<"g">>, Fn("g", Pal[j2])), Leaf(<<"h">>, Fn("h", Pal[j3]))>>       \* [f, g, h]
    [] shape = 3 -> <<Leaf(<<"grp", "f">>, Fn("f", Pal[j1])), Leaf(<<"grp", "g">>, Fn("g", Pal[j2])), Leaf(<<"h">>, Fn("h", Pal[j3]))>>   \* {"grp": {"f": f, "g": g}, "h": h}
    [] shape = 4 -> <<Leaf(<<"top", "mid", "f">>, Fn("f", Pal[j1])), Leaf(<<"top", "g">>, Fn("g", Pal[j2])), Leaf(<<"h">>, Fn("h", Pal[j3]))>>
    [] shape = 5 -> <<Leaf(<<"K">>, Cls("K", Pal[j1], <<Meth("m1", Pal[j2]), Meth("m2", Pal[j3])>>)), Leaf(<<"h">>, Fn("h", Pal[j3]))>>   \* [K, h]
    [] shape = 7 -> <<Leaf(<<"top", "mid", "f">>, Fn("f", Pal[j1])), Leaf(<<"top", "mid", "g">>, Fn("g", Pal[j2])),              \* {"top": {"mid": {f, g}, "alt": {h}}, "u": u}
                      Leaf(<<"top", "alt", "h">>, Fn("h", Pal[j3])), Leaf(<<"u">>, Fn("u", Pal[j3]))>>
    \* shape 8 used to be a component CALLED config (finding sub-named-config).  Since the repair 7c4a568 made such a
    \* component selectable, the collision of its name with the dest of --config shows in ever more ways (its keys are
    \* not validated, a --config after it is taken for its key, a method of that name loses its section ...): the Alg
    \* layer does not transcribe them, so the name is outside the instance; the finding keeps its by-hand reproductions.
    [] shape = 8 -> <<Leaf(<<"conf">>, Fn("conf", Pal[j1])), Leaf(<<"h">>, Fn("h", Pal[j3]))>>
    [] OTHER     -> <<Leaf(<<"grp", "K">>, Cls("K", Pal[j1], <<Meth("m1", Pal[j2]), Meth("m2", Pal[j3])>>)), Leaf(<<"f">>, Fn("f", Pal[j3]))>>
RECURSIVE Words(_), NestMap(_, _)
Words(path) == IF path = << >> THEN << >> ELSE <<PosTok(VStr(Head(path)))>> \o Words(Tail(path))
NestMap(path, m) == IF path = << >> THEN m ELSE [x \in {Head(path)} |-> VMap(NestMap(Tail(path), m))]
BuildTWith(id, leaves) ==
  LET which == id[6] s == id[7] form == id[8]
      lf == leaves[((which - 1) % Len(leaves)) + 1]
      iscls == lf.c.k = "cls"
      ps == lf.c.params
      mp == IF iscls THEN lf.c.methods[1].params ELSE << >>
      mn == IF iscls THEN lf.c.methods[1].name ELSE ""                 \* the method that is called: the first one
      tail == IF iscls THEN <<PosTok(VStr(mn))>> \o LevelToks(mp, PalModes(mp, s + 1), TRUE, 0) ELSE << >>
      explicit == Words(lf.path) \o LevelToks(ps, PalModes(ps, s), TRUE, s % 2) \o tail
      section == LevelMap(ps, PalModes(ps, s))
      rootcfg == <<CfgTok(NestMap(lf.path, section))>>
  IN Case(id, TRUE, leaves,
          CASE form = 1 -> explicit
            [] form = 2 -> (IF DOMAIN section = {} \/ iscls THEN explicit ELSE rootcfg)                                       \* implicit selection by config
            [] form = 3 -> (IF DOMAIN section = {} THEN explicit ELSE rootcfg \o Words(lf.path) \o tail)                      \* config first, then the words
            [] form = 4 -> Words(FrontSeq(lf.path))                                                                          \* stops before the leaf
            [] form = 6 -> <<CfgTok(FullMap([leaves |-> leaves], << >>, lf.path \o (IF iscls THEN <<mn>> ELSE << >>), TRUE))>>     \* selected inside the config at every level
            [] form = 7 -> <<CfgTok(FullMap([leaves |-> leaves], << >>, lf.path \o (IF iscls THEN <<mn>> ELSE << >>), FALSE))>>    \* implicit at every level, sibling sections
            [] form = 8 -> LET kk == IF s > Len(lf.path) THEN Len(lf.path) ELSE s                                                    \* --config after kk words (root, after a group name, after the leaf's name),
                               at == SubSeq(lf.path, 1, kk)                                                                          \*   with sections for ALL siblings and no "subcommand" key; the words name the component
                           IN Words(at) \o <<CfgTok(FullMap([leaves |-> leaves], at, lf.path \o (IF iscls THEN <<mn>> ELSE << >>), FALSE))>>
                              \o Words(SubSeq(lf.path, kk + 1, Len(lf.path))) \o (IF iscls THEN <<PosTok(VStr(mn))>> ELSE << >>) \o OptTail(IF iscls THEN mp ELSE ps)
            [] OTHER    -> Words(FrontSeq(lf.path)) \o <<PosTok(VStr("zz"))>>)
BuildT(id) == BuildTWith(id, TLeaves(id[2], id[3], id[4], id[5]))
TS == IF Thorough THEN {0, 3, 4, 8} ELSE {3}
TJ == IF Thorough THEN 1..NPF ELSE {2, 3, 5, 10}
TX == {<<"T", sh, j1, j2, j3, w, 0, f>> : sh \in 1..6, j1 \in TJ, j2 \in {4, 6, 10}, j3 \in {1, 3}, w \in 1..3, f \in 6..7}
      \cup {<<"T", sh, j1, j2, 3, w, k, 8>> : sh \in 1..8, j1 \in TJ, j2 \in {4, 6}, w \in 1..3, k \in 0..3}          \* --config at every level of the path
      \cup {<<"T", 7, j1, j2, 3, w, 0, f>> : j1 \in TJ, j2 \in {4, 6}, w \in 1..3, f \in {1, 6, 7}}
      \cup {<<"T", 8, j1, j2, 3, w, 0, 1>> : j1 \in TJ, j2 \in {4, 6}, w \in 1..3}
T == {<<"T", sh, j1, j2, j3, w, s, f>> : sh \in 1..6, j1 \in TJ, j2 \in (IF Thorough THEN {1, 4, 6} ELSE {4, 6}), j3 \in {1, 3}, w \in 1..3, s \in TS, f \in 1..5}


\* TN: component, group and method names that are also attributes of jsonargparse's Namespace (get, update, pop, clone, items,
\*     keys, values): lists of such functions, nested dicts whose groups AND functions are called like that, classes with such
\*     methods (alone, in a list, inside a group) -- selected by words, by "subcommand" keys of a config, implicitly by section,
\*     and with sibling sections + words (forms 1, 3, 6, 7, 8 of T).  r rotates the names through every role.
NsNames == <<"get", "update", "pop", "clone", "items", "keys", "values">>
NsN(r, i) == NsNames[((r + i) % 7) + 1]
NsPairs == << <<"get", "items">>, <<"items", "keys">>, <<"keys", "values">>, <<"clone", "pop">>, <<"pop", "update">>, <<"update", "values">>, <<"clone", "get">> >>   \* (methods in sorted order)
TNLeaves(shape, r, j1, j2, j3) ==
  LET mp == NsPairs[(r % 7) + 1]
      KK == Cls("K", Pal[j1], <<Meth(mp[1], Pal[j2]), Meth(mp[2], Pal[j3])>>)
  IN CASE shape = 1 -> <<Leaf(<<NsN(r, 1)>>, Fn(NsN(r, 1), Pal[j1])), Leaf(<<NsN(r, 2)>>, Fn(NsN(r, 2), Pal[j2])), Leaf(<<NsN(r, 3)>>, Fn(NsN(r, 3), Pal[j3]))>>
       [] shape = 2 -> <<Leaf(<<NsN(r, 1), NsN(r, 2)>>, Fn(NsN(r, 2), Pal[j1])), Leaf(<<NsN(r, 1), NsN(r, 3)>>, Fn(NsN(r, 3), Pal[j2])),      \* {"n1": {"n2": f, "n3": g}, "n4": {"n1": h}}
                         Leaf(<<NsN(r, 4), NsN(r, 1)>>, Fn(NsN(r, 1), Pal[j3]))>>
       [] shape = 3 -> <<Leaf(<< >>, KK)>>
       [] shape = 4 -> <<Leaf(<<NsN(r, 1), "K">>, KK), Leaf(<<NsN(r, 1), NsN(r, 2)>>, Fn(NsN(r, 2), Pal[j3])), Leaf(<<NsN(r, 3)>>, Fn(NsN(r, 3), Pal[j3]))>>
       [] OTHER     -> <<Leaf(<<"K">>, KK), Leaf(<<NsN(r, 1)>>, Fn(NsN(r, 1), Pal[j3]))>>
TN == {<<"TN", sh, r, j1, j2, w, s, f>> : sh \in 1..5, r \in 0..6, j1 \in (IF Thorough THEN {2, 3, 5} ELSE {3}), j2 \in (IF Thorough THEN {4, 6} ELSE {4}),
                                          w \in (IF Thorough THEN 1..3 ELSE 1..2), s \in {0}, f \in {1, 3, 6, 7, 8}}
      \cup {<<"TN", sh, r, 3, 4, w, 1, 8>> : sh \in {2, 4}, r \in 0..6, w \in 1..2}                       \* --config after the group name
BuildTN(id) == LET c == BuildTWith(<<"T", id[2], id[4], id[5], 3, id[6], id[7], id[8]>>, TNLeaves(id[2], id[3], id[4], id[5], 3))
               IN Case(id, c.aspos, c.leaves, c.argv)

\* ================================================================ round 4: extension universes
\* XR: what the component returns (falsy values, a coroutine function) and what happens when it raises
FnX(name, ps, rz, rk, co) == [k |-> "fn", name |-> name, params |-> ps, methods |-> << >>, rz |-> rz, rk |-> rk, co |-> co]
ClsX(name, ps, ms, rz) == [k |-> "cls", name |-> name, params |-> ps, methods |-> ms, rz |-> rz]
MethX(name, ps, rz, rk, co) == [name |-> name, params |-> ps, rz |-> rz, rk |-> rk, co |-> co]
RzKinds == <<"", "boom", "typeerr", "keyerr">>
RkKinds == <<"tok", "none", "zero", "empty", "false">>
XR == {<<"XR", sw[1], sw[2], rr[1], rr[2], co, form>> : sw \in {<<1, 1>>, <<2, 1>>, <<2, 2>>, <<2, 3>>, <<3, 1>>, <<3, 2>>, <<4, 1>>},
          rr \in ({0} \X (1..5)) \cup ((1..3) \X {1}), co \in 0..1, form \in 1..3}
BuildXR(id) ==
  LET shape == id[2] who == id[3] rz == RzKinds[id[4] + 1] rk == RkKinds[id[5]] co == id[6] = 1 form == id[7]
      pa == Pal[3]                      \* (a: int, b: str = "dflt")
      given == CASE form = 1 -> <<PosTok(VInt(3)), Tok("opt", "b", VStr("ab"))>>
                 [] form = 2 -> <<CfgTok([x \in {"a", "b"} |-> IF x = "a" THEN VInt(3) ELSE VStr("cd")])>>
                 [] OTHER    -> <<PosTok(VStr("ab"))>>                                  \* ill-typed: nothing may be called
      K == ClsX("K", Pal[2], <<IF who = 2 THEN MethX("m1", pa, rz, rk, co) ELSE IF who = 1 THEN MethX("m1", pa, "", rk, co) ELSE Meth("m1", pa),
                               IF who = 3 THEN MethX("m2", pa, rz, rk, co) ELSE Meth("m2", Pal[1])>>, IF who = 1 THEN rz ELSE "")
      mname == IF who = 3 THEN "m2" ELSE "m1"
  IN CASE shape = 1 -> Case(id, TRUE, <<Leaf(<< >>, FnX("f", pa, rz, rk, co))>>, given)
       [] shape = 2 -> Case(id, TRUE, <<Leaf(<< >>, K)>>, <<PosTok(VInt(4)), PosTok(VStr(mname))>> \o given)
       [] shape = 3 -> Case(id, TRUE, <<Leaf(<<"f">>, IF who = 1 THEN FnX("f", pa, rz, rk, co) ELSE Fn("f", pa)),
                                        Leaf(<<"g">>, IF who = 2 THEN FnX("g", pa, rz, rk, co) ELSE Fn("g", Pal[1]))>>,
                            <<PosTok(VStr(IF who = 1 THEN "f" ELSE "g"))>> \o given)
       [] OTHER     -> Case(id, TRUE, <<Leaf(<<"grp", "K">>, K), Leaf(<<"grp", "f">>, Fn("f", pa)), Leaf(<<"h">>, FnX("h", Pal[1], "boom", "tok", FALSE))>>,   \* a raising sibling that is not selected
                            <<PosTok(VStr("grp")), PosTok(VStr("K")), PosTok(VInt(4)), PosTok(VStr(mname))>> \o given)

\* XS / XK / XT: auto_cli(set_defaults={dotted key: value}); the values differ from every value used on the command line
SdV(t) == LET u == IF IsOpt(t) THEN Unopt(t) ELSE t IN
          CASE u = "int" -> VInt(9) [] u = "str" -> VStr("sd") [] u = "bool" -> VBool(TRUE) [] u = "listint" -> VList(<<9>>)
            [] u = "enum" -> VEnum("A") [] u = "dictint" -> VDict([x \in {"s"} |-> 9]) [] u = "tupis" -> VTup(9, "s") [] u = "unionis" -> VStr("cd")
SdE(l, p) == [lvl |-> l, n |-> p.n, v |-> SdV(p.t)]
CaseSd(id, c, sd) == [aid |-> id, aspos |-> c.aspos, leaves |-> c.leaves, argv |-> c.argv, sd |-> sd]
SdOfLevel(c0, l) == LET ps == SelectSeq(LvlParams(c0, l), LAMBDA p : ~RefHidden(p)) IN [i \in 1..Len(ps) |-> SdE(l, ps[i])]
RECURSIVE ConcatAll(_)
ConcatAll(ss) == IF ss = << >> THEN << >> ELSE Head(ss) \o ConcatAll(Tail(ss))
LevelsOf(leaves) == ConcatAll([i \in 1..Len(leaves) |-> <<leaves[i].path>> \o [j \in 1..Len(leaves[i].c.methods) |-> leaves[i].path \o <<leaves[i].c.methods[j].name>>]])
SdAll(c0, keep(_)) == LET ls == SelectSeq(LevelsOf(c0.leaves), keep) IN ConcatAll([i \in 1..Len(ls) |-> SdOfLevel(c0, ls[i])])
XSM == IF Thorough THEN 1..NM ELSE {1, 2, 3, 4, 8, 10}
XS == {<<"XS", v, m, ap, sk>> : v \in 1..(NV - 1), m \in XSM, ap \in 0..1, sk \in (IF Thorough THEN 1..3 ELSE {1, 3})}
BuildXS(id) == LET v == id[2] m == id[3] ap == id[4] = 1 sk == id[5]
                   sig == Sig(<<Variants[v], WithDef[1]>>)
               IN [aid |-> id, aspos |-> ap, leaves |-> <<Leaf(<< >>, Fn("f", sig))>>, argv |-> LevelToks(sig, <<Modes[m], "absent">>, ap, 0),
                   sd |-> (IF sk \in {1, 3} THEN <<SdE(<< >>, sig[1])>> ELSE << >>) \o (IF sk \in {2, 3} THEN <<SdE(<< >>, sig[2])>> ELSE << >>)]
XK == {<<"XK", i0, j, form, w>> : i0 \in (IF Thorough THEN {2, 3, 5, 6, 10} ELSE {2, 5, 10}), j \in (IF Thorough THEN {2, 3, 4, 5, 6, 10} ELSE {3, 4, 6}),
                                  form \in {1, 2, 4, 8}, w \in 1..3}
BuildXK(id) == LET c == BuildK(<<"K", id[2], <<id[3], 3>>, 1, 0, id[4]>>) w == id[5]
               IN CaseSd(id, c, SdAll(c, LAMBDA l : (l = << >> /\ w \in {1, 3}) \/ (l # << >> /\ w \in {2, 3})))
XT == {<<"XT", sh, j1, j2, w, form>> : sh \in {1, 3, 4, 5, 6}, j1 \in (IF Thorough THEN {2, 3, 5} ELSE {3, 5}), j2 \in {4, 6}, w \in 1..3,
                                       form \in (IF Thorough THEN {1, 3, 8} ELSE {1, 8})}
BuildXT(id) == LET c == BuildT(<<"T", id[2], id[3], id[4], 3, id[5], 0, id[6]>>) IN CaseSd(id, c, SdAll(c, LAMBDA l : TRUE))

\* E1 / EK / ET: the environment (default_env=True through auto_cli's parser kwargs)
EnvV(t) == LET u == IF IsOpt(t) THEN Unopt(t) ELSE t IN
           CASE u = "int" -> VInt(8) [] u = "str" -> VStr("ev") [] u = "bool" -> VBool(TRUE) [] u = "listint" -> VList(<<8>>)
             [] u = "enum" -> VStr("A") [] u = "dictint" -> VDict([x \in {"e"} |-> 8]) [] u = "tupis" -> VTup(8, "e") [] u = "unionis" -> VStr("ev")
EVar(l, n, v) == [k |-> "evar", lvl |-> l, n |-> n, v |-> v]
ESel(l, s) == [k |-> "esel", lvl |-> l, v |-> VStr(s)]
ECfg(m) == [k |-> "ecfg", lvl |-> << >>, m |-> m]
CaseEnv(id, c, on, env) == [aid |-> id, aspos |-> c.aspos, leaves |-> c.leaves, argv |-> c.argv, envon |-> on, env |-> env]
EnvOfLevel(c0, l) == LET ps == SelectSeq(LvlParams(c0, l), LAMBDA p : ~RefHidden(p)) IN [i \in 1..Len(ps) |-> EVar(l, ps[i].n, EnvV(ps[i].t))]
EnvAll(c0) == LET ls == LevelsOf(c0.leaves) IN ConcatAll([i \in 1..Len(ls) |-> EnvOfLevel(c0, ls[i])])
\* <..>SUBCOMMAND variables along the chain sel
ESelChain(sel) == [i \in 1..Len(sel) |-> ESel(SubSeq(sel, 1, i - 1), sel[i])]
E1V == IF Thorough THEN 1..(NV - 1) ELSE {1, 2, 3, 4, 5, 6, 8, 10, 13, 15, 16, 20, 22}
E1M == IF Thorough THEN {1, 2, 3, 4, 5, 6} ELSE {1, 2, 4}
E1 == {<<"E1", v, em, m, ap, 1>> : v \in E1V, em \in 1..5, m \in E1M, ap \in 0..1} \cup {<<"E1", v, 1, 1, ap, 0>> : v \in E1V, ap \in 0..1}
BuildE1(id) == LET v == id[2] em == id[3] m == id[4] ap == id[5] = 1 on == id[6] = 1
                   sig == Sig(<<Variants[v], WithDef[1]>>)
                   t == sig[1].t
                   env == CASE em = 1 -> <<EVar(<< >>, "a", EnvV(t))>>                                          \* the variable of the parameter
                            [] em = 2 -> <<EVar(<< >>, "a", Wrong(t, "argv")), EVar(<< >>, "zz", VInt(1))>>       \* ill-typed; a variable that names nothing
                            [] em = 3 -> <<ECfg([x \in {"a"} |-> Val(t, "cfg", 1)])>>                          \* the config variable
                            [] em = 4 -> <<EVar(<< >>, "a", EnvV(t)), ECfg([x \in {"a", "b"} |-> IF x = "a" THEN Val(t, "cfg", 1) ELSE VInt(3)])>>   \* both: the parameter's variable wins
                            [] OTHER  -> <<EVar(<< >>, "b", VInt(8))>>
               IN [aid |-> id, aspos |-> ap, leaves |-> <<Leaf(<< >>, Fn("f", sig))>>, argv |-> LevelToks(sig, <<Modes[m], "absent">>, ap, 0), envon |-> on, env |-> env]
\* a class: every visible parameter of the constructor and of the methods has its variable; forms 1, 2, 8 of K, and
\*   form 9: nothing on the command line, the method is selected by the SUBCOMMAND variable
\*   form 10: the SUBCOMMAND variable names m2, the command line (form 1) names m1
EK == {<<"EK", i0, j, form>> : i0 \in (IF Thorough THEN {2, 3, 5, 6, 10} ELSE {2, 5, 10}), j \in (IF Thorough THEN {2, 3, 4, 5, 6, 10} ELSE {3, 4, 6}), form \in {1, 2, 8, 9, 10, 11, 12}}
BuildEK(id) == LET form == id[4]
                   c == BuildK(<<"K", id[2], <<id[3], 3>>, 1, 0, IF form >= 10 THEN 1 ELSE form>>)
               IN CASE form = 9  -> CaseEnv(id, [c EXCEPT !.argv = << >>], TRUE, EnvAll(c) \o ESelChain(<<"m1">>))
                    [] form = 10 -> CaseEnv(id, c, TRUE, EnvAll(c) \o ESelChain(<<"m2">>))
                    \* 11 / 12: everything in the config VARIABLE (sections for all methods), the method selected implicitly / by the SUBCOMMAND variable (recorded deviation)
                    [] form = 11 -> CaseEnv(id, [c EXCEPT !.argv = << >>], TRUE, <<ECfg(FullMap(c, << >>, <<"m1">>, FALSE))>>)
                    [] form = 12 -> CaseEnv(id, [c EXCEPT !.argv = << >>], TRUE, <<ECfg(FullMap(c, << >>, <<"m1">>, FALSE))>> \o ESelChain(<<"m1">>))
                    [] OTHER     -> CaseEnv(id, c, TRUE, EnvAll(c))
\* lists / nested dicts: variables for every level; form 1 (words), 8 (config with sibling sections, words, options),
\*   form 9: only SUBCOMMAND variables along the path, form 10: SUBCOMMAND variables select the NEXT leaf, the words this one
ET == {<<"ET", sh, j1, j2, w, form>> : sh \in {1, 3, 4, 5, 6}, j1 \in (IF Thorough THEN {2, 3, 5} ELSE {3, 5}), j2 \in {4, 6}, w \in 1..3, form \in {1, 8, 9, 10, 11, 12}}
BuildET(id) == LET form == id[6]
                   c == BuildT(<<"T", id[2], id[3], id[4], 3, id[5], 0, IF form >= 9 THEN 1 ELSE form>>)
                   lf == c.leaves[((id[5] - 1) % Len(c.leaves)) + 1]
                   nx == c.leaves[(id[5] % Len(c.leaves)) + 1]
                   chain(x) == x.path \o (IF x.c.k = "cls" THEN <<"m1">> ELSE << >>)
               IN CASE form = 9  -> CaseEnv(id, [c EXCEPT !.argv = << >>], TRUE, EnvAll(c) \o ESelChain(chain(lf)))
                    [] form = 10 -> CaseEnv(id, c, TRUE, EnvAll(c) \o ESelChain(chain(nx)))
                    [] OTHER     -> CaseEnv(id, c, TRUE, EnvAll(c))

\* XU: parameters without a type hint, auto_cli(fail_untyped=False): alone, next to a typed required parameter, with
\*     set_defaults, with the environment
Untyped == << V("opt_any", FALSE, NoVal), V("opt_any", TRUE, VInt(2)), V("opt_any", TRUE, VStr("x")), V("opt_any", TRUE, VNull),
              V("opt_any", TRUE, VBool(TRUE)), V("opt_any", TRUE, VList(<<1>>)) >>
XU == {<<"XU", u, m, ap, x>> : u \in 1..Len(Untyped), m \in (IF Thorough THEN 1..NM ELSE {1, 3, 4, 8, 10}), ap \in 0..1, x \in (IF Thorough THEN 0..3 ELSE {0, 1, 3})}
BuildXU(id) == LET u == id[2] m == id[3] ap == id[4] = 1 x == id[5]
                   sig == IF x = 1 THEN Sig(<<Untyped[u], NoDef[1]>>) ELSE Sig(<<Untyped[u]>>)
                   argv == IF x = 1 THEN LevelToks(sig, <<Modes[m], "opt">>, ap, 0) ELSE LevelToks(sig, <<Modes[m]>>, ap, 0)
               IN [aid |-> id, aspos |-> ap, leaves |-> <<Leaf(<< >>, Fn("f", sig))>>, argv |-> argv,
                   sd |-> IF x = 2 THEN <<[lvl |-> << >>, n |-> "a", v |-> VList(<<9>>)]>> ELSE << >>,
                   envon |-> x = 3, env |-> IF x = 3 THEN <<EVar(<< >>, "a", VInt(8))>> ELSE << >>]

\* XO: a parameter whose type is a class, given as a class_path / init_args spec (the instance must be what is passed):
\*     alone, next to an int option, as constructor parameter of a class with a method
ObjV == << V("obj", FALSE, NoVal), V("obj", TRUE, VNull), V("opt_obj", FALSE, NoVal) >>
XO == {<<"XO", o, m, ap, x>> : o \in 1..3, m \in (IF Thorough THEN 1..NM ELSE {1, 2, 3, 4, 5, 8, 9}), ap \in 0..1, x \in 0..2}
BuildXO(id) == LET o == id[2] m == id[3] ap == id[4] = 1 x == id[5]
                   sig == IF x = 1 THEN Sig(<<ObjV[o], WithDef[1]>>) ELSE Sig(<<ObjV[o]>>)
                   tks == IF x = 1 THEN LevelToks(sig, <<Modes[m], "opt">>, ap, 0) ELSE LevelToks(sig, <<Modes[m]>>, ap, 0)
               IN IF x = 2 THEN Case(id, ap, <<Leaf(<< >>, Cls("K", sig, <<Meth("m1", Pal[3])>>))>>, tks \o <<PosTok(VStr("m1"))>> \o LevelToks(Pal[3], <<"pos", "absent">>, ap, 0))
                  ELSE Case(id, ap, <<Leaf(<< >>, Fn("f", sig))>>, tks)
XIds == XR \cup XS \cup XK \cup XT \cup E1 \cup EK \cup ET \cup XU \cup XO \cup TN

Ids == XIds \cup (IF Thorough THEN F1 \cup F2 \cup FN(3) \cup FN(4) \cup FN(5) \cup FN(6) \cup F3full \cup K1 \cup K2 \cup K3 \cup KX \cup T \cup TX
       ELSE F1 \cup F2 \cup FN(3) \cup FN(4) \cup K1 \cup K2 \cup K3 \cup KX \cup T \cup TX)
CaseOf(id) == CASE id[1] = "F1" -> BuildF1(id) [] id[1] = "F2" -> BuildF2(id) [] id[1] = "FN" -> BuildFN(id)
                [] id[1] = "F3" -> BuildF3(id) [] id[1] = "K" -> BuildK(id) [] id[1] = "T" -> BuildT(id)
                [] id[1] = "XR" -> BuildXR(id) [] id[1] = "XS" -> BuildXS(id) [] id[1] = "XK" -> BuildXK(id) [] id[1] = "XT" -> BuildXT(id)
                [] id[1] = "TN" -> BuildTN(id) [] id[1] = "XU" -> BuildXU(id) [] id[1] = "XO" -> BuildXO(id) [] id[1] = "E1" -> BuildE1(id) [] id[1] = "EK" -> BuildEK(id) [] id[1] = "ET" -> BuildET(id)

\* one behaviour per case: the first step builds the case from its index (so that the workers share the work)
Init == \E id \in Ids : /\ cs = Case(id, TRUE, << >>, << >>) /\ pc = "build" /\ toks = << >> /\ lvl = << >> /\ npos = 0
                        /\ cfg = EmptyFn /\ calls = << >> /\ ret = "" /\ meth = "" /\ mcfg = EmptyFn /\ out = "run"
ABuild == /\ pc = "build"
          /\ LET c == CaseOf(cs.aid) IN /\ cs' = c /\ toks' = c.argv
          /\ pc' = "defaults"
          /\ UNCHANGED <<lvl, npos, cfg, calls, ret, meth, mcfg, out>>
MCNext == ABuild \/ Next
Spec == Init /\ [][MCNext]_vars

\* ------------------------------------------------------------------ emission for the replay
EmitCase == (Emit /\ Done) => PrintT(ToJson([id |-> cs.aid, aspos |-> cs.aspos, leaves |-> cs.leaves, argv |-> cs.argv, sd |-> CsSd(cs), envon |-> CsEnvOn(cs), env |-> CsEnv(cs), exp |-> AlgOutcome, at |-> IF out = "ok" THEN "ok" ELSE ret, dev |-> Deviation]))
=============================================================================
