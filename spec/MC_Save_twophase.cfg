SPECIFICATION Spec
CONSTANTS
  Variant = "twophase"
  Level = 1
  MaxFaults = 2
  Ext = 0
  Emit = FALSE
INVARIANT TypeOK
INVARIANT InvRunAgrees
INVARIANT InvNoSilentOverwrite
INVARIANT InvAllOrNothing
INVARIANT InvSavedReparsesModuloKnown
CHECK_DEADLOCK FALSE
