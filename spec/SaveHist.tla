------------------------------ MODULE SaveHist ------------------------------
(***************************************************************************)
(* Histories of ArgumentParser.save (C18, round 4): the same configuration *)
(* object is saved, edited and saved AGAIN into the same directory.        *)
(*                                                                         *)
(*   h.first    the scenario of the first call (as in Save.tla)            *)
(*   h.second   what the second call is made with: multifile, overwrite,   *)
(*              fault, invalid, unser, and  subs  = the components that    *)
(*              STILL carry a __path__ meta (a subsequence of the first    *)
(*              call's: the user may have dropped a meta, the component is *)
(*              then part of the main document)                            *)
(* Between the calls every value of the configuration is changed (a new    *)
(* generation), so what the first call wrote is, for the second call,      *)
(* nothing but bytes that are already there:  Age  turns every non-empty   *)
(* file into "old".  A stale sub-file of the first call must never be      *)
(* taken for the second call's, and a failed first call must not poison    *)
(* the second one.                                                         *)
(***************************************************************************)
EXTENDS Save

\* the directory a call leaves, as the next call finds it
Age(fs) == [f \in DOMAIN fs |-> IF fs[f] \in {"absent", "dir", "empty"} THEN fs[f] ELSE "old"]

\* the scenario of the second call: its own flags and faults, on the directory the first call left
SecondSc(h, fs1) ==
  [multifile |-> h.second.multifile, overwrite |-> h.second.overwrite, subs |-> h.second.subs,
   invalid |-> h.second.invalid, unser |-> h.second.unser, fault |-> h.second.fault,
   pre |-> Age(fs1), inplace |-> FALSE, skipval |-> FALSE, edited |-> "none", scheme |-> h.first.scheme]

\* Alg: the two calls one after the other
Run1(h) == Run(h.first)
Run2(h) == Run(SecondSc(h, Run1(h).fs))

Out(r) == IF r.pc = "done" THEN "ok" ELSE "raise"

(***************************************************************************)
(* Ref: laws of a history, over what is seen from outside                  *)
(*   fs0 the directory before the first call, fs1 / fs2 after each call    *)
(***************************************************************************)
\* the user's data that was there before the first call survives BOTH calls unless one of them was allowed to overwrite
NeverLost(h, fs0, fs2) ==
  \A f \in DOMAIN fs0 : (IsFile(fs0[f]) /\ ~h.first.overwrite /\ ~h.second.overwrite) => fs2[f] = fs0[f]
\* what the first call wrote is user data for the second: untouched unless the second call may overwrite
FirstResultKept(h, fs1, fs2) ==
  \A f \in DOMAIN fs1 : (IsFile(fs1[f]) /\ ~h.second.overwrite) => fs2[f] = Age(fs1)[f]
\* stale sub-files are not mistaken: after a successful second call the saved path re-parses to the SECOND configuration;
\* a file of the first call that the second configuration does not refer to is left as it was
StaleNotMistaken(h, out2, fs1, fs2, refs2) ==
  LET sc2 == SecondSc(h, fs1) IN
  (out2 = "ok" /\ ~(Invalid(sc2) /\ sc2.skipval)) =>
     /\ Reparses(sc2, fs2, refs2)
     /\ \A f \in DOMAIN fs2 : f \notin Targets(sc2) => fs2[f] = Age(fs1)[f]
\* a first call that failed and left the directory as it found it is as if it had never happened
FailedFirstIsInvisible(h, r1fs, out2, fs2) ==
  LET alone == Run(SecondSc(h, h.first.pre)) IN
  (r1fs = h.first.pre) => (out2 = Out(alone) /\ fs2 = alone.fs)
=============================================================================
