----------------------------- MODULE Namespace -----------------------------
(***************************************************************************)
(* jsonargparse.Namespace as a nested mapping addressed by dotted keys     *)
(* (property C11).                                                         *)
(*                                                                         *)
(* A tree is a function from a prefix-closed finite set of paths           *)
(* (non-empty sequences of names) to node codes:                           *)
(*    "ns"    a nested Namespace (a mapping node, addressable by dots)     *)
(*    "dict"  a dict *value*; its items are the children of the node       *)
(*    other   an opaque leaf value (code chosen by the harness)            *)
(* The root namespace is implicit.  A *value* is a rooted tree: a function *)
(* whose domain contains the empty path << >>.                             *)
(*                                                                         *)
(* Two layers:                                                             *)
(*   Ref*  the nested dictionary of the property: only "ns" nodes are      *)
(*         addressable, a dict value is a leaf, assigning below a          *)
(*         non-mapping turns every proper prefix into a mapping.           *)
(*   Alg*  _namespace.py transcribed step by step (anchors in comments).   *)
(* MC_Namespace checks Alg = Ref on every operation in every reachable     *)
(* state, except where the walk of _parse_key enters a dict value          *)
(* (ThroughDict): there the code deliberately deviates, see DESIGN.md.     *)
(***************************************************************************)
EXTENDS Naturals, Sequences, FiniteSets, TLC

IsPrefix(q, p) == Len(q) <= Len(p) /\ \A i \in 1..Len(q) : q[i] = p[i]
Prefixes(p)    == {SubSeq(p, 1, i) : i \in 1..(Len(p) - 1)}     \* proper, non-empty
Parent(p)      == SubSeq(p, 1, Len(p) - 1)
IsCont(c)      == c \in {"ns", "dict"}
Empty          == << >>                                         \* tree with no node
EmptyNS        == [r \in {<< >>} |-> "ns"]                      \* the value Namespace()
Leaf(c)        == [r \in {<< >>} |-> c]                         \* a scalar value

Restrict(t, S)  == [q \in S |-> t[q]]
Sub(t, p)       == {q \in DOMAIN t : IsPrefix(p, q)}            \* p and everything below
Remove(t, p)    == Restrict(t, DOMAIN t \ Sub(t, p))
Children(t, p)  == {q \in DOMAIN t : Len(q) = Len(p) + 1 /\ IsPrefix(p, q)}
Cut(t, p)       == [r \in {SubSeq(q, Len(p) + 1, Len(q)) : q \in Sub(t, p)} |-> t[p \o r]]   \* the value at p
Graft(t, p, val) ==                                             \* replace whatever is at p by val
  LET t1  == Remove(t, p)
      new == {p \o r : r \in DOMAIN val}
  IN [q \in DOMAIN t1 \cup new |-> IF q \in new THEN val[SubSeq(q, Len(p) + 1, Len(q))] ELSE t1[q]]

WellFormed(t) == \A q \in DOMAIN t : Len(q) >= 1 /\ (Len(q) > 1 => (Parent(q) \in DOMAIN t /\ IsCont(t[Parent(q)])))

(***************************************************************************)
(* Ref layer: the nested dictionary                                        *)
(***************************************************************************)
RefAddr(t, p) == \A q \in Prefixes(p) : q \in DOMAIN t /\ t[q] = "ns"
RefHas(t, p)  == RefAddr(t, p) /\ p \in DOMAIN t

RefSet(t, p, val) ==
  LET bad  == {q \in Prefixes(p) : q \in DOMAIN t /\ t[q] # "ns"}         \* non-mappings on the way
      keep == {r \in DOMAIN t : \A b \in bad : ~IsPrefix(b, r)}
      t1   == Restrict(t, keep)
      pre  == Prefixes(p)
      t2   == [q \in DOMAIN t1 \cup pre |-> IF q \in pre THEN "ns" ELSE t1[q]]   \* every proper prefix is a mapping
  IN Graft(t2, p, val)

Out(t, r, v) == [t |-> t, r |-> r, v |-> v]     \* new tree, "ok" | "raise", returned value (Empty if none)

RefGetItem(t, p)    == IF RefHas(t, p) THEN Out(t, "ok", Cut(t, p)) ELSE Out(t, "raise", Empty)
RefGet(t, p, d)     == IF RefHas(t, p) THEN Out(t, "ok", Cut(t, p)) ELSE Out(t, "ok", d)
RefContains(t, p)   == Out(t, "ok", Leaf(IF RefHas(t, p) THEN "true" ELSE "false"))
RefDel(t, p)        == IF RefHas(t, p) THEN Out(Remove(t, p), "ok", Empty) ELSE Out(t, "raise", Empty)
RefPop(t, p, d)     == IF RefHas(t, p) THEN Out(Remove(t, p), "ok", Cut(t, p)) ELSE Out(t, "ok", d)
RefSetItem(t, p, v) == Out(RefSet(t, p, v), "ok", Empty)

\* update(value, key, only_unset) with a Namespace value: `items` is value.items() in order,
\* a sequence of << relative path, value >>.
RECURSIVE RefUpdFold(_, _, _, _, _)
RefUpdFold(t, items, key, ou, i) ==
  IF i > Len(items) THEN t
  ELSE LET p == key \o items[i][1] IN
       RefUpdFold(IF ou /\ RefHas(t, p) THEN t ELSE RefSet(t, p, items[i][2]), items, key, ou, i + 1)
RefUpdateNS(t, items, key, ou) == Out(RefUpdFold(t, items, key, ou, 1), "ok", Empty)
RefUpdateVal(t, val, key, ou) ==
  IF key = << >> THEN Out(t, "raise", Empty)
  ELSE IF ou /\ RefHas(t, key) THEN Out(t, "ok", Empty) ELSE Out(RefSet(t, key, val), "ok", Empty)

(***************************************************************************)
(* Alg layer: _namespace.py                                                *)
(***************************************************************************)
\* add_clash_mark:322-325.  Names in dir(Namespace) are stored with a mark.  Attribute storage is abstracted
\* (a namespace child is named without the mark), but the mark is *visible* when a marked sub-key is used to
\* index a dict value (_parse_key looks up and __setitem__ stores the marked name in the dict).
ClashNames == {"items", "keys", "values", "get", "pop", "update", "clone", "as_dict", "as_flat",
               "get_sorted_keys", "get_value_and_parent"}
Mark(n) == IF n \in ClashNames THEN "~" \o n ELSE n
NoPath == <<"?nopath?">>
KindAt(t, cur) == IF cur = << >> THEN "ns" ELSE t[cur]
ChildName(t, cur, n) == IF KindAt(t, cur) = "dict" THEN Mark(n) ELSE n

\* _parse_key:115-148.  The walk steps into Namespace *and dict* values; it gives up (parent None) at a
\* missing sub-key, at a None value, or at any other non-container.  Result: the real path of the parent
\* container (<< >> = the root namespace) or NoPath.
RECURSIVE AlgWalk(_, _, _, _)
AlgWalk(t, p, i, cur) ==
  IF i > Len(p) - 1 THEN cur
  ELSE LET q == cur \o <<ChildName(t, cur, p[i])>> IN
       IF q \in DOMAIN t /\ IsCont(t[q]) THEN AlgWalk(t, p, i + 1, q) ELSE NoPath
AlgParent(t, p)     == AlgWalk(t, p, 1, << >>)
AlgParentOK(t, p)   == AlgParent(t, p) # NoPath
AlgParentKind(t, p) == KindAt(t, AlgParent(t, p))
AlgReal(t, p)       == AlgParent(t, p) \o <<ChildName(t, AlgParent(t, p), p[Len(p)])>>     \* where the leaf lives
AlgParentEmpty(t, p) == IF AlgParent(t, p) = << >> THEN DOMAIN t = {} ELSE Children(t, AlgParent(t, p)) = {}

\* the walk touches a dict value (as an intermediate container or as the final parent)
RECURSIVE WalkDict(_, _, _, _)
WalkDict(t, p, i, cur) ==
  IF KindAt(t, cur) = "dict" THEN TRUE
  ELSE IF i > Len(p) - 1 THEN FALSE
  ELSE LET q == cur \o <<ChildName(t, cur, p[i])>> IN
       IF q \in DOMAIN t /\ IsCont(t[q]) THEN WalkDict(t, p, i + 1, q) ELSE FALSE
WalkEntersDict(t, p) == WalkDict(t, p, 1, << >>)

\* _create_nested_namespace:157-172.  Restarts from the root; anything that is not a Namespace on the way
\* (a scalar, None, a dict) is replaced by a fresh empty Namespace.
RECURSIVE AlgCreateNested(_, _, _)
AlgCreateNested(t, pk, i) ==
  IF i > Len(pk) THEN t
  ELSE LET q == SubSeq(pk, 1, i) IN
       IF q \in DOMAIN t /\ t[q] = "ns" THEN AlgCreateNested(t, pk, i + 1)
       ELSE AlgCreateNested(Graft(t, q, EmptyNS), pk, i + 1)

\* __setitem__:181-189 (parent dict: item assignment under the marked name; parent namespace: setattr)
AlgSet(t, p, val) ==
  IF ~AlgParentOK(t, p) THEN Graft(AlgCreateNested(t, Parent(p), 1), p, val)
  ELSE Graft(t, AlgReal(t, p), val)
AlgSetItem(t, p, v) == Out(AlgSet(t, p, v), "ok", Empty)

\* _parse_required_key:150-155 uses hasattr(parent, leaf): never true for a dict parent
AlgFound(t, p) == AlgParentOK(t, p) /\ AlgParentKind(t, p) = "ns" /\ AlgReal(t, p) \in DOMAIN t
AlgGetItem(t, p)  == IF AlgFound(t, p) THEN Out(t, "ok", Cut(t, AlgReal(t, p))) ELSE Out(t, "raise", Empty)       \* :191-194
AlgGet(t, p, d)   == IF AlgFound(t, p) THEN Out(t, "ok", Cut(t, AlgReal(t, p))) ELSE Out(t, "ok", d)              \* :301-305
AlgContains(t, p) == Out(t, "ok", Leaf(IF AlgFound(t, p) THEN "true" ELSE "false"))                               \* :201-209
\* __delitem__:196-199   del parent_ns.__dict__[leaf]  (None / dict parent: AttributeError; missing: KeyError)
AlgDel(t, p) == IF AlgFound(t, p) THEN Out(Remove(t, AlgReal(t, p)), "ok", Empty) ELSE Out(t, "raise", Empty)
\* pop:311-315   `if not parent_ns: return default` -- an empty namespace or dict parent is falsy;
\* a non-empty dict parent has no __dict__ and raises
AlgPop(t, p, d) ==
  IF ~AlgParentOK(t, p) THEN Out(t, "ok", d)
  ELSE IF AlgParentEmpty(t, p) THEN Out(t, "ok", d)
  ELSE IF AlgParentKind(t, p) = "dict" THEN Out(t, "raise", Empty)
  ELSE IF AlgReal(t, p) \in DOMAIN t THEN Out(Remove(t, AlgReal(t, p)), "ok", Cut(t, AlgReal(t, p))) ELSE Out(t, "ok", d)

\* update:279-299
RECURSIVE AlgUpdFold(_, _, _, _, _)
AlgUpdFold(t, items, key, ou, i) ==
  IF i > Len(items) THEN t
  ELSE LET p == key \o items[i][1] IN
       AlgUpdFold(IF ou /\ AlgFound(t, p) THEN t ELSE AlgSet(t, p, items[i][2]), items, key, ou, i + 1)
AlgUpdateNS(t, items, key, ou) == Out(AlgUpdFold(t, items, key, ou, 1), "ok", Empty)
AlgUpdateVal(t, val, key, ou) ==
  IF key = << >> THEN Out(t, "raise", Empty)
  ELSE IF ou /\ AlgFound(t, key) THEN Out(t, "ok", Empty) ELSE Out(AlgSet(t, key, val), "ok", Empty)

(***************************************************************************)
(* Operations as data.  o = [op, p, v, items, ou]                          *)
(*   op \in {"set","getitem","get","contains","del","pop","update_ns","update_val"}                 *)
(*   p: the key as a path (for update*: the key argument, << >> if none)   *)
(*   v: the value / default (a rooted tree);  items: for update_ns         *)
(***************************************************************************)
Op(op, p, v, items, ou) == [op |-> op, p |-> p, v |-> v, items |-> items, ou |-> ou]

RefApply(o, t) ==
  CASE o.op = "set"        -> RefSetItem(t, o.p, o.v)
    [] o.op = "getitem"    -> RefGetItem(t, o.p)
    [] o.op = "get"        -> RefGet(t, o.p, o.v)
    [] o.op = "contains"   -> RefContains(t, o.p)
    [] o.op = "del"        -> RefDel(t, o.p)
    [] o.op = "pop"        -> RefPop(t, o.p, o.v)
    [] o.op = "update_ns"  -> RefUpdateNS(t, o.items, o.p, o.ou)
    [] o.op = "update_val" -> RefUpdateVal(t, o.v, o.p, o.ou)

AlgApply(o, t) ==
  CASE o.op = "set"        -> AlgSetItem(t, o.p, o.v)
    [] o.op = "getitem"    -> AlgGetItem(t, o.p)
    [] o.op = "get"        -> AlgGet(t, o.p, o.v)
    [] o.op = "contains"   -> AlgContains(t, o.p)
    [] o.op = "del"        -> AlgDel(t, o.p)
    [] o.op = "pop"        -> AlgPop(t, o.p, o.v)
    [] o.op = "update_ns"  -> AlgUpdateNS(t, o.items, o.p, o.ou)
    [] o.op = "update_val" -> AlgUpdateVal(t, o.v, o.p, o.ou)

\* the keys an operation addresses
OpPaths(o) == IF o.op = "update_ns" THEN {o.p \o o.items[i][1] : i \in 1..Len(o.items)}
              ELSE IF o.p = << >> THEN {} ELSE {o.p}
\* ... possibly in an intermediate state of an update (conservative: any dict on the way, before or after)
ThroughDict(o, t) == \E p \in OpPaths(o) : WalkEntersDict(t, p) \/ WalkEntersDict(AlgApply(o, t).t, p)

(***************************************************************************)
(* Observers of a state                                                    *)
(***************************************************************************)
\* keys(branches): leaves are the addressable non-"ns" nodes; an empty nested namespace is no leaf
Keys(t, branches) == {q \in DOMAIN t : RefAddr(t, q) /\ (t[q] # "ns" \/ branches)}

\* get_sorted_keys(branches=TRUE):257-273: the leaf keys plus every proper prefix of a nested leaf key, deepest first
\* (meta keys are filtered by the harness' universe: it uses none)
SortedKeys(t) == LET leaves == Keys(t, FALSE) IN leaves \cup UNION {Prefixes(q) : q \in leaves}
DepthSorted(ks) == \A i, j \in 1..Len(ks) : i < j => Len(ks[i]) >= Len(ks[j])

\* as_dict:215-226.  A node is converted when everything above it was: namespaces become dicts; a
\* non-empty dict whose values are all namespaces has them converted too; the namespaces inside a list are converted
\* element by element (:223-224 as repaired: the pinned tree converted a list only when ALL its elements were namespaces,
\* so as_dict(dict_to_namespace({'s': [{'k': 1}, 'x']})) still held a Namespace -- finding C11 as_dict:mixed-list, fixed);
\* anything else is kept.
AllNS(t, pa) == Children(t, pa) # {} /\ \A c \in Children(t, pa) : t[c] = "ns"
RECURSIVE Conv(_, _)
Conv(t, q) == IF Len(q) = 1 THEN TRUE
              ELSE LET pa == Parent(q) IN Conv(t, pa) /\ (t[pa] = "ns" \/ (t[pa] = "dict" /\ AllNS(t, pa)))
AsDictLeaf(c) == IF c = "LN" THEN "LD" ELSE IF c = "LM" THEN "LMd" ELSE c     \* [Namespace(a=1)] -> [{'a': 1}], [Namespace(a=1), 1] -> [{'a': 1}, 1]
AsDict(t) == [q \in DOMAIN t |-> IF Conv(t, q) THEN (IF t[q] = "ns" THEN "dict" ELSE AsDictLeaf(t[q])) ELSE t[q]]

\* dict_to_namespace(as_dict()): every dict with string keys becomes a namespace, at any depth below namespaces
\* (expand_dict:339-347 recurses through dict values and lists only)
RECURSIVE D2NConv(_, _)
D2NConv(t, q) == IF Len(q) = 1 THEN TRUE ELSE LET pa == Parent(q) IN D2NConv(t, pa) /\ t[pa] = "dict"
D2NLeaf(c) == IF c = "LD" THEN "LN" ELSE IF c = "LMd" THEN "LM" ELSE c        \* expand_dict:343-346 converts the dicts of a list element by element
DictToNamespace(t) == [q \in DOMAIN t |-> IF D2NConv(t, q) THEN (IF t[q] = "dict" THEN "ns" ELSE D2NLeaf(t[q])) ELSE t[q]]

\* Ref-level laws of the two conversions (the property: "conversion from and to dictionaries agree with that dictionary").
\* A plain dictionary holds no Namespace: no "ns" node and no list leaf with a Namespace inside (tuples are not descended
\* by either conversion and are left out of the law).
HoldsNS(c) == c \in {"LN", "LM"}
Plain(d)   == \A q \in DOMAIN d : d[q] # "ns" /\ ~HoldsNS(d[q])
NoDictLeft(n) == \A q \in DOMAIN n : RefAddr(n, q) => (n[q] # "dict" /\ n[q] \notin {"LD", "LMd"})
\* as_dict never leaves a Namespace behind (below converted nodes)
AsDictPlain(t) == \A q \in DOMAIN t : Conv(t, q) => (AsDict(t)[q] # "ns" /\ ~HoldsNS(AsDict(t)[q]))
\* from a dictionary and back: the same dictionary; and the namespace built from it has namespaces wherever the
\* dictionary had str-keyed dicts (reachable through dicts and lists)
RoundTripFromDict(d) == Plain(d) => (AsDict(DictToNamespace(d)) = d /\ NoDictLeft(DictToNamespace(d)))
=============================================================================
