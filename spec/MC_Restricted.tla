---------------------------- MODULE MC_Restricted ----------------------------
(* Bounded instance of Restricted.tla.  One state per case; the parts:                                 *)
(*   "num"     every restricted number type with 1..MaxCmp comparisons x every candidate value         *)
(*   "named"   the predefined types PositiveInt ... OpenUnitInterval (typing.py:361-370)               *)
(*   "create"  well- and ill-formed restriction specifications                                         *)
(*   "str"     regular expressions x every string over a small alphabet up to StrLen (+ non-strings)   *)
(*   "reg"     registered types x values of their (abstract) value spaces, three channels              *)
(*   "secret"  SecretStr in every dump context                                                         *)
(* TLC checks the invariants (Alg refines Ref; the laws of the property on Ref) in every state and     *)
(* emits every case with the outcome the specification expects, for the replay on the real code.       *)
EXTENDS Restricted, Json, SequencesExt
CONSTANTS MaxCmp,     \* comparisons per restriction set: 1..MaxCmp
          StrLen,     \* strings up to this length
          HazLen,     \* hazard texts (paths) up to this length
          B64Set,     \* "small" | "large": the alphabet of the enumerated base64 groups
          Emit        \* TRUE: print every case as JSON (for the replay)
\* NOTE: no state variable may be called like a bound identifier of Restricted.tla (i, n, t, ...): TLC would stop
\* treating the case tables below as constants and re-evaluate them at every reference.

M1 == 0 - 1
M2 == 0 - 2
\* ------------------------------------------------------------------ part "num"
RefsOf(base) == IF base = "int" THEN {Fin(M1, 1), Fin(0, 1), Fin(1, 1)} ELSE {Fin(M1, 1), Fin(0, 1), Fin(1, 1), Fin(1, 2)}
Comps(base) == CmpOps \X RefsOf(base)
CompSets(base) ==
  LET C == Comps(base) IN
  {{a} : a \in C} \cup (IF MaxCmp >= 2 THEN {{a, b} : a \in C, b \in C} ELSE {})
                  \cup (IF MaxCmp >= 3 THEN {{a, b, c} : a \in C, b \in C, c \in C} ELSE {})
NumTypeSet == UNION {{NType(base, SetToSeq(S), j) : S \in CompSets(base), j \in {"and", "or"}} : base \in {"int", "float"}}
NumTypes == SetToSeq(NumTypeSet)
NNum == Len(NumTypes)

S1(a) == StrV(<<a>>)
NumCands == <<
  IntV(M2), IntV(M1), IntV(0), IntV(1), IntV(2), IntV(10), HugeInt,
  FloatV(M1, 1), FloatV(M1, 2), FloatV(0, 1), FloatV(1, 4), FloatV(1, 2), FloatV(3, 4), FloatV(1, 1), FloatV(3, 2), FloatV(2, 1),
  FloatS(PInf), FloatS(NInf), FloatS(NaN), BoolV(TRUE), BoolV(FALSE),
  S1("1"), S1("0"), S1("2"), StrV(<<" ", "1", " ">>), StrV(<<"-", "1">>), StrV(<<"+", "1">>), StrV(<<"-", "2">>),
  StrV(<<"1", "_", "0">>), StrV(<<"0", "1">>), StrV(<<"1", ".", "0">>), StrV(<<"0", ".", "5">>), StrV(<<".", "5">>), StrV(<<"1", ".">>),
  StrV(<<"1", ".", "5">>), StrV(<<"-", "0", ".", "5">>), StrV(<<"5", "e", "-", "1">>), StrV(<<"1", "e", "0">>), StrV(<<"1", "E", "+", "0">>),
  StrV(<<"7", "5", "e", "-", "2">>), StrV(<<"i", "n", "f">>), StrV(<<"-", "I", "n", "f", "i", "n", "i", "t", "y">>), StrV(<<"n", "a", "n">>),
  StrV(<< >>), StrV(<<"a", "b", "c">>), StrV(<<"1", " ", "0">>), StrV(<<"_", "1">>), StrV(<<"1", "_", "_", "0">>), StrV(<<"0", "x", "1">>),
  StrV(<<"-", "-", "1">>), StrV(<<"1", "e">>), StrV(<<"e", "1">>), S1("."), StrV(<<"1", NL>>), StrV(<<"t", "r", "u", "e">>),
  StrV(<<"n", "u", "l", "l">>), StrV(<<"[", "1", "]">>), StrV(<<"{", "}">>), StrV(<<"1", "_">>), StrV(<<"1", "e", "1">>),
  StrV(<<"1", ":">>), StrV(<<".", "_">>), StrV(<<"{", "1", "}">>),
  BytesV(<<"1">>), Other("none"), Other("list"), Other("dict") >>
NC == Len(NumCands)
\* what load_value makes of a command-line text (assumption about the loader, verified by the harness on the real one)
LdOf(t) == IF LoaderCrash(t) THEN "crash" ELSE IF t = <<"n", "u", "l", "l">> THEN "none" ELSE IF t = <<"[", "1", "]">> THEN "list" ELSE IF t = <<"{", "}">> THEN "dict" ELSE "text"

\* ------------------------------------------------------------------ part "named": the predefined types, typing.py:361-370
NamedSpecs == << [name |-> "PositiveInt",        t |-> NType("int",   << <<">",  Fin(0, 1)>> >>, "and")],
                 [name |-> "NonNegativeInt",     t |-> NType("int",   << <<">=", Fin(0, 1)>> >>, "and")],
                 [name |-> "PositiveFloat",      t |-> NType("float", << <<">",  Fin(0, 1)>> >>, "and")],
                 [name |-> "NonNegativeFloat",   t |-> NType("float", << <<">=", Fin(0, 1)>> >>, "and")],
                 [name |-> "ClosedUnitInterval", t |-> NType("float", << <<">=", Fin(0, 1)>>, <<"<=", Fin(1, 1)>> >>, "and")],
                 [name |-> "OpenUnitInterval",   t |-> NType("float", << <<">",  Fin(0, 1)>>, <<"<",  Fin(1, 1)>> >>, "and")] >>
NNamed == Len(NamedSpecs)

\* ------------------------------------------------------------------ part "create"
CreateSpecs == << NType("int", << <<">", Fin(0, 1)>> >>, "and"),
                  NType("int", << <<">", Fin(1, 2)>> >>, "and"),              \* 0.5 is not an int
                  NType("float", << <<">", Fin(1, 2)>> >>, "and"),
                  NType("float", << <<">=", Fin(0, 1)>>, <<"<=", Fin(1, 1)>> >>, "and"),
                  NType("int", << <<"=>", Fin(0, 1)>> >>, "and"),             \* not an operator
                  NType("int", << <<"=", Fin(0, 1)>> >>, "or"),
                  NType("int", << <<">", Fin(0, 1)>> >>, "xor"),              \* not a join
                  NType("str", << <<">", Fin(0, 1)>> >>, "and"),              \* not a number base
                  NType("int", << <<">", Fin(0, 1)>>, <<"<", Fin(3, 2)>> >>, "or"),
                  NType("float", << <<"!=", Fin(M1, 4)>> >>, "or") >>
NCreate == Len(CreateSpecs)

\* ------------------------------------------------------------------ part "str"
A1 == {"a", "b", "@", ".", " ", NL}
RECURSIVE TextsUpTo(_, _)
TextsUpTo(A, n) == IF n = 0 THEN {<< >>} ELSE LET P == TextsUpTo(A, n - 1) IN P \cup {<<c>> \o p : c \in A, p \in {q \in P : Len(q) = n - 1}}
NoAtSp == NotChr({"@", " "})
Regexes == <<
  Cat(<<Bol, Star(Dot), NotChr({" "}), Star(Dot), Eol>>),                                        \* 1  NotEmptyStr  ^.*[^ ].*$      typing.py:372
  Cat(<<Bol, Plus(NoAtSp), Chr({"@"}), Plus(NoAtSp), Chr({"."}), Plus(NoAtSp), Eol>>),           \* 2  Email  ^[^@ ]+@[^@ ]+\.[^@ ]+$   typing.py:375
  Plus(Chr({"a"})),                                                                              \* 3  a+            (not anchored at the end)
  Alt(<<Word(<<"a">>), Word(<<"a", "b">>)>>),                                                    \* 4  a|ab
  Cat(<<Star(Chr({"a", "b"})), Chr({"@"}), Eol>>),                                               \* 5  [ab]*@$
  Cat(<<Bol, Opt(Chr({"a"})), Opt(Chr({"b"})), Eol>>),                                           \* 6  ^a?b?$
  Dot,                                                                                           \* 7  .
  Cat(<<Bol, Eol>>),                                                                             \* 8  ^$
  Cat(<<Star(Star(Chr({"a"}))), Chr({"b"})>>),                                                   \* 9  (?:a*)*b
  Cat(<<Plus(NotChr({"a"})), Eos>>),                                                             \* 10 [^a]+\Z
  Cat(<<Chr({"a"}), Dot, Chr({"b"})>>),                                                          \* 11 a.b
  Cat(<<Alt(<<Word(<<"a", "b">>), Word(<<"a">>)>>), Chr({"b", "@"})>>),                          \* 12 (?:ab|a)[b@]   needs backtracking
  Cat(<<Chr({"a"}), Bol, Chr({"b"})>>),                                                          \* 13 a^b           never matches
  Cat(<<Opt(Cat(<<Chr({"a"}), Eol>>)), Star(NotChr({"b"})), Eos>>)                               \* 14 (?:a$)?[^b]*\Z
>>
NRe == Len(Regexes)
StrExtra == { <<"1", ":">>, <<"t", "r", "u", "e", ":">>, <<".", "_">>, <<"{", "1", "}">>, <<"1">>, <<"1", "e", "3">>, <<"n", "u", "l", "l">>, <<"[", "1", "]">>,
              <<"a", ":">>, <<"1", ":", "a">>, <<"~", ":">>, <<"0", "x", "_">>, <<"a", "@", "1", ":">>, <<"{", "a", "}">>, <<"1", ".", "5", ":">> }
StrTexts == SetToSeq(TextsUpTo(A1, StrLen) \cup StrExtra)
NonStrCands == <<IntV(5), BoolV(TRUE), Other("none"), Other("list"), BytesV(<<"a">>), FloatV(1, 2)>>
NST == Len(StrTexts)

\* ------------------------------------------------------------------ part "strx" (round 4): counted repetition, IGNORECASE
\* groups, MULTILINE anchors, over an alphabet with both cases
A2 == {"a", "A", "b", NL}
RegexesX == <<
  Cat(<<Bol, Times(Chr({"a"}), 2, 3), Eol>>),                                                      \* 1  ^a{2,3}$
  Cat(<<Times(Alt(<<Word(<<"a", "b">>), Word(<<"a">>)>>), 1, 2), Eos>>),                           \* 2  (?:ab|a){1,2}\Z     backtracking into the count
  Times(Chr({"a", "b"}), 2, 0 - 1),                                                                \* 3  [ab]{2,}
  Cat(<<Bol, Times(Star(Chr({"a"})), 2, 2), Chr({"b"}), Eol>>),                                    \* 4  ^(?:a*){2}b$        empty iterations
  Cat(<<Times(Chr({"a"}), 0, 1), Chr({"b"})>>),                                                    \* 5  a{0,1}b
  Cat(<<Times(Chr({"a"}), 0, 0), Eos>>),                                                           \* 6  a{0}\Z             only the empty text
  NoCase(Cat(<<Bol, Plus(Chr({"a"})), Chr({"b"}), Eol>>)),                                       \* 7  (?i:^a+b$)
  Cat(<<NoCase(Chr({"a"})), Chr({"a"})>>),                                                       \* 8  (?i:a)a             the flag is scoped
  NoCase(Cat(<<NotChr({"a"}), Eos>>)),                                                           \* 9  (?i:[^a]\Z)         negated class under IGNORECASE
  Cat(<<Star(NotChr({})), MBol, Chr({"b"})>>),                                                   \* 10 [\s\S]*(?m:^)b      b at the start of some line
  Cat(<<Chr({"a"}), MEol>>),                                                                     \* 11 a(?m:$)
  Cat(<<Bol, Times(Cat(<<NoCase(Chr({"a"})), Opt(Chr({NL}))>>), 1, 3), MEol>>),                    \* 12 ^(?:(?i:a)\n?){1,3}(?m:$)
  Cat(<<Times(Times(Chr({"a"}), 1, 2), 2, 2), Eos>>),                                                \* 13 (?:a{1,2}){2}\Z     nested counts
  NoCase(Times(Chr({"A"}), 3, 0 - 1))                                                              \* 14 (?i:A{3,})
>>
NReX == Len(RegexesX)
StrXTexts == SetToSeq(TextsUpTo(A2, IF StrLen >= 5 THEN StrLen + 1 ELSE StrLen)
                      \cup {<<"a","a","a","a">>, <<"a","A","a","A">>, <<"a","b","a","b">>, <<"a",NL,"a","a">>, <<"A","A","A","b">>, <<"a","a","a","b">>, <<"a",NL,"A",NL>>})
NSTX == Len(StrXTexts)
\* the unrolling of a counted repetition: lo copies, then hi - lo nested optional copies (or a star)
RECURSIVE OptChain(_, _), Unroll(_)
OptChain(r, n) == IF n = 0 THEN Cat(<< >>) ELSE Opt(Cat(<<r, OptChain(r, n - 1)>>))
Unroll(re) == CASE re.k \in {"cat", "alt"} -> [k |-> re.k, a |-> [q \in 1..Len(re.a) |-> Unroll(re.a[q])]]
                [] re.k \in {"star", "plus", "opt", "ci"} -> [k |-> re.k, r |-> Unroll(re.r)]
                [] re.k = "rep" -> LET u == Unroll(re.r) IN
                                   Cat([q \in 1..re.lo |-> u] \o <<IF re.hi < 0 THEN Star(u) ELSE OptChain(u, re.hi - re.lo)>>)
                [] OTHER -> re
RECURSIVE Variants(_)
Variants(t) == IF t = << >> THEN {<< >>} ELSE {<<c>> \o u : c \in {t[1], SwapCase(t[1])}, u \in Variants(Tail(t))}

\* ------------------------------------------------------------------ part "reg"
HazA == {".", "_", "1", "e", "-", "+", ":"}
HazTexts == TextsUpTo(HazA, HazLen) \ {<< >>}
PathExtra == { <<"~">>, <<"n","u","l","l">>, <<"N","u","l","l">>, <<"1","2","3">>, <<"[","1","]">>, <<"a"," ","b">>, <<" ","a"," ">>, <<"a",":"," ","b">>,
               <<"-">>, <<"-","-","x">>, <<"{","a">>, <<"t","r","u","e">>, <<"1","e","3">>, <<"1",".","5","e","3">>, <<"/","a","/","b">>, <<"a","/","b">>,
               <<".">>, <<".",".">>, <<"=">>, <<"<","<">>, <<"2","0","0","1","-","0","1","-","0","1">>, <<"1",":","3","0">>, <<"1",":","3","0",".","5">>,
               <<"0","x","1","f">>, <<"0","b","1">>, <<"0","1","7">>, <<"1","_","0","0","0">>, <<".","i","n","f">>, <<".","n","a","n">>, <<"-",".","i","n","f">>,
               <<".","N","a","N">>, <<"y","e","s">>, <<"N","O">>, <<"o","f","f">>, <<"1","E","5">>, <<"1","e","+","5">>, <<"+","1","e","5">>, <<"1","_","e","5">>,
               <<".","_","1">>, <<".","5","e","5">>, <<".","5","e","+","5">>, <<"1",".","e","5">>, <<"1",".","e","-","5">>, <<"a","#","b">>, <<"#","a">>, <<"a"," ","#","b">>,
               <<"'","a","'">>, <<"\"","a","\"">>, <<"!","a">>, <<"&","a">>, <<"*","a">>, <<"%","a">>, <<"@","a">>, <<"`","a">>, <<">">>, <<"?"," ","a">>, <<"-"," ","a">>,
               <<"1","2","e","0","3">>, <<"1","e","3","x">>, <<"1",":">>, <<"t","r","u","e",":">>, <<"n","u","l","l",":">>, <<"~",":">>, <<"1",".","5",":">>, <<"{","1","}">>,
               <<"a",":">>, <<"1",":",":">>, <<"1",":","2",":">>, <<"0","x","_">>, <<"0","b","_">>, <<"0","_">>, <<"<","<",":">>, <<"=",":">>, <<".","_",":">>, <<"{","a","}">>, <<"{","t","r","u","e","}">>,
               <<".","_","e","+","5">>, <<"1"," ",":">>, <<"{"," ","1"," ","}">>, <<"1"," ","2",":">>, <<"1","_",".">>, <<"1",".","_">>, <<"-",":">>, <<"y","e","s",":">> }
PathCases == {RV("Path", t) : t \in HazTexts \cup PathExtra}

RangeInts == IF HazLen >= 4 THEN {0 - 3, M2, M1, 0, 1, 2, 3} ELSE {M2, M1, 0, 1, 2}
RangeCases == {RV("range", <<a, b, c>>) : a \in RangeInts, b \in RangeInts, c \in {M2, M1, 1, 2, 3}}
              \cup {RV("range", <<0, 1000000, 1>>), RV("range", <<0 - 1000000, 1000000, 7>>), RV("range", <<5, 0 - 5, 0 - 1000>>)}
TdCases == {RV("timedelta", <<d, s, u>>) : d \in {M2, M1, 0, 1, 2, 999999999, 0 - 999999999},
                                            s \in {0, 1, 59, 60, 3599, 3600, 3661, 36000, 86399},
                                            u \in {0, 1, 100000, 500000, 999999}}
B64A == IF B64Set = "small" THEN {"1", "e", "+", "A"} ELSE {"0", "1", "3", "e", "E", "+", "n", "u", "l", "A"}
B64Groups == {<<a, b, c, d>> : a \in B64A, b \in B64A, c \in B64A, d \in B64A}
B64Texts == B64Groups \cup { << >>, <<"A","A","=","=">>, <<"/","w","=","=">>, <<"A","Q","I","=">>, <<"M","W","U","=">>, <<"M","T","I","z">>,
                             <<"n","u","l","l">>, <<"t","r","u","e">>, <<"T","r","u","e">>, <<"1","2","3","4">>, <<"+","/","+","/">>, <<"1","e","3","0","1","e","3","0">>,
                             <<"1","e","3","0","M","Q","=","=">>, <<"0","1","2","3">>, <<"+","1","2","3">>, <<"1","E","3","0">>, <<"N","U","L","L">>, <<"1","e","+","3">> }
BytesCases == {RV(ty, B64DecGroups(t)) : ty \in {"bytes", "bytearray"}, t \in B64Texts}
DecCases == {RV("Decimal", <<sg, co, ex>>) : sg \in {0, 1}, co \in {0, 1, 2, 5, 10, 25, 75, 125, 1001, 123456}, ex \in {0 - 3, M2, M1, 0, 1, 2}}
\* opaque decimals (high precision, extreme exponents): the two facts the table logic needs are given, f = <<exact, digit class>>
DecXCases == {RV("DecimalX", <<ex, dc>>) : ex \in {"exact", "inexact"}, dc \in {"le15", "mid", "gt17"}}
Rep(c, n) == [i \in 1..n |-> c]
UuidOf(a, b) == Rep(a, 8) \o <<"-">> \o Rep(b, 4) \o <<"-">> \o Rep(a, 4) \o <<"-">> \o Rep(b, 4) \o <<"-">> \o Rep(a, 6) \o <<"1", "e">> \o Rep(b, 4)
UuidCases == {RV("UUID", UuidOf(a, b)) : a \in {"0", "1", "e", "f", "9"}, b \in {"0", "1", "e", "f", "9"}}
ComplexCases == {RV("complex", t) : t \in { <<"0","j">>, <<"1","j">>, <<"(","1","+","2","j",")">>, <<"(","1",".","5","-","2","j",")">>, <<"(","-","0","+","0","j",")">>,
                                            <<"(","i","n","f","+","0","j",")">>, <<"(","1","+","i","n","f","j",")">>, <<"1","e","+","1","6","j">>, <<"-","1",".","5","j">>,
                                            <<"(","1","e","-","0","7","+","1","e","+","1","6","j",")">>, <<"(","1","+","0","j",")">>, <<"-","0","j">> }}
RegCases == SetToSeq(PathCases) \o SetToSeq(RangeCases) \o SetToSeq(TdCases) \o SetToSeq(BytesCases) \o SetToSeq(DecCases) \o SetToSeq(DecXCases)
            \o SetToSeq(UuidCases) \o SetToSeq(ComplexCases)
NReg == Len(RegCases)
Channels == <<"yaml", "json", "cli">>

\* ------------------------------------------------------------------ parts "regm" / "pmode" (round 4): parser modes json, jsonnet, toml
ModeSeq == <<"json", "jsonnet", "toml">>
NModes == Len(ModeSeq)
RestCases == SetToSeq(RangeCases) \o SetToSeq(TdCases) \o SetToSeq(BytesCases) \o SetToSeq(UuidCases) \o SetToSeq(ComplexCases)
RestSel == IF HazLen >= 4 THEN [q \in 1..(Len(RestCases) \div 40) |-> RestCases[q * 40]]                     \* thorough: every 40th (20 000 base64 values)
           ELSE [q \in 1..(Len(RestCases) \div 23) |-> RestCases[q * 23]]                                  \* quick: every 23rd
Every(sq, n) == [q \in 1..(Len(sq) \div n) |-> sq[q * n]]
\* quick: the hand-picked path texts that crash some loader or read as null, and every 4th of the others
PathExtraSeq == SetToSeq(PathExtra)
PathsQ == {RV("Path", t) : t \in {h \in PathExtra : LoaderCrash(h) \/ LoadsAsNull(h)} \cup {PathExtraSeq[q * 4] : q \in 1..(Len(PathExtraSeq) \div 4)}}
PathsM == IF HazLen >= 4 THEN PathCases ELSE PathsQ
RegMBase == SetToSeq(PathsM) \o (IF HazLen >= 4 THEN SetToSeq(DecCases) ELSE Every(SetToSeq(DecCases), 8)) \o SetToSeq(DecXCases) \o RestSel
NRegM == NModes * Len(RegMBase)
RegMCase(k) == [mode |-> ModeSeq[((k - 1) % NModes) + 1], v |-> RegMBase[((k - 1) \div NModes) + 1]]
\* what load_value makes of a text in the given mode (assumption, verified by the harness on the real loaders)
LdOfM(mode, t) == IF ModeLoaderCrash(mode, t) THEN "crash" ELSE IF t = <<"n", "u", "l", "l">> THEN "none" ELSE IF t = <<"[", "1", "]">> THEN "list" ELSE IF t = <<"{", "}">> THEN "dict" ELSE "text"
PMTexts == SetToSeq(StrExtra \cup TextsUpTo(A1, 2))
NPMT == Len(PMTexts)
NPMode == NModes * (NNamed + NRe)
PMCase(k) == LET q == ((k - 1) \div NModes) + 1 IN
             [mode |-> ModeSeq[((k - 1) % NModes) + 1], kind |-> IF q <= NNamed THEN "named" ELSE "str", n |-> IF q <= NNamed THEN q ELSE q - NNamed]
\* ------------------------------------------------------------------ part "regc" (round 4): registered values inside containers / dataclass
\* fields / defaults; os.PathLike (registered with serializer str and deserializer str: the parsed value is the str) bare
CtxSeq == <<"list", "dict", "optional", "union", "dataclass", "default">>
NCtx == Len(CtxSeq)
RegCBase == SetToSeq(PathsM)
            \o (IF HazLen >= 4 THEN SetToSeq(DecCases) ELSE Every(SetToSeq(DecCases), 8)) \o SetToSeq(DecXCases)
            \o RestSel
\* os.PathLike: texts with what load_value makes of them (assumption, verified by the harness on the real loader)
PathLikeTable == << <<<<"a">>, "text">>, <<<<"a","/","b">>, "text">>, <<<<"1","e","3">>, "text">>, <<<<"t","r","u","e">>, "text">>, <<<<"{","a">>, "text">>,
                    <<<<"n","u","l","l">>, "none">>, <<<<"~">>, "none">>, <<<<"#","a">>, "none">>, <<<<"-"," ","a">>, "list">>, <<<<"a",":"," ","b">>, "dict">>,
                    <<<<"?"," ","a">>, "dict">>, <<<<"1",":">>, "crash">>, <<<<".","_">>, "crash">>, <<<<"{","1","}">>, "crash">>, <<<<"a",":">>, "text">> >>
PathLikeCases == [q \in 1..Len(PathLikeTable) |-> [ty |-> "PathLike", f |-> PathLikeTable[q][1], ld |-> PathLikeTable[q][2]]]
NRegC == NCtx * Len(RegCBase) + Len(PathLikeCases)
RegCCase(k) == IF k <= NCtx * Len(RegCBase) THEN [ctx |-> CtxSeq[((k - 1) % NCtx) + 1], v |-> RegCBase[((k - 1) \div NCtx) + 1]]
               ELSE [ctx |-> "bare", v |-> PathLikeCases[k - NCtx * Len(RegCBase)]]

\* ------------------------------------------------------------------ part "secret"
Secrets == << <<"h","u","n","t","e","r","2">>, <<"a">>, <<"n","u","l","l">>, <<"1","e","3">>, <<"*">>, Mask, <<"p"," ","w",":"," ","x">> >>
SecretCtxs == SetToSeq(SecretContexts)
\* (round 4) two flavours of the secret type: jsonargparse.typing.SecretStr and pydantic.SecretStr (registered on first
\* use with the default serializer str, typing.py:493; its __str__ is the same ten asterisks)
SecretFlavours == <<"jsonargparse", "pydantic">>
NSecret1 == Len(Secrets) * Len(SecretCtxs)
NSecret == 2 * NSecret1
SecretCase(i) == LET i1 == ((i - 1) % NSecret1) + 1 IN
                 [ctx |-> SecretCtxs[((i1 - 1) \div Len(Secrets)) + 1], secret |-> Secrets[((i1 - 1) % Len(Secrets)) + 1],
                  flavour |-> SecretFlavours[((i - 1) \div NSecret1) + 1]]

\* ------------------------------------------------------------------ the state: one case and what the spec says about it
\* root -> Groups group states -> the cases (so that TLC's workers evaluate the cases in parallel).  fx holds, for the
\* case, every outcome the specification computes (Ref and Alg), evaluated once; the invariants relate them.
CONSTANT Groups
VARIABLES part, idx, fx
vars == <<part, idx, fx>>

NumFacts(T) ==
  LET C == NumCands IN              \* the candidates (with the numbers their texts denote), evaluated once per case
  [c    |-> C,
   ref  |-> [j \in 1..NC |-> RefOutcome(T, C[j])],
   alg  |-> [j \in 1..NC |-> AlgNew(T, C[j])],
   pars |-> [j \in 1..NC |-> AlgParse(LAMBDA y : AlgNew(T, y), C[j], LdOf(C[j].t))]]
StrFactsOn(re, TT) ==
  [acc  |-> [j \in 1..Len(TT) |-> PrefixMatch(re, TT[j])],
   ld   |-> [j \in 1..Len(TT) |-> LdOf(TT[j])],
   pbr  |-> [j \in 1..Len(TT) |-> AlgParseBranch(LAMBDA y : AlgStrNew(re, y), StrV(TT[j]), LdOf(TT[j]))],
   full |-> [j \in 1..Len(TT) |-> FullMatch(re, TT[j])],
   accx |-> [j \in 1..Len(NonStrCands) |-> RefStrAccepts(re, NonStrCands[j])],
   algx |-> [j \in 1..Len(NonStrCands) |-> AlgStrNew(re, NonStrCands[j])]]
RegF(v) ==
  IF v.ty = "DecimalX"
  THEN LET f == IF v.f[1] = "exact" THEN "eq" ELSE "via-float"
           c == CASE v.f[2] = "le15" -> "eq" [] v.f[2] = "gt17" -> "via-float" [] OTHER -> "eq|via-float" IN         \* opaque decimals: the table logic only
       [rep |-> [k |-> "opaque", t |-> << >>, n |-> NoNum], mis |-> FALSE, crash |-> FALSE, alg |-> <<f, f, c>>,
        dev |-> <<IF v.f[1] = "exact" THEN "none" ELSE "float-serializer", IF v.f[1] = "exact" THEN "none" ELSE "float-serializer", IF v.f[2] = "le15" THEN "none" ELSE "float-serializer">>,
        inv |-> "eq", tags |-> <<"-", "-">>]
  ELSE LET F == RegFacts(v, "le15") IN
       [rep |-> F.rep, mis |-> F.mis, crash |-> F.crash, alg |-> F.alg, dev |-> F.dev,
        inv |-> DeserBack(v, F.rep), tags |-> IF v.ty = "Path" THEN <<DumperTag(v.f), LoaderTag(v.f)>> ELSE <<"-", "-">>]
RegMF(c) ==
  IF c.v.ty = "DecimalX"
  THEN LET f == IF c.v.f[1] = "exact" THEN "eq" ELSE "via-float"
           cc == CASE c.v.f[2] = "le15" -> "eq" [] c.v.f[2] = "gt17" -> "via-float" [] OTHER -> "eq|via-float" IN
       [rep |-> [k |-> "opaque", t |-> << >>, n |-> NoNum], mis |-> FALSE, crash |-> FALSE, alg |-> <<f, cc>>,
        dev |-> <<IF c.v.f[1] = "exact" THEN "none" ELSE "float-serializer", IF c.v.f[2] = "le15" THEN "none" ELSE "float-serializer">>, ycrash |-> FALSE]
  ELSE LET F == RegFactsM(c.v, "le15", c.mode) IN
       [rep |-> F.rep, mis |-> F.mis, crash |-> F.crash, alg |-> F.alg, dev |-> F.dev, ycrash |-> c.mode = "jsonnet" /\ F.rep.k = "str" /\ LoaderCrash(F.rep.t)]
RegCF(c) ==
  IF c.v.ty = "DecimalX"
  THEN LET f == IF c.v.f[1] = "exact" THEN "eq" ELSE "via-float"
           cc == CASE c.v.f[2] = "le15" -> "eq" [] c.v.f[2] = "gt17" -> "via-float" [] OTHER -> "eq|via-float"
           c3 == IF c.ctx \in {"list", "dict"} THEN f ELSE cc
           d1 == IF c.v.f[1] = "exact" THEN "none" ELSE "float-serializer" IN
       [rep |-> [k |-> "opaque", t |-> << >>, n |-> NoNum], mis |-> FALSE, crash |-> FALSE, alg |-> <<f, f, c3>>,
        dev |-> <<d1, d1, IF c.ctx \in {"list", "dict"} THEN d1 ELSE IF c.v.f[2] = "le15" THEN "none" ELSE "float-serializer">>,
        bare |-> "none", ref |-> <<"eq", "eq", "eq">>]
  ELSE IF c.v.ty = "PathLike"
  THEN LET F == PathLikeFacts(c.v.f, c.v.ld) IN
       [rep |-> F.rep, mis |-> F.mis, crash |-> F.crash, alg |-> F.alg, dev |-> F.dev, bare |-> F.dev[1], ref |-> <<"eq", "eq", "eq">>]
  ELSE LET F == RegFactsCtx(c.v, "le15", c.ctx) IN
       [rep |-> F.rep, mis |-> F.mis, crash |-> F.crash, alg |-> F.alg, dev |-> F.dev, bare |-> RegFacts(c.v, "le15").dev[1],
        ref |-> [q \in 1..3 |-> RefRoundTripCtx(c.v, c.ctx, Channels[q])]]
PModeF(c) ==
  IF c.kind = "named"
  THEN LET C == NumCands  T == NamedSpecs[c.n].t IN
       [ld   |-> [j \in 1..NC |-> LdOfM(c.mode, C[j].t)],
        ref  |-> [j \in 1..NC |-> RefOutcome(T, C[j])],
        pars |-> [j \in 1..NC |-> AlgParse(LAMBDA y : AlgNew(T, y), C[j], LdOfM(c.mode, C[j].t))]]
  ELSE LET re == Regexes[c.n] IN
       [ld   |-> [j \in 1..NPMT |-> LdOfM(c.mode, PMTexts[j])],
        acc  |-> [j \in 1..NPMT |-> PrefixMatch(re, PMTexts[j])],
        pars |-> [j \in 1..NPMT |-> AlgParse(LAMBDA y : AlgStrNew(re, y), StrV(PMTexts[j]), LdOfM(c.mode, PMTexts[j]))],
        pbr  |-> [j \in 1..NPMT |-> AlgParseBranch(LAMBDA y : AlgStrNew(re, y), StrV(PMTexts[j]), LdOfM(c.mode, PMTexts[j]))]]
Facts(p, k) ==
  CASE p = "num"    -> NumFacts(NumTypes[k])
    [] p = "named"  -> NumFacts(NamedSpecs[k].t)
    [] p = "create" -> [creates |-> AlgCreates(CreateSpecs[k]), wf |-> RefWellFormed(CreateSpecs[k])]
    [] p = "str"    -> StrFactsOn(Regexes[k], StrTexts)
    [] p = "strx"   -> StrFactsOn(RegexesX[k], StrXTexts)
    [] p = "reg"    -> RegF(RegCases[k])
    [] p = "regm"   -> RegMF(RegMCase(k))
    [] p = "pmode"  -> PModeF(PMCase(k))
    [] p = "regc"   -> RegCF(RegCCase(k))
    [] p = "secret" -> [leaf |-> AlgDumpedLeaf(SecretCase(k).ctx, SecretCase(k).secret)]
Count(p) == CASE p = "num" -> NNum [] p = "named" -> NNamed [] p = "create" -> NCreate [] p = "str" -> NRe [] p = "strx" -> NReX [] p = "reg" -> NReg [] p = "regm" -> NRegM [] p = "pmode" -> NPMode [] p = "regc" -> NRegC [] p = "secret" -> NSecret
Parts == {"num", "named", "create", "str", "strx", "reg", "regm", "pmode", "regc", "secret"}

Init == part = "root" /\ idx = 0 /\ fx = << >>
Next == \/ part = "root" /\ \E g \in 1..Groups : part' = "group" /\ idx' = g /\ fx' = << >>
        \/ part = "group" /\ \E p \in Parts : \E k \in {n \in 1..Count(p) : n % Groups = idx % Groups} :
                                 part' = p /\ idx' = k /\ fx' = Facts(p, k)
Spec == Init /\ [][Next]_vars

\* ------------------------------------------------------------------ invariants, part "num"
IsNum == part \in {"num", "named"}
NumT == IF part = "named" THEN NamedSpecs[idx].t ELSE NumTypes[idx]
AllJ(P(_)) == \A j \in 1..NC : P(j)
\* Alg refines Ref: the validation order of typing.py decides exactly the property's predicate and returns base(x)
NumAlgRefinesRef == IsNum => AllJ(LAMBDA j : SameVal(fx.alg[j].v, fx.ref[j]))
\* ... also through a parser: a config value, and a command-line text (first attempt on the loaded value, retry on the text)
\* (a text on which load_value raises is rejected whatever the type says: named deviation "loader-crash")
NumParseRefinesRef == IsNum => AllJ(LAMBDA j : IF fx.c[j].k = "str" /\ LdOf(fx.c[j].t) = "crash" THEN fx.pars[j].r = "raise"
                                                                                                  ELSE SameVal(fx.pars[j].v, fx.ref[j]))
\* casting the accepted value again changes nothing
NumIdempotent == IsNum => AllJ(LAMBDA j : fx.ref[j].k # "rejected" =>
     /\ SameVal(RefOutcome(NumT, fx.ref[j]), fx.ref[j])
     /\ SameVal(AlgOutcome(NumT, fx.alg[j].v), fx.alg[j].v))
\* acceptance is the join of the single comparisons, and the accepted value does not depend on the restrictions
NumJoinLaw == IsNum => AllJ(LAMBDA j : LET x == fx.c[j] IN
     /\ (fx.ref[j].k # "rejected") = Join(NumT.join, [k \in 1..Len(NumT.r) |-> RefAccepts(NType(NumT.base, <<NumT.r[k]>>, "and"), x)])
     /\ (fx.ref[j].k # "rejected" => SameVal(fx.ref[j], RefResult(NType(NumT.base, << >>, "and"), x))))
\* a comparison and its negation split the convertible numbers (nan satisfies only !=)
Neg(op) == CASE op = ">" -> "<=" [] op = ">=" -> "<" [] op = "<" -> ">=" [] op = "<=" -> ">" [] op = "==" -> "!=" [] op = "!=" -> "=="
NumComplement == (IsNum /\ Len(NumT.r) = 1) => AllJ(LAMBDA j : LET x == fx.c[j] IN
     (ConvertsToBase(NumT.base, x) /\ NumberOf(NumT.base, x).s # "nan") =>
        ((fx.ref[j].k # "rejected") # RefAccepts(NType(NumT.base, << <<Neg(NumT.r[1][1]), NumT.r[1][2]>> >>, NumT.join), x)))
NumWellFormed == IsNum => (RefWellFormed(NumT) /\ AlgCreates(NumT))
CreateAgrees == part = "create" => (fx.creates = fx.wf)

\* ------------------------------------------------------------------ invariants, part "str"
Re == Regexes[idx]
StrAlgRefinesRef == part = "str" =>
     /\ \A j \in 1..NST : LET x == StrV(StrTexts[j]) IN SameVal(AlgStrNew(Re, x).v, IF fx.acc[j] THEN x ELSE Rejected)
     /\ \A j \in 1..Len(NonStrCands) : ~fx.accx[j] /\ fx.algx[j].r = "raise"
StrParseRefinesRef == part = "str" =>
     /\ \A j \in 1..NST : LET x == StrV(StrTexts[j]) IN
          IF fx.ld[j] = "crash" THEN AlgParse(LAMBDA y : AlgStrNew(Re, y), x, fx.ld[j]).r = "raise"
          ELSE SameVal(AlgParse(LAMBDA y : AlgStrNew(Re, y), x, fx.ld[j]).v, IF fx.acc[j] THEN x ELSE Rejected)
     /\ \A j \in 1..Len(NonStrCands) : AlgParse(LAMBDA y : AlgStrNew(Re, y), NonStrCands[j], "text").r = "raise"
\* a pattern that ends with $ : match = fullmatch of the body, up to one final newline
StrAnchoredLaw == (part = "str" /\ Anchored(Re)) =>
     LET body == Cat(SubSeq(Re.a, 1, Len(Re.a) - 1)) IN
     \A j \in 1..NST : LET t == StrTexts[j] IN
        fx.acc[j] = (FullMatch(body, t) \/ (t # << >> /\ t[Len(t)] = NL /\ Len(t) \in Ends(body, t, 1)))
\* fullmatch implies match; a text matches iff one of its prefixes matches fully
StrPrefixLaw == part = "str" => \A j \in 1..NST : LET t == StrTexts[j] IN
        /\ (fx.full[j] => fx.acc[j])
        /\ (fx.acc[j] = (Ends(Re, t, 1) # {}))

\* ------------------------------------------------------------------ invariants, part "strx" (round 4)
ReX == RegexesX[idx]
StrxAlgRefinesRef == part = "strx" =>
     /\ \A j \in 1..NSTX : LET x == StrV(StrXTexts[j]) IN
          /\ SameVal(AlgStrNew(ReX, x).v, IF fx.acc[j] THEN x ELSE Rejected)
          /\ SameVal(AlgParse(LAMBDA y : AlgStrNew(ReX, y), x, fx.ld[j]).v, IF fx.acc[j] THEN x ELSE Rejected)
          /\ (fx.full[j] => fx.acc[j])
     /\ \A j \in 1..Len(NonStrCands) : ~fx.accx[j] /\ fx.algx[j].r = "raise"
\* a counted repetition means its unrolling (lo copies, then optional copies / a star): same set of end positions
StrxRepLaw == part = "strx" => LET u == Unroll(ReX) IN \A j \in 1..NSTX : Ends(u, StrXTexts[j], 1) = Ends(ReX, StrXTexts[j], 1)
\* under IGNORECASE a text matches iff one of its case variants matches the plain term
\* (the law needs every NEGATED class of the term to be closed under case: [^a] accepts A, (?i:[^a]) does not)
RECURSIVE NegClosed(_)
NegClosed(re) == CASE re.k = "chr" -> (~re.neg \/ CaseClose(re.s) = re.s)
                   [] re.k \in {"cat", "alt"} -> \A q \in 1..Len(re.a) : NegClosed(re.a[q])
                   [] re.k \in {"star", "plus", "opt", "rep"} -> NegClosed(re.r)
                   [] re.k = "ci" -> TRUE
                   [] OTHER -> TRUE
StrxCaseLaw == (part = "strx" /\ NegClosed(ReX)) => \A j \in 1..NSTX : Len(StrXTexts[j]) > 3 \/
        (PrefixMatch(NoCase(ReX), StrXTexts[j]) = (\E u \in Variants(StrXTexts[j]) : PrefixMatch(ReX, u)))

\* ------------------------------------------------------------------ invariants, part "reg"
RV0 == RegCases[idx]
\* outside the named deviations the transcription meets the obligation on every channel, inside them it does not
\* (the deviations are real in the model)
RegAlgRefinesRef == part = "reg" => \A c \in 1..3 : (fx.dev[c] = "none") = (fx.alg[c] = RefRoundTrip(RV0, Channels[c]))
\* deserialize(serialize(v)) = v when nothing is written in between (the pair of functions of the table is an inverse pair)
RegSerDeserInverse == (part = "reg" /\ RV0.ty \notin {"Decimal", "DecimalX"}) => fx.inv = "eq"
\* load_value raises only on representations of paths (no other registered type can spell "1:" or "._")
RegCrashOnlyPaths == (part = "reg" /\ fx.crash) => RV0.ty = "Path"
\* the base64 model: decode(encode(b)) = b, and the encoding is canonical text
RegB64Law == (part = "reg" /\ RV0.ty \in {"bytes", "bytearray"}) => (B64Dec(B64Enc(RV0.f)) = Got(RV0.f) /\ FullMatch(B64Canonical, fx.rep.t))
\* the two resolver sets differ only where the loader's float resolver or the removed timestamp resolver apply
RegResolverLaw == (part = "reg" /\ RV0.ty = "Path") =>
     ((fx.tags[1] # fx.tags[2]) => ((fx.tags[1] = "timestamp" /\ fx.tags[2] = "str") \/ (fx.tags[1] = "str" /\ fx.tags[2] = "float")))
\* the Decimal serializer is not injective into float exactly on the decimals that are not doubles
RegDecimalFinding == (part = "reg" /\ RV0.ty = "Decimal") => (DecExact(RV0.f) = (fx.alg[1] = "eq"))

\* ------------------------------------------------------------------ invariants, parts "regm" / "pmode" (round 4)
RM == RegMCase(idx)
\* in every mode the named deviations are exactly the cases where the Alg round trip is not "eq"
RegMAlgRefinesRef == part = "regm" => \A c \in 1..2 : (fx.dev[c] = "none") = (fx.alg[c] = "eq")
\* JSON and TOML modes: nothing crashes, nothing is misread; every value that is not a Decimal comes back equal
RegMJsonTomlClean == (part = "regm" /\ RM.mode \in {"json", "toml"}) =>
     (~fx.crash /\ ~fx.mis /\ (RM.v.ty \notin {"Decimal", "DecimalX"} => fx.alg = <<"eq", "eq">>))
\* jsonnet mode: its crashes are YAML-mode crashes (the fallback loader is yaml_load), of paths only, never a misread
RegMJsonnetLaw == (part = "regm" /\ RM.mode = "jsonnet") => (~fx.mis /\ (fx.crash => (fx.ycrash /\ RM.v.ty = "Path")))
PMC == PMCase(idx)
\* through a parser of any mode Alg = Ref outside the loader crashes of that mode
PModeRefinesRef == part = "pmode" =>
     IF PMC.kind = "named"
     THEN \A j \in 1..NC : IF fx.ld[j] = "crash" THEN fx.pars[j].r = "raise" ELSE SameVal(fx.pars[j].v, fx.ref[j])
     ELSE \A j \in 1..NPMT : IF fx.ld[j] = "crash" THEN fx.pars[j].r = "raise"
                               ELSE SameVal(fx.pars[j].v, IF fx.acc[j] THEN StrV(PMTexts[j]) ELSE Rejected)
PModeJsonTomlNoCrash == (part = "pmode" /\ PMC.mode \in {"json", "toml"}) => \A j \in DOMAIN fx.ld : fx.ld[j] # "crash"

\* ------------------------------------------------------------------ invariants, part "regc" (round 4)
RC == RegCCase(idx)
RegCAlgRefinesRef == part = "regc" => \A c \in 1..3 : /\ (fx.dev[c] = "none") = (fx.alg[c] = "eq")
                                                        /\ (fx.dev[c] \in {"none", "null-text"} => \E o \in {"eq", "other"} : AlgAllows(fx.alg[c], o) /\ RefAllows(fx.ref[c], o))
                                                        /\ (fx.ref[c] # "eq" => RC.ctx = "optional")
\* os.PathLike: the crash model agrees with the table, and a text that is not loaded as a scalar does not survive
RegCPathLike == (part = "regc" /\ RC.v.ty = "PathLike") =>
     /\ (RC.v.ld = "crash") = LoaderCrash(RC.v.f)
     /\ (RC.v.ld \in {"none", "list", "dict"} => fx.alg[1] # "eq")
     /\ (LoadsAsNull(RC.v.f) => RC.v.ld = "none")
\* inside List / Dict nothing crashes: a path that cannot be parsed back bare comes back equal as an item
RegCItemsNeverCrash == (part = "regc" /\ RC.ctx \in {"list", "dict"}) =>
     (~fx.crash /\ (fx.bare = "loader-crash" => fx.alg = <<"eq", "eq", "eq">>))
\* everywhere else the context changes nothing: the deviations are those of the bare value
RegCContextNeutral == (part = "regc" /\ RC.ctx \notin {"list", "dict"} /\ RC.v.ty # "DecimalX") => (fx.dev[1] = fx.bare \/ fx.dev[1] = "null-text")

\* ------------------------------------------------------------------ invariants, part "secret"
SC == SecretCase(idx)
SecretNonInterference == part = "secret" => \A k \in 1..Len(Secrets) : fx.leaf = AlgDumpedLeaf(SC.ctx, Secrets[k])
SecretNoLeak == part = "secret" => RefNoLeak(SC.secret, fx.leaf, Mask)

\* ------------------------------------------------------------------ emission (spec -> code)
NumJ(n) == <<n.s, n.n[1], n.n[2]>>
ValJ(x) == [k |-> x.k, v |-> NumJ(x.v), t |-> x.t]
TypeJ(T) == [base |-> T.base, join |-> T.join, r |-> [k \in 1..Len(T.r) |-> <<T.r[k][1], T.r[k][2].n[1], T.r[k][2].n[2]>>]]
Line ==
  CASE IsNum ->
         [part |-> part, i |-> idx, type |-> TypeJ(NumT), name |-> IF part = "named" THEN NamedSpecs[idx].name ELSE "",
          ref |-> [j \in 1..NC |-> ValJ(fx.ref[j])],
          exc |-> [j \in 1..NC |-> fx.alg[j].exc],
          pexc |-> [j \in 1..NC |-> fx.pars[j].exc],
          pacc |-> [j \in 1..NC |-> fx.pars[j].r = "ok"],
          br |-> [j \in 1..NC |-> AlgBranch(NumT, fx.c[j])],
          pbr |-> [j \in 1..NC |-> AlgParseBranch(LAMBDA y : AlgNew(NumT, y), fx.c[j], LdOf(fx.c[j].t))]]
    [] part = "create" -> [part |-> part, i |-> idx, type |-> TypeJ(CreateSpecs[idx]), creates |-> fx.wf]
    [] part \in {"str", "strx"} -> [part |-> part, i |-> idx, acc |-> fx.acc, accx |-> fx.accx, full |-> fx.full, ld |-> fx.ld, pbr |-> fx.pbr]
    [] part = "reg" ->
         [part |-> part, i |-> idx, ty |-> RV0.ty, f |-> RV0.f,
          rep |-> [k |-> fx.rep.k, t |-> fx.rep.t, n |-> NumJ(fx.rep.n)],
          alg |-> fx.alg, dev |-> fx.dev, tags |-> fx.tags]
    [] part = "regm" ->
         [part |-> part, i |-> idx, mode |-> RM.mode, ty |-> RM.v.ty, f |-> RM.v.f,
          rep |-> [k |-> fx.rep.k, t |-> fx.rep.t, n |-> NumJ(fx.rep.n)], alg |-> fx.alg, dev |-> fx.dev]
    [] part = "regc" ->
         [part |-> part, i |-> idx, ctx |-> RC.ctx, ty |-> RC.v.ty, f |-> RC.v.f, ld |-> IF RC.v.ty = "PathLike" THEN RC.v.ld ELSE "-",
          rep |-> [k |-> fx.rep.k, t |-> fx.rep.t, n |-> NumJ(fx.rep.n)], alg |-> fx.alg, dev |-> fx.dev, ref |-> fx.ref]
    [] part = "pmode" ->
         IF PMC.kind = "named"
         THEN [part |-> part, i |-> idx, mode |-> PMC.mode, kind |-> PMC.kind, n |-> PMC.n, ld |-> fx.ld,
               ref |-> [j \in 1..NC |-> ValJ(fx.ref[j])], pacc |-> [j \in 1..NC |-> fx.pars[j].r = "ok"]]
         ELSE [part |-> part, i |-> idx, mode |-> PMC.mode, kind |-> PMC.kind, n |-> PMC.n, ld |-> fx.ld, acc |-> fx.acc,
               pacc |-> [j \in 1..NPMT |-> fx.pars[j].r = "ok"], pbr |-> fx.pbr]
    [] part = "secret" -> [part |-> part, i |-> idx, ctx |-> SC.ctx, secret |-> SC.secret, leaf |-> fx.leaf, flavour |-> SC.flavour]
EmitCase == (Emit /\ part \notin {"root", "group"}) => PrintT(ToJson(Line))
\* the two formulations of the int() / float() grammars agree on every candidate text
ASSUME GrammarFormsAgree == LET C == NumCands IN \A j \in 1..NC : (FullMatch(PyIntRe, C[j].t) = IsPyInt(C[j].t)) /\ (FullMatch(PyFloatRe, C[j].t) = IsPyFloat(C[j].t))
ASSUME Emit => LET C == NumCands IN
               PrintT(ToJson([cands |-> [j \in 1..NC |-> ValJ(C[j])], ld |-> [j \in 1..NC |-> LdOf(C[j].t)],
                              regexes |-> Regexes, strtexts |-> StrTexts, regexesx |-> RegexesX, strxtexts |-> StrXTexts, pmtexts |-> PMTexts, modes |-> ModeSeq, nonstr |-> [j \in 1..Len(NonStrCands) |-> ValJ(NonStrCands[j])],
                              channels |-> Channels,
                              counts |-> [num |-> NNum, named |-> NNamed, create |-> NCreate, str |-> NRe, strx |-> NReX, reg |-> NReg, regm |-> NRegM, pmode |-> NPMode, regc |-> NRegC, secret |-> NSecret]]))
=============================================================================
