------------------------------ MODULE Classes ------------------------------
(***************************************************************************)
(* Subclass specifications class_path / init_args / dict_kwargs of an      *)
(* argument typed with a class (property C14).                             *)
(*                                                                         *)
(* A *case* cs = [fam, T, items]:                                          *)
(*   fam    the class family  [cls, fn, other]:                            *)
(*          cls : name -> [parent, abs, kw, params]   (parent "" = none,   *)
(*                abs = abstract, kw = __init__ takes **kwargs)            *)
(*          fn  : name -> [ret, params]    module-level factory functions  *)
(*                returning an instance of class ret                       *)
(*          other : names of module attributes that are not callable       *)
(*          a parameter = [n, t, req, d]; a type t = [k, c, c2] with       *)
(*          k \in {"int","str","cls","opt","list","dict","union"}:         *)
(*          int, str, C, Optional[C], List[C], Dict[str,C], Union[C,C2]    *)
(*          and (round 4) "optlist" Optional[List[C]], "listopt"           *)
(*          List[Optional[C]], "optdict" Optional[Dict[str,C]]             *)
(*          (round 4) ext : sequence of BINDINGS [m, n, c, def, u]: the    *)
(*          import path m.n is bound to the class with key c (a class      *)
(*          outside the module Mod: another module, a package P with a     *)
(*          sub-module P.v2); def = m is the module that DEFINES c (n is   *)
(*          its __name__); u = the unit (module / package) an import of m  *)
(*          loads.  Two bindings with the same n and different c = name    *)
(*          shadowing; two bindings with the same c = a re-export (the     *)
(*          same object).  late : the units not imported when the process  *)
(*          starts; vis : those of them imported SO FAR -- the family is a *)
(*          function of time, FamOf(case) carries the case's vis.          *)
(*   T      the class the argument --x is typed with                       *)
(*   items  the sources, left to right:                                    *)
(*          [k |-> "whole", v]     --x=<v>         (class name, path, dict) *)
(*          [k |-> "dot", p, v]    --x.p1.p2=<v>   (dotted sub-option)     *)
(*          [k |-> "cfg", v]       --cfg={"x": <v>}  (a config source)     *)
(*   dflt   the DEFAULT of the argument: NoVal, or a spec (a dict with     *)
(*          class_path / init_args, lazy_instance(C, **init_args))         *)
(*   chan   how the FIRST source arrives: "argv" (all sources on the       *)
(*          command line), "dcf" (a default_config_files file), "env"      *)
(*          (the environment variable of --x), "string" (parse_string);    *)
(*          the other sources follow on the command line                   *)
(*   host   (round 4) where the argument lives: "top" (the parser that is   *)
(*          parsed) or "sub" (the parser of a sub-command `fit`; sources   *)
(*          follow the sub-command's name, config sources are --cfg of the *)
(*          sub-command or the section "fit" of a --cfg of the root).      *)
(*          Neither layer looks at it: the property is about the argument, *)
(*          and the sub-command's parser is an ArgumentParser of its own   *)
(*          (_ActionSubCommands.__call__ -> subparser.parse_known_args,    *)
(*          instantiate_classes recurses into the sub-command's parser).   *)
(* Values: [k|->"file",v] (round 4): a str that is the PATH of a file whose *)
(* content is the value v (sub_configs / enable_path); it is read where an *)
(* option's value is checked (_check_type:561-563), not inside containers. *)
(* Values: [k|->"int",i], [k|->"str",s], [k|->"dstr",i] (a str of digits), *)
(* [k|->"null"], [k|->"ref",m,n] (a                                        *)
(* class reference: m = "" bare name, "M" the family's module, "X" a       *)
(* module that does not exist), [k|->"dict",d] (d: name -> value),         *)
(* [k|->"list",l], and the normal form of a spec                           *)
(* [k|->"spec", c, a, w]: class (or factory) name, init_args, dict_kwargs. *)
(*                                                                         *)
(* Ref*  the property: every source denotes an update of an explicit       *)
(*       spec (RefApply); the final spec must satisfy AcceptSpec; the      *)
(*       constructor log must rebuild exactly the normal form (LogOK).     *)
(*       Ref takes a record dev = [stale, nokw] naming the two recorded    *)
(*       deviations of the code about dict_kwargs; dev = NoDev is the      *)
(*       property, dev = CodeDev is what _typehints.py does.               *)
(* Alg*  _typehints.py transcribed: ActionTypeHint.__call__, the subclass  *)
(*       branch of adapt_typehints, subclass_spec_as_namespace,            *)
(*       resolve_class_path_by_name / import_object, adapt_class_type,     *)
(*       discard_init_args_on_class_path_change, Namespace.update's leaf   *)
(*       merge, add_sub_defaults, check_required, instantiate_classes.     *)
(***************************************************************************)
EXTENDS Integers, Sequences, FiniteSets, TLC, SequencesExt

VInt(n)    == [k |-> "int", i |-> n]
VStr(s)    == [k |-> "str", s |-> s]
VNull      == [k |-> "null"]
VRef(m, n) == [k |-> "ref", m |-> m, n |-> n]
VDict(d)   == [k |-> "dict", d |-> d]
VList(l)   == [k |-> "list", l |-> l]
Nested(p, v) == [k |-> "nested", p |-> p, v |-> v]            \* NestedArg(key=p1.p2..., val=v)
S(c, a, w) == [k |-> "spec", c |-> c, a |-> a, w |-> w]
NoVal      == [k |-> "none"]
Rej        == [k |-> "rej"]
EF         == [x \in {} |-> NoVal]                             \* the empty mapping
Mod        == "M"

IsSpec(v) == v.k = "spec"
SeqToSet(s) == {s[i] : i \in 1..Len(s)}
Restr(f, D) == [x \in D |-> f[x]]
Overlay(f, g) == [x \in (DOMAIN f) \cup (DOMAIN g) |-> IF x \in DOMAIN g THEN g[x] ELSE f[x]]     \* g wins

(***************************************************************************)
(* The family                                                              *)
(***************************************************************************)
IsClass(fam, c) == c \in DOMAIN fam.cls
IsFunc(fam, c)  == c \in DOMAIN fam.fn
CParams(fam, c) == IF IsClass(fam, c) THEN fam.cls[c].params ELSE fam.fn[c].params
PNames(fam, c)  == {CParams(fam, c)[i].n : i \in 1..Len(CParams(fam, c))}
PRec(fam, c, n) == CParams(fam, c)[CHOOSE i \in 1..Len(CParams(fam, c)) : CParams(fam, c)[i].n = n]
HasKw(fam, c)   == IsClass(fam, c) /\ fam.cls[c].kw
Abstract(fam, c) == IsClass(fam, c) /\ fam.cls[c].abs
Built(fam, c)   == IF IsClass(fam, c) THEN c ELSE fam.fn[c].ret          \* the class of the object a spec builds
RECURSIVE IsSub(_, _, _)
IsSub(fam, c, t) == c = t \/ (fam.cls[c].parent # "" /\ IsSub(fam, fam.cls[c].parent, t))
\* classes offered by bare name for type t: t and its descendants, abstract and private ones excluded
ByName(fam, t) == {c \in DOMAIN fam.cls : IsSub(fam, c, t) /\ ~fam.cls[c].abs}

\* round 4: layouts and histories
ExtSet(fam) == SeqToSet(fam.ext)
DefOf(fam, c) == {b \in ExtSet(fam) : b.c = c /\ b.def}
NameOf(fam, c) == IF DefOf(fam, c) = {} THEN c ELSE (CHOOSE b \in DefOf(fam, c) : TRUE).n            \* the class's own __name__
Loaded(fam, c) == \A b \in DefOf(fam, c) : b.u \notin SeqToSet(fam.late) \/ b.u \in SeqToSet(fam.vis)   \* its defining module has been imported
\* resolution of a class reference against the declared class t:  a class/factory name, or "" (fails)
\* resolve_class_path_by_name:1314-1329, import_object (_util.py:172-186), the subclass test :1078-1093
Resolve(fam, t, r) ==
  IF r.k = "ref" THEN
     (IF r.m = "" THEN (IF r.n \notin {b.n : b \in ExtSet(fam)} THEN (IF r.n \in ByName(fam, t) THEN r.n ELSE "")      \* a bare name is only found among the subclasses (no class of another module has this name: the class's key is its name)
                        \* ... among the subclasses that EXIST AT THE TIME OF THE PARSE (cl.__subclasses__() :1292-1293), by their own name;
                        \* none: not found; several: "Multiple subclasses with name" (:1321-1325) -- the ambiguity is reported, not guessed
                        ELSE LET cand == {c \in ByName(fam, t) : NameOf(fam, c) = r.n /\ Loaded(fam, c)}
                             IN IF Cardinality(cand) = 1 THEN CHOOSE c \in cand : TRUE ELSE "")
      ELSE IF r.m = Mod THEN (IF IsClass(fam, r.n) \/ IsFunc(fam, r.n) THEN r.n ELSE "")   \* a non-callable attribute / missing attribute fails
      \* any other module path: the object BOUND at that path (import_object: __import__ + getattr) -- the very object, whatever
      \* else carries the same name elsewhere; no binding: ModuleNotFoundError / AttributeError
      ELSE LET bs == {b \in ExtSet(fam) : b.m = r.m /\ b.n = r.n} IN IF bs = {} THEN "" ELSE (CHOOSE b \in bs : TRUE).c)
  ELSE ""                                                                              \* any other string: not an import path
Designates(fam, t, c) == c # "" /\ IsSub(fam, Built(fam, c), t)

\* a normalised value written back as an input (explicit form)
RECURSIVE AsInput(_)
AsInput(v) ==
  CASE v.k = "spec" -> VDict(Overlay([x \in {"class_path"} |-> VRef(Mod, v.c)],
                                     Overlay(IF DOMAIN v.a = {} THEN EF ELSE [x \in {"init_args"} |-> VDict([n \in DOMAIN v.a |-> AsInput(v.a[n])])],
                                             IF DOMAIN v.w = {} THEN EF ELSE [x \in {"dict_kwargs"} |-> VDict(v.w)])))
    [] v.k = "list" -> VList([j \in 1..Len(v.l) |-> AsInput(v.l[j])])
    [] v.k = "dict" -> VDict([n \in DOMAIN v.d |-> AsInput(v.d[n])])
    [] OTHER        -> v

(***************************************************************************)
(* Ref layer                                                               *)
(***************************************************************************)
NoDev   == [stale |-> FALSE, nokw |-> FALSE]       \* the property
CodeDev == [stale |-> TRUE,  nokw |-> TRUE]        \* with both recorded deviations of the code

\* what a source says, as an explicit delta [cp, ia, dk]: class designation (a ref, or NoVal = "the current class"),
\* init_args (name -> input value), dict_kwargs
Delta(cp, ia, dk) == [cp |-> cp, ia |-> ia, dk |-> dk]
StripInit(p) == IF Len(p) > 1 /\ p[1] = "init_args" THEN Tail(p) ELSE p
RefDelta(v) ==
  CASE v.k \in {"ref", "str"} -> Delta(v, EF, EF)
    [] v.k = "dict" ->
         LET d == v.d
             ia == IF "init_args" \in DOMAIN d THEN (IF d["init_args"].k = "dict" THEN d["init_args"].d ELSE EF) ELSE EF
             dk == IF "dict_kwargs" \in DOMAIN d THEN (IF d["dict_kwargs"].k = "dict" THEN d["dict_kwargs"].d ELSE EF) ELSE EF
         IN IF "class_path" \in DOMAIN d THEN Delta(d["class_path"], ia, dk)
            ELSE IF "init_args" \in DOMAIN d \/ "dict_kwargs" \in DOMAIN d THEN Delta(NoVal, ia, dk)
            ELSE Delta(NoVal, d, EF)                                           \* a dict of parameters only
    [] v.k = "nested" ->
         LET p == StripInit(v.p) IN
         IF p[1] = "dict_kwargs" /\ Len(p) = 2 THEN Delta(NoVal, EF, [x \in {p[2]} |-> v.v])
         ELSE IF Len(p) = 1 THEN Delta(NoVal, [x \in {p[1]} |-> v.v], EF)
         ELSE Delta(NoVal, [x \in {p[1]} |-> Nested(Tail(p), v.v)], EF)
    [] OTHER -> Rej

\* ActionTypeHint.__call__:535-540: a dotted option becomes a NestedArg, a leading "init_args." is dropped.  Its value is
\* TEXT: an int written there reaches an int parameter as that int and a str parameter as its digits ("tint")
AsText(v) == IF v.k = "int" THEN [k |-> "tint", i |-> v.i] ELSE v
\* round 4: a value that is the path of a sub-config file denotes the content of the file (_check_type:561-563
\* parse_value_or_config(val, enable_path) -- for the value of an option, not for a NestedArg and not inside a container)
Unfile(v) == IF v.k = "file" THEN v.v ELSE v
ItemValue(it) == IF it.k = "dot" THEN Nested(StripInit(it.p), AsText(it.v)) ELSE Unfile(it.v)
\* A str made of digits is its own kind of value, [k |-> "dstr", i |-> n] = the Python str repr(n): wherever a str meets a
\* non-str type it is loaded first (adapt_typehints:781-783), so such a str is a valid int -- this decides which init_args
\* survive a class change.  Other strs are [k |-> "str", s].
DStr(n) == [k |-> "dstr", i |-> n]
DkVal(v) == IF v.k \in {"tint", "dstr"} THEN VInt(v.i) ELSE v            \* adapt_class_type:1447-1451 dict_kwargs strs are loaded
LeafInt(v) == IF v.k \in {"int", "tint", "dstr"} THEN VInt(v.i) ELSE Rej
LeafStr(v) == IF v.k = "str" THEN v ELSE IF v.k \in {"tint", "dstr"} THEN DStr(v.i) ELSE Rej

RECURSIVE RefApplyCls(_, _, _, _, _), RefApplyT(_, _, _, _, _), RefCompatible(_, _, _, _)
\* entries of init_args that the class c accepts (name and value), re-checked from scratch
RefCompatible(fam, dev, a, c) ==
  LET ok == {n \in DOMAIN a : n \in PNames(fam, c) /\ RefApplyT(fam, dev, PRec(fam, c, n).t, NoVal, AsInput(a[n])) # Rej}
  IN [n \in ok |-> RefApplyT(fam, dev, PRec(fam, c, n).t, NoVal, AsInput(a[n]))]        \* ... and are read as the new class reads them
RefApplyCls(fam, dev, tc, cur, v) ==
  LET base == IF IsSpec(cur) THEN cur ELSE IF ~Abstract(fam, tc) THEN S(tc, EF, EF) ELSE NoVal
      d == RefDelta(v)
  IN IF d = Rej THEN Rej
     ELSE LET target == IF d.cp # NoVal THEN Resolve(fam, tc, d.cp) ELSE IF base = NoVal THEN "" ELSE base.c
          IN IF ~Designates(fam, tc, target) THEN Rej
             ELSE LET same == base # NoVal /\ base.c = target
                      kepta == IF base = NoVal THEN EF ELSE IF same THEN base.a ELSE RefCompatible(fam, dev, base.a, target)
                      moved == {n \in DOMAIN d.dk : n \in PNames(fam, target)}          \* dict_kwargs that name a parameter are init_args
                      ia2 == Overlay(d.ia, Restr(d.dk, moved))
                      dk2 == [n \in (DOMAIN d.dk) \ moved |-> DkVal(d.dk[n])]
                      keptw == IF base = NoVal THEN EF
                               ELSE IF same THEN base.w
                               ELSE IF dev.stale /\ DOMAIN dk2 = {} THEN base.w                \* deviation "stale": kept across a class change
                               ELSE EF
                      newa == [n \in DOMAIN ia2 |-> IF n \in PNames(fam, target)
                                                    THEN RefApplyT(fam, dev, PRec(fam, target, n).t, IF n \in DOMAIN kepta THEN kepta[n] ELSE NoVal, ia2[n])
                                                    ELSE Rej]
                  IN IF \E n \in DOMAIN newa : newa[n] = Rej THEN Rej
                     ELSE S(target, Overlay(kepta, newa), Overlay(keptw, dk2))
RefApplyT(fam, dev, t, cur, v0) ==
  LET v == IF t.k \in {"cls", "opt", "union"} THEN Unfile(v0) ELSE v0 IN     \* the value of a class-typed parameter may be given as a sub-config file
  CASE t.k = "int"   -> LeafInt(v)
    [] t.k = "str"   -> LeafStr(v)
    [] t.k = "cls"   -> RefApplyCls(fam, dev, t.c, cur, v)
    [] t.k = "opt"   -> IF v.k = "null" THEN VNull ELSE RefApplyCls(fam, dev, t.c, cur, v)
    [] t.k = "union" -> LET r1 == RefApplyCls(fam, dev, t.c, cur, v) IN IF r1 # Rej THEN r1 ELSE RefApplyCls(fam, dev, t.c2, cur, v)
    [] t.k = "list"  -> IF v.k # "list" THEN Rej
                        ELSE LET rs == [j \in 1..Len(v.l) |-> RefApplyCls(fam, dev, t.c, IF cur.k = "list" /\ Len(cur.l) = Len(v.l) THEN cur.l[j] ELSE NoVal, v.l[j])]
                             IN IF \E j \in 1..Len(rs) : rs[j] = Rej THEN Rej ELSE VList(rs)
    [] t.k = "dict"  -> IF v.k # "dict" THEN Rej
                        ELSE LET rs == [n \in DOMAIN v.d |-> RefApplyCls(fam, dev, t.c, IF cur.k = "dict" /\ n \in DOMAIN cur.d THEN cur.d[n] ELSE NoVal, v.d[n])]
                             IN IF \E n \in DOMAIN rs : rs[n] = Rej THEN Rej ELSE VDict(rs)
    \* round 4: containers one level deeper.  Optional[...] adds the value null; the elements of List[Optional[C]] may be null
    [] t.k = "optlist" -> IF v.k = "null" THEN VNull ELSE RefApplyT(fam, dev, [t EXCEPT !.k = "list"], cur, v)
    [] t.k = "optdict" -> IF v.k = "null" THEN VNull ELSE RefApplyT(fam, dev, [t EXCEPT !.k = "dict"], cur, v)
    [] t.k = "listopt" -> IF v.k # "list" THEN Rej
                          ELSE LET rs == [j \in 1..Len(v.l) |-> IF v.l[j].k = "null" THEN VNull
                                                                ELSE RefApplyCls(fam, dev, t.c, IF cur.k = "list" /\ Len(cur.l) = Len(v.l) THEN cur.l[j] ELSE NoVal, v.l[j])]
                               IN IF \E j \in 1..Len(rs) : rs[j] = Rej THEN Rej ELSE VList(rs)
    [] OTHER -> Rej


RECURSIVE RefFold(_, _, _, _, _, _)
RefFold(fam, dev, tc, items, i, cur) ==
  IF i > Len(items) \/ cur = Rej THEN cur
  ELSE RefFold(fam, dev, tc, items, i + 1, RefApplyCls(fam, dev, tc, cur, ItemValue(items[i])))

\* defaults of the parameters that were not given (all levels)
RECURSIVE Fill(_, _)
Fill(fam, v) ==
  CASE v.k = "spec" -> LET ps == CParams(fam, v.c)
                           dflt == {ps[i].n : i \in {j \in 1..Len(ps) : ~ps[j].req}}
                       IN S(v.c, [n \in (DOMAIN v.a) \cup dflt |-> IF n \in DOMAIN v.a THEN Fill(fam, v.a[n]) ELSE PRec(fam, v.c, n).d], v.w)
    [] v.k = "list" -> VList([j \in 1..Len(v.l) |-> Fill(fam, v.l[j])])
    [] v.k = "dict" -> VDict([n \in DOMAIN v.d |-> Fill(fam, v.d[n])])
    [] OTHER        -> v

\* AcceptSpec: the predicate of the property on an explicit spec, at every level
RECURSIVE AcceptVal(_, _, _, _)
AcceptSpec(fam, dev, tc, v) ==
  /\ IsSpec(v)
  /\ Designates(fam, tc, v.c)                                                   \* a subclass of the declared class (or a callable returning one)
  /\ DOMAIN v.a \subseteq PNames(fam, v.c)                                      \* init_args are parameters of that very class
  /\ \A n \in DOMAIN v.a : AcceptVal(fam, dev, PRec(fam, v.c, n).t, v.a[n])     \* each value is accepted by its parameter's type
  /\ \A i \in 1..Len(CParams(fam, v.c)) : CParams(fam, v.c)[i].req => (CParams(fam, v.c)[i].n \in DOMAIN v.a /\ v.a[CParams(fam, v.c)[i].n] # VNull)   \* required present
  /\ (DOMAIN v.w # {} => (dev.nokw \/ HasKw(fam, v.c)))                         \* New(c, a + w) is well formed (deviation "nokw": not checked)
  /\ (dev.stale \/ (DOMAIN v.w) \cap PNames(fam, v.c) = {})                   \* no keyword twice (a stale dict_kwargs entry may shadow a parameter)
AcceptVal(fam, dev, t, v) ==
  CASE t.k = "int"   -> v.k = "int"
    [] t.k = "str"   -> v.k \in {"str", "dstr"}
    [] t.k = "cls"   -> AcceptSpec(fam, dev, t.c, v)
    [] t.k = "opt"   -> v.k = "null" \/ AcceptSpec(fam, dev, t.c, v)
    [] t.k = "union" -> AcceptSpec(fam, dev, t.c, v) \/ AcceptSpec(fam, dev, t.c2, v)
    [] t.k = "list"  -> v.k = "list" /\ \A j \in 1..Len(v.l) : AcceptSpec(fam, dev, t.c, v.l[j])
    [] t.k = "dict"  -> v.k = "dict" /\ \A n \in DOMAIN v.d : AcceptSpec(fam, dev, t.c, v.d[n])
    [] t.k = "optlist" -> v.k = "null" \/ (v.k = "list" /\ \A j \in 1..Len(v.l) : AcceptSpec(fam, dev, t.c, v.l[j]))
    [] t.k = "optdict" -> v.k = "null" \/ (v.k = "dict" /\ \A n \in DOMAIN v.d : AcceptSpec(fam, dev, t.c, v.d[n]))
    [] t.k = "listopt" -> v.k = "list" /\ \A j \in 1..Len(v.l) : (v.l[j].k = "null" \/ AcceptSpec(fam, dev, t.c, v.l[j]))
    [] OTHER -> FALSE

\* the outcome of parsing: [ok, v]   (v = the normal form when accepted)
Parsed(ok, v) == [ok |-> ok, v |-> v]
\* part of the deviation "stale": a stale dict_kwargs entry that names a parameter of the new class ends up as that init_arg
RECURSIVE Settle(_, _)
Settle(fam, v) ==
  CASE v.k = "spec" -> LET moved == (DOMAIN v.w) \cap PNames(fam, v.c)
                           a1 == [n \in DOMAIN v.a |-> Settle(fam, v.a[n])]
                       IN S(v.c, Overlay(a1, Restr(v.w, moved)), Restr(v.w, (DOMAIN v.w) \ moved))
    [] v.k = "list" -> VList([j \in 1..Len(v.l) |-> Settle(fam, v.l[j])])
    [] v.k = "dict" -> VDict([n \in DOMAIN v.d |-> Settle(fam, v.d[n])])
    [] OTHER        -> v
\* The default of the argument is the spec the sources update.  Whether the signature defaults of the default's class
\* count as configured init_args (filled = TRUE: they survive a compatible class change) is not pinned by the
\* documentation: the property allows both readings (RefOfF below is compared with both).
RefStart(fam, dev, tc, dflt, filled) ==
  IF dflt = NoVal THEN NoVal
  ELSE LET d0 == RefApplyCls(fam, dev, tc, NoVal, dflt) IN IF d0 = Rej \/ ~filled THEN d0 ELSE Fill(fam, d0)
RefParseD(fam, dev, tc, items, dflt, filled) ==
  LET r0 == RefFold(fam, dev, tc, items, 1, RefStart(fam, dev, tc, dflt, filled))
      r1 == IF dev.stale /\ r0 # Rej THEN Settle(fam, r0) ELSE r0
      r == IF r1 = Rej \/ ~IsSpec(r1) THEN Rej ELSE RefApplyCls(fam, dev, tc, NoVal, AsInput(r1))     \* the explicit form, read as a whole (values kept across a class change are read by their new class)
  IN IF r = Rej \/ ~IsSpec(r) THEN Parsed(FALSE, Rej)
     ELSE IF AcceptSpec(fam, dev, tc, Fill(fam, r)) THEN Parsed(TRUE, Fill(fam, r)) ELSE Parsed(FALSE, Rej)
RefParse(fam, dev, tc, items) == RefParseD(fam, dev, tc, items, NoVal, FALSE)

\* ---- instantiation: the constructor log must rebuild exactly the normal form.
\* log = sequence of [c, kw]: c the class (factory) called, kw: name -> value as received, objects as [k |-> "obj", i |-> index of the log entry that built it]
RECURSIVE Flat(_)
Flat(v) ==       \* what the constructors must have seen: kwargs = init_args + dict_kwargs, nested specs as objects (here: as trees)
  CASE v.k = "spec" -> [k |-> "new", c |-> v.c, kw |-> Overlay([n \in DOMAIN v.a |-> Flat(v.a[n])], v.w)]
    [] v.k = "list" -> VList([j \in 1..Len(v.l) |-> Flat(v.l[j])])
    [] v.k = "dict" -> VDict([n \in DOMAIN v.d |-> Flat(v.d[n])])
    [] OTHER        -> v
RECURSIVE Rebuild(_, _), RebuildVal(_, _), ObjRefs(_)
RebuildVal(log, v) ==
  CASE v.k = "obj"  -> Rebuild(log, v.i)
    [] v.k = "list" -> VList([j \in 1..Len(v.l) |-> RebuildVal(log, v.l[j])])
    [] v.k = "dict" -> VDict([n \in DOMAIN v.d |-> RebuildVal(log, v.d[n])])
    [] OTHER        -> v
Rebuild(log, i) == [k |-> "new", c |-> log[i].c, kw |-> [n \in DOMAIN log[i].kw |-> RebuildVal(log, log[i].kw[n])]]
ObjRefs(v) ==     \* sequence of the object indices mentioned in a received value
  CASE v.k = "obj"  -> <<v.i>>
    [] v.k = "list" -> IF v.l = << >> THEN << >> ELSE ObjRefs(v.l[1]) \o ObjRefs(VList(Tail(v.l)))
    [] v.k = "dict" -> IF DOMAIN v.d = {} THEN << >> ELSE LET n == CHOOSE n \in DOMAIN v.d : TRUE IN ObjRefs(v.d[n]) \o ObjRefs(VDict(Restr(v.d, (DOMAIN v.d) \ {n})))
    [] OTHER        -> << >>
RECURSIVE KwRefs(_, _)
KwRefs(kw, names) == IF names = {} THEN << >> ELSE LET n == CHOOSE n \in names : TRUE IN ObjRefs(kw[n]) \o KwRefs(kw, names \ {n})
AllRefs(log) == LET per == [i \in 1..Len(log) |-> KwRefs(log[i].kw, DOMAIN log[i].kw)] IN
                FoldLeft(LAMBDA acc, s : acc \o s, << >>, per)
BuiltFirst(log) == \A i \in 1..Len(log) : \A j \in SeqToSet(KwRefs(log[i].kw, DOMAIN log[i].kw)) : j < i      \* nested arguments are built before their owner
LogOK(fam, normal, log, root, rtype) ==
  /\ Len(log) >= 1 /\ root \in 1..Len(log)
  /\ BuiltFirst(log)
  /\ LET refs == AllRefs(log) IN /\ Len(refs) = Len(log) - 1                                         \* one New per spec: every object is used exactly once,
                                 /\ SeqToSet(refs) = (1..Len(log)) \ {root}                          \*   the root is the only one not passed on
  /\ Rebuild(log, root) = Flat(normal)                                                              \* exact class, kwargs = init_args + dict_kwargs, at every level
  /\ IF IsClass(fam, normal.c) THEN rtype = normal.c ELSE IsClass(fam, rtype) /\ IsSub(fam, rtype, fam.fn[normal.c].ret)   \* an instance of exactly the named class

(***************************************************************************)
(* Alg layer                                                               *)
(***************************************************************************)
\* subclass_spec_as_namespace, _typehints.py:1176-1205.  Result: [cp, ia, dk, hasdk] or Rej;
\* ia is a dict value, a Nested value (a NestedArg that goes further down) or NoVal.
Raw(cp, ia, dk) == [cp |-> cp, ia |-> ia, dk |-> dk]
AlgAsNamespace(v, prev) ==
  LET prevcp == IF IsSpec(prev) THEN VRef(Mod, prev.c) ELSE NoVal IN
  CASE v.k \in {"ref", "str"} -> Raw(v, NoVal, NoVal)                                                   \* :1179-1180
    [] v.k = "nested" ->                                                                               \* :1181-1195
         IF Len(v.p) = 1
         THEN (IF v.p[1] = "init_args" THEN (IF prevcp = NoVal THEN Rej ELSE Raw(prevcp, v.v, NoVal))   \* root_key = key
               ELSE IF v.p[1] = "dict_kwargs" THEN (IF prevcp = NoVal THEN Rej ELSE Raw(prevcp, NoVal, v.v))
               ELSE IF prevcp = NoVal THEN Rej ELSE Raw(prevcp, VDict([x \in {v.p[1]} |-> v.v]), NoVal))   \* :1204 the namespace becomes init_args
         ELSE IF v.p[1] = "dict_kwargs" THEN (IF prevcp = NoVal THEN Rej ELSE Raw(prevcp, NoVal, VDict([x \in {v.p[2]} |-> v.v])))   \* :1186-1189
         ELSE IF prevcp = NoVal THEN Rej ELSE Raw(prevcp, v, NoVal)                                    \* :1191-1192 init_args = NestedArg
    [] v.k = "dict" ->                                                                                 \* :1196-1205
         LET d == v.d
             ia == IF "init_args" \in DOMAIN d THEN d["init_args"] ELSE NoVal
             dk == IF "dict_kwargs" \in DOMAIN d THEN d["dict_kwargs"] ELSE NoVal
         IN IF "class_path" \in DOMAIN d
            THEN (IF (DOMAIN d) \subseteq {"class_path", "init_args", "dict_kwargs"} THEN Raw(d["class_path"], ia, dk) ELSE Rej)
            ELSE IF prevcp = NoVal THEN Rej                                                            \* :1066 not a subclass spec
            ELSE IF "init_args" \in DOMAIN d \/ "dict_kwargs" \in DOMAIN d
                 THEN (IF (DOMAIN d) \subseteq {"init_args", "dict_kwargs"} THEN Raw(prevcp, ia, dk) ELSE Rej)   \* :1201-1202
                 ELSE Raw(prevcp, v, NoVal)                                                            \* :1204
    [] OTHER -> Rej                                                                                    \* :1177-1178 None

EmptyPrev == [k |-> "emptyprev"]       \* a previous value that is not None and not a spec (an empty dict, a whole list)
\* :893-900 the previous value of element j of a list.  Recorded deviation "listlen": when the previous list has ANOTHER length the
\* else-branch (:899-900) leaves prev_val = the WHOLE previous list (not None), so the implicit class_path (:1062) is not applied
ListPrev(prev, n, j) == IF prev.k = "list" THEN (IF Len(prev.l) = n THEN prev.l[j] ELSE EmptyPrev) ELSE NoVal
\* Recorded deviation "nonetext": the value of a dotted option is loaded by parse_value_or_config (_util.py:132-151, also inside
\* a NestedArg) and, when the key goes further down, written back with str() into the argv of the class parser
\* (f"--{key}={val}", :1050 / :1425): the loaded null arrives one level down as the TEXT "None"
RECURSIVE PyText(_)
PyText(v) == CASE v.k = "null" -> VStr("None")
               [] v.k = "list" -> VList([j \in 1..Len(v.l) |-> PyText(v.l[j])])
               [] v.k = "dict" -> VDict([n \in DOMAIN v.d |-> PyText(v.d[n])])
               [] OTHER        -> v
RECURSIVE AlgAdaptCls(_, _, _, _, _), AlgAdaptT(_, _, _, _), AlgClassType(_, _, _, _, _, _), AlgDiscard(_, _, _), AlgParseObject(_, _, _, _)
\* discard_init_args_on_class_path_change, :1347-1369: on a class change keep only the previous init_args that the
\* new class's parser has an action for and whose value checks (each one on its own, against an empty config)
AlgDiscard(fam, prev, c) ==
  IF IsSpec(prev) /\ DOMAIN prev.a # {} /\ prev.c # c
  THEN S(prev.c, Restr(prev.a, {n \in DOMAIN prev.a : n \in PNames(fam, c) /\ AlgAdaptT(fam, PRec(fam, c, n).t, AsInput(prev.a[n]), NoVal) # Rej}), prev.w)
  ELSE prev
\* parser.parse_object(init_args, cfg_base=prev_init_args), :1440: every key must be an argument of the class parser,
\* every value is checked by its action with the previous value of that key; the result is merged over the base
AlgParseObject(fam, c, ia, base0) ==
  LET base == [n \in DOMAIN base0 |-> IF n \in PNames(fam, c) THEN AlgAdaptT(fam, PRec(fam, c, n).t, AsInput(base0[n]), NoVal) ELSE Rej]   \* parse_object:501-504 the base goes through _apply_actions first
      newa == [n \in DOMAIN ia |-> IF n \in PNames(fam, c) THEN AlgAdaptT(fam, PRec(fam, c, n).t, ia[n], IF n \in DOMAIN base THEN base[n] ELSE NoVal) ELSE Rej]   \* :505
  IN IF (\E n \in DOMAIN base : base[n] = Rej) \/ (\E n \in DOMAIN newa : newa[n] = Rej) THEN Rej ELSE Overlay(base, newa)                       \* :506
\* adapt_class_type (not instantiating, not serialising), :1372-1452, followed by the leaf-wise Namespace.update
\* of ActionTypeHint.__call__:551 / merge_config:1395 over the previous value (merge = TRUE).  The elements of a list / dict
\* value are not namespaces of the config: the new element replaces the old one (merge = FALSE)
AlgClassType(fam, c, ia, dk, prev, merge) ==
  LET p2 == AlgDiscard(fam, prev, c)                                                                  \* :1397
      basea == IF IsSpec(p2) THEN p2.a ELSE EF                                                         \* :1419 prev_init_args
      basew == IF IsSpec(p2) THEN p2.w ELSE EF
  IN IF ia.k = "nested"                                                                                \* :1421-1427 parser.parse_args([--key=val], namespace=prev_init_args)
     THEN LET n == ia.p[1]
              rest == StripInit(Tail(ia.p))                                                            \* ActionTypeHint.__call__:535-540
              val == IF n \in PNames(fam, c)
                     THEN AlgAdaptT(fam, PRec(fam, c, n).t, IF Tail(ia.p) = << >> THEN ia.v ELSE Nested(rest, PyText(ia.v)), IF n \in DOMAIN basea THEN basea[n] ELSE NoVal)
                     ELSE Rej                                                                          \* unrecognized argument
          IN IF val = Rej THEN Rej ELSE S(c, Overlay(basea, [x \in {n} |-> val]), basew)
     ELSE IF (ia # NoVal /\ ia.k # "dict") \/ (dk # NoVal /\ dk.k # "dict") THEN Rej
     ELSE LET iad == IF ia = NoVal THEN EF ELSE ia.d
              dkd == IF dk = NoVal THEN EF ELSE dk.d
              moved == {n \in DOMAIN dkd : n \in PNames(fam, c)}                                       \* :1433-1436
              a == AlgParseObject(fam, c, Overlay(iad, Restr(dkd, moved)), basea)                   \* :1440
              rest == [n \in (DOMAIN dkd) \ moved |-> DkVal(dkd[n])]
              w == IF DOMAIN rest = {} THEN (IF merge THEN basew ELSE EF)                              \* no dict_kwargs key: update() leaves the old one
                   ELSE IF IsSpec(prev) /\ prev.c = c THEN Overlay(basew, rest) ELSE rest              \* :1443-1451
          IN IF a = Rej THEN Rej ELSE S(c, a, w)
\* the subclass branch of adapt_typehints, :1052-1099
AlgAdaptCls(fam, tc, v, prev, merge) ==
  LET prev1 == IF ~IsSpec(prev) /\ prev # EmptyPrev /\ ~Abstract(fam, tc) THEN S(tc, EF, EF) ELSE prev   \* :1062-1064 implicit class_path (only when prev_val is None)
      raw == AlgAsNamespace(v, prev1)                                                                  \* :1065
  IN IF raw = Rej THEN Rej                                                                             \* :1066-1074
     ELSE LET c == Resolve(fam, tc, raw.cp)                                                            \* :1077
          IN IF c = "" \/ ~IsSub(fam, Built(fam, c), tc) THEN Rej                                      \* :1083-1093, import errors :1096-1099
             ELSE AlgClassType(fam, c, raw.ia, raw.dk, prev1, merge)                                        \* :1094-1095
AlgAdaptT(fam, t, v0, prev) ==
  LET v == IF t.k \in {"cls", "opt", "union"} THEN Unfile(v0) ELSE v0 IN      \* _check_type:561-563: the parameter's action reads the file; _signatures.py:410-412 enable_path only for subclass types
  CASE t.k = "int"   -> LeafInt(v)                                                                     \* :780-787 (text is loaded first)
    [] t.k = "str"   -> LeafStr(v)                                                                     \* _check_type:587-591 a str keeps the original text
    [] t.k = "cls"   -> AlgAdaptCls(fam, t.c, v, prev, TRUE)
    [] t.k = "opt"   -> IF v.k = "null" THEN VNull ELSE AlgAdaptCls(fam, t.c, v, prev, TRUE)                \* Union[NoneType first, C] :833-847
    [] t.k = "union" -> LET r1 == AlgAdaptCls(fam, t.c, v, prev, TRUE) IN IF r1 # Rej THEN r1 ELSE AlgAdaptCls(fam, t.c2, v, prev, TRUE)   \* first member that accepts
    [] t.k = "list"  -> IF v.k # "list" THEN Rej                                                       \* :866-899 (prev element-wise when the lengths agree)
                        ELSE LET rs == [j \in 1..Len(v.l) |-> AlgAdaptCls(fam, t.c, v.l[j], ListPrev(prev, Len(v.l), j), FALSE)]
                             IN IF \E j \in 1..Len(rs) : rs[j] = Rej THEN Rej ELSE VList(rs)
    [] t.k = "dict"  -> IF v.k # "dict" THEN Rej                                                       \* :902-934 (prev by key)
                        ELSE LET rs == [n \in DOMAIN v.d |-> AlgAdaptCls(fam, t.c, v.d[n],
                                              IF prev.k = "dict" /\ DOMAIN prev.d = {} THEN EmptyPrev       \* deviation "emptydict": `if kwargs.get("prev_val"):` (:929) is false for {}, the element gets the EMPTY DICT as its previous value
                                              ELSE IF prev.k = "dict" /\ n \in DOMAIN prev.d THEN prev.d[n] ELSE NoVal, FALSE)]
                             IN IF \E n \in DOMAIN rs : rs[n] = Rej THEN Rej ELSE VDict(rs)
    \* round 4.  Optional[List[C]] = Union[List[C], NoneType]: sort_subtypes_for_union:1480-1492 tries NoneType first, then the
    \* container branch with the same prev_val (:833-847); List[Optional[C]]: every element goes through the Union branch with
    \* the element-wise previous value (a previous null element is "no previous value")
    [] t.k = "optlist" -> IF v.k = "null" THEN VNull ELSE AlgAdaptT(fam, [t EXCEPT !.k = "list"], v, prev)
    [] t.k = "optdict" -> IF v.k = "null" THEN VNull ELSE AlgAdaptT(fam, [t EXCEPT !.k = "dict"], v, prev)
    [] t.k = "listopt" -> IF v.k # "list" THEN Rej
                          ELSE LET rs == [j \in 1..Len(v.l) |-> IF v.l[j].k = "null" THEN VNull
                                                                ELSE AlgAdaptCls(fam, t.c, v.l[j], ListPrev(prev, Len(v.l), j), FALSE)]
                               IN IF \E j \in 1..Len(rs) : rs[j] = Rej THEN Rej ELSE VList(rs)
    [] OTHER -> Rej

\* check_required through the class parsers (validate:1097-1109 via _check_value_key), all levels
RECURSIVE AlgRequiredOK(_, _)
AlgRequiredOK(fam, v) ==
  CASE v.k = "spec" -> /\ \A i \in 1..Len(CParams(fam, v.c)) : CParams(fam, v.c)[i].req => (CParams(fam, v.c)[i].n \in DOMAIN v.a /\ v.a[CParams(fam, v.c)[i].n] # VNull)
                       /\ \A n \in DOMAIN v.a : AlgRequiredOK(fam, v.a[n])
    [] v.k = "list" -> \A j \in 1..Len(v.l) : AlgRequiredOK(fam, v.l[j])
    [] v.k = "dict" -> \A n \in DOMAIN v.d : AlgRequiredOK(fam, v.d[n])
    [] OTHER        -> TRUE

\* instantiate_classes: adapt_class_type(instantiate_classes=True), :1402-1417 -- the class parser instantiates its own
\* components in the order of the signature, then the class is called with {**init_args, **dict_kwargs}
RECURSIVE AlgInst(_, _, _), AlgInstParams(_, _, _, _, _)
\* returns [log, v]: the log so far and the value the owner receives
AlgInst(fam, v, log) ==
  CASE v.k = "spec" -> LET r == AlgInstParams(fam, v, 1, log, EF)
                           l2 == Append(r.log, [c |-> v.c, kw |-> Overlay(r.kw, v.w)])
                       IN [log |-> l2, v |-> [k |-> "obj", i |-> Len(l2)]]
    [] v.k = "list" -> IF v.l = << >> THEN [log |-> log, v |-> VList(<< >>)]
                       ELSE LET h == AlgInst(fam, v.l[1], log)
                                t == AlgInst(fam, VList(Tail(v.l)), h.log)
                            IN [log |-> t.log, v |-> VList(<<h.v>> \o t.v.l)]
    [] v.k = "dict" -> IF DOMAIN v.d = {} THEN [log |-> log, v |-> VDict(EF)]
                       ELSE LET n == CHOOSE n \in DOMAIN v.d : TRUE
                                h == AlgInst(fam, v.d[n], log)
                                t == AlgInst(fam, VDict(Restr(v.d, (DOMAIN v.d) \ {n})), h.log)
                            IN [log |-> t.log, v |-> VDict(Overlay(t.v.d, [x \in {n} |-> h.v]))]
    [] OTHER        -> [log |-> log, v |-> v]
AlgInstParams(fam, v, i, log, kw) ==
  LET ps == CParams(fam, v.c) IN
  IF i > Len(ps) THEN [log |-> log, kw |-> kw]
  ELSE IF ps[i].n \notin DOMAIN v.a THEN AlgInstParams(fam, v, i + 1, log, kw)
  ELSE LET r == AlgInst(fam, v.a[ps[i].n], log) IN AlgInstParams(fam, v, i + 1, r.log, Overlay(kw, [x \in {ps[i].n} |-> r.v]))

\* add_sub_defaults (_typehints.py:463-473 -> _apply_actions with an empty previous config): the value is adapted once more,
\* from scratch, with defaults=True
AlgSubDefaults(fam, tc, v) == IF ~IsSpec(v) THEN v
                              ELSE LET r == AlgAdaptCls(fam, tc, AsInput(v), NoVal, TRUE) IN IF r = Rej THEN Rej ELSE Fill(fam, r)
\* merge_config (_core.py:1381-1397): init_args of `to` that the class of `from` does not accept are discarded (the static
\* discard_init_args_on_class_path_change, _typehints.py:413-436), then Namespace.update merges leaf by leaf
RECURSIVE AlgMergeOver(_, _, _)
AlgMergeOver(fam, to, from) ==
  IF ~IsSpec(to) \/ ~IsSpec(from) THEN from
  ELSE LET p2 == AlgDiscard(fam, to, from.c)
           both == (DOMAIN p2.a) \cap (DOMAIN from.a)
       IN S(from.c, [n \in (DOMAIN p2.a) \cup (DOMAIN from.a) |->
                       IF n \in both THEN AlgMergeOver(fam, p2.a[n], from.a[n]) ELSE IF n \in DOMAIN from.a THEN from.a[n] ELSE p2.a[n]],
            IF DOMAIN from.w # {} THEN from.w ELSE p2.w)
\* ActionTypeHint.normalize_default:256-279 (dict with class_path / lazy instance -> namespace, class_path normalised)
AlgDefault0(fam, tc, dflt) == IF dflt = NoVal THEN NoVal ELSE AlgAdaptCls(fam, tc, dflt, NoVal, TRUE)
\* _check_type:568-570: a source that is checked while the accumulated config is still empty (default config file,
\* first environment variable, parse_string) only knows the CLASS of the default
PrevClassOnly(d) == IF IsSpec(d) THEN S(d.c, EF, EF) ELSE NoVal
\* the first source through a channel other than the command line
\* Recorded deviation "envreq": _load_env_vars (_core.py:523-551) checks the variable on its own and NOT leniently, so the
\* required init_args must all be in the variable itself -- those supplied by the default do not count.
EnvOnItsOwn(fam, tc, d0, v) == LET r == AlgAdaptCls(fam, tc, v, PrevClassOnly(d0), TRUE) IN r # Rej /\ ~AlgRequiredOK(fam, r)
AlgChannel(fam, tc, chan, d0, v) ==
  LET r == AlgAdaptCls(fam, tc, v, PrevClassOnly(d0), TRUE) IN
  IF r = Rej THEN Rej
  ELSE IF chan = "env" /\ ~AlgRequiredOK(fam, r) THEN Rej                                    \* deviation "envreq"
  ELSE IF chan = "dcf" THEN AlgSubDefaults(fam, tc, AlgMergeOver(fam, d0, r))                 \* get_defaults:1019-1047, sub-defaults at its end
  ELSE AlgMergeOver(fam, AlgSubDefaults(fam, tc, d0), r)                                     \* _parse_defaults_and_environ:406 / parse_string over get_defaults()

\* the whole parse as a function of the sources (the machine below does the same one source per step)
RECURSIVE AlgFold(_, _, _, _, _)
AlgFold(fam, tc, items, j, c) ==
  IF j > Len(items) \/ c = Rej THEN c
  ELSE AlgFold(fam, tc, items, j + 1, AlgAdaptCls(fam, tc, ItemValue(items[j]), c, TRUE))
AlgParseD(fam, tc, items, dflt, chan) ==
  LET d0 == AlgDefault0(fam, tc, dflt)
      start == IF chan = "argv" \/ items = << >> THEN (IF d0 = Rej THEN Rej ELSE AlgSubDefaults(fam, tc, d0))
               ELSE IF d0 = Rej THEN Rej ELSE AlgChannel(fam, tc, chan, d0, ItemValue(items[1]))
      r0 == AlgFold(fam, tc, items, IF chan = "argv" \/ items = << >> THEN 1 ELSE 2, start)
      r == IF r0 = Rej THEN Rej ELSE AlgSubDefaults(fam, tc, r0)
  IN IF r = Rej \/ ~IsSpec(r) THEN Parsed(FALSE, Rej)
     ELSE IF AlgRequiredOK(fam, r) THEN Parsed(TRUE, r) ELSE Parsed(FALSE, Rej)
AlgParse(fam, tc, items) == AlgParseD(fam, tc, items, NoVal, "argv")
\* the explicit form of what the sources denote (the property's reading, before defaults), as one source
ExplicitItems(fam, tc, items) ==
  LET r == RefFold(fam, CodeDev, tc, items, 1, NoVal) IN
  IF r = Rej \/ ~IsSpec(r) THEN << >> ELSE <<[k |-> "whole", v |-> AsInput(r)]>>

(***************************************************************************)
(* The Alg machine: one step per source, then sub-defaults, required       *)
(* check, instantiation.                                                   *)
(***************************************************************************)
\* where the family of a case is found (the root modules override this so that the states stay small)
FamOf(c) == c.fam
VARIABLES cs,     \* the case
          pc,     \* "source" | "defaults" | "required" | "instantiate" | "done"
          i,      \* next source
          cur,    \* cfg.x : NoVal | normal form so far
          ok,     \* "run" | "accept" | "reject"
          log     \* constructor log
vars == <<cs, pc, i, cur, ok, log>>
\* get_defaults(): the (sub-default filled) default is what the command line starts from; a default config file is merged
\* into the unfilled default
InitCase(c) == /\ cs = c /\ pc = "source" /\ i = 1 /\ ok = "run" /\ log = << >>
               /\ cur = LET d0 == AlgDefault0(FamOf(c), c.T, c.dflt) IN
                         IF d0 = Rej \/ d0 = NoVal THEN NoVal
                         ELSE IF c.chan = "argv" \/ c.items = << >> THEN AlgSubDefaults(FamOf(c), c.T, d0) ELSE d0

\* ActionTypeHint.__call__:521-552 (argv) / ActionConfigFile.apply_config -> _apply_actions (config): check the value with
\* the previous one, merge
ASource == /\ pc = "source" /\ i <= Len(cs.items)
           /\ LET r == IF i = 1 /\ cs.chan # "argv"
                       THEN AlgChannel(FamOf(cs), cs.T, cs.chan, AlgDefault0(FamOf(cs), cs.T, cs.dflt), ItemValue(cs.items[1]))
                       ELSE AlgAdaptCls(FamOf(cs), cs.T, ItemValue(cs.items[i]), cur, TRUE) IN
                IF r = Rej THEN /\ ok' = "reject" /\ pc' = "done" /\ UNCHANGED <<cs, i, cur, log>>
                ELSE /\ cur' = r /\ i' = i + 1 /\ UNCHANGED <<cs, pc, ok, log>>
AEndSources == /\ pc = "source" /\ i > Len(cs.items)
               /\ pc' = "defaults" /\ UNCHANGED <<cs, i, cur, ok, log>>
\* _parse_common:371-373 add_sub_defaults
ADefaults == /\ pc = "defaults"
             /\ LET r == AlgSubDefaults(FamOf(cs), cs.T, cur) IN
                  IF r = Rej THEN /\ ok' = "reject" /\ pc' = "done" /\ UNCHANGED <<cs, i, cur, log>>
                  ELSE /\ cur' = r /\ pc' = "required" /\ UNCHANGED <<cs, i, ok, log>>
\* _parse_common:383-384 validate
ARequired == /\ pc = "required"
             /\ IF IsSpec(cur) /\ AlgRequiredOK(FamOf(cs), cur) THEN /\ ok' = "accept" /\ pc' = "instantiate" /\ UNCHANGED <<cs, i, cur, log>>
                ELSE /\ ok' = "reject" /\ pc' = "done" /\ UNCHANGED <<cs, i, cur, log>>
\* ArgumentParser.instantiate_classes:1200-1256
AInstantiate == /\ pc = "instantiate"
                /\ log' = AlgInst(FamOf(cs), cur, << >>).log /\ pc' = "done" /\ UNCHANGED <<cs, i, cur, ok>>
Next == ASource \/ AEndSources \/ ADefaults \/ ARequired \/ AInstantiate

Done == pc = "done"
AlgParsed == IF ok = "accept" THEN Parsed(TRUE, cur) ELSE Parsed(FALSE, Rej)

(***************************************************************************)
(* Invariants                                                              *)
(***************************************************************************)
RefOfF(dev, filled) == RefParseD(FamOf(cs), dev, cs.T, cs.items, cs.dflt, filled)
RefOf(dev) == RefOfF(dev, cs.chan # "dcf")          \* the reading the code follows: only a default config file meets the unfilled default
\* does a source mention dict_kwargs (as a dotted segment or as a key of a dict, at any depth)?
RECURSIVE MentionsDK(_)
MentionsDK(v) == CASE v.k = "file" -> MentionsDK(v.v) [] v.k = "dict" -> "dict_kwargs" \in DOMAIN v.d \/ \E n \in DOMAIN v.d : MentionsDK(v.d[n])
                   [] v.k = "list" -> \E j \in 1..Len(v.l) : MentionsDK(v.l[j])
                   [] OTHER        -> FALSE
InvolvesDictKwargs == MentionsDK(cs.dflt) \/ \E j \in 1..Len(cs.items) : MentionsDK(cs.items[j].v) \/ (cs.items[j].k = "dot" /\ "dict_kwargs" \in SeqToSet(cs.items[j].p))
EnvReqDeviation == cs.chan = "env" /\ cs.items # << >>
                   /\ EnvOnItsOwn(FamOf(cs), cs.T, AlgDefault0(FamOf(cs), cs.T, cs.dflt), ItemValue(cs.items[1]))
                   /\ RefOf(CodeDev).ok                                    \* the property accepts, the code rejects
\* Recorded deviation "emptydict": when the previous value of a Dict[str, C] parameter is the EMPTY dict, a key given in a short
\* form (no class_path) is rejected, although with no previous value at all it denotes the declared class.
RECURSIVE MentionsEmptyDict(_)
MentionsEmptyDict(v) == CASE v.k = "file" -> MentionsEmptyDict(v.v) [] v.k = "dict" -> DOMAIN v.d = {} \/ \E n \in DOMAIN v.d : MentionsEmptyDict(v.d[n])
                          [] v.k = "list" -> \E j \in 1..Len(v.l) : MentionsEmptyDict(v.l[j])
                          [] OTHER        -> FALSE
EmptyDictDeviation == /\ \E j \in 1..Len(cs.items) : MentionsEmptyDict(cs.items[j].v)
                      /\ RefOf(CodeDev).ok /\ ~AlgParseD(FamOf(cs), cs.T, cs.items, cs.dflt, cs.chan).ok
\* Recorded deviation "listlen" (round 4): an element of a list given in a short form (no class_path) is rejected when the previous
\* value of the list has another length, although with no previous list (or one of the same length) it denotes the declared /
\* the previous element's class.
RECURSIVE MentionsShortInList(_)
MentionsShortInList(v) == CASE v.k = "file" -> MentionsShortInList(v.v) [] v.k = "list" -> \E j \in 1..Len(v.l) : (v.l[j].k = "dict" /\ "class_path" \notin DOMAIN v.l[j].d) \/ MentionsShortInList(v.l[j])
                            [] v.k = "dict" -> \E n \in DOMAIN v.d : MentionsShortInList(v.d[n])
                            [] OTHER        -> FALSE
ListLenDeviation == /\ \E j \in 1..Len(cs.items) : MentionsShortInList(cs.items[j].v)
                    /\ RefOf(CodeDev).ok /\ ~AlgParseD(FamOf(cs), cs.T, cs.items, cs.dflt, cs.chan).ok
\* Recorded deviation "nonetext" (round 4): a dotted option that goes two or more levels down and whose value is / contains null
\* is rejected (the null arrives as the text "None"), although the same value one level down, or in a dict, is accepted.
RECURSIVE MentionsNull(_)
MentionsNull(v) == CASE v.k = "null" -> TRUE [] v.k = "file" -> MentionsNull(v.v)
                     [] v.k = "list" -> \E j \in 1..Len(v.l) : MentionsNull(v.l[j])
                     [] v.k = "dict" -> \E n \in DOMAIN v.d : MentionsNull(v.d[n])
                     [] OTHER        -> FALSE
NoneTextDeviation == /\ \E j \in 1..Len(cs.items) : cs.items[j].k = "dot" /\ Len(StripInit(cs.items[j].p)) >= 2 /\ MentionsNull(cs.items[j].v)
                     /\ RefOf(CodeDev).ok /\ ~AlgParseD(FamOf(cs), cs.T, cs.items, cs.dflt, cs.chan).ok
Round4Deviation == ListLenDeviation \/ NoneTextDeviation
\* the code is the reference with the recorded deviations (dict_kwargs: stale, nokw; env: envreq; Dict: emptydict; List: listlen;
\* dotted null: nonetext) -- and nothing else
AlgRefinesRef == Done => IF EnvReqDeviation \/ EmptyDictDeviation \/ Round4Deviation THEN AlgParsed = Parsed(FALSE, Rej) ELSE AlgParsed = RefOf(CodeDev)
\* ... and the deviations are invisible unless dict_kwargs are used
DevOnlyDictKwargs == (Done /\ ~InvolvesDictKwargs) => RefOf(NoDev) = RefOf(CodeDev)
MachineIsFold == Done => AlgParsed = AlgParseD(FamOf(cs), cs.T, cs.items, cs.dflt, cs.chan)
\* what is accepted satisfies the predicate of the property (modulo nokw), and its log rebuilds the normal form
AcceptedIsValid == (Done /\ ok = "accept") => AcceptSpec(FamOf(cs), CodeDev, cs.T, cur)
LogRebuilds == (Done /\ ok = "accept") => LogOK(FamOf(cs), cur, log, Len(log), Built(FamOf(cs), cur.c))
\* Normal(short form) = Normal(explicit form)
ShortEqualsExplicit == (Done /\ cs.dflt = NoVal /\ ~EmptyDictDeviation /\ ~Round4Deviation /\ RefOf(CodeDev).ok /\ RefOf(NoDev) = RefOf(CodeDev)) => AlgParse(FamOf(cs), cs.T, ExplicitItems(FamOf(cs), cs.T, cs.items)) = AlgParsed
=============================================================================
