SPECIFICATION ObjSpec
CONSTANTS
  Tier = "thorough"
  Emit = "all"
  Laws = "c02"
INVARIANT ObjInv
CHECK_DEADLOCK FALSE
