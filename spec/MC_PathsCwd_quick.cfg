SPECIFICATION Spec
CONSTANTS
  CwdVariant = "code"
  StatGuard = FALSE
  CcStopsAtExisting = FALSE
  MaxDepth = 3
  Universe = "chain"
  Emit = TRUE
INVARIANT CTypeOK
INVARIANT InvResolves
INVARIANT InvRestored
INVARIANT InvStack
INVARIANT InvRunAgrees
INVARIANT InvOutcome
INVARIANT EmitBehaviour
CHECK_DEADLOCK FALSE
