------------------------------- MODULE Dump -------------------------------
(***************************************************************************)
(* dump -> re-parse round trip of jsonargparse configurations (C01).       *)
(*                                                                         *)
(* Ref   a configuration the parser accepted, written by dump / save /     *)
(*       --print_config and parsed back by the same parser, is the same    *)
(*       configuration, value for value and type for type (RoundTrip);     *)
(*       skip_default is lossless; skip_none only loses the None entries.  *)
(* Alg   Serialize (adapt_typehints(serialize=True), _typehints.py:731-    *)
(*       1105), WriteDoc (stock dumpers, _loaders_dumpers.py:208-241, with *)
(*       the scalar layer of Scalars.tla), ReadDoc (jsonargparse's yaml    *)
(*       loader, also for JSON text), Adapt / LoadThenAdapt (the           *)
(*       deserialising branches and ActionTypeHint._check_type,            *)
(*       :554-611), DumpCfg (_core.py:754-854: _dump_cleanup_actions,      *)
(*       _dump_delete_default_entries) and ReparseCfg, step by step.       *)
(* Two instances of the pipeline are compared: with the ACTUAL scalar      *)
(* layer (what the code does) and with an IDEAL one (every scalar is read  *)
(* back as written).  IdealRoundTrip says that serialising mirrors         *)
(* deserialising; RoundTripModuloKnown says that the only failures of the  *)
(* actual pipeline are the named deviations (hazard scalars of Scalars.tla,*)
(* and the named cfg-level deviations below).                              *)
(*                                                                         *)
(* VALUES are records [k |-> kind, v |-> payload]:                         *)
(*   scalars  str / int / float / bool / null / enum : v is a text (for    *)
(*            numbers the canonical spelling: str(int), repr(float))       *)
(*   list / tuple / set : v is a sequence of values                        *)
(*   dict     v is a sequence of <<key value, value>> (insertion order)    *)
(*   ns       a Namespace / dataclass value: sequence of <<name text, value>>*)
(*   error / unsure : no value (rejected / not decided by this spec)       *)
(* A TREE is a value made of str/int/float/bool/null/list/dict only (what  *)
(* a loader returns and a dumper takes).                                   *)
(* TYPE terms are [c |-> constructor, p |-> parameters].                   *)
(***************************************************************************)
EXTENDS Scalars

TrueText  == <<"t", "r", "u", "e">>
FalseText == <<"f", "a", "l", "s", "e">>
Str(t)    == V("str", t)
IntV(t)    == V("int", t)
Flt(r)    == V("float", r)
BoolV(b)  == V("bool", IF b THEN TrueText ELSE FalseText)
EnumV(n)  == V("enum", n)
ListV(xs) == [k |-> "list", v |-> xs]
TupleV(xs) == [k |-> "tuple", v |-> xs]
SetV(xs)  == [k |-> "set", v |-> xs]
DictV(ps) == [k |-> "dict", v |-> ps]
NSV(ps)   == [k |-> "ns", v |-> ps]
ErrV(why) == [k |-> "error", v |-> <<why>>]
Unsure    == [k |-> "unsure", v |-> << >>]
IsErr(x)    == x.k = "error"
IsUnsure(x) == x.k = "unsure"
Bad(x)      == x.k \in {"error", "unsure"}
RegV(name, t) == V("reg", <<name>> \o t)   \* a value of a REGISTERED type (jsonargparse/typing.py:385-468), identified by what Python prints for it
RegName(v)    == v.v[1]
RegText(v)    == Tail(v.v)
ScalarKinds == {"str", "int", "float", "bool", "null", "enum", "reg"}
SeqKinds    == {"list", "tuple", "set"}

\* a sequence of results -> one result: unsure dominates, then the first error, else the built value
AnyKind(xs, k) == \E i \in 1..Len(xs) : xs[i].k = k
Lift(xs, built) == IF AnyKind(xs, "unsure") THEN Unsure
                   ELSE IF AnyKind(xs, "error") THEN xs[CHOOSE i \in 1..Len(xs) : xs[i].k = "error" /\ \A j \in 1..(i - 1) : xs[j].k # "error"]
                   ELSE built

T(c, p)  == [c |-> c, p |-> p]
TStr == T("str", << >>)   TInt == T("int", << >>)   TFloat == T("float", << >>)   TBool == T("bool", << >>)   TNone == T("none", << >>)
TEnum(names)   == T("enum", names)          \* a sequence of member names (texts)
TLiteral(vals) == T("literal", vals)        \* a sequence of scalar values
TUnion(ts)     == T("union", ts)
TOpt(t)        == T("union", <<t, TNone>>)  \* typing.Optional[t] == Union[t, None]
TList(t)       == T("list", <<t>>)
TSet(t)        == T("set", <<t>>)
TTuple(ts)     == T("tuple", ts)
TTupleE(t)     == T("tuplee", <<t>>)        \* Tuple[t, ...]
TDict(kt, vt)  == T("dict", <<kt, vt>>)
TDC(fields)    == T("dc", fields)           \* dataclass: a sequence of <<name text, type, default value>>
TReg(name)     == T("reg", <<name>>)        \* a registered type of jsonargparse/typing.py, see RegSer / AdaptReg
TAny           == T("any", << >>)           \* typing.Any
\* round 5: ORDER-SENSITIVE mappings and bare / heterogeneous sets
TODict(kt, vt) == T("odict", <<kt, vt>>)     \* typing.OrderedDict[kt, vt] (collections.OrderedDict): the value is [k |-> "odict", v |-> SEQUENCE of pairs], compared IN ORDER
TSetB          == T("setb", << >>)          \* bare `set`: the members are not adapted
ODictV(ps)     == [k |-> "odict", v |-> ps]
LeafC == {"str", "int", "float", "bool", "none"}

UpperCase == <<"A","B","C","D","E","F","G","H","I","J","K","L","M","N","O","P","Q","R","S","T","U","V","W","X","Y","Z">>
LowerCase == <<"a","b","c","d","e","f","g","h","i","j","k","l","m","n","o","p","q","r","s","t","u","v","w","x","y","z">>
Lc(c) == IF \E i \in 1..26 : UpperCase[i] = c THEN LowerCase[CHOOSE i \in 1..26 : UpperCase[i] = c] ELSE c
LcText(t) == Strict([i \in 1..Len(t) |-> Lc(t[i])])

(***************************************************************************)
(* Python equality on values ( == , `in` ): numbers compare across kinds   *)
(* (1 == 1.0 == True), dicts ignore the order of their items.              *)
(***************************************************************************)
NumKey(x) == CASE x.k = "bool"  -> IF x.v = TrueText THEN <<"1">> ELSE <<"0">>
               [] x.k = "int"   -> IF x.v = <<"-", "0">> THEN <<"0">> ELSE x.v
               [] x.k = "float" -> IF x.v \in {<<"0", ".", "0">>, <<"-", "0", ".", "0">>} THEN <<"0">>                       \* 0.0 == -0.0 == 0
                                   ELSE IF Len(x.v) > 2 /\ SubSeq(x.v, Len(x.v) - 1, Len(x.v)) = <<".", "0">> THEN SubSeq(x.v, 1, Len(x.v) - 2) ELSE <<"f">> \o x.v
               [] OTHER -> <<"?">>
RECURSIVE PyEq(_, _)
PyEq(a, b) ==
  IF a.k \in {"bool", "int", "float"} /\ b.k \in {"bool", "int", "float"}
  THEN NumKey(a) = NumKey(b) /\ a.v # <<"n", "a", "n">> /\ b.v # <<"n", "a", "n">>          \* nan == nan is False
  ELSE IF a.k # b.k THEN FALSE
  ELSE IF a.k \in ScalarKinds THEN a.v = b.v
  ELSE IF a.k \in {"list", "tuple"} THEN Len(a.v) = Len(b.v) /\ \A i \in 1..Len(a.v) : PyEq(a.v[i], b.v[i])
  ELSE IF a.k = "set" THEN Len(a.v) = Len(b.v) /\ \A i \in 1..Len(a.v) : \E j \in 1..Len(b.v) : PyEq(a.v[i], b.v[j])
  ELSE IF a.k = "odict" THEN Len(a.v) = Len(b.v) /\ \A i \in 1..Len(a.v) : PyEq(a.v[i][1], b.v[i][1]) /\ PyEq(a.v[i][2], b.v[i][2])   \* OrderedDict.__eq__ is order-sensitive
  ELSE IF a.k = "dict" THEN /\ Len(a.v) = Len(b.v)
                            /\ \A i \in 1..Len(a.v) : \E j \in 1..Len(b.v) : PyEq(a.v[i][1], b.v[j][1]) /\ PyEq(a.v[i][2], b.v[j][2])
  ELSE IF a.k = "ns" THEN /\ Len(a.v) = Len(b.v)
                          /\ \A i \in 1..Len(a.v) : \E j \in 1..Len(b.v) : a.v[i][1] = b.v[j][1] /\ PyEq(a.v[i][2], b.v[j][2])
  ELSE a = b
\* the equality of the PROPERTY: value for value AND type for type (no 1 == 1.0), sets and mappings unordered
RECURSIVE Same(_, _)
Same(a, b) ==
  IF a.k # b.k THEN FALSE
  ELSE IF a.k \in ScalarKinds \cup {"error", "unsure"} THEN a.v = b.v
  ELSE IF a.k \in {"list", "tuple"} THEN Len(a.v) = Len(b.v) /\ \A i \in 1..Len(a.v) : Same(a.v[i], b.v[i])
  ELSE IF a.k = "set" THEN Len(a.v) = Len(b.v) /\ \A i \in 1..Len(a.v) : \E j \in 1..Len(b.v) : Same(a.v[i], b.v[j])
  ELSE IF a.k = "odict" THEN Len(a.v) = Len(b.v) /\ \A i \in 1..Len(a.v) : Same(a.v[i][1], b.v[i][1]) /\ Same(a.v[i][2], b.v[i][2])   \* a SEQUENCE of pairs: no dump format may reorder the keys
  ELSE IF a.k = "ns" THEN /\ Len(a.v) = Len(b.v)
                          /\ \A i \in 1..Len(a.v) : \E j \in 1..Len(b.v) : a.v[i][1] = b.v[j][1] /\ Same(a.v[i][2], b.v[j][2])
  ELSE /\ Len(a.v) = Len(b.v)
       /\ \A i \in 1..Len(a.v) : \E j \in 1..Len(b.v) : Same(a.v[i][1], b.v[j][1]) /\ Same(a.v[i][2], b.v[j][2])
\* the same up to what this spec does not compute (the float a non-canonical spelling denotes)
RECURSIVE Approx(_, _)
Approx(a, b) ==
  IF a.k # b.k THEN FALSE
  ELSE IF a.k = "float" THEN TRUE
  ELSE IF a.k \in ScalarKinds THEN a.v = b.v
  ELSE IF a.k \in {"error", "unsure"} THEN TRUE
  ELSE IF a.k \in {"list", "tuple"} THEN Len(a.v) = Len(b.v) /\ \A i \in 1..Len(a.v) : Approx(a.v[i], b.v[i])
  ELSE IF a.k = "set" THEN Len(a.v) = Len(b.v) /\ \A i \in 1..Len(a.v) : \E j \in 1..Len(b.v) : Approx(a.v[i], b.v[j])
  ELSE IF a.k = "odict" THEN Len(a.v) = Len(b.v) /\ \A i \in 1..Len(a.v) : Approx(a.v[i][1], b.v[i][1]) /\ Approx(a.v[i][2], b.v[i][2])
  ELSE IF a.k = "ns" THEN /\ Len(a.v) = Len(b.v)
                          /\ \A i \in 1..Len(a.v) : \E j \in 1..Len(b.v) : a.v[i][1] = b.v[j][1] /\ Approx(a.v[i][2], b.v[j][2])
  ELSE /\ Len(a.v) = Len(b.v)
       /\ \A i \in 1..Len(a.v) : \E j \in 1..Len(b.v) : Approx(a.v[i][1], b.v[j][1]) /\ Approx(a.v[i][2], b.v[j][2])

HasKey(d, key)  == \E i \in 1..Len(d.v) : d.v[i][1] = key
GetKey(d, key)  == d.v[CHOOSE i \in 1..Len(d.v) : d.v[i][1] = key][2]
Field(ns, name) == GetKey(ns, name)

(***************************************************************************)
(* Alg: the scalar layer between a tree and the text (and back).           *)
(* A DOC is a tree whose scalars are tokens [k |-> "tok", v |-> <<style>>  *)
(* \o text]: what the text of the dump contains.                           *)
(***************************************************************************)
Tok(style, text) == [k |-> "tok", v |-> <<style>> \o text]
TokStyle(d) == d.v[1]
TokText(d)  == Tail(d.v)
\* yaml.safe_dump(**dump_yaml_kwargs) / json.dumps(**dump_json_kwargs): _loaders_dumpers.py:208-241
WriteScalar(fmt, x) ==
  CASE x.k = "str"   -> IF fmt = "yaml" THEN Tok(YamlWriteStr(x.v), x.v) ELSE Tok("json", x.v)     \* JSON strings are always quoted (json.dumps escapes)
    [] x.k = "int"   -> Tok("plain", x.v)                                                         \* representer.py:164 / str(int)
    [] x.k = "float" -> Tok("plain", IF fmt = "yaml" THEN YamlFloatText(x.v) ELSE JsonFloatText(x.v))
    [] x.k = "bool"  -> Tok("plain", x.v)                                                         \* true / false in both
    [] x.k = "null"  -> Tok("plain", <<"n", "u", "l", "l">>)
    [] OTHER         -> Tok("unrepresentable", << >>)                                             \* an Enum member, a set ...: RepresenterError / TypeError
RECURSIVE WriteDoc(_, _)
WriteDoc(fmt, x) ==
  IF x.k \in {"list", "tuple"} THEN ListV(Strict([i \in 1..Len(x.v) |-> WriteDoc(fmt, x.v[i])]))      \* both dumpers write a tuple as a list
  ELSE IF x.k = "dict" THEN DictV(Strict([i \in 1..Len(x.v) |-> <<WriteScalar(fmt, x.v[i][1]), WriteDoc(fmt, x.v[i][2])>>]))
  ELSE WriteScalar(fmt, x)
\* yaml_load with jsonargparse's loader, also used for JSON text (parser_mode yaml): _loaders_dumpers.py:85-96
ReadScalar(d) ==
  LET style == TokStyle(d)
      text  == TokText(d)
      x     == CASE style = "plain"  -> ReadNumberText(text)
                 [] style = "single" -> Str(ReadSingle(text))
                 [] style = "double" -> Str(text)
                 [] style = "json"   -> ReadJsonString(text)
                 [] OTHER            -> ErrV("unrepresentable")
  IN IF x.k = "error" THEN ErrV("yaml-construct") ELSE x
RECURSIVE ReadDoc(_)
ReadDoc(d) ==
  IF d.k = "list" THEN LET xs == Strict([i \in 1..Len(d.v) |-> ReadDoc(d.v[i])]) IN Lift(xs, ListV(xs))
  ELSE IF d.k = "dict" THEN LET ks == Strict([i \in 1..Len(d.v) |-> IF TokStyle(d.v[i][1]) = "json" /\ ReadJsonKey(TokText(d.v[i][1])).k = "error"
                                                             THEN ErrV("json-key") ELSE ReadScalar(d.v[i][1])])
                                xs == Strict([i \in 1..Len(d.v) |-> ReadDoc(d.v[i][2])])
                            IN \* two keys that were both read as floats may be the SAME float (1e3, 1E3): the mapping then
                               \* keeps one item; which floats are equal is Python's business
                               IF \E i, j \in 1..Len(ks) : i # j /\ ks[i].k = "float" /\ ks[j].k = "float" THEN Unsure
                               ELSE Lift(ks \o xs, DictV(Strict([i \in 1..Len(d.v) |-> <<ks[i], xs[i]>>])))
  ELSE ReadScalar(d)
(***************************************************************************)
(* Round 4: the parser MODE (ArgumentParser(parser_mode=...), _core.py:243, *)
(* :1574-1596).  The text of a dump is read back by loaders[mode]           *)
(* (_loaders_dumpers.py:144-148, :356):                                    *)
(*   "yaml"    yaml_load with the customised loader (ReadDoc above), also   *)
(*             for JSON text;                                              *)
(*   "json"    json.loads (json_load, :100-103): the exact inverse of       *)
(*             json.dumps - strings, keys, Infinity / NaN included; a YAML  *)
(*             text is not JSON;                                           *)
(*   "jsonnet" jsonnet_load (:111-123): _jsonnet.evaluate_snippet RE-EMITS  *)
(*             the document as JSON and the YAML loader reads THAT text;    *)
(*             when the evaluation fails (RuntimeError: a YAML text,        *)
(*             Infinity / NaN) the ORIGINAL text goes to the YAML loader.   *)
(*             The re-emission (libjsonnet, unparse of a value): object     *)
(*             keys sorted; strings escaped when below x20 or in x7f..x9f   *)
(*             (so NEL and DEL travel escaped, LS / PS / UFFFE stay raw);   *)
(*             every NUMBER goes through a double and is printed with %.0f  *)
(*             when integral (3.0 -> 3, -0.0 -> -0, 1e22 -> 1 and 22 zeros, *)
(*             2^53+1 -> 2^53) and with %.17g otherwise (trusted to denote  *)
(*             the same double).                                           *)
(* ParserMode is a definition that the bounded instances OVERRIDE in their  *)
(* cfg (CONSTANT ParserMode <- ModeJson / ModeJsonnet).                     *)
(***************************************************************************)
ParserMode == "yaml"
JInf  == <<"I","n","f","i","n","i","t","y">>
JNInf == <<"-","I","n","f","i","n","i","t","y">>
JNaN  == <<"N","a","N">>
NullText == <<"n","u","l","l">>
\* a NUMBER / constant token of a JSON text as json.loads reads it (parse_constant: Infinity, -Infinity, NaN are floats)
JsonConst(text) ==
  CASE text = NullText  -> NullV
    [] text = TrueText  -> BoolV(TRUE)
    [] text = FalseText -> BoolV(FALSE)
    [] text = JInf      -> Flt(<<"i","n","f">>)
    [] text = JNInf     -> Flt(<<"-","i","n","f">>)
    [] text = JNaN      -> Flt(<<"n","a","n">>)
    [] IntText(text)    -> IntV(text)
    [] OTHER            -> Flt(text)                                            \* json.dumps wrote float.__repr__, float() reads it back
ReadScalarJson(d) ==
  CASE TokStyle(d) = "json"  -> Str(TokText(d))                                 \* json.loads undoes exactly the escapes of json.dumps
    [] TokStyle(d) = "plain" -> JsonConst(TokText(d))
    [] OTHER                 -> ErrV("not-json")
\* repr(float) of an integral value: d+.0 below 1e16, mantissa e+XX from there on (every double >= 2^53 is integral)
IntegralRepr(r) == Len(r) > 2 /\ SubSeq(r, Len(r) - 1, Len(r)) = <<".", "0">> /\ ~Has(r, "e")
BigRepr(r)      == \E n \in 1..(Len(r) - 1) : r[n] = "e" /\ r[n + 1] = "+"
NonFiniteJson(text) == text \in {JInf, JNInf, JNaN}
Digits15(text) == Len(SelectSeq(text, LAMBDA ch : ch # "-")) <= 15                \* below 2^53: the double IS the int
\* a number token after the re-emission by jsonnet, read by the YAML loader
JsonnetConst(text) ==
  CASE text \in {NullText, TrueText, FalseText} -> JsonConst(text)
    [] IntText(text)    -> IF Digits15(text) THEN IntV(text) ELSE Unsure          \* the nearest double, printed with all its digits
    [] text = <<"-","0",".","0">> -> IntV(<<"0">>)                                \* -0 is the int 0
    [] IntegralRepr(text) -> LET n == SubSeq(text, 1, Len(text) - 2) IN IF Digits15(n) THEN IntV(n) ELSE Unsure   \* %.0f
    [] BigRepr(text)    -> Unsure                                               \* an integer of 17+ digits: which one is the double's business
    [] OTHER            -> Flt(text)                                            \* %.17g denotes the same double
HasLSPS(t) == Has(t, "LS") \/ Has(t, "PS")
ReadScalarJsonnet(d) ==
  CASE TokStyle(d) = "plain" -> JsonnetConst(TokText(d))
    [] TokStyle(d) = "json"  ->
         LET t == TokText(d) IN
         IF Has(t, "NPR") THEN Unsure                                           \* x7f..x9f are escaped and survive, UFFFE / UFFFF are not: the class is not split
         ELSE IF ~HasLSPS(t) THEN Str(t)                                        \* NEL travels as \u0085
         ELSE IF Has(t, "NEL") THEN Unsure
         ELSE ReadJsonString(t)                                                 \* raw LS / PS are folded by the YAML scanner as before
    [] OTHER -> ErrV("not-json")
ReadKeyJsonnet(d) ==
  LET t == TokText(d) IN
  IF TokStyle(d) # "json" THEN ErrV("not-json")
  ELSE IF Has(t, "NPR") THEN Unsure
  ELSE IF HasLSPS(t) THEN ErrV("json-key")                                      \* a raw line break inside a simple key
  ELSE Str(t)
RECURSIVE DocNonFinite(_)
DocNonFinite(d) ==
  IF d.k = "list" THEN \E n \in 1..Len(d.v) : DocNonFinite(d.v[n])
  ELSE IF d.k = "dict" THEN \E n \in 1..Len(d.v) : DocNonFinite(d.v[n][2])
  ELSE d.k = "tok" /\ TokStyle(d) = "plain" /\ NonFiniteJson(TokText(d))
RECURSIVE ReadDocM(_)
ReadDocM(d) ==                                                                  \* json.loads / the YAML loader on jsonnet's re-emission
  IF d.k = "list" THEN LET xs == Strict([n \in 1..Len(d.v) |-> ReadDocM(d.v[n])]) IN Lift(xs, ListV(xs))
  ELSE IF d.k = "dict" THEN LET ks == Strict([n \in 1..Len(d.v) |-> IF ParserMode = "json" THEN ReadScalarJson(d.v[n][1]) ELSE ReadKeyJsonnet(d.v[n][1])])
                                xs == Strict([n \in 1..Len(d.v) |-> ReadDocM(d.v[n][2])])
                            IN Lift(ks \o xs, DictV(Strict([n \in 1..Len(d.v) |-> <<ks[n], xs[n]>>])))
  ELSE IF ParserMode = "json" THEN ReadScalarJson(d) ELSE ReadScalarJsonnet(d)
\* loaders[mode] on the text of a dump written with format fmt ("yaml" | "json")
ReadText(fmt, d) ==
  CASE ParserMode = "json"    -> IF fmt = "yaml" THEN ErrV("not-json") ELSE ReadDocM(d)
    [] ParserMode = "jsonnet" -> IF fmt = "yaml" \/ DocNonFinite(d) THEN ReadDoc(d) ELSE ReadDocM(d)   \* :117-122 the fall-back reads the ORIGINAL text
    [] OTHER                  -> ReadDoc(d)
\* the format of dump(format="parser_mode") (_loaders_dumpers.py:282-283): what the nested dump of a dataclass value uses
NestedFmt == IF ParserMode = "yaml" THEN "yaml" ELSE "json"
\* the whole scalar layer: tree -> text -> tree.  ideal = TRUE: every scalar is read back as written.
ThroughText(fmt, x, ideal) == IF ideal THEN x ELSE ReadText(fmt, WriteDoc(fmt, x))

\* the hazard scalars of a tree for a format: the named deviation families of Scalars.tla that it contains
\* (HazardsY: the text is read by the YAML loader, parser_mode yaml)
RECURSIVE HazardsY(_, _)
HazardsY(fmt, x) ==
  IF x.k \in {"list", "tuple"} THEN UNION {HazardsY(fmt, x.v[i]) : i \in 1..Len(x.v)}
  ELSE IF x.k = "dict" THEN UNION {HazardsY(fmt, x.v[i][1]) \cup HazardsY(fmt, x.v[i][2])
                                   \cup (IF fmt # "yaml" /\ x.v[i][1].k = "str" THEN {JsonKeyDeviation(x.v[i][1].v)} \ {"none"} ELSE {}) : i \in 1..Len(x.v)}
  ELSE IF x.k = "str" THEN {IF fmt = "yaml" THEN Deviation(x.v) ELSE JsonStrDeviation(x.v)} \ {"none"}
  ELSE IF x.k = "float" /\ fmt # "yaml" THEN {JsonDeviation(x.v)} \ {"none"}
  ELSE {}
\* parser_mode jsonnet, JSON text that jsonnet could evaluate: what the re-emission does to numbers, and the raw LS / PS
\* that it leaves.  The two number families are SOFT: whether the round trip breaks depends on the type at that place
\* (a float argument takes the int 3 back as 3.0; Union[int, float], Any, ... keep the int)
RECURSIVE HazardsJsonnet(_)
HazardsJsonnet(x) ==
  IF x.k \in {"list", "tuple"} THEN UNION {HazardsJsonnet(x.v[i]) : i \in 1..Len(x.v)}
  ELSE IF x.k = "dict" THEN UNION {HazardsJsonnet(x.v[i][1]) \cup HazardsJsonnet(x.v[i][2])
                                   \cup (IF x.v[i][1].k = "str" /\ HasLSPS(x.v[i][1].v) THEN {"json-raw-line-break"} ELSE {}) : i \in 1..Len(x.v)}
  ELSE IF x.k = "str" THEN (IF HasLSPS(x.v) /\ ~Has(x.v, "NEL") /\ ~Has(x.v, "NPR") /\ JsonStrDeviation(x.v) = "json-raw-line-break" THEN {"json-raw-line-break"} ELSE {})
  ELSE IF x.k = "float" THEN (IF IntegralRepr(x.v) \/ BigRepr(x.v) THEN {"jsonnet-integral-float-read-as-int"} ELSE {})
  ELSE IF x.k = "int" THEN (IF ~Digits15(x.v) THEN {"jsonnet-int-through-double"} ELSE {})
  ELSE {}
SoftFamilies == {"jsonnet-integral-float-read-as-int", "jsonnet-int-through-double"}
RECURSIVE TreeNonFinite(_)
TreeNonFinite(x) ==
  IF x.k \in {"list", "tuple"} THEN \E i \in 1..Len(x.v) : TreeNonFinite(x.v[i])
  ELSE IF x.k = "dict" THEN \E i \in 1..Len(x.v) : TreeNonFinite(x.v[i][2])
  ELSE x.k = "float" /\ JsonDeviation(x.v) # "none"
Hazards(fmt, x) ==
  CASE ParserMode = "json"    -> {}                                             \* json.loads is the inverse of json.dumps
    [] ParserMode = "jsonnet" -> IF fmt = "yaml" \/ TreeNonFinite(x) THEN HazardsY(fmt, x) ELSE HazardsJsonnet(x)
    [] OTHER                  -> HazardsY(fmt, x)

(***************************************************************************)
(* Alg: sort_subtypes_for_union (_typehints.py:1477-1489) - a STABLE sort  *)
(***************************************************************************)
IsSeqOrMap(t) == t.c \in {"list", "dict", "odict"}                                  \* OrderedDict is one of mapping_origin_types (:169-178)
SortSubtypes(ts, x) ==
  IF Len(ts) <= 1 THEN ts
  ELSE IF x.k = "str"
       THEN SelectSeq(ts, LAMBDA t : t.c = "none")
            \o SelectSeq(ts, LAMBDA t : t.c # "none" /\ IsSeqOrMap(t))
            \o SelectSeq(ts, LAMBDA t : t.c # "none" /\ ~IsSeqOrMap(t))
       ELSE SelectSeq(ts, LAMBDA t : t.c = "none") \o SelectSeq(ts, LAMBDA t : t.c # "none")

(***************************************************************************)
(* Alg: the deserialising branches of adapt_typehints (serialize=False)    *)
(*   Adapt(t, x, orig, sd, li): x a tree (or already a value), orig the    *)
(*   original top-level input (the `orig_val` keyword that travels down);  *)
(*   sd = the sub_defaults context variable is set (it reaches every       *)
(*   nested call), li = this call is for the item of a list (list_item,    *)
(*   which only the immediate call sees): a dataclass value takes the      *)
(*   defaults of its missing fields iff sd \/ li (:1045).                  *)
(***************************************************************************)
\* json_or_yaml_load of a str met where a non-str leaf type is expected (:781-783, _loaders_dumpers.py:163-168)
YamlLoadText(x) ==
  LET u == Strip(x.v) IN
  IF u = << >> THEN x
  ELSE IF OnlySpacesStripped(x.v) /\ PlainAllowed(u)
       THEN LET y == ReadPlain(u) IN
            CASE y.k = "int"   -> IF IntText(u) THEN y ELSE Unsure               \* 0x1F, 1_000, +1 ...: the number is Python's business
              [] y.k = "float" -> Unsure
              [] y.k = "bool"  -> BoolV(Lc(u[1]) \in {"y", "t"} \/ LcText(u) = <<"o", "n">>)   \* constructor.py:226-235
              [] y.k = "error" -> ErrV("yaml-construct")
              [] OTHER         -> y
  ELSE Unsure                                                                   \* a quoted scalar, a structure, a comment ...
IntToFloat(x) == IF Len(x.v) <= 15 THEN Flt(x.v \o <<".", "0">>) ELSE Unsure      \* repr(float(int))
AdaptLeaf(t, x) ==                                                              \* :780-787
  LET y == IF x.k = "str" /\ t.c # "str" THEN YamlLoadText(x) ELSE x IN
  IF Bad(y) THEN y
  ELSE CASE t.c = "str"   -> IF y.k = "str" THEN y ELSE ErrV("expected-str")
         [] t.c = "int"   -> IF y.k = "int" THEN y ELSE ErrV("expected-int")
         [] t.c = "float" -> IF y.k = "float" THEN y ELSE IF y.k = "int" THEN IntToFloat(y) ELSE ErrV("expected-float")   \* :784-785
         [] t.c = "bool"  -> IF y.k = "bool" THEN y ELSE ErrV("expected-bool")
         [] t.c = "none"  -> IF y.k = "null" THEN y ELSE ErrV("expected-none")

LiteralHas(vals, x) == \E i \in 1..Len(vals) : PyEq(vals[i], x)                  \* `val in subtypehints`
LiteralNonStrTypes(vals) ==                                                     \* {type(v) for v in ... if type(v) is not str}
  LET ks == {vals[i].k : i \in 1..Len(vals)} \ {"str"} IN
  (IF "int" \in ks THEN <<TInt>> ELSE << >>) \o (IF "bool" \in ks THEN <<TBool>> ELSE << >>)
  \o (IF "float" \in ks THEN <<TFloat>> ELSE << >>) \o (IF "null" \in ks THEN <<TNone>> ELSE << >>)

(***************************************************************************)
(* Alg: the REGISTERED types of jsonargparse/typing.py (:385-468) and the  *)
(* branch of adapt_typehints that serves them (_typehints.py:800-805): a   *)
(* value of the type passes, anything else goes to the type's DESERIALIZER;*)
(* serialising calls the type's SERIALIZER.  A value is RegV(name, id):    *)
(* `id` is what PYTHON says the value is (repr(range), str(timedelta),     *)
(* str(Decimal), str(UUID), str(complex), str(Path), the base64 text of    *)
(* bytes - computed by the harness with the standard library, never with   *)
(* jsonargparse's serializers).  RegSer / RegDeser transcribe the          *)
(* serializer / deserializer of each type; only CANONICAL spellings (those *)
(* Python itself prints) are decided, the rest is Unsure.                  *)
(*   "Rpath" pathlib.Path  "Rpathlike" os.PathLike (the value is a str)    *)
(*   "Rtd" timedelta  "Ruuid" UUID  "Rcomplex" complex  "Rdec" Decimal     *)
(*   "Rrange" range  "Rbytes" bytes  "Rbytearray" bytearray                *)
(***************************************************************************)
RECURSIVE SplitOn(_, _)
SplitOn(t, c) == IF ~Has(t, c) THEN <<t>> ELSE LET i == FirstIdx(t, c) IN <<SubSeq(t, 1, i - 1)>> \o SplitOn(SubSeq(t, i + 1, Len(t)), c)
NoSpaces(t) == SelectSeq(t, LAMBDA c : c # " ")
RangeWord == <<"r", "a", "n", "g", "e", "(">>
Sep       == <<",", " ">>
IsRangeCall(u) == StartsWith(u, RangeWord) /\ Len(u) >= 7 /\ u[Len(u)] = ")"
RangeArgs(u)   == SplitOn(NoSpaces(SubSeq(u, 7, Len(u) - 1)), ",")              \* typing.py:455  value[6:-1].replace(" ", "")
\* repr(range): range(a, b) or range(a, b, s); the start is always there, a step of 1 never
RangeId(a, b, st) == RangeWord \o a \o Sep \o b \o (IF st = <<"1">> THEN << >> ELSE Sep \o st) \o <<")">>
\* range_serializer (typing.py:439-444)
RangeSer(id) ==
  LET p     == RangeArgs(id)
      start == p[1]
      stop  == p[2]
      step  == IF Len(p) = 3 THEN p[3] ELSE <<"1">>
  IN IF step = <<"1">>                                                           \* :440
     THEN (IF start = <<"0">> THEN RangeWord \o stop \o <<")">>                   \* :441-442  range(stop)
           ELSE RangeWord \o start \o Sep \o stop \o <<")">>)                      \* :443      range(start, stop)
     ELSE RangeWord \o start \o Sep \o stop \o Sep \o step \o <<")">>             \* :444      range(start, stop, step)
\* range_deserializer (typing.py:452-465)
IntLike == Cat(<<Opt(Ch("-")), Plus(D)>>)                                         \* -?\d+
RangeDeser(t) ==
  LET u == Strip(t) IN                                                            \* :453
  IF ~IsRangeCall(u) THEN ErrV("range")                                           \* :454, :465
  ELSE LET p == RangeArgs(u) IN
       IF Len(p) > 3 \/ \E i \in 1..Len(p) : ~FullMatch(IntLike, p[i]) THEN (IF Has(u, "UDIG") \/ Has(u, "LF") THEN Unsure ELSE ErrV("range"))
       ELSE IF \E i \in 1..Len(p) : ~IntText(p[i]) THEN Unsure                    \* 007, -0: which int it is, is Python's business
       ELSE IF Len(p) = 1 THEN RegV("Rrange", RangeId(<<"0">>, p[1], <<"1">>))    \* :456-458
       ELSE IF Len(p) = 2 THEN RegV("Rrange", RangeId(p[1], p[2], <<"1">>))       \* :459-461
       ELSE IF p[3] = <<"0">> THEN ErrV("range-step-0")                           \* range() raises ValueError
       ELSE RegV("Rrange", RangeId(p[1], p[2], p[3]))                             \* :462-464

HexLow   == Cls(Digits \cup {"a", "b", "c", "d", "e", "f"})
UuidRe   == Cat(<<HexLow, HexLow, HexLow, HexLow, HexLow, HexLow, HexLow, HexLow, Ch("-"), HexLow, HexLow, HexLow, HexLow, Ch("-"), HexLow, HexLow, HexLow, HexLow, Ch("-"),
                  HexLow, HexLow, HexLow, HexLow, Ch("-"), HexLow, HexLow, HexLow, HexLow, HexLow, HexLow, HexLow, HexLow, HexLow, HexLow, HexLow, HexLow>>)
Natural  == Alt(<<Ch("0"), Cat(<<D19, Star(D)>>)>>)
\* str(timedelta): [-]D day[s], H:MM:SS[.ffffff]   (the word is SINGULAR for 1 and -1; no day part for 0 days)
Hour23   == Alt(<<D, Cat(<<Ch("1"), D>>), Cat(<<Ch("2"), Cls({"0", "1", "2", "3"})>>)>>)
Micros   == Cat(<<Ch("."), D, D, D, D, D, D>>)
TdClock  == Cat(<<Hour23, Ch(":"), D05, D, Ch(":"), D05, D, Opt(Micros)>>)
TdOneDay == Cat(<<Opt(Ch("-")), Ch("1"), Lit(<<" ", "d", "a", "y", ",", " ">>), TdClock>>)
TdDays   == Cat(<<Opt(Ch("-")), Alt(<<Cat(<<Cls({"2", "3", "4", "5", "6", "7", "8", "9"}), Star(D)>>), Cat(<<Ch("1"), Plus(D)>>)>>), Lit(<<" ", "d", "a", "y", "s", ",", " ">>), TdClock>>)
TdCanon  == Alt(<<TdClock, TdOneDay, TdDays>>)
\* timedelta_deserializer (typing.py:394-409): re.match of  \d+:\d+:\d[\.\d+]*  - with  [-\d]+ day[s]*,   in front when the
\* text contains "day" (:401-402) - then timedelta(**floats).  On a canonical text it gives the timedelta that prints so.
TdLoose  == Cat(<<Plus(D), Ch(":"), Plus(D), Ch(":"), D>>)
TdLooseDays == Cat(<<Plus(Cls(Digits \cup {"-"})), Lit(<<" ", "d", "a", "y">>), Star(Ch("s")), Lit(<<",", " ">>), TdLoose>>)
HasWord(t, w) == \E i \in 1..(Len(t) - Len(w) + 1) : SubSeq(t, i, i + Len(w) - 1) = w
TdDeser(t) ==
  LET withDays == HasWord(t, <<"d", "a", "y">>) IN                                \* :401  if "day" in value
  IF FullMatch(TdCanon, t) /\ ~(Len(t) > 7 /\ SubSeq(t, Len(t) - 6, Len(t)) = <<".", "0", "0", "0", "0", "0", "0">>) THEN RegV("Rtd", t)
  ELSE IF Ends(IF withDays THEN TdLooseDays ELSE TdLoose, t, 1) # {} THEN Unsure   \* accepted, but which timedelta (25:61:61) is Python's business
  ELSE ErrV("timedelta")                                                          \* :404-405
CplxInt  == Cat(<<Opt(Ch("-")), D19, Star(D)>>)
CplxCanon == Alt(<<Cat(<<Ch("("), CplxInt, Sign, D19, Star(D), Ch("j"), Ch(")")>>), Cat(<<CplxInt, Ch("j")>>)>>)
PathCanonical(t) ==
  /\ t # << >> /\ ~Has(t, "NUL")
  /\ (Len(t) = 1 \/ t[Len(t)] # "/")
  /\ \A i \in 1..(Len(t) - 1) : ~(t[i] = "/" /\ t[i + 1] = "/")
  /\ \A i \in 1..Len(t) : t[i] = "." => ~((i = 1 \/ t[i - 1] = "/") /\ (i = Len(t) \/ t[i + 1] = "/")) \/ Len(t) = 1
\* decimal.Decimal is registered with serializer FLOAT (typing.py:387): str(Decimal) -> repr(float(...)).  The float is the
\* same number only for the decimals that are dyadic rationals; the others come back as Decimal(0.1) = 0.1000000000000000055...
DecCanon == Cat(<<Opt(Ch("-")), Natural, Opt(Cat(<<Ch("."), Star(D), D19>>))>>)      \* how str(Decimal) prints a plain finite decimal
DyadicFractions == {<<"5">>, <<"2", "5">>, <<"7", "5">>, <<"1", "2", "5">>, <<"3", "7", "5">>, <<"6", "2", "5">>, <<"8", "7", "5">>}
DecExact(t) == /\ FullMatch(DecCanon, t) /\ Len(t) <= 15 /\ t # <<"-", "0">>
               /\ (~Has(t, ".") \/ SubSeq(t, FirstIdx(t, ".") + 1, Len(t)) \in DyadicFractions)
DecSer(id) == IF ~DecExact(id) THEN Unsure ELSE Flt(IF Has(id, ".") THEN id ELSE id \o <<".", "0">>)   \* repr(float(d))
DecDeser(x) ==                                                                     \* Decimal(x)
  CASE x.k = "int"   -> IF IntText(x.v) THEN RegV("Rdec", x.v) ELSE Unsure
    [] x.k = "float" -> IF Len(x.v) > 2 /\ SubSeq(x.v, Len(x.v) - 1, Len(x.v)) = <<".", "0">> /\ DecExact(SubSeq(x.v, 1, Len(x.v) - 2))
                        THEN RegV("Rdec", SubSeq(x.v, 1, Len(x.v) - 2))
                        ELSE IF Has(x.v, ".") /\ DecExact(x.v) THEN RegV("Rdec", x.v) ELSE Unsure
    [] x.k = "str"   -> IF FullMatch(DecCanon, Strip(x.v)) /\ x.v = Strip(x.v) /\ x.v # <<"-", "0">> THEN RegV("Rdec", x.v)
                        ELSE IF \E i \in 1..Len(x.v) : x.v[i] \notin Digits \cup {"+", "-", ".", "e", "E", "_", " ", "i", "n", "f", "t", "y", "a", "s", "I", "N", "F", "T", "Y", "A", "S", "q", "Q"}
                             THEN ErrV("decimal") ELSE Unsure
    [] OTHER -> Unsure
\* bytes / bytearray: bytes_serializer = b64encode(value).decode(), bytes_deserializer = b64decode (typing.py:415-431)
B64Char  == Cls(Digits \cup {"+", "/"} \cup {UpperCase[i] : i \in 1..26} \cup {LowerCase[i] : i \in 1..26})
B64Canon == Cat(<<Star(Cat(<<B64Char, B64Char, B64Char, B64Char>>)),
                  Opt(Alt(<<Cat(<<B64Char, B64Char, Ch("="), Ch("=")>>), Cat(<<B64Char, B64Char, B64Char, Ch("=")>>)>>))>>)

StrSerialised == {"Rpath", "Rpathlike", "Rtd", "Ruuid", "Rcomplex"}               \* registered with the default serializer str
\* the serializer of the type on a value (what is put into the dumped tree)
RegSer(name, v) ==
  IF name \in StrSerialised
  THEN CASE v.k = "reg"  -> Str(RegText(v))                                       \* str(value)
         [] v.k = "null" -> Str(<<"N", "o", "n", "e">>)                             \* str(None): reached only when the NoneType member was not tried first
         [] v.k = "str"  -> v
         [] v.k \in {"int", "float"} -> Str(v.v)
         [] v.k = "bool" -> Str(IF v.v = TrueText THEN <<"T", "r", "u", "e">> ELSE <<"F", "a", "l", "s", "e">>)
         [] OTHER -> Unsure
  ELSE IF v.k # "reg" \/ RegName(v) # name THEN ErrV("serializer-raises")         \* range_serializer / float / b64encode raise on anything else
  ELSE CASE name = "Rrange" -> Str(RangeSer(RegText(v)))
         [] name = "Rdec"   -> DecSer(RegText(v))
         [] OTHER           -> Str(RegText(v))                                    \* bytes, bytearray: the id IS the base64 text
RegSerOk(name, v) == name \in StrSerialised \/ (v.k = "reg" /\ RegName(v) = name)
AdaptReg(name, x) ==
  IF x.k = "reg" /\ RegName(x) = name THEN x                                      \* is_value_of_type
  ELSE CASE name = "Rpathlike" -> IF x.k = "str" THEN x ELSE IF x.k = "int" THEN Str(x.v) ELSE Unsure       \* deserializer = str: the value IS a str
         [] name = "Rdec"      -> DecDeser(x)
         [] name = "Rcomplex" /\ x.k \in {"int", "float", "bool"} -> Unsure
         [] x.k # "str"        -> ErrV("registered-type")
         [] name = "Rpath"     -> IF PathCanonical(x.v) THEN RegV(name, x.v) ELSE Unsure
         [] name = "Rtd"       -> TdDeser(x.v)
         [] name = "Rrange"    -> RangeDeser(x.v)
         [] name = "Ruuid"     -> IF FullMatch(UuidRe, x.v) THEN RegV(name, x.v)
                                  ELSE IF \E i \in 1..Len(x.v) : x.v[i] \notin Digits \cup {"a","b","c","d","e","f","A","B","C","D","E","F","-","{","}","u","r","n",":","U","R","N"}
                                       THEN ErrV("uuid") ELSE Unsure
         [] name = "Rcomplex"  -> IF FullMatch(CplxCanon, x.v) THEN RegV(name, x.v)
                                  ELSE IF \E i \in 1..Len(x.v) : x.v[i] \notin Digits \cup {"+", "-", ".", "e", "E", "j", "J", "(", ")", " ", "_", "i", "n", "f", "a", "I", "N", "F", "A", "t", "y", "T", "Y"}
                                       THEN ErrV("complex") ELSE Unsure
         [] name \in {"Rbytes", "Rbytearray"} -> IF FullMatch(B64Canon, x.v) THEN RegV(name, x.v) ELSE Unsure     \* b64decode is lenient
         [] OTHER -> Unsure
\* the families a value brings by itself: a Decimal that is not a dyadic rational does not survive its float serializer
RECURSIVE ValueFamilies(_)
ValueFamilies(v) ==
  IF v.k \in SeqKinds THEN UNION {ValueFamilies(v.v[n]) : n \in 1..Len(v.v)}
  ELSE IF v.k \in {"dict", "ns", "odict"} THEN UNION {ValueFamilies(v.v[n][2]) : n \in 1..Len(v.v)}
  ELSE IF v.k = "reg" /\ RegName(v) = "Rdec" /\ ~DecExact(RegText(v)) THEN {"decimal-serialised-as-float"}
  ELSE {}

\* load_value(text) of parse_value_or_config (simple_types=False: a scalar result leaves the str as it is) per parser mode
\* (_loaders_dumpers.py:205-226).  "json": load_basic, then json.loads - a JSONDecodeError is swallowed by _check_type
\* (_typehints.py:563-566) and the str stays; only null / an array / an object replace it.  "jsonnet": load_basic, then the
\* text is EVALUATED as a jsonnet expression, and handed to the YAML loader when that fails: a text that could evaluate to
\* null / an array / an object (it would have to contain a bracket, a brace, a call or the word null) is not decided.
CouldBeJsonnetStructure(t) ==
  \/ \E n \in 1..Len(t) : t[n] \in {"[", "{", "(", "\"", "'", "|", "$"}
  \/ HasWord(t, NullText) \/ HasWord(t, <<"i","m","p","o","r","t">>) \/ HasWord(t, <<"s","e","l","f">>)
LoadValueMode(t) ==
  LET u == Strip(t) IN
  CASE ParserMode = "json" ->
         IF u = <<"-">> THEN Str(t)
         ELSE IF u = NullText THEN NullV
         ELSE IF u # << >> /\ u[1] \in {"[", "{"} THEN Unsure
         ELSE Str(t)
    [] ParserMode = "jsonnet" ->
         IF u = NullText THEN NullV ELSE IF CouldBeJsonnetStructure(t) THEN Unsure ELSE LoadValue(t, FALSE)
    [] OTHER -> LoadValue(t, FALSE)
\* typing.Any (_typehints.py:761-769): a str goes through load_value(simple_types=True) and is REPLACED by what it loads
\* as, unless that is a str again; anything else stays as it is (a value of a registered type / an Enum member is adapted
\* as a value of its own type: unchanged)
AdaptAny(x) ==
  IF x.k # "str" THEN x
  ELSE IF Strip(x.v) = << >> THEN x
  ELSE CASE ParserMode = "yaml" -> (IF LoadBasic(x.v).k = "float" THEN Unsure                          \* load_basic's floats: which float is Python's business
                                    ELSE LET y == YamlLoadText(x) IN IF y.k \in {"str", "error"} THEN x ELSE y)   \* _util.py:146-147 a str result leaves the ORIGINAL str; :766 a loader error is suppressed
         [] ParserMode = "json" ->
              LET b == LoadBasic(x.v)  u == Strip(x.v) IN
              CASE b.k = "null" -> NullV
                [] b.k = "bool" -> BoolV(u = TrueText)
                [] b.k = "int"  -> IF IntText(u) THEN IntV(u) ELSE Unsure
                [] b.k \in {"float", "unsure"} -> Unsure
                [] OTHER -> IF u[1] \in Digits \cup {"-", "[", "{", "\"", "N", "I"} THEN Unsure ELSE x      \* JSONDecodeError: the str stays
         [] OTHER -> Unsure
RECURSIVE Adapt(_, _, _, _, _), LoadThenAdapt(_, _, _), UnionTrial(_, _, _, _, _, _, _), AdaptDC(_, _, _)
Adapt(t, x, orig, sd, li) ==
  IF Bad(x) THEN x
  ELSE CASE t.c \in LeafC -> AdaptLeaf(t, x)
    [] t.c = "enum" ->                                                          \* :808-818
         IF x.k = "enum" /\ \E i \in 1..Len(t.p) : t.p[i] = x.v THEN x
         ELSE IF x.k = "str" /\ \E i \in 1..Len(t.p) : t.p[i] = x.v THEN EnumV(x.v)
         ELSE ErrV("expected-enum-member")
    [] t.c = "literal" ->                                                       \* :772-777
         IF LiteralHas(t.p, x) THEN x
         ELSE IF x.k = "str" THEN
              LET ts == LiteralNonStrTypes(t.p)
                  y  == IF ts = << >> THEN ErrV("union-of-nothing") ELSE IF Len(ts) = 1 THEN Adapt(ts[1], x, orig, sd, FALSE) ELSE Adapt(TUnion(ts), x, orig, sd, FALSE)
              IN IF IsUnsure(y) THEN y ELSE IF ~IsErr(y) /\ LiteralHas(t.p, y) THEN y ELSE ErrV("expected-literal")
         ELSE ErrV("expected-literal")
    [] t.c = "union" -> UnionTrial(SortSubtypes(t.p, x), 1, x, orig, sd, FALSE, FALSE)   \* :833-847
    [] t.c = "list" ->                                                          \* :866-899 (no append, no path)
         IF x.k # "list" THEN ErrV("expected-list")
         ELSE LET ys == Strict([i \in 1..Len(x.v) |-> Adapt(t.p[1], x.v[i], orig, sd, TRUE)]) IN Lift(ys, ListV(ys))   \* :899 list_item=True
    [] t.c \in {"tuple", "tuplee", "set"} ->                                    \* :850-863
         IF x.k \notin SeqKinds THEN ErrV("expected-tuple-or-set")
         ELSE IF t.c = "tuple" /\ Len(x.v) # Len(t.p) THEN ErrV("tuple-arity")
         ELSE LET ys == Strict([i \in 1..Len(x.v) |-> Adapt(t.p[IF t.c = "tuple" THEN i ELSE 1], x.v[i], orig, sd, FALSE)])
                  once == SelectSeq(Strict([i \in 1..Len(ys) |-> i]), LAMBDA i : \A j \in 1..(i - 1) : ~PyEq(ys[j], ys[i]))   \* set(val): equal items once
              IN Lift(ys, IF t.c = "set" THEN SetV(Strict([n \in 1..Len(once) |-> ys[once[n]]])) ELSE TupleV(ys))
    [] t.c = "dict" ->                                                          \* :902-934
         IF x.k # "dict" THEN ErrV("expected-dict")
         ELSE LET ks == Strict([i \in 1..Len(x.v) |->
                          IF t.p[1].c = "int"                                    \* :913-915  cast = int
                          THEN (IF x.v[i][1].k = "int" THEN x.v[i][1]
                                ELSE IF x.v[i][1].k = "str" /\ IntText(x.v[i][1].v) THEN IntV(x.v[i][1].v)
                                ELSE IF x.v[i][1].k = "str" /\ ~FullMatch(Cat(<<OSign, Plus(DU)>>), Strip(x.v[i][1].v)) THEN ErrV("int-key")
                                ELSE Unsure)
                          ELSE x.v[i][1]])                                        \* keys of any other type are NOT checked
                  ys == Strict([i \in 1..Len(x.v) |-> Adapt(t.p[2], x.v[i][2], orig, sd, FALSE)])
              IN Lift(ks \o ys, DictV(Strict([i \in 1..Len(x.v) |-> <<ks[i], ys[i]>>])))
    [] t.c = "dc" -> AdaptDC(t, x, sd \/ li)                                     \* :1032-1050
    [] t.c = "reg" -> AdaptReg(t.p[1], x)                                        \* :800-805
    [] t.c = "any" -> AdaptAny(x)                                                \* :761-769
    [] t.c = "odict" ->                                                         \* :905-934 as for a dict, then :972-973  OrderedDict(val): the order of the input
         LET r == Adapt(TDict(t.p[1], t.p[2]), IF x.k = "odict" THEN DictV(x.v) ELSE x, orig, sd, FALSE) IN IF r.k = "dict" THEN ODictV(r.v) ELSE r
    [] t.c = "setb" ->                                                          \* :853-863 without subtypehints: set(list(val)), members as they are
         IF x.k \notin SeqKinds THEN ErrV("expected-tuple-or-set")
         ELSE IF \E i \in 1..Len(x.v) : x.v[i].k \notin ScalarKinds THEN Unsure   \* an unhashable member: TypeError, not this spec's business
         ELSE LET once == SelectSeq(Strict([i \in 1..Len(x.v) |-> i]), LAMBDA i : \A j \in 1..(i - 1) : ~PyEq(x.v[j], x.v[i]))
              IN SetV(Strict([n \in 1..Len(once) |-> x.v[once[n]]]))
    [] t.c = "restr" ->                                                         \* restricted number / string types (typing.py:106-247, registered at :356):
         LET y == AdaptLeaf(T(t.p[2], << >>), x) IN IF IsErr(y) THEN y ELSE Unsure   \* the base type must fit; the restriction itself is C20's business
    [] OTHER -> Unsure

\* the trial loop of the Union branch (:834-847) and its `vals` list: the first member that accepts wins; a str member
\* that rejects a non-str value while the ORIGINAL input was a str appends that str and goes on (:841-843); without a
\* success the LAST entry of vals is returned unless all entries are exceptions.  hadOrig / lastIsOrig describe vals.
UnionTrial(ts, n, x, orig, sd, hadOrig, lastIsOrig) ==
  IF n > Len(ts) THEN (IF ~hadOrig THEN ErrV("no-member") ELSE IF lastIsOrig THEN orig ELSE Unsure)   \* :845-847 (else: an exception OBJECT is returned, C02)
  ELSE LET r == Adapt(ts[n], x, orig, sd, FALSE) IN                              \* adapt_kwargs carries no list_item
       IF IsUnsure(r) THEN Unsure
       ELSE IF ~IsErr(r) THEN r
       ELSE IF ts[n].c = "str" /\ x.k # "str" /\ orig.k = "str" THEN UnionTrial(ts, n + 1, x, orig, sd, TRUE, TRUE)
       ELSE UnionTrial(ts, n + 1, x, orig, sd, hadOrig, FALSE)

\* a dataclass met inside another type: a nested parser parses the dict or Namespace (:1036, :1045,
\* parse_object(val, defaults=sub_defaults.get() or list_item)); every field given goes through its own action
\* (LoadThenAdapt), a missing field takes its default only when `fill`, an unknown key is an error
AdaptDC(t, x, fill) ==
  IF x.k \notin {"dict", "ns"} THEN ErrV("expected-dict-for-dataclass")
  ELSE LET key(f) == IF x.k = "dict" THEN Str(t.p[f][1]) ELSE t.p[f][1]
           given  == SelectSeq(Strict([f \in 1..Len(t.p) |-> f]), LAMBDA f : HasKey(x, key(f)) \/ fill)
           ys     == Strict([n \in 1..Len(given) |-> IF ~HasKey(x, key(given[n])) THEN t.p[given[n]][3]
                                                  \* round 4: a field that is itself a dataclass is a nested GROUP of the same nested parser
                                                  \* (add_dataclass_arguments, _signatures.py): its dict is spread over the dotted arguments
                                                  \* i.a, i.s ...; None for the group is not decided here (C03: a bare AttributeError)
                                                  ELSE IF t.p[given[n]][2].c = "dc"
                                                       THEN (IF GetKey(x, key(given[n])).k \in {"dict", "ns"} THEN AdaptDC(t.p[given[n]][2], GetKey(x, key(given[n])), fill) ELSE Unsure)
                                                  ELSE IF GetKey(x, key(given[n])).k = "null" THEN NullV                  \* _core.py:1410-1411: None is taken as it is
                                                  ELSE LoadThenAdapt(t.p[given[n]][2], GetKey(x, key(given[n])), fill)])
           \* a nested group none of whose arguments got a value does not exist in the Namespace
           kept   == SelectSeq(Strict([n \in 1..Len(given) |-> n]), LAMBDA n : ~(t.p[given[n]][2].c = "dc" /\ ys[n].k = "ns" /\ ys[n].v = << >>))
       IN IF \E i \in 1..Len(x.v) : ~\E f \in 1..Len(t.p) : x.v[i][1] = key(f) THEN ErrV("unknown-key")
          ELSE Lift(ys, NSV(Strict([n \in 1..Len(kept) |-> <<t.p[given[kept[n]]][1], ys[kept[n]]>>])))

\* ActionTypeHint._check_type (:554-611): parse_value_or_config on a str (_util.py:144-147: anything but a str replaces
\* it: null, a list, a dict), adapt, and on failure once more with the original str.
LoadThenAdapt(t, x, sd) ==
  IF Bad(x) THEN x
  ELSE LET lv == IF x.k = "str" /\ Strip(x.v) # << >> THEN LoadValueMode(x.v) ELSE x
           v0 == IF x.k # "str" \/ lv.k = "str" THEN x ELSE IF lv.k = "null" THEN NullV ELSE Unsure
           r1 == Adapt(t, v0, x, sd, FALSE)
       IN IF IsUnsure(v0) \/ IsUnsure(r1) THEN Unsure
          ELSE IF ~IsErr(r1) THEN r1
          ELSE IF x.k = "str" THEN Adapt(t, x, x, sd, FALSE)                     \* :587-591
          ELSE r1
\* one argument parsed by a whole parser: _check_type, then - for a value that is a str or a Namespace -
\* ActionTypeHint.add_sub_defaults (:462-473, _core.py:371-373) applies the action once more with sub_defaults set, which
\* completes dataclass values; an empty Namespace stores nothing (the default d stays)
AcceptD(t, x, d) ==
  LET v1 == LoadThenAdapt(t, x, FALSE) IN
  IF x.k = "null" THEN NullV                                                    \* _core.py:1410-1411: None is taken as it is (lenient_check)
  ELSE IF Bad(v1) THEN v1
  ELSE IF v1.k = "ns" /\ v1.v = << >> THEN d
  ELSE IF v1.k = "ns" THEN LoadThenAdapt(t, v1, TRUE)
  ELSE v1

(***************************************************************************)
(* Alg: the serialising branches (serialize=True), ActionTypeHint.serialize*)
(* (:497-519).  o = [ideal, skipnone]: the scalar layer used by the NESTED *)
(* dump of a dataclass value and the dump_kwargs that travel with it.      *)
(***************************************************************************)
\* would the serialising branch of member t raise on value v?  (the Union branch tries members until one does not)
RECURSIVE SerOk(_, _), Ser(_, _, _), DumpFields(_, _, _)
SerOk(t, v) ==
  CASE t.c = "str"   -> v.k = "str"
    [] t.c = "int"   -> v.k = "int"
    [] t.c = "float" -> v.k \in {"float", "int"}
    [] t.c = "bool"  -> v.k = "bool"
    [] t.c = "none"  -> v.k = "null"
    [] t.c = "enum"  -> TRUE                                                    \* :809-811 never raises
    [] t.c = "literal" -> LiteralHas(t.p, v)
    [] t.c = "union" -> \E i \in 1..Len(t.p) : SerOk(t.p[i], v)
    [] t.c = "list"  -> v.k \in SeqKinds /\ \A i \in 1..Len(v.v) : SerOk(t.p[1], v.v[i])      \* :888-889 any iterable but a str / mapping is listified
    [] t.c = "tuple" -> v.k \in SeqKinds /\ Len(v.v) = Len(t.p) /\ \A i \in 1..Len(v.v) : SerOk(t.p[i], v.v[i])
    [] t.c \in {"tuplee", "set"} -> v.k \in SeqKinds /\ \A i \in 1..Len(v.v) : SerOk(t.p[1], v.v[i])
    [] t.c = "dict"  -> v.k = "dict" /\ \A i \in 1..Len(v.v) : SerOk(t.p[2], v.v[i][2])
    [] t.c = "dc"    -> v.k = "ns"
    [] t.c = "restr" -> v.k = t.p[2]                                            \* serializer = the base type (typing.py:356)
    [] t.c = "reg"   -> RegSerOk(t.p[1], v)                                     \* :802-803 str never raises, the other serializers do
    [] t.c = "any"   -> TRUE
    [] t.c = "odict" -> v.k \in {"odict", "dict"} /\ \A i \in 1..Len(v.v) : SerOk(t.p[2], v.v[i][2])
    [] t.c = "setb"  -> v.k \in SeqKinds
    [] OTHER -> FALSE
Ser(t, v, o) ==
  CASE t.c \in {"str", "int", "bool", "none", "literal"} -> v
    [] t.c = "float" -> IF v.k = "int" THEN IntToFloat(v) ELSE v                \* :784-785
    [] t.c = "enum"  -> IF v.k = "enum" /\ \E i \in 1..Len(t.p) : t.p[i] = v.v THEN Str(v.v) ELSE v   \* :809-811  val.name if isinstance(val, typehint), else UNCHANGED
    [] t.c = "union" ->                                                         \* :833-847
         LET ts == SortSubtypes(t.p, v) IN
         IF \E i \in 1..Len(ts) : SerOk(ts[i], v)
         THEN Ser(ts[CHOOSE i \in 1..Len(ts) : SerOk(ts[i], v) /\ \A j \in 1..(i - 1) : ~SerOk(ts[j], v)], v, o)
         ELSE ErrV("serialize-no-member")
    [] t.c = "list"  -> LET ys == Strict([i \in 1..Len(v.v) |-> Ser(t.p[1], v.v[i], o)]) IN Lift(ys, ListV(ys))
    [] t.c = "tuple" -> LET ys == Strict([i \in 1..Len(v.v) |-> Ser(t.p[i], v.v[i], o)]) IN Lift(ys, ListV(ys))        \* :853 list(val), stays a list (:862)
    [] t.c \in {"tuplee", "set"} -> LET ys == Strict([i \in 1..Len(v.v) |-> Ser(t.p[1], v.v[i], o)]) IN Lift(ys, ListV(ys))
    [] t.c = "dict"  ->                                                         \* :913-915  cast = str
         LET ks == Strict([i \in 1..Len(v.v) |-> IF t.p[1].c = "int" /\ v.v[i][1].k = "int" THEN Str(v.v[i][1].v) ELSE v.v[i][1]])
             ys == Strict([i \in 1..Len(v.v) |-> Ser(t.p[2], v.v[i][2], o)])
         IN Lift(ys, DictV(Strict([i \in 1..Len(v.v) |-> <<ks[i], ys[i]>>])))
    [] t.c = "restr" -> v                                                       \* int(v) / float(v) / str(v) of a value of that base type
    [] t.c = "reg"   -> RegSer(t.p[1], v)                                       \* :802-803  registered_type.serializer(val)
    [] t.c = "odict" -> Ser(TDict(t.p[1], t.p[2]), DictV(v.v), o)                 \* :972-973  dict(val): a plain dict in the SAME order
    [] t.c = "setb"  -> ListV(v.v)                                                \* :853  list(val): NO order on the members is needed
    [] t.c = "any"   -> IF v.k = "enum" THEN Str(v.v) ELSE IF v.k = "reg" THEN RegSer(RegName(v), v) ELSE v   \* :763-765 by the value's own type
    [] t.c = "dc"    ->                                                         \* :1041  load_value(parser.dump(val, **dump_kwargs))
         LET inner == DumpFields(t.p, v, o) IN
         IF Bad(inner) THEN inner ELSE ThroughText(NestedFmt, inner, o.ideal)   \* a NESTED round trip in the parser's mode (yaml: yaml text), whatever the outer format
    [] OTHER -> Unsure
\* the dict a (nested) parser dumps for a dataclass value: one entry per field, None entries dropped under skip_none
\* (_core.py:808-833)
DumpFields(fields, v, o) ==
  LET keep == SelectSeq(Strict([f \in 1..Len(fields) |-> f]), LAMBDA f : HasKey(v, fields[f][1]) /\ ~(o.skipnone /\ Field(v, fields[f][1]).k = "null"))
      ys   == Strict([n \in 1..Len(keep) |-> LET val == Field(v, fields[keep[n]][1]) IN
                                               IF val.k = "null" THEN val
                                               ELSE IF fields[keep[n]][2].c = "dc" /\ val.k = "ns" THEN DumpFields(fields[keep[n]][2].p, val, o)   \* round 4: a nested group of the SAME nested parser: no further text trip
                                               ELSE Ser(fields[keep[n]][2], val, o)])
  IN Lift(ys, DictV(Strict([n \in 1..Len(keep) |-> <<Str(fields[keep[n]][1]), ys[n]>>])))

Opts(ideal, skipnone) == [ideal |-> ideal, skipnone |-> skipnone]

(***************************************************************************)
(* One argument `--x` of type t: accept an input tree, dump, re-parse      *)
(***************************************************************************)
Accept(t, x)                == AcceptD(t, x, NullV)                             \* the configuration value the parser stores for input x (default None)
SerializeLeafSN(t, v, ideal, sn) == IF v.k = "null" THEN v ELSE Ser(t, v, Opts(ideal, sn))        \* _core.py:825-826: None is not serialised
SerializeLeaf(t, v, ideal)  == SerializeLeafSN(t, v, ideal, FALSE)
DumpLeafSN(t, v, fmt, ideal, sn) == LET s == SerializeLeafSN(t, v, ideal, sn) IN IF Bad(s) THEN s ELSE ThroughText(fmt, s, ideal)   \* what the re-parse sees
ReparseLeafSN(t, v, fmt, ideal, sn) == LET y == DumpLeafSN(t, v, fmt, ideal, sn) IN IF Bad(y) THEN y ELSE Accept(t, y)
ReparseLeaf(t, v, fmt, ideal) == ReparseLeafSN(t, v, fmt, ideal, FALSE)
\* Ref: the round trip is the identity.  RT* are the Alg outcomes to compare with it.
AlgRT(t, v, fmt)   == ReparseLeaf(t, v, fmt, FALSE)
IdealRT(t, v, fmt) == ReparseLeaf(t, v, fmt, TRUE)
RoundTrip(t, v, fmt)      == Same(AlgRT(t, v, fmt), v)
IdealRoundTrip(t, v, fmt) == Same(IdealRT(t, v, fmt), v)
\* hazard families met by this case: in the outer text, and in the nested yaml texts of dataclass values
RECURSIVE NestedHazards(_, _)
NestedHazards(t, v) ==
  IF Bad(v) \/ v.k = "null" THEN {}
  ELSE CASE t.c = "union" -> LET ts == SortSubtypes(t.p, v) IN
                             IF \E i \in 1..Len(ts) : SerOk(ts[i], v)
                             THEN NestedHazards(ts[CHOOSE i \in 1..Len(ts) : SerOk(ts[i], v) /\ \A j \in 1..(i - 1) : ~SerOk(ts[j], v)], v) ELSE {}
         [] t.c \in {"list", "tuplee", "set"} -> UNION {NestedHazards(t.p[1], v.v[i]) : i \in 1..Len(v.v)}
         [] t.c = "tuple" -> UNION {NestedHazards(t.p[i], v.v[i]) : i \in 1..Len(v.v)}
         [] t.c \in {"dict", "odict"} -> UNION {NestedHazards(t.p[2], v.v[i][2]) : i \in 1..Len(v.v)}
         [] t.c = "dc"    -> LET inner == DumpFields(t.p, v, Opts(TRUE, FALSE)) IN IF Bad(inner) THEN {} ELSE Hazards(NestedFmt, inner)
         [] OTHER -> {}
\* --print_config=comments sends the yaml text through a SECOND yaml library (ruyaml, YAML 1.2; _formatters.py:187-191,
\* add_yaml_comments) which re-decides the quoting of every scalar with its own resolvers: the strings whose reading
\* depends on the schema (not a str for the stock YAML 1.1 dumper, or a hazard of the loader) may come back changed,
\* and a float is re-spelled by that library (the last digit of a 17-digit float may change)
RECURSIVE SchemaDependent(_)
SchemaDependent(v) ==
  IF v.k \in SeqKinds THEN \E n \in 1..Len(v.v) : SchemaDependent(v.v[n])
  ELSE IF v.k \in {"dict", "odict"} THEN \E n \in 1..Len(v.v) : SchemaDependent(v.v[n][1]) \/ SchemaDependent(v.v[n][2])
  ELSE IF v.k = "ns" THEN \E n \in 1..Len(v.v) : SchemaDependent(v.v[n][2])
  ELSE IF v.k \in {"str", "enum"} THEN DumperTag(v.v) # "str" \/ Deviation(v.v) # "none"
  ELSE IF v.k = "reg" THEN LET w == RegSer(RegName(v), v) IN w.k = "float" \/ (w.k = "str" /\ (DumperTag(w.v) # "str" \/ Deviation(w.v) # "none"))
  ELSE v.k = "float"
\* The serialising Enum branch never raises (:809-811), so the Union loop (:836-839) stops at an Enum member for ANY value:
\* a member of another Enum (or a tuple / set) behind it stays unserialised and the dumper cannot represent it
RECURSIVE HasUnserialised(_)
HasUnserialised(x) ==
  IF x.k \in {"enum", "set", "ns", "reg"} THEN TRUE
  ELSE IF x.k \in {"list", "tuple"} THEN \E i \in 1..Len(x.v) : HasUnserialised(x.v[i])
  ELSE IF x.k = "dict" THEN \E i \in 1..Len(x.v) : HasUnserialised(x.v[i][2])
  ELSE FALSE
LeafHazards(t, v, fmt) ==
  LET s == SerializeLeaf(t, v, TRUE) IN
  (IF Bad(s) THEN {} ELSE Hazards(fmt, s)) \cup NestedHazards(t, v) \cup ValueFamilies(v)
  \cup (IF ~Bad(s) /\ HasUnserialised(s) THEN {"union-enum-member-serialises-anything"} ELSE {})
(***************************************************************************)
(* Round 4: MULTI-FILE save (ArgumentParser.save, multifile=True is the     *)
(* default, _core.py:927-968).  A Dict value that was loaded from its own   *)
(* file carries "__path__" (_util.py:148-149); save_paths writes it to a    *)
(* file of that name next to the main file and puts the file NAME into the  *)
(* main file.  The sub-file receives dump_using_format(strip_meta(val))     *)
(* (:946-953): the value AS STORED - ActionTypeHint.serialize is NOT        *)
(* applied (that happens afterwards, in self.dump of the main file, where   *)
(* the entry is a file name already).  parse_path of the main file loads    *)
(* the sub-file and adapts its content.                                    *)
(***************************************************************************)
RECURSIVE RawTree(_), HasSetVal(_), HasNsVal(_)
HasNsVal(v) == IF v.k = "ns" THEN TRUE
               ELSE IF v.k \in SeqKinds THEN \E n \in 1..Len(v.v) : HasNsVal(v.v[n])
               ELSE IF v.k \in {"dict", "odict"} THEN \E n \in 1..Len(v.v) : HasNsVal(v.v[n][2])
               ELSE FALSE
\* can the dumper of format fmt write the raw value?  yaml knows Namespace (_namespace.py:362 registers a representer with
\* SafeDumper), json.dumps does not (TypeError); neither knows Enum members or values of registered types
RawUnwritable(fmt, v) == HasUnserialised(RawTree(v)) \/ (fmt # "yaml" /\ HasNsVal(v))
RawTree(v) ==                                                                   \* what the dumper is handed: python objects
  IF v.k \in {"list", "tuple"} THEN [k |-> v.k, v |-> Strict([n \in 1..Len(v.v) |-> RawTree(v.v[n])])]
  ELSE IF v.k = "dict" THEN DictV(Strict([n \in 1..Len(v.v) |-> <<v.v[n][1], RawTree(v.v[n][2])>>]))
  ELSE IF v.k = "ns" THEN DictV(Strict([n \in 1..Len(v.v) |-> <<Str(v.v[n][1]), RawTree(v.v[n][2])>>]))   \* yaml writes a Namespace as a mapping
  ELSE v                                                                        \* Enum members, values of registered types, sets stay what they are
HasSetVal(v) == IF v.k = "set" THEN TRUE
                ELSE IF v.k \in {"list", "tuple"} THEN \E n \in 1..Len(v.v) : HasSetVal(v.v[n])
                ELSE IF v.k \in {"dict", "ns", "odict"} THEN \E n \in 1..Len(v.v) : HasSetVal(v.v[n][2])
                ELSE FALSE
ReparseMultiLeaf(t, v, fmt, ideal) ==
  IF v.k # "dict" \/ HasSetVal(v) THEN Unsure                                   \* only a dict carries __path__; a set is written with the tag !!set: not modelled
  ELSE LET raw == RawTree(v) IN
       IF RawUnwritable(fmt, v) THEN ErrV("represent")                          \* yaml: RepresenterError, json: TypeError - save raises
       ELSE LET y == ThroughText(fmt, raw, ideal) IN IF Bad(y) THEN y ELSE Accept(t, y)
\* named deviation: the sub-file is written without serialising, so a value that holds an Enum member / a value of a
\* registered type cannot be saved at all
MultiHazards(t, v, fmt) ==
  IF v.k # "dict" \/ HasSetVal(v) THEN {}
  ELSE LET raw == RawTree(v) IN
       IF RawUnwritable(fmt, v) THEN {"multifile-subconfig-not-serialised"} ELSE Hazards(fmt, raw)
MultiRoundTripModuloKnown(t, v, fmt) ==
  LET r == ReparseMultiLeaf(t, v, fmt, FALSE) IN Same(r, v) \/ IsUnsure(r) \/ MultiHazards(t, v, fmt) # {}
RoundTripModuloKnown(t, v, fmt) == RoundTrip(t, v, fmt) \/ IsUnsure(AlgRT(t, v, fmt)) \/ LeafHazards(t, v, fmt) # {}
HazardsAreReal(t, v, fmt)       == (LeafHazards(t, v, fmt) # {} /\ ~IsUnsure(AlgRT(t, v, fmt))) => ~RoundTrip(t, v, fmt)

(***************************************************************************)
(* A whole parser.  SHAPE = [top, subs, required]:                         *)
(*   top   sequence of entries [p |-> path, t |-> type, d |-> default]     *)
(*         (path = sequence of name texts: <<x>> or <<group, x>>)          *)
(*   subs  sequence of <<sub-command name text, entries>>                  *)
(*   required  the sub-command is required                                 *)
(* CFG = [k |-> "cfg", top |-> values, sel |-> chosen sub-command index    *)
(*        (0 = none), sub |-> values of the chosen sub-command's entries]  *)
(***************************************************************************)
\* nest the kept <<path, tree>> pairs (paths of length 1 or 2) into a dict, in first-seen order (Namespace.as_dict); the
\* Namespace of a GROUP stays (as an empty dict) when all its entries were removed: `heads` lists every head name
Heads(entries) == LET hs == Strict([i \in 1..Len(entries) |-> entries[i].p[1]]) IN
                  SelectSeq(Strict([i \in 1..Len(hs) |-> i]), LAMBDA i : \A j \in 1..(i - 1) : hs[j] # hs[i])
NestPairs(entries, ps) ==
  LET firsts == Heads(entries) IN
  DictV(SelectSeq(
    Strict([n \in 1..Len(firsts) |->
       LET e == entries[firsts[n]] IN
       IF Len(e.p) = 1
       THEN (IF \E m \in 1..Len(ps) : ps[m][1] = e.p THEN <<Str(e.p[1]), ps[CHOOSE m \in 1..Len(ps) : ps[m][1] = e.p][2]>> ELSE <<Str(e.p[1]), ErrV("dropped")>>)
       ELSE LET mine == SelectSeq(ps, LAMBDA q : Len(q[1]) = 2 /\ q[1][1] = e.p[1])
            IN <<Str(e.p[1]), DictV(Strict([m \in 1..Len(mine) |-> <<Str(mine[m][1][2]), mine[m][2]>>]))>>]),
    LAMBDA kv : kv[2].k # "error"))
\* _dump_cleanup_actions (_core.py:808-833) over a sequence of entries and their values
CleanEntries(entries, vals, o) ==
  LET keep == SelectSeq(Strict([i \in 1..Len(entries) |-> i]), LAMBDA i : ~(o.skipnone /\ vals[i].k = "null")) IN      \* :815-817
  Strict([n \in 1..Len(keep) |-> <<entries[keep[n]].p, IF vals[keep[n]].k = "null" THEN vals[keep[n]] ELSE Ser(entries[keep[n]].t, vals[keep[n]], o)>>])   \* :824-833
EntriesBad(ps) == \E i \in 1..Len(ps) : Bad(ps[i][2])
\* cfg.as_dict() after the clean-up: the selector key of the sub-commands is POPPED (:818-819), the chosen sub-command's
\* values sit under its name
CfgTree(shape, cfg, o) ==
  LET top == CleanEntries(shape.top, cfg.top, o)
      sub == IF cfg.sel = 0 THEN << >> ELSE CleanEntries(shape.subs[cfg.sel][2], cfg.sub, o)
  IN IF \E i \in 1..Len(top) : IsUnsure(top[i][2]) THEN Unsure
     ELSE IF \E i \in 1..Len(sub) : IsUnsure(sub[i][2]) THEN Unsure
     ELSE IF EntriesBad(top) \/ EntriesBad(sub) THEN ErrV("serialize")
     ELSE LET base == NestPairs(shape.top, top) IN
          IF cfg.sel = 0 THEN base
          ELSE DictV(base.v \o << <<Str(shape.subs[cfg.sel][1]), NestPairs(shape.subs[cfg.sel][2], sub)>> >>)
\* _dump_delete_default_entries (_core.py:835-854) without the subclass-spec clause
RECURSIVE DeleteDefaults(_, _)
DeleteDefaults(sub, dfl) ==
  DictV(SelectSeq(
    Strict([i \in 1..Len(sub.v) |->
       LET key == sub.v[i][1]
           val == sub.v[i][2]
       IN IF HasKey(dfl, key) /\ ~PyEq(val, GetKey(dfl, key)) /\ val.k = "dict" /\ GetKey(dfl, key).k = "dict"
          THEN <<key, DeleteDefaults(val, GetKey(dfl, key))>>                    \* :851-852
          ELSE <<key, val>>]),
    LAMBDA e : ~(HasKey(dfl, e[1]) /\ PyEq(GetKey(sub, e[1]), GetKey(dfl, e[1])))))   \* :849-850
CfgV(top, sel, sub) == [k |-> "cfg", top |-> top, sel |-> sel, sub |-> sub]
DefaultsCfg(shape) == CfgV(Strict([i \in 1..Len(shape.top) |-> shape.top[i].d]), 0, << >>)   \* get_defaults(): no sub-command chosen
\* ArgumentParser.dump (_core.py:754-806)
DumpTree(shape, cfg, fl) ==
  LET o    == Opts(fl.ideal, fl.skipnone)
      tree == CfgTree(shape, cfg, o)
  IN IF Bad(tree) THEN tree
     ELSE IF ~fl.skipdefault THEN tree
     ELSE IF shape.required /\ Len(shape.subs) > 0 THEN ErrV("skip-default-required-subcommand")   \* :800-801: get_defaults() has no sub-command, strip_link_target_keys raises
     ELSE LET dfl == CfgTree(shape, DefaultsCfg(shape), o) IN                    \* :799-803
          IF Bad(dfl) THEN Unsure ELSE DeleteDefaults(tree, dfl)                 \* a default that cannot be serialised stays as it is (:828-830)
\* parse_string / parse_path / --config on the text of a dump
LookupPath(tree, p) == IF Len(p) = 1 THEN GetKey(tree, Str(p[1])) ELSE GetKey(GetKey(tree, Str(p[1])), Str(p[2]))
HasPath(tree, p) == HasKey(tree, Str(p[1])) /\ (Len(p) = 1 \/ (GetKey(tree, Str(p[1])).k = "dict" /\ HasKey(GetKey(tree, Str(p[1])), Str(p[2]))))
ParseEntries(entries, tree) == Strict([i \in 1..Len(entries) |-> IF HasPath(tree, entries[i].p) THEN AcceptD(entries[i].t, LookupPath(tree, entries[i].p), entries[i].d) ELSE entries[i].d])
\* _ActionSubCommands.get_subcommands (_actions.py:691-744) on a config without the selector key: the first
\* sub-command under whose name at least one value arrived; none: error when required, no sub-command otherwise
SubPresent(shape, tree, n) ==          \* a Namespace exists under the name only if the value of one of its arguments arrived (an empty group does not count)
  /\ HasKey(tree, Str(shape.subs[n][1])) /\ GetKey(tree, Str(shape.subs[n][1])).k = "dict"
  /\ \E i \in 1..Len(shape.subs[n][2]) : HasPath(GetKey(tree, Str(shape.subs[n][1])), shape.subs[n][2][i].p)
ReparseTree(shape, tree) ==
  LET top == ParseEntries(shape.top, tree)
      sel == IF \E n \in 1..Len(shape.subs) : SubPresent(shape, tree, n)
             THEN CHOOSE n \in 1..Len(shape.subs) : SubPresent(shape, tree, n) /\ \A m \in 1..(n - 1) : ~SubPresent(shape, tree, m) ELSE 0
      sub == IF sel = 0 THEN << >> ELSE ParseEntries(shape.subs[sel][2], GetKey(tree, Str(shape.subs[sel][1])))
  IN IF Len(shape.subs) > 0 /\ sel = 0 /\ shape.required THEN ErrV("no-subcommand")
     ELSE Lift(top \o sub, CfgV(top, sel, sub))
ReparseCfg(shape, cfg, fmt, fl) ==
  LET tree == DumpTree(shape, cfg, fl) IN
  IF Bad(tree) THEN tree
  ELSE LET back == ThroughText(fmt, tree, fl.ideal) IN IF Bad(back) THEN back ELSE ReparseTree(shape, back)
SameSeq(a, b) == Len(a) = Len(b) /\ \A i \in 1..Len(a) : Same(a[i], b[i])
SameCfg(a, b) == a.k = "cfg" /\ b.k = "cfg" /\ a.sel = b.sel /\ SameSeq(a.top, b.top) /\ SameSeq(a.sub, b.sub)
\* Ref: what the re-parse of a dump must give.  skip_none may only lose None entries (they come back as the default).
Expected(shape, cfg, fl) ==
  IF ~fl.skipnone THEN cfg
  ELSE CfgV(Strict([i \in 1..Len(cfg.top) |-> IF cfg.top[i].k = "null" THEN shape.top[i].d ELSE cfg.top[i]]), cfg.sel,
            Strict([i \in 1..Len(cfg.sub) |-> IF cfg.sub[i].k = "null" THEN shape.subs[cfg.sel][2][i].d ELSE cfg.sub[i]]))
CfgRoundTrip(shape, cfg, fmt, fl) == LET r == ReparseCfg(shape, cfg, fmt, fl) IN ~Bad(r) /\ SameCfg(r, Expected(shape, cfg, fl))

\* ---- named deviations at the configuration level
Flags(ideal, skipnone, skipdefault) == [ideal |-> ideal, skipnone |-> skipnone, skipdefault |-> skipdefault]
\* D1  the selector of the sub-command is not dumped; a chosen sub-command none of whose values is dumped cannot be recovered
DevSubcommandLost(shape, cfg, fl) ==
  cfg.sel # 0 /\ LET tree == DumpTree(shape, cfg, fl) IN ~Bad(tree) /\ ~SubPresent(shape, tree, cfg.sel)
\* D2  dump(skip_default=True) raises on a parser with a required sub-command
DevSkipDefaultRequiredSub(shape, fl) == fl.skipdefault /\ shape.required /\ Len(shape.subs) > 0
\* D3  skip_default descends into the dict VALUE of one argument and removes the items equal to the default's, although
\*     the re-parse REPLACES the whole value
InnerDeletion(entries, tree, dtree) ==
  \E i \in 1..Len(entries) :
     /\ HasPath(tree, entries[i].p) /\ HasPath(dtree, entries[i].p)
     /\ LET a == LookupPath(tree, entries[i].p)
            b == LookupPath(dtree, entries[i].p)
        IN a.k = "dict" /\ b.k = "dict" /\ ~PyEq(a, b) /\ DeleteDefaults(a, b) # a
DevSkipDefaultInsideValue(shape, cfg, fl) ==
  /\ fl.skipdefault /\ ~DevSkipDefaultRequiredSub(shape, fl)
  /\ LET o == Opts(TRUE, fl.skipnone)
         tree  == CfgTree(shape, cfg, o)
         dtree == CfgTree(shape, DefaultsCfg(shape), o)
     IN ~Bad(tree) /\ ~Bad(dtree) /\ InnerDeletion(shape.top, tree, dtree)
\* D4  skip_default compares with Python's == (1 == 1.0 == True, 0.0 == -0.0): an entry that EQUALS its default but is of
\*     another type (or sign) is removed, and the re-parse gives the default instead
DevSkipDefaultOtherType(shape, cfg, fl) ==
  /\ fl.skipdefault /\ ~DevSkipDefaultRequiredSub(shape, fl)
  /\ \E i \in 1..Len(shape.top) :
        LET o == Opts(TRUE, fl.skipnone)
            a == IF cfg.top[i].k = "null" THEN cfg.top[i] ELSE Ser(shape.top[i].t, cfg.top[i], o)
            b == IF shape.top[i].d.k = "null" THEN shape.top[i].d ELSE Ser(shape.top[i].t, shape.top[i].d, o)
        IN ~Bad(a) /\ ~Bad(b) /\ PyEq(a, b) /\ ~Same(cfg.top[i], shape.top[i].d)
\* hazard scalars anywhere in the dump
CfgHazards(shape, cfg, fmt, fl) ==
  LET tree == DumpTree(shape, cfg, Flags(TRUE, fl.skipnone, FALSE)) IN
  (IF Bad(tree) THEN {} ELSE Hazards(fmt, tree))
  \cup UNION {NestedHazards(shape.top[i].t, cfg.top[i]) \cup ValueFamilies(cfg.top[i]) : i \in 1..Len(shape.top)}
  \cup (IF cfg.sel = 0 THEN {} ELSE UNION {NestedHazards(shape.subs[cfg.sel][2][i].t, cfg.sub[i]) \cup ValueFamilies(cfg.sub[i]) : i \in 1..Len(cfg.sub)})
CfgDeviations(shape, cfg, fmt, fl) ==
  (IF DevSubcommandLost(shape, cfg, fl) THEN {"subcommand-selector-not-dumped"} ELSE {})
  \cup (IF DevSkipDefaultRequiredSub(shape, fl) THEN {"skip-default-required-subcommand-raises"} ELSE {})
  \cup (IF DevSkipDefaultInsideValue(shape, cfg, fl) THEN {"skip-default-inside-dict-value"} ELSE {})
  \cup (IF DevSkipDefaultOtherType(shape, cfg, fl) THEN {"skip-default-equal-but-other-type"} ELSE {})
  \cup CfgHazards(shape, cfg, fmt, fl)
CfgRoundTripModuloKnown(shape, cfg, fmt, fl) ==
  CfgRoundTrip(shape, cfg, fmt, fl) \/ IsUnsure(ReparseCfg(shape, cfg, fmt, fl)) \/ CfgDeviations(shape, cfg, fmt, fl) # {}
=============================================================================
