SPECIFICATION Spec
CONSTANTS
  Emit = TRUE
INVARIANT AlgIsRef
INVARIANT ValidIsOk
INVARIANT ForeignIsForeign
INVARIANT RemovalMatters
INVARIANT ImplicitChoice
INVARIANT DeviationShape
INVARIANT EmitCase
CHECK_DEADLOCK FALSE
