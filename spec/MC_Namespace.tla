---------------------------- MODULE MC_Namespace ----------------------------
(* Bounded instance of Namespace.tla: every operation sequence up to MaxOps over a small universe. *)
EXTENDS Namespace, Json, SequencesExt
CONSTANTS MaxOps,      \* length bound of the histories
          MaxKeyLen,   \* dotted keys of depth 1..MaxKeyLen
          Emit         \* TRUE: print every distinct state as JSON (for the replay)

Names == {"a", "items"}          \* one ordinary name, one that clashes with a Namespace method (renamed by the harness)
RECURSIVE PathsOfLen(_)
PathsOfLen(n) == IF n = 0 THEN {<< >>} ELSE {<<x>> \o p : x \in Names, p \in PathsOfLen(n - 1)}
KeyPaths == UNION {PathsOfLen(n) : n \in 1..MaxKeyLen}

T(pairs) == [r \in {pairs[k][1] : k \in 1..Len(pairs)} |-> pairs[CHOOSE k \in 1..Len(pairs) : pairs[k][1] = r][2]]
\* the value vocabulary (codes are interpreted by harness/checks/c11.py)
VInt    == Leaf("i1")
VNone   == Leaf("none")
VList   == Leaf("L1")                                            \* [1, 2]
VTuple  == Leaf("T1")                                            \* (1, 2)
VListNS == Leaf("LN")                                            \* [Namespace(a=1)]
VListMx == Leaf("LM")                                            \* [Namespace(a=1), 1]   -- a list that holds a namespace next to a scalar
VEmptyT == Leaf("T0")                                            \* ()   -- empty and falsy leaves are values like any other
VEmptyL == Leaf("L0")                                            \* []
VFalse  == Leaf("false")                                         \* False
VDict   == T(<< << << >>, "dict">>, << <<"a">>, "i1">> >>)         \* {'a': 1}
VDictC  == T(<< << << >>, "dict">>, << <<"items">>, "i2">> >>)     \* {'items': 2}
VDictNS == T(<< << << >>, "dict">>, << <<"a">>, "ns">>, << <<"a", "a">>, "i1">> >>)   \* {'a': Namespace(a=1)}
VEmptyD == T(<< << << >>, "dict">> >>)                            \* {}
VNS     == T(<< << << >>, "ns">>, << <<"a">>, "i2">> >>)           \* Namespace(a=2)
VNSC    == T(<< << << >>, "ns">>, << <<"items">>, "i1">>, << <<"a">>, "ns">>, << <<"a", "items">>, "none">> >>)  \* Namespace(items=1, a=Namespace(items=None))
VEmptyN == EmptyNS
SetVals == {VInt, VNone, VList, VTuple, VListNS, VListMx, VEmptyT, VEmptyL, VFalse, VDict, VDictC, VDictNS, VEmptyD, VNS, VNSC, VEmptyN}
Dflt    == Leaf("dflt")

\* update(Namespace) arguments: what value.items() yields, in order
Items1 == << << <<"a">>, VInt >> >>                                              \* Namespace(a=1)
Items2 == << << <<"items">>, VDict >>, << <<"a", "a">>, VNone >> >>              \* Namespace(items={'a':1}, a=Namespace(a=None))
Items3 == << << <<"a", "items">>, VList >>, << <<"a", "a">>, VInt >> >>          \* Namespace(a=Namespace(items=[1,2], a=1))
NoItems == << >>

Ops == {Op("set", p, v, NoItems, FALSE) : p \in KeyPaths, v \in SetVals}
  \cup {Op(k, p, Dflt, NoItems, FALSE) : k \in {"getitem", "contains", "del"}, p \in KeyPaths}
  \cup {Op(k, p, Dflt, NoItems, FALSE) : k \in {"get", "pop"}, p \in KeyPaths}
  \cup {Op("update_ns", p, Dflt, it, ou) : p \in {<< >>, <<"a">>, <<"items", "a">>}, it \in {Items1, Items2, Items3, NoItems}, ou \in BOOLEAN}
  \cup {Op("update_val", p, v, NoItems, ou) : p \in {<< >>, <<"a">>, <<"a", "items">>}, v \in {VInt, VDict}, ou \in BOOLEAN}

Mutators == {o \in Ops : o.op \in {"set", "del", "pop", "update_ns", "update_val"}}

VARIABLES t, n
vars == <<t, n>>
Init == t = Empty /\ n = 0
Next == n < MaxOps /\ \E o \in Mutators : t' = AlgApply(o, t).t /\ n' = n + 1
Spec == Init /\ [][Next]_vars

\* ------------------------------------------------------------------ invariants
TypeOK == WellFormed(t)
\* C11, design level: outside the dict deviation the code's algorithm IS the nested dictionary
AlgRefinesRef == \A o \in Ops : ~ThroughDict(o, t) => AlgApply(o, t) = RefApply(o, t)
\* mapping laws of the reference itself (sanity of the Ref layer)
RefLaws == \A o \in Ops : o.op = "set" =>
             LET t2 == RefSet(t, o.p, o.v) IN
               /\ RefHas(t2, o.p) /\ Cut(t2, o.p) = o.v                                   \* read your write
               /\ WellFormed(t2)
               /\ \A q \in DOMAIN t : (RefAddr(t, q) /\ ~IsPrefix(q, o.p) /\ ~IsPrefix(o.p, q)
                                        /\ \A b \in Prefixes(o.p) : ~(IsPrefix(b, q) /\ b \in DOMAIN t /\ t[b] # "ns"))
                                       => (q \in DOMAIN t2 /\ t2[q] = t[q])             \* frame: unrelated keys untouched
               /\ RefDel(t2, o.p).t = Remove(t2, o.p) /\ ~RefHas(RefDel(t2, o.p).t, o.p)
\* read-your-write for the algorithm: fails exactly through dicts (the recorded finding)
AlgReadYourWrite == \A o \in Ops : (o.op = "set" /\ ~ThroughDict(o, t)) => AlgGetItem(AlgSet(t, o.p, o.v), o.p) = Out(AlgSet(t, o.p, o.v), "ok", o.v)
\* the deviation is real in the model (non-vacuity, and the source of the finding): some state/op disagrees
\* observers
ObserversSane == /\ DOMAIN AsDict(t) = DOMAIN t
                 /\ \A q \in Keys(t, TRUE) : RefHas(t, q)
                 /\ Keys(t, FALSE) \subseteq Keys(t, TRUE)

\* conversions: as_dict leaves no namespace behind; a plain dictionary survives the trip through dict_to_namespace
ConvLaws == AsDictPlain(t) /\ RoundTripFromDict(AsDict(t))

TreeSeq(x) == LET s == SetToSeq(DOMAIN x) IN [i \in 1..Len(s) |-> <<s[i], x[s[i]]>>]
OpJson(o) == [op |-> o.op, p |-> o.p, v |-> TreeSeq(o.v), items |-> [i \in 1..Len(o.items) |-> <<o.items[i][1], TreeSeq(o.items[i][2])>>], ou |-> o.ou]
EmitState == Emit => PrintT(ToJson([state |-> TreeSeq(t), n |-> n]))
ASSUME Emit => PrintT(ToJson([ops |-> [i \in 1..Cardinality(Ops) |-> OpJson(SetToSeq(Ops)[i])]]))
=============================================================================
