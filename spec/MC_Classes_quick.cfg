SPECIFICATION Spec
CONSTANTS
  MaxLen = 2
  Emit = TRUE
  FamOf <- MCFamOf
INVARIANT AlgRefinesRef
INVARIANT DevOnlyDictKwargs
INVARIANT MachineIsFold
INVARIANT AcceptedIsValid
INVARIANT LogRebuilds
INVARIANT ShortEqualsExplicit
INVARIANT EmitCase
CHECK_DEADLOCK FALSE
