INIT InitMask
NEXT NextMask
CONSTANTS
  N = 3
  SelfLoops = TRUE
  Emit = TRUE
  SeqMode = FALSE
INVARIANT AlgRefinesRef
INVARIANT AlgRefinesRefOp
INVARIANT GraphRepresents
INVARIANT RefLaws
INVARIANT EmitCase
CHECK_DEADLOCK FALSE
