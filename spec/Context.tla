------------------------------ MODULE Context ------------------------------
(***************************************************************************)
(* Residual state of a process that uses jsonargparse parsers, and what a  *)
(* public call does to it and reads from it (properties C09, and the       *)
(* process-state part of C08).                                             *)
(*                                                                         *)
(* Residue that survives a call ("res"):                                   *)
(*   pending[p]  the --print_config request stored as attribute            *)
(*               parser.print_config on ROOT parser p:                     *)
(*               "none" | "full" (key None) | <sub-command name> (request  *)
(*               made below that sub-command) | "popped" (key/subparser    *)
(*               already popped, dump failed)       _actions.py:256-290    *)
(*   args[q]     parser.args of parser q (root or sub-parser): "unset" or  *)
(*               a tag of the last argv             _core.py:447           *)
(*   shtab[p]    the lazily added --print_shtab action of root parser p:   *)
(*               "no" | "added" (by the first parse_args,                  *)
(*               _completions.py:39-41) | "broken" (after                  *)
(*               --print_shtab=<shell> ran: shtab_prepare_actions removed  *)
(*               the action from parser._actions, :130, but its option     *)
(*               string stays registered, so the next handle_completions   *)
(*               adds it again and argparse refuses; on a parser with a    *)
(*               class-typed argument shtab_prepare_actions also appends   *)
(*               the nested <cls>.<init_arg> actions to parser._actions    *)
(*               for good, and every later computation of the defaults     *)
(*               fails - named deviation "ShtabResidue")                   *)
(*   dcf[p]      NOT residue of the library but the environment the        *)
(*               answers depend on: the state of the default config file   *)
(*               of parser p ("absent" | "v1" | "v2"), changed only by the *)
(*               environment between calls; a fresh parser reads the       *)
(*               CURRENT file                                              *)
(*   hskip[s]    the "skip" entry that a class-help request for a CALLABLE  *)
(*               typed argument (Callable[[int], Base], Callable[..., B],  *)
(*               Optional[Callable[[int, float], Base]]: the first k       *)
(*               __init__ parameters are supplied by the caller) writes    *)
(*               into the sub_add_kwargs dict of the help action           *)
(*               (_actions.py:409-410) and never removes: "unset" | "1" |  *)
(*               "2".  Scope s = "shared": the CLASS-level dict            *)
(*               _ActionHelpClassPath.sub_add_kwargs (_actions.py:342),    *)
(*               which every help action added through add_argument uses - *)
(*               of every parser of the process; "own1" / "own2": the dict *)
(*               of the help action of a class PARAMETER                   *)
(*               (_typehints.py:293-294, _signatures.py:403).  The dict of *)
(*               the typed argument's own action is a different object     *)
(*               (_signatures.py:424-434) and is never written.  A help    *)
(*               request for a callable type overwrites the entry before   *)
(*               it reads it; a help request for a CLASS type (--cls.help) *)
(*               only reads it - named deviation "HelpSkipResidue": after  *)
(*               a callable-type help anywhere in the process the class    *)
(*               help of every shared-dict help action omits the first k   *)
(*               __init__ parameters.                                      *)
(*   pk, sap, dk the three context variables that are set WITHOUT reset:   *)
(*               parse_kwargs (_actions.py:676-680), subclass_arg_parser   *)
(*               (_typehints.py:438-442), dump_kwargs (_typehints.py:1341) *)
(* Managed state ("ctx", restored by try/finally managers): parent_parser, *)
(* lenient_check, load_value_mode, ... (_common.py:58-89), argparse's      *)
(* Namespace class (_namespace.py:86-93), cwd (_util.py:284-312).          *)
(*                                                                         *)
(* Two layers:                                                             *)
(*   Ref  RefOutcome(o): what call o answers on a freshly built parser in  *)
(*        a fresh process - a function of the call alone.  C09 says: the   *)
(*        answer in ANY reachable residual state equals RefOutcome(o).     *)
(*   Alg  every public call is a straight-line PROGRAM of small            *)
(*        instructions (enter manager / set variable / process argv item / *)
(*        raise / leave manager in finally / print point ...) transcribed  *)
(*        from the code with anchors; StepFn executes one instruction;     *)
(*        AlgRun runs a call to completion.  The only instruction whose    *)
(*        effect depends on residue is the print point                     *)
(*        (print_config_if_requested), plus the reads of pk/sap/args.      *)
(*                                                                         *)
(* ClearOnError = TRUE is the tree since fix: commit 9a553c5 (an unconsumed *)
(* request is dropped in a finally of parse_args) and the model every      *)
(* check runs with.  FALSE is the design before that repair, where a       *)
(* request survives a failed or help-exited parse_args (named deviation    *)
(* "PendingResidue"); it is kept for MC_Context_prefix.cfg, which lets     *)
(* TLC show the counterexample as documentation.                           *)
(***************************************************************************)
EXTENDS Naturals, Sequences, FiniteSets, TLC

CONSTANT ClearOnError
CONSTANT ShtabBreaksDefaults    \* the root parsers that own a class-typed argument with a default class: on them the completion
                                \* script generation leaves MORE behind (see ShtabResidue below)

(***************************************************************************)
(* Calls as data.  All fields are strings / booleans / sequences of        *)
(* strings so that sets of calls are homogeneous.                          *)
(*   m      method: parse_args parse_object parse_string parse_path        *)
(*          parse_env get_defaults dump validate instantiate_classes       *)
(*          format_help; "environment": not a call of the library but a    *)
(*          step of the environment (field file: the default config file   *)
(*          of parser p is written "v1" / edited "v2" / removed "absent")  *)
(*   p      name of the ROOT parser the call is made on                    *)
(*   eoe    the parser was built with exit_on_error=True                   *)
(*   kw     code of {"env":..,"defaults":..} passed to parse_args          *)
(*   tag    code of the argv list (what parser.args will hold); stag: of   *)
(*          the part after the sub-command token (the sub-parser's args)   *)
(*   items  argv items handled by the root parser, left to right:          *)
(*            ok        a valid option                                     *)
(*            bad       an option whose value is rejected (raises at once) *)
(*            unk       an unrecognised option (rejected after the loop)   *)
(*            pc        --print_config (stores the request)                *)
(*            pcflag    --print_config=<invalid flag> (raises, no request) *)
(*            help      --help ;  clshelp  --<cls>.help=<class>: the help  *)
(*                      request for a typed argument; fields hscope (which *)
(*                      sub_add_kwargs dict its help action uses) and hset *)
(*                      ("-": class type, the dict is only read; "1"/"2":  *)
(*                      callable type, skip = {k} is written first)        *)
(*            cbv       a valid value for a callable-typed argument that   *)
(*                      returns class instances (class_path / init_args /  *)
(*                      nested keys; a subclass of the return type - its   *)
(*                      first k parameters are skipped, _typehints.py:1270 *)
(*                      - or a class whose INSTANCES are callable - none   *)
(*                      is skipped; no residue: the class parser is thrown *)
(*                      away and the skip count goes into a COPY of the    *)
(*                      action's dict, _typehints.py:639-641)              *)
(*            shtab     --print_shtab=<shell> (prints the completion       *)
(*                      script and exits 0; root parsers only)             *)
(*            cfg       --cfg <valid config> (nested parse_string/path)    *)
(*            cfgbad    --cfg <invalid config>                             *)
(*            sel       --<cls>=<class spec with init_args> (a valid       *)
(*                      option; what a later config would inherit from if  *)
(*                      previous_config leaked)                            *)
(*            dc1 dcn dcd   options of a DATACLASS-typed argument: one     *)
(*                      nested field, several nested fields, the whole     *)
(*                      group as a dict (valid options; since fix 9ea59ee  *)
(*                      nothing of them stays on the action,               *)
(*                      _typehints.py:1033-1036); cfgdc: --cfg <config     *)
(*                      that sets the dataclass group> (same as cfg);      *)
(*                      dg1 dgn: the same on a dataclass argument added    *)
(*                      with add_argument(type=Data), which is expanded    *)
(*                      into one plain option per field                    *)
(*            ncls      --<cls>.<init_arg>=v: parse_object of a throw-away *)
(*                      class parser (_typehints.py:1440), no residue      *)
(*   sub    "none" or the sub-command token; sitems its argv items         *)
(*   pre    "ok" | "fail": failure before the print point that is not an   *)
(*          argv item (bad object / string / environment value; for the    *)
(*          non-parse methods: the call raises)                            *)
(*   sel    sub-command key present in cfg at the print point ("none")     *)
(*   dumpf  "none" | "error" | "raise": the lenient dump of the print      *)
(*          point fails (KeyError/TypeError -> parser.error, other -> out) *)
(*   late   "ok" | "fail": links / validation after the print point fail   *)
(*   spec   parse_string / parse_path / parse_object: the configuration    *)
(*          holds a class spec for the class-typed key: "full", "short"    *)
(*          (init_args without class_path), "dc1" / "dcn" (one / several   *)
(*          fields of the dataclass-typed argument) or "none".  A hint for *)
(*          the concretisation; the Alg program is the same.               *)
(*   ser    dump only: some action.serialize runs (sets dump_kwargs); dkv  *)
(*          the code of the dump kwargs                                    *)
(*   hkey   a hint for the concretisation (which typed argument the help   *)
(*          request / the value is for; "any"); the Alg program is the same *)
(***************************************************************************)
ParseMethods == {"parse_args", "parse_object", "parse_string", "parse_path", "parse_env"}
Stoppers     == {"bad", "pcflag", "help", "clshelp", "cfgbad", "shtab"}
PrintDK      == "skip_none=False,skip_validation=False"     \* what the print point passes to dump (_actions.py:257,286)

ErrCh(o) == IF o.eoe THEN "exit2" ELSE "error"               \* parser.error: _core.py:1056-1068

FirstStop(its) == IF \E k \in 1..Len(its) : its[k] \in Stoppers
                  THEN CHOOSE k \in 1..Len(its) : its[k] \in Stoppers /\ \A j \in 1..(k - 1) : its[j] \notin Stoppers
                  ELSE 0
Completes(its) == FirstStop(its) = 0
HasBefore(its, x, k) == \E j \in 1..Len(its) : its[j] = x /\ (k = 0 \/ j < k)   \* x occurs (before position k)
StopOutcome(o, it) == IF it \in {"help", "clshelp"} THEN "exit0:help" ELSE IF it = "shtab" THEN "exit0:shtab" ELSE ErrCh(o)

(***************************************************************************)
(* Ref layer: the answer of a call on a fresh parser in a fresh process.   *)
(***************************************************************************)
\* is a request stored and still there when the print point of parse_args is reached
RefRequested(o) == o.m = "parse_args" /\ (HasBefore(o.items, "pc", 0) \/ (o.sub # "none" /\ HasBefore(o.sitems, "pc", 0)))
\* --cfg after --print_config (both before anything stops the loop): the nested parse of the config text reaches a
\* print point first; the answer is of the same class (the configuration is printed, exit 0)
IsCfg(x) == x \in {"cfg", "cfgdc"}
PcThenCfg(its, lim) == \E i \in 1..(lim - 1) : \E j \in (i + 1)..(lim - 1) : its[i] = "pc" /\ IsCfg(its[j])
RefOutcome(o) ==
  IF o.m \notin ParseMethods THEN (IF o.pre = "fail" THEN "raise" ELSE "return")
  ELSE IF o.pre = "fail" THEN ErrCh(o)
  ELSE IF o.m # "parse_args" THEN (IF o.late = "fail" THEN ErrCh(o) ELSE "return")
  ELSE LET k == FirstStop(o.items)  lim == IF k = 0 THEN Len(o.items) + 1 ELSE k IN
       IF PcThenCfg(o.items, lim) THEN "exit0:config"
       ELSE IF k > 0 THEN StopOutcome(o, o.items[k])
       ELSE IF o.sub # "none" /\ FirstStop(o.sitems) > 0 THEN StopOutcome(o, o.sitems[FirstStop(o.sitems)])
       ELSE IF o.sub # "none" /\ HasBefore(o.sitems, "unk", 0) THEN ErrCh(o)
       ELSE IF HasBefore(o.items, "unk", 0) THEN ErrCh(o)
       ELSE IF RefRequested(o) THEN (IF o.dumpf = "none" THEN "exit0:config" ELSE IF o.dumpf = "error" THEN ErrCh(o) ELSE "raise")
       ELSE IF o.late = "fail" THEN ErrCh(o) ELSE "return"

(***************************************************************************)
(* Alg layer: instructions                                                 *)
(***************************************************************************)
I(i, a, b, c, d) == [i |-> i, a |-> a, b |-> b, c |-> c, d |-> d]
Enter(v, x)  == I("enter", v, x, "", "")        \* manager that restores in finally (parser_context & co)
Leave        == I("leave", "", "", "", "")
SetU(v, x)   == I("set", v, x, "", "")          \* set WITHOUT reset
ReadU(v)     == I("read", v, "", "", "")        \* read of a set-without-reset variable / of parser.args
\* get_defaults() (_core.py:399 / :1008-1052).  Under ShtabResidue it fails: with channel ch when the default config file is
\* absent (TypeError from add_sub_defaults :1050), with channel chf when the file exists (argument_error "Problem in default
\* config file", :1037-1040, an ArgumentError raised whatever exit_on_error says; "" = the caller swallows it).  The parse
\* methods call get_defaults(skip_validation=True): the file is not validated there, they fail in add_sub_defaults either way.
Defaults(p, ch, chf) == I("defaults", p, ch, chf, "")
ReadM(v)     == I("readm", v, "", "", "")       \* read of a MANAGED variable outside every manager that sets it
Fail(ch)     == I("fail", ch, "", "", "")
Exit0(what)  == I("exit0", what, "", "", "")
Ret          == I("ret", "", "", "", "")
\* the print point: a = root parser, b = sub-command key in cfg, c = dump failure mode, d = channel of parser.error
PrintPt(p, sel, dumpf, ech) == I("print", p, sel, dumpf, ech)

SubName(p, s) == p \o "." \o s

\* add_sub_defaults: _core.py:371-373, _typehints.py:463-473 (three managers around _apply_actions)
SubDefaults == <<Enter("lenient_check", "true"), Enter("sub_defaults", "true"), Enter("parent_parsers", "none"),
                 Enter("parent_parser", "applying"), Leave, Leave, Leave, Leave>>

\* argv items of one parser (lvl = "root" or the sub-command name), _core.py:300-308 + the option actions
RECURSIVE Items(_, _, _, _)
Items(o, its, k, lvl) ==
  IF k > Len(its) THEN << >>
  ELSE LET it == its[k]  rest == Items(o, its, k + 1, lvl) IN
    CASE it = "pc"      -> <<I("request", o.p, IF lvl = "root" THEN "full" ELSE lvl, "", "")>> \o rest      \* _actions.py:256-268
      [] it = "pcflag"  -> <<Fail(ErrCh(o))>>                                                          \* _actions.py:262-264
      [] it = "bad"     -> <<Fail(ErrCh(o))>>                                                          \* ActionTypeHint.__call__ -> :307-308
      [] it = "cfgbad"  -> <<Enter("single_subcommand", "false"), Enter("previous_config", "cfg"), Enter("apply_config_skip", "true"),
                             Fail(ErrCh(o))>>                                                          \* _actions.py:191-205
      [] it = "help"    -> <<Exit0("help")>>                                                           \* argparse._HelpAction
      [] it = "shtab"   -> <<Enter("shtab_ctx", "shell"), I("shtabrun", o.p, "", "", ""), Exit0("shtab")>>     \* ShtabAction.__call__, _completions.py:98-109, :130
      [] it = "clshelp" -> <<ReadU("args:" \o (IF lvl = "root" THEN o.p ELSE SubName(o.p, lvl))),                   \* _actions.py:414-418
                             I("helpskip", o.hscope, o.hset, "", ""), Exit0("help")>>                                \* :409-411 skip written (callable type) / read (add_class_arguments(**self.sub_add_kwargs))
      [] IsCfg(it)      -> <<Enter("single_subcommand", "false"), Enter("previous_config", "cfg"), Enter("apply_config_skip", "true"),
                             Enter("load_value_mode", "mode"), Leave>>                                 \* _actions.py:191-205, _core.py:667-668
                           \o (IF lvl = "root" THEN <<PrintPt(o.p, "none", "none", ErrCh(o))>> ELSE << >>)         \* parse_string -> _parse_common:375
                           \o <<Leave, Leave, Leave>> \o rest
      [] it \in {"dc1", "dcn"} -> <<SetU("pk", "env=None,defaults=True"), SetU("sap", "inner")>> \o rest   \* a nested dataclass option is a parse_args of a
                                                                                                      \* throw-away class parser (_typehints.py:1045-1047): both variables keep ITS values
      [] OTHER          -> rest                                                                       \* ok / unk / sel / dcd: no residue, no manager

\* parse_known_args of parser `pn`: _core.py:299-310.  `after` is what follows when no item stops the loop.
Known(o, pn, its, lvl, after) ==
  <<Enter("argparse_ns", "patched"), Enter("parent_parser", pn), Enter("lenient_check", "true"), SetU("sap", pn)>>
  \o (IF its # << >> THEN <<ReadU("sap")>> ELSE << >>)                       \* _parse_optional -> parse_argv_item, _typehints.py:393-394
  \o Items(o, its, 1, lvl)
  \o (IF Completes(its) THEN after ELSE << >>)

\* _parse_common: _core.py:363-389
Common(o, pn, isRoot) ==
  (IF o.sel # "none" /\ isRoot THEN <<Enter("parent_parsers", "sub"), Leave>> ELSE << >>)              \* handle_subcommands :366-369
  \o SubDefaults
  \o (IF isRoot THEN <<PrintPt(o.p, o.sel, o.dumpf, ErrCh(o))>> ELSE << >>)                                       \* :375 (a sub-parser never holds a request)
  \o <<Enter("parent_parser", pn)>>                                                                   \* :377
  \o (IF ~isRoot THEN <<I("readpend", o.p, "", "", "")>> ELSE << >>)                                     \* apply_parsing_links: is_print_config_requested walks up
  \o (IF isRoot /\ o.late = "fail" THEN <<Fail(ErrCh(o))>> ELSE <<Leave>>)                            \* :378-384

\* the nested parse_args of the sub-command parser, started by _ActionSubCommands.__call__ (_actions.py:660-674)
SubCall(o) ==
  LET sp == SubName(o.p, o.sub) IN
  <<ReadU("pk"), I("args", sp, o.stag, "", ""), I("rewrite", "pk", "", "", "")>>                               \* :673 reads parse_kwargs; sub parse_args :447,:454
  \o Known(o, sp, o.sitems, o.sub,
           <<Leave, Leave, Leave>>
           \o (IF HasBefore(o.sitems, "unk", 0) THEN <<Fail(ErrCh(o))>> ELSE Common(o, sp, FALSE)))

ParseArgs(o) ==
  (IF ClearOnError THEN <<I("guard", o.p, "", "", "")>> ELSE << >>)                                       \* fix 9a553c5: try/finally around the body (:449-473)
  \o <<I("shtab", o.p, "", "", ""), I("args", o.p, o.tag, "", "")>>                                           \* :439, :447
  \o (IF o.pre = "fail" THEN <<Enter("load_value_mode", "mode"), Fail(ErrCh(o))>>                      \* :404-405 bad environment value
      ELSE <<Defaults(o.p, ErrCh(o), ErrCh(o)), SetU("pk", o.kw)>>                                              \* :450, :454
           \o Known(o, o.p, o.items, "root",
                    (IF o.sub # "none" THEN SubCall(o) ELSE << >>)
                    \o (IF o.sub # "none" /\ (~Completes(o.sitems) \/ HasBefore(o.sitems, "unk", 0)) THEN << >>
                        ELSE <<Leave, Leave, Leave>>
                             \o (IF HasBefore(o.items, "unk", 0) THEN <<Fail(ErrCh(o))>>                \* :457-458
                                 ELSE Common(o, o.p, TRUE) \o (IF ClearOnError THEN <<Leave>> ELSE << >>) \o <<Ret>>))))

\* parse_string (:666-687): the text is loaded under load_value_mode and applied against previous_config.get() (:668) -
\* a managed variable that only ActionConfigFile.apply_config sets (_actions.py:191-193, 224-230), read here OUTSIDE it;
\* parse_path (:620-631) is parse_string inside change_to_path_dir; parse_env (:576) and parse_object (:504-506) likewise
ParseOther(o) ==
  (IF o.m = "parse_path" THEN <<Enter("cwd", "cfgdir")>> ELSE << >>)                                                                 \* :621 change_to_path_dir(fpath)
  \o (IF o.m \in {"parse_string", "parse_path"} THEN <<Enter("load_value_mode", "mode"), ReadM("previous_config")>>                   \* :667-668
                                                      \o (IF o.pre = "fail" THEN <<Fail(ErrCh(o))>> ELSE <<Leave, Defaults(o.p, ErrCh(o), ErrCh(o))>>)   \* :671
      ELSE IF o.m = "parse_env" THEN <<Defaults(o.p, ErrCh(o), ErrCh(o)), Enter("load_value_mode", "mode")>>                                     \* :576 -> :399, :404-405
                                     \o (IF o.pre = "fail" THEN <<Fail(ErrCh(o))>> ELSE <<Leave>>)
      ELSE <<Defaults(o.p, ErrCh(o), ErrCh(o)), Enter("parent_parser", o.p), Enter("lenient_check", "true")>>                                   \* :500; _apply_actions :1371-1372
           \o (IF o.pre = "fail" THEN <<Fail(ErrCh(o))>> ELSE <<Leave, Leave>>))
  \o (IF o.pre = "fail" THEN << >>
      ELSE <<Enter("parent_parser", o.p), Leave>>                                                                                     \* merge_config :1393
           \o Common(o, o.p, TRUE) \o (IF o.m = "parse_path" THEN <<Leave>> ELSE << >>) \o <<Ret>>)      \* a late failure unwinds the cwd manager too

NonParse(o) ==
  CASE o.m = "get_defaults" -> <<Defaults(o.p, "raise", "error")>> \o SubDefaults \o <<Ret>>                                                  \* :1008-1052 (no default config files)
    [] o.m = "validate"     -> <<Enter("load_value_mode", "mode")>> \o (IF o.pre = "fail" THEN <<Fail("raise")>> ELSE <<Leave, Ret>>)   \* :1145-1155
    [] o.m = "dump"         -> <<Enter("load_value_mode", "mode"), Enter("load_value_mode", "mode")>>                                   \* :790, :1146
                               \o (IF o.pre = "fail" THEN <<Fail("raise")>>
                                   ELSE <<Leave, Enter("parent_parser", o.p)>> \o (IF o.ser THEN <<SetU("dk", o.dkv)>> ELSE << >>)       \* :827-832, _typehints.py:497-499
                                        \o <<Leave, Leave, Enter("parent_parser", o.p), Leave, Ret>>)                                   \* :805-806
    [] o.m = "instantiate_classes" -> <<Enter("parent_parser", o.p), Enter("nested_links", "links"), Enter("class_instantiators", "inst")>>   \* :1240-1245
                                      \o (IF o.pre = "fail" THEN <<Fail("raise")>> ELSE <<Leave, Leave, Leave, Ret>>)
    [] o.m = "format_help"  -> <<Defaults(o.p, "raise", "")>> \o SubDefaults \o <<Enter("parent_parser", o.p), Enter("defaults_cache", "defaults"), Leave, Leave, Ret>>   \* :1296-1313: get_defaults() of the CURRENT file, shown through defaults_cache
    [] o.m = "environment"  -> <<I("file", o.p, o.file, "", ""), Ret>>                                  \* the default config file is written / edited / removed
    [] OTHER -> <<Ret>>

Prog(o) == IF o.m = "parse_args" THEN ParseArgs(o) ELSE IF o.m \in ParseMethods THEN ParseOther(o) ELSE NonParse(o)

(***************************************************************************)
(* Alg layer: machine state and the step function                          *)
(***************************************************************************)
ManagedVars == {"parent_parser", "lenient_check", "load_value_mode", "argparse_ns", "sub_defaults", "parent_parsers", "defaults_cache", "shtab_ctx",
                "single_subcommand", "previous_config", "apply_config_skip", "nested_links", "class_instantiators", "cwd"}
Ctx0 == [v \in ManagedVars |->
           CASE v = "parent_parser" -> "none" [] v = "lenient_check" -> "false" [] v = "load_value_mode" -> "none"
             [] v = "argparse_ns" -> "std" [] v = "sub_defaults" -> "false" [] v = "parent_parsers" -> "empty"
             [] v = "single_subcommand" -> "true" [] v = "previous_config" -> "none" [] v = "apply_config_skip" -> "false"
             [] v = "nested_links" -> "empty" [] v = "class_instantiators" -> "none" [] v = "defaults_cache" -> "none"
             [] v = "shtab_ctx" -> "none" [] OTHER -> "cwd0"]

HelpScopes == {"shared", "own1", "own2"}
Res0(roots, names) == [hskip |-> [s \in HelpScopes |-> "unset"], pending |-> [p \in roots |-> "none"], args |-> [q \in names |-> "unset"], shtab |-> [p \in roots |-> "no"], dcf |-> [p \in roots |-> "absent"],
                       pk |-> "unset", sap |-> "unset", dk |-> "unset"]

Start(o, res) == [res |-> res, ctx |-> Ctx0, prog |-> Prog(o), frames |-> << >>, mode |-> "run", out |-> "-",
                  wr |-> {}, stale |-> FALSE, dev |-> FALSE]
Idle(res)     == [res |-> res, ctx |-> Ctx0, prog |-> << >>, frames |-> << >>, mode |-> "idle", out |-> "-", wr |-> {}, stale |-> FALSE, dev |-> FALSE]

Raise(st, out) == [st EXCEPT !.prog = << >>, !.out = out, !.mode = IF st.frames = << >> THEN "done" ELSE "unwind"]

\* print_config_if_requested, _actions.py:280-290, as micro-instructions (ins.d = channel of parser.error for this parser)
PrintExpansion(ins, pend) ==
  <<I("pc_pop", ins.a, "", "", ""),                                  \* :283-284  pop("key"), pop("subparser")
    I("pc_key", ins.a, pend, ins.b, ins.d),                          \* :285-286  cfg = cfg[key]  (KeyError -> parse_*'s except -> parser.error)
    Enter("lenient_check", "true"),                                  \* :287
    I("pc_dump", ins.c, "", "", ins.d),                              \* :288      subparser.dump(cfg, **parser.print_config)
    Leave,
    I("pc_del", ins.a, "", "", ""),                                  \* :289      delattr(parser, "print_config")
    Exit0("config")>>                                                \* :290      parser.exit()

StepFn(st) ==
  IF st.mode = "unwind" THEN                                         \* an exception / SystemExit travels up: every finally runs
     LET f == st.frames[Len(st.frames)]  fr == SubSeq(st.frames, 1, Len(st.frames) - 1) IN
     [st EXCEPT !.frames = fr,
                !.ctx = IF f.k = "ctx" THEN [st.ctx EXCEPT ![f.v] = f.old] ELSE st.ctx,
                !.res = IF f.k = "pend" THEN [st.res EXCEPT !.pending[f.v] = "none"] ELSE st.res,
                !.mode = IF fr = << >> THEN "done" ELSE "unwind"]
  ELSE
  LET ins == Head(st.prog)  nx == [st EXCEPT !.prog = Tail(st.prog)] IN
  CASE ins.i = "enter"   -> [nx EXCEPT !.frames = Append(st.frames, [k |-> "ctx", v |-> ins.a, old |-> st.ctx[ins.a]]), !.ctx[ins.a] = ins.b]
    [] ins.i = "guard"   -> [nx EXCEPT !.frames = Append(st.frames, [k |-> "pend", v |-> ins.a, old |-> "-"])]
    [] ins.i = "leave"   -> LET f == st.frames[Len(st.frames)] IN
                            [nx EXCEPT !.frames = SubSeq(st.frames, 1, Len(st.frames) - 1),
                                       !.ctx = IF f.k = "ctx" THEN [st.ctx EXCEPT ![f.v] = f.old] ELSE st.ctx,
                                       !.res = IF f.k = "pend" THEN [st.res EXCEPT !.pending[f.v] = "none"] ELSE st.res]
    [] ins.i = "set"     -> [nx EXCEPT !.res = [st.res EXCEPT ![ins.a] = ins.b], !.wr = st.wr \cup {ins.a}]
    [] ins.i = "rewrite" -> [nx EXCEPT !.wr = st.wr \cup {ins.a}]                               \* writes back the value just read
    [] ins.i = "read"    -> [nx EXCEPT !.stale = st.stale \/ ins.a \notin st.wr]                \* reading what an EARLIER call left = history dependence
    [] ins.i = "readm"   -> [nx EXCEPT !.stale = st.stale \/ st.ctx[ins.a] # Ctx0[ins.a]]          \* a managed variable must be back at its initial value here
    [] ins.i = "args"    -> [nx EXCEPT !.res.args[ins.a] = ins.b, !.wr = st.wr \cup {"args:" \o ins.a}]
    [] ins.i = "shtab"   -> IF st.res.shtab[ins.a] = "broken" THEN Raise(st, "error")                    \* handle_completions :39-41: add_argument raises argparse.ArgumentError
                            ELSE [nx EXCEPT !.res.shtab[ins.a] = "added"]                           \*   ("conflicting option string"), outside every handler: never an exit
    [] ins.i = "shtabrun" -> [nx EXCEPT !.res.shtab[ins.a] = "broken"]                              \* :130 remove_actions(parser, (ShtabAction,))
    [] ins.i = "file"    -> [nx EXCEPT !.res.dcf[ins.a] = ins.b]
    [] ins.i = "defaults" -> IF st.res.shtab[ins.a] = "broken" /\ ins.a \in ShtabBreaksDefaults                        \* add_sub_defaults / the file's validation trip over the appended actions
                             THEN (IF st.res.dcf[ins.a] = "absent" THEN Raise(st, ins.b) ELSE IF ins.c = "" THEN nx ELSE Raise(st, ins.c))
                             ELSE nx
    [] ins.i = "helpskip" -> IF ins.b # "-" THEN [nx EXCEPT !.res.hskip[ins.a] = ins.b]          \* callable type: self.sub_add_kwargs["skip"] = {k}, then used
                             ELSE [nx EXCEPT !.dev = st.dev \/ st.res.hskip[ins.a] # "unset"]    \* class type: whatever an EARLIER help request left is passed to add_class_arguments
    [] ins.i = "request" -> [nx EXCEPT !.res.pending[ins.a] = ins.b]
    [] ins.i = "readpend" -> nx                                                               \* only changes which links are applied below a sub-command
    [] ins.i = "fail"    -> Raise(st, ins.a)
    [] ins.i = "exit0"   -> Raise(st, "exit0:" \o ins.a)
    [] ins.i = "ret"     -> [nx EXCEPT !.out = "return", !.mode = "done"]
    [] ins.i = "print"   -> LET pend == st.res.pending[ins.a] IN
                            IF pend = "none" THEN nx                                           \* :282 no attribute: nothing happens
                            ELSE IF pend = "popped" THEN Raise(st, ins.d)                      \* :283 KeyError('key') -> parser.error
                            ELSE [st EXCEPT !.prog = PrintExpansion(ins, pend) \o Tail(st.prog)]
    [] ins.i = "pc_pop"  -> [nx EXCEPT !.res.pending[ins.a] = "popped"]
    [] ins.i = "pc_key"  -> IF ins.b = "full" \/ ins.b = ins.c THEN nx ELSE Raise(st, ins.d)
    [] ins.i = "pc_dump" -> IF ins.a = "none" THEN [nx EXCEPT !.res.dk = PrintDK, !.wr = st.wr \cup {"dk"}]
                            ELSE IF ins.a = "error" THEN Raise(st, ins.d) ELSE Raise(st, "raise")
    [] ins.i = "pc_del"  -> [nx EXCEPT !.res.pending[ins.a] = "none"]

RECURSIVE RunFrom(_)
RunFrom(st) == IF st.mode = "done" THEN st ELSE RunFrom(StepFn(st))
\* a whole call, from residue `res`: final machine state (fields res, out, ctx, frames, stale)
AlgRun(o, res) == RunFrom(Start(o, res))
AlgOutcome(o, res) == AlgRun(o, res).out

\* the named deviation of the pinned tree: a request is pending on the root parser the call is made on
PendingResidue(o, res) == res.pending[o.p] # "none"
\* the named deviation of the current tree: --print_shtab=<shell> was run on the root parser; every later parse_args fails
\* and, on a parser of ShtabBreaksDefaults, so does everything that computes the defaults
ShtabResidue(o, res) == /\ res.shtab[o.p] = "broken"
                        /\ \/ o.m = "parse_args"
                           \/ o.p \in ShtabBreaksDefaults /\ o.m \in {"parse_object", "parse_string", "parse_path", "parse_env", "get_defaults"}
                           \/ o.p \in ShtabBreaksDefaults /\ o.m = "format_help" /\ res.dcf[o.p] = "absent"     \* with a file format_help swallows the ArgumentError (:1307)
\* the third named deviation: the call prints the class help of a CLASS-typed argument whose help action uses a dict in
\* which an earlier help request for a callable-typed argument left skip = {k}: the help text lacks the first k parameters
\* (the answer class is unchanged: the help is printed, exit 0)
ReachesClsHelp(o) == /\ o.m = "parse_args" /\ o.pre = "ok"
                     /\ LET k == FirstStop(o.items)  lim == IF k = 0 THEN Len(o.items) + 1 ELSE k IN
                        /\ ~PcThenCfg(o.items, lim)
                        /\ \/ k > 0 /\ o.items[k] = "clshelp"
                           \/ k = 0 /\ o.sub # "none" /\ FirstStop(o.sitems) > 0 /\ o.sitems[FirstStop(o.sitems)] = "clshelp"
HelpSkipResidue(o, res) == ReachesClsHelp(o) /\ o.hset = "-" /\ res.hskip[o.hscope] # "unset"
=============================================================================
