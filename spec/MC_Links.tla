------------------------------ MODULE MC_Links ------------------------------
(* Bounded instances of Links.tla, part A (DirectedGraph).                                              *)
(*   mask mode  every digraph on the nodes 1..N (every subset of the N*N or N*(N-1) ordered pairs),      *)
(*              each with the edge insertion orders of Variants                                         *)
(*   seq  mode  every injective sequence of edges over the pairs of 1..N (every insertion order)        *)
(* The initial states only split the space so that all workers share the enumeration.                   *)
EXTENDS Links, Json
CONSTANTS N,          \* nodes 1..N
          SelfLoops,  \* TRUE: pairs <<n, n>> included
          Emit,       \* TRUE: print every case with the outcome the specification predicts
          SeqMode     \* TRUE: the configuration uses InitSeq / NextSeq

PairSet == {p \in (1..N) \X (1..N) : SelfLoops \/ p[1] # p[2]}
\* the pairs in lexicographic order; bit e-1 of a mask stands for Pairs[e]
Pairs == LET Rank(p) == Cardinality({q \in PairSet : q[1] < p[1] \/ (q[1] = p[1] /\ q[2] < p[2])}) IN
         [e \in 1..Cardinality(PairSet) |-> CHOOSE p \in PairSet : Rank(p) = e - 1]
NP     == Len(Pairs)
LoBits == NP \div 2
HiBits == NP - LoBits
Bit(m, e) == (m \div (2 ^ (e - 1))) % 2 = 1
EdgesOfMask(m) == LET K(p) == Bit(m, Index(Pairs, p)) IN SelectSeq(Pairs, K)

\* ------------------------------------------------------------------ insertion orders derived from a sequence
Rev(s)      == [i \in DOMAIN s |-> s[Len(s) + 1 - i]]
Rot(s)      == LET h == Len(s) \div 2 IN SubSeq(s, h + 1, Len(s)) \o SubSeq(s, 1, h)
EvenOdd(s)  == LET Ev(i) == i % 2 = 0
                   Od(i) == i % 2 = 1
                   idx   == [i \in DOMAIN s |-> i]
                   pick  == SelectSeq(idx, Ev) \o SelectSeq(idx, Od)
               IN [i \in DOMAIN s |-> s[pick[i]]]
Variants(s) == <<s, Rev(s), Rot(s), EvenOdd(s)>>

\* outs = the outcome of the algorithm for each insertion order of Variants(es), computed once when the case
\* state is created
VARIABLES phase, hi, es, gs, outs          \* gs = the graph structure built for each insertion order
vars == <<phase, hi, es, gs, outs>>

InitMask == phase = "seed" /\ hi \in 0..(2 ^ HiBits - 1) /\ es = << >> /\ gs = << >> /\ outs = << >>
NextMask == /\ phase = "seed" /\ phase' = "case" /\ UNCHANGED hi
            /\ \E lo \in 0..(2 ^ LoBits - 1) : es' = EdgesOfMask(hi * (2 ^ LoBits) + lo)
            /\ gs' = [v \in 1..4 |-> BuildGraph(Variants(es')[v])]
            /\ outs' = [v \in 1..4 |-> TopologicalOrder(gs'[v])]

RECURSIVE InjSeqs(_)
InjSeqs(S) == {<< >>} \cup UNION {{<<x>> \o s : s \in InjSeqs(S \ {x})} : x \in S}
InitSeq == phase = "seed" /\ hi \in 1..NP /\ es = << >> /\ gs = << >> /\ outs = << >>
NextSeq == /\ phase = "seed" /\ phase' = "case" /\ UNCHANGED hi
           /\ \E s \in InjSeqs(PairSet \ {Pairs[hi]}) : es' = <<Pairs[hi]>> \o s
           /\ gs' = [v \in 1..4 |-> BuildGraph(Variants(es')[v])]
           /\ outs' = [v \in 1..4 |-> TopologicalOrder(gs'[v])]

\* ------------------------------------------------------------------ invariants (on the case states)
Case == phase = "case"
\* C16 (a), design level: the algorithm raises iff the graph is cyclic, and otherwise returns a topological
\* order that is a permutation of the nodes -- for every insertion order tried
AlgRefinesRef == Case => LET E == EdgeSet(es) IN
                   IF Cyclic(E) THEN \A v \in 1..4 : outs[v].raised
                   ELSE \A v \in 1..4 : ~outs[v].raised /\ IsPermOf(outs[v].order, NodesOf(E)) /\ IsTopo(outs[v].order, E)
\* (the same statement through the operator the trace specification uses)
AlgRefinesRefOp == Case => RefGraphOK(es, outs[1])
\* the built structure represents exactly the edge set, whatever the insertion order
GraphRepresents == Case => LET E == EdgeSet(es) IN \A v \in 1..4 :
                     GraphWellFormed(gs[v]) /\ GraphEdges(gs[v]) = E /\ Range(gs[v].nodes) = NodesOf(E)
\* sanity of the Ref layer: two definitions of "cyclic" agree, and acyclic = some permutation is a topological order
Perms(S) == {s \in InjSeqs(S) : Len(s) = Cardinality(S)}
PermsOf == [S \in SUBSET (1..N) |-> IF N <= 4 THEN Perms(S) ELSE {}]        \* evaluated once
RefLaws == Case => LET E == EdgeSet(es) IN
             /\ Cyclic(E) = CyclicTC(E)
             /\ (N <= 4 => (~Cyclic(E) <=> \E o \in PermsOf[NodesOf(E)] : IsTopo(o, E)))
             /\ \A v \in 2..4 : EdgeSet(Variants(es)[v]) = E

\* ------------------------------------------------------------------ emission (spec -> code)
RECURSIVE Digits(_, _)
Digits(s, i) == IF i > Len(s) THEN "" ELSE ToString(s[i]) \o Digits(s, i + 1)
OutStr(r) == IF r.raised THEN "!" ELSE "o" \o Digits(r.order, 1)
EdgeStr(s) == Digits([i \in DOMAIN s |-> 10 * s[i][1] + s[i][2]], 1)
\* (TLC wraps printed values at 80 columns: in mask mode the graph is printed as its mask, bit e-1 = Pairs[e])
RECURSIVE MaskOf(_, _)
MaskOf(s, i) == IF i > Len(s) THEN 0 ELSE 2 ^ (Index(Pairs, s[i]) - 1) + MaskOf(s, i + 1)
EmitCase == (Case /\ Emit) =>
  PrintT(<<"G", IF SeqMode THEN EdgeStr(es) ELSE "m" \o ToString(MaskOf(es, 1)), IF Cyclic(EdgeSet(es)) THEN "c" ELSE "d",
           OutStr(outs[1]), OutStr(outs[2]), OutStr(outs[3]), OutStr(outs[4])>>)
\* number of seed states of the two modes, and the insertion orders of a probe (cross-checked by the harness)
Probe == <<<<1, 2>>, <<2, 3>>, <<3, 1>>, <<1, 3>>, <<2, 1>>>>
ASSUME PrintT(<<"SEEDS", IF SeqMode THEN NP ELSE 2 ^ HiBits>>)
ASSUME PrintT(<<"P", EdgeStr(Pairs)>>)
ASSUME PrintT(<<"V", EdgeStr(Variants(Probe)[1]), EdgeStr(Variants(Probe)[2]), EdgeStr(Variants(Probe)[3]), EdgeStr(Variants(Probe)[4])>>)
=============================================================================
