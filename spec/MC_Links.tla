------------------------------ MODULE MC_Links ------------------------------
(* Bounded instances of Links.tla, part A (DirectedGraph).                                              *)
(*   mask mode  every digraph on the nodes 1..N (every subset of the N*N or N*(N-1) ordered pairs),      *)
(*              each with the edge insertion orders of Variants                                         *)
(*   seq  mode  every injective sequence of edges over the pairs of 1..N (every insertion order)        *)
(* The initial states only split the space so that all workers share the enumeration.                   *)
EXTENDS Links, Json
CONSTANTS N,          \* nodes 1..N
          SelfLoops,  \* TRUE: pairs <<n, n>> included
          Emit,       \* TRUE: print every case with the outcome the specification predicts
          SeqMode     \* TRUE: the configuration uses InitSeq / NextSeq

PairSet == {p \in (1..N) \X (1..N) : SelfLoops \/ p[1] # p[2]}
\* the pairs in lexicographic order; bit e-1 of a mask stands for Pairs[e]
Pairs == LET Rank(p) == Cardinality({q \in PairSet : q[1] < p[1] \/ (q[1] = p[1] /\ q[2] < p[2])}) IN
         [e \in 1..Cardinality(PairSet) |-> CHOOSE p \in PairSet : Rank(p) = e - 1]
NP     == Len(Pairs)
LoBits == NP \div 2
HiBits == NP - LoBits
Bit(m, e) == (m \div (2 ^ (e - 1))) % 2 = 1
EdgesOfMask(m) == LET K(p) == Bit(m, Index(Pairs, p)) IN SelectSeq(Pairs, K)

VARIABLES phase, hi, es
vars == <<phase, hi, es>>

InitMask == phase = "seed" /\ hi \in 0..(2 ^ HiBits - 1) /\ es = << >>
NextMask == /\ phase = "seed" /\ phase' = "case" /\ UNCHANGED hi
            /\ \E lo \in 0..(2 ^ LoBits - 1) : es' = EdgesOfMask(hi * (2 ^ LoBits) + lo)

RECURSIVE InjSeqs(_)
InjSeqs(S) == {<< >>} \cup UNION {{<<x>> \o s : s \in InjSeqs(S \ {x})} : x \in S}
InitSeq == phase = "seed" /\ hi \in 1..NP /\ es = << >>
NextSeq == /\ phase = "seed" /\ phase' = "case" /\ UNCHANGED hi
           /\ \E s \in InjSeqs(PairSet \ {Pairs[hi]}) : es' = <<Pairs[hi]>> \o s

\* ------------------------------------------------------------------ insertion orders derived from a sequence
Rev(s)      == [i \in DOMAIN s |-> s[Len(s) + 1 - i]]
Rot(s)      == LET h == Len(s) \div 2 IN SubSeq(s, h + 1, Len(s)) \o SubSeq(s, 1, h)
EvenOdd(s)  == LET Ev(i) == i % 2 = 0
                   Od(i) == i % 2 = 1
                   idx   == [i \in DOMAIN s |-> i]
                   pick  == SelectSeq(idx, Ev) \o SelectSeq(idx, Od)
               IN [i \in DOMAIN s |-> s[pick[i]]]
Variants(s) == <<s, Rev(s), Rot(s), EvenOdd(s)>>

\* ------------------------------------------------------------------ invariants (on the case states)
Case == phase = "case"
\* C16 (a), design level: the algorithm raises iff the graph is cyclic, and otherwise returns a topological
\* order that is a permutation of the nodes -- for every insertion order tried
AlgRefinesRef == Case => \A v \in DOMAIN Variants(es) : RefGraphOK(Variants(es)[v], AlgGraphRun(Variants(es)[v]))
\* the built structure represents exactly the edge set, whatever the insertion order
GraphRepresents == Case => \A v \in DOMAIN Variants(es) :
                     LET g == BuildGraph(Variants(es)[v]) IN GraphWellFormed(g) /\ GraphEdges(g) = EdgeSet(es)
                                                            /\ Range(g.nodes) = NodesOf(EdgeSet(es))
\* sanity of the Ref layer: two definitions of "cyclic" agree, and acyclic = some permutation is a topological order
Perms(S) == {s \in InjSeqs(S) : Len(s) = Cardinality(S)}
RefLaws == Case => LET E == EdgeSet(es) IN
             /\ Cyclic(E) = CyclicTC(E)
             /\ (N <= 4 => (~Cyclic(E) <=> \E o \in Perms(NodesOf(E)) : IsTopo(o, E)))
             /\ \A v \in DOMAIN Variants(es) : EdgeSet(Variants(es)[v]) = E

\* ------------------------------------------------------------------ emission (spec -> code)
RECURSIVE Digits(_, _)
Digits(s, i) == IF i > Len(s) THEN "" ELSE ToString(s[i]) \o Digits(s, i + 1)
OutStr(s) == LET r == AlgGraphRun(s) IN IF r.raised THEN "!" ELSE "o" \o Digits(r.order, 1)
EdgeStr(s) == Digits([i \in DOMAIN s |-> 10 * s[i][1] + s[i][2]], 1)
EmitCase == (Case /\ Emit) =>
  PrintT(<<"G", EdgeStr(es), IF Cyclic(EdgeSet(es)) THEN "cyclic" ELSE "dag",
           OutStr(Variants(es)[1]), OutStr(Variants(es)[2]), OutStr(Variants(es)[3]), OutStr(Variants(es)[4])>>)
\* number of seed states of the two modes, and the insertion orders of a probe (cross-checked by the harness)
Probe == <<<<1, 2>>, <<2, 3>>, <<3, 1>>, <<1, 3>>, <<2, 1>>>>
ASSUME PrintT(<<"SEEDS", IF SeqMode THEN NP ELSE 2 ^ HiBits>>)
ASSUME PrintT(<<"V", EdgeStr(Variants(Probe)[1]), EdgeStr(Variants(Probe)[2]), EdgeStr(Variants(Probe)[3]), EdgeStr(Variants(Probe)[4])>>)
=============================================================================
