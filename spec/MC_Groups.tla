------------------------------ MODULE MC_Groups ------------------------------
(* Bounded instance of Groups.tla: field lists of 1-2 fields over the five kinds (with / without default) x inputs *)
(* of up to MaxItems items through each channel, valid and invalid.                                              *)
EXTENDS Groups, Json, SequencesExt
CONSTANTS MaxItems, Emit

Fd(n, k, d) == [name |-> n, kind |-> k, hasdef |-> d]
AllFields == <<Fd("a", "int", FALSE), Fd("b", "int", TRUE), Fd("s", "str", TRUE), Fd("l", "list", TRUE), Fd("o", "optint", FALSE), Fd("ol", "optlist", FALSE), Fd("r", "str", FALSE)>>
FieldLists == {<<AllFields[i]>> : i \in 1..Len(AllFields)} \cup {p \in {<<AllFields[i], AllFields[j]>> : i, j \in 1..Len(AllFields)} : p[1] # p[2]}
IsList(k) == k \in {"list", "optlist"}
ValueFor(fd, tag) == IF IsList(fd.kind) THEN <<tag, tag + 1>> ELSE <<tag>>
It(op, f, v, gv, bad) == [op |-> op, f |-> f, v |-> v, gv |-> gv, bad |-> bad]
ItemsFor(fields, tag) ==
  UNION {LET fd == fields[j] IN
           {It("set", fd.name, ValueFor(fd, tag), << >>, FALSE), It("group", fd.name, << >>, << <<fd.name, ValueFor(fd, tag)>> >>, FALSE)}
           \cup (IF fd.kind # "str" THEN {It("set", fd.name, ValueFor(fd, tag), << >>, TRUE)} ELSE {})      \* every text is a valid str
           \cup (IF IsList(fd.kind) THEN {It("app", fd.name, <<tag>>, << >>, FALSE)} ELSE {})
           \cup (IF fd.kind \in {"optint", "optlist"} THEN {It("set", fd.name, NoneV, << >>, FALSE)} ELSE {})
         : j \in 1..Len(fields)}
  \cup (IF Len(fields) = 2 THEN {It("group", fields[1].name, << >>, << <<fields[1].name, ValueFor(fields[1], tag)>>, <<fields[2].name, ValueFor(fields[2], tag)>> >>, FALSE)} ELSE {})
RECURSIVE Seqs(_, _, _)
Seqs(fields, n, from) == IF n = 0 THEN {<< >>} ELSE {<<it>> \o r : it \in ItemsFor(fields, 10 * from), r \in Seqs(fields, n - 1, from + 1)}
\* only the command line orders its items; the other channels carry at most one item per field (and "app" needs argv or cfg)
FieldsOf(it) == IF it.op = "group" THEN {it.gv[k][1] : k \in 1..Len(it.gv)} ELSE {it.f}
Distinct(items) == \A i, j \in 1..Len(items) : i # j => FieldsOf(items[i]) \cap FieldsOf(items[j]) = {}
OkFor(ch, its) == ch = "argv" \/ (/\ Distinct(its)
                                   /\ (ch \in {"env", "obj"} => \A j \in 1..Len(its) : its[j].op # "app")
                                   /\ (ch = "env" => Cardinality({j \in 1..Len(its) : its[j].op = "group"}) <= 1))    \* there is one APP_G variable

VARIABLES fields, chan, items, st
vars == <<fields, chan, items, st>>
Init == fields \in FieldLists /\ chan = "argv" /\ items = << >> /\ st = 0
Pick == st = 0 /\ st' = 1 /\ UNCHANGED fields
        /\ \E c \in {"argv", "cfg", "env", "obj"} : chan' = c
        /\ \E n \in 0..MaxItems : \E q \in Seqs(fields, n, 1) : items' = q
Next == Pick
Spec == Init /\ [][Next]_vars
Done == st = 1 /\ OkFor(chan, items)

\* C07 at design level: every style yields the one outcome -- except the recorded deviation of the dotted style
StylesAgree == Done => \A sty \in Styles : ~DottedNoWholeGroup(sty, chan, items) => AlgOutcome(sty, chan, fields, items) = Outcome(fields, items)
\* Optional fields are never required
OptionalNeverRequired == (Done /\ items = << >>) => (Outcome(fields, items).ok <=> \A j \in 1..Len(fields) : fields[j].hasdef \/ fields[j].kind \in {"optint", "optlist"})
EmitCase == (Emit /\ Done) => PrintT(ToJson([fields |-> fields, chan |-> chan, items |-> items, ref |-> Outcome(fields, items),
                                             dotted |-> AlgOutcome("dotted", chan, fields, items), dev |-> DottedNoWholeGroup("dotted", chan, items)]))
=============================================================================
