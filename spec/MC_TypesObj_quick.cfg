SPECIFICATION ObjSpec
CONSTANTS
  Tier = "quick"
  Emit = "all"
  Laws = "c02"
INVARIANT ObjInv
CHECK_DEADLOCK FALSE
