INIT Init
NEXT Next
CONSTANTS
  MaxItems = 3
  PairItems = 2
  OptItems = 2
  Wide = TRUE
  Emit = TRUE
INVARIANT ParseRefinesRef
INVARIANT DumpRefinesRef
INVARIANT DeviationExact
INVARIANT ReparseRefinesRef
INVARIANT SaveRefinesRef
INVARIANT HistRefinesRef
INVARIANT SkipDefaultRefinesRef
INVARIANT ApDeviationExact
INVARIANT SubEnvDeviationExact
INVARIANT DcfDeviationExact
INVARIANT NoneIsAValue
INVARIANT TargetsFunctionOfSources
INVARIANT CreationRefinesRef
INVARIANT EmitCase
CHECK_DEADLOCK FALSE
