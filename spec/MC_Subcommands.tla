--------------------------- MODULE MC_Subcommands ---------------------------
(* Bounded instances of Subcommands.tla: three trees (one level with three sub-commands; two levels; three levels   *)
(* with optional levels) x every input that names, omits or gives settings for several sub-commands.               *)
EXTENDS Subcommands, Json, SequencesExt
CONSTANTS Tree,      \* "T1" | "T2" | "T3"
          EnvFull,   \* TRUE: every subset of *_X variables; FALSE: none or all
          WithDcf,   \* TRUE: the config may also be delivered as a default config file of the root parser
          AoptFull,  \* TRUE: every subset of levels gives --x on the command line; FALSE: none or all
          Emit

Node(req, ch) == [req |-> req, ch |-> ch]
T1 == (<< >> :> Node(TRUE, <<"a", "b", "c">>)) @@ (<<"a">> :> Node(FALSE, << >>)) @@ (<<"b">> :> Node(FALSE, << >>)) @@ (<<"c">> :> Node(FALSE, << >>))
T2 == (<< >> :> Node(TRUE, <<"a", "b">>)) @@ (<<"a">> :> Node(TRUE, <<"c", "d">>)) @@ (<<"b">> :> Node(FALSE, << >>))
      @@ (<<"a", "c">> :> Node(FALSE, << >>)) @@ (<<"a", "d">> :> Node(FALSE, << >>))
T3 == (<< >> :> Node(FALSE, <<"a", "b">>)) @@ (<<"a">> :> Node(FALSE, <<"c", "d">>)) @@ (<<"b">> :> Node(FALSE, << >>))
      @@ (<<"a", "c">> :> Node(TRUE, <<"e", "f">>)) @@ (<<"a", "d">> :> Node(FALSE, << >>))
      @@ (<<"a", "c", "e">> :> Node(FALSE, << >>)) @@ (<<"a", "c", "f">> :> Node(FALSE, << >>))
T == CASE Tree = "T1" -> T1 [] Tree = "T2" -> T2 [] Tree = "T3" -> T3

Paths == DOMAIN T
Inner == {p \in Paths : T[p].ch # << >>}
ChoiceSet(p) == {T[p].ch[j] : j \in 1..Len(T[p].ch)}
PrefixClosed(S) == \A p \in S : Len(p) <= 1 \/ SubSeq(p, 1, Len(p) - 1) \in S
Sels == {f \in [Inner -> {None} \cup UNION {ChoiceSet(p) : p \in Inner}] : \A p \in Inner : f[p] = None \/ f[p] \in ChoiceSet(p)}

NoSel == [p \in Inner |-> None]
Blank == [argv |-> << >>, aopt |-> {}, csel |-> NoSel, csec |-> {}, env |-> FALSE, esel |-> NoSel, eopt |-> {}, strict |-> FALSE, dcf |-> FALSE, icfg |-> {}]
\* well-formed choices, built constructively in three steps (so that TLC's workers share the enumeration)
Secs == {S \in SUBSET Paths : PrefixClosed(S \ {<< >>})}
SelsIn(S) == {f \in Sels : \A p \in Inner : f[p] # None => (p = << >> \/ p \in S)}               \* an explicit key lives inside its section
EnvSels == {f \in Sels : \A p \in Inner : f[p] # None => (p = << >> \/ f[SubSeq(p, 1, Len(p) - 1)] = p[Len(p)])}  \* variables of a sub-command are read only below a named one
Aopts(av) == IF AoptFull THEN SUBSET (0..Len(av)) ELSE {{}, 0..Len(av)}

VARIABLES in, st
vars == <<in, st>>
Init == in = Blank /\ st = 0
Step0 == st = 0 /\ st' = 1 /\ \E av \in Paths, strict \in BOOLEAN :
            /\ (strict => av = << >>)                                          \* parse_object / parse_string have no command line
            /\ \E ao \in Aopts(av), ic \in {{}, 1..Len(av)} : in' = [in EXCEPT !.argv = av, !.aopt = IF strict THEN {} ELSE ao, !.strict = strict, !.icfg = IF strict THEN {} ELSE ic]
Step1 == st = 1 /\ st' = 2 /\ \E S \in Secs : \E cs \in SelsIn(S) : \E d \in (IF in.strict \/ ~WithDcf THEN {FALSE} ELSE BOOLEAN) :
            in' = [in EXCEPT !.csec = S, !.csel = cs, !.dcf = d]
Step2 == st = 2 /\ st' = 3 /\ \/ in' = in
                              \/ \E es \in EnvSels, eo \in (IF EnvFull THEN SUBSET Paths ELSE {{}, Paths}) : in' = [in EXCEPT !.env = TRUE, !.esel = es, !.eopt = eo]
Next == Step0 \/ Step1 \/ Step2
Spec == Init /\ [][Next]_vars
Done == st = 3

\* C17 at design level
AlgIsSelect == (Done /\ ~CfgKeyNamesOther(in) /\ ~DcfSubSettings(in)) => AlgSelect(T, in) = Select(T, in)
\* a default config file without the environment: the file as get_defaults leaves it (DcfLoaded) decides; where it loses
\* nothing the documented choice results
AlgDcfIsSelect == (Done /\ in.dcf /\ ~DcfOpaque(T, in) /\ ~DcfPrunes(T, in)) => AlgSelectDcf(T, in) = Select(T, in)
\* a file without sub-command content: both transcriptions coincide
DcfPlainSame == (Done /\ in.dcf /\ ~DcfSubSettings(in)) => AlgSelectDcf(T, in) = AlgSelect(T, in)
\* the shape of every result: one section per level, the chosen one; the last level has none
OneSectionPerLevel == LET r == Select(T, in) IN (Done /\ ~r.err) =>
                         \A j \in 1..Len(r.levels) : r.levels[j].sections = (IF r.levels[j].chosen = None THEN {} ELSE {r.levels[j].chosen})
\* a name on the command line always wins
ArgvWins == LET r == Select(T, in) IN (Done /\ ~r.err) => \A j \in 1..Len(in.argv) : j <= Len(r.levels) /\ r.levels[j].chosen = in.argv[j]

TJson == [p \in 1..Cardinality(Paths) |-> LET q == SetToSeq(Paths)[p] IN [path |-> q, req |-> T[q].req, ch |-> T[q].ch]]
InJson == [argv |-> in.argv, aopt |-> SetToSeq(in.aopt), csel |-> [j \in 1..Cardinality(Inner) |-> <<SetToSeq(Inner)[j], in.csel[SetToSeq(Inner)[j]]>>],
           csec |-> SetToSeq(in.csec), env |-> in.env, esel |-> [j \in 1..Cardinality(Inner) |-> <<SetToSeq(Inner)[j], in.esel[SetToSeq(Inner)[j]]>>],
           eopt |-> SetToSeq(in.eopt), strict |-> in.strict, dcf |-> in.dcf, icfg |-> SetToSeq(in.icfg)]
ResJson(r) == [err |-> r.err, levels |-> [j \in 1..Len(r.levels) |-> [x |-> r.levels[j].x, chosen |-> r.levels[j].chosen, sections |-> SetToSeq(r.levels[j].sections)]]]
EmitCase == (Emit /\ Done) => PrintT(ToJson([tree |-> Tree, input |-> InJson, ref |-> ResJson(Select(T, in)), alg |-> ResJson(AlgSelect(T, in)), dev |-> CfgKeyNamesOther(in), dcfdev |-> DcfSubSettings(in),
                                                     algcfg |-> ResJson(AlgSelect(T, [in EXCEPT !.dcf = FALSE])),
                                                     algdcf |-> ResJson(AlgSelectDcf(T, in)), dcffirst |-> DcfFirstSectionOnly(T, in), dcfopaque |-> DcfOpaque(T, in)]))
ASSUME Emit => PrintT(ToJson([treedef |-> Tree, nodes |-> TJson]))
=============================================================================
