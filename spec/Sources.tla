------------------------------ MODULE Sources ------------------------------
(***************************************************************************)
(* The order in which configuration sources override each other            *)
(* (property C04), and the channels through which one setting can arrive   *)
(* (property C05).                                                         *)
(*                                                                         *)
(* A configuration is a function  key -> value.  Values are sequences:     *)
(*   int key        << n >>                                                *)
(*   list key       << n1, n2, ... >>                                      *)
(*   dict key       << Enc(item, n), ... >>  (items in insertion order; an   *)
(*                  item is ONE integer item * 100000 + n, so that every    *)
(*                  value is a sequence of integers and TLC never has to    *)
(*                  compare an integer with a tuple)                        *)
(* An assignment is  [item, key, op, v]  with op                           *)
(*   "set"   replace the value of key by v  (also whole lists and dicts)   *)
(*   "app"   append v to the list built so far          (the 'key+' form)  *)
(*   "item"  set item `item` of the dict built so far to v[1] ('key.item') *)
(*                                                                         *)
(* Ref layer: Fold, the left fold of all assignments in the documented     *)
(* order: source-code defaults, each default config file in the order      *)
(* listed (glob patterns expanded in sorted order), the environment        *)
(* config, the individual environment variables, the command line items    *)
(* from left to right, a config given on the command line taking effect    *)
(* at its position.                                                        *)
(* Alg layer: the stages of _core.py as actions (anchors in comments):     *)
(* every config is parsed in isolation (keeping 'key+' as a pending entry) *)
(* and merged with merge_config = update + apply_appends; the environment  *)
(* is collected in a FRESH namespace and merged afterwards.                *)
(***************************************************************************)
EXTENDS Naturals, Sequences, FiniteSets, TLC

Asg(key, op, item, v) == [item |-> item, key |-> key, op |-> op, v |-> v]

Enc(it, n) == it * 100000 + n
ItemOf(e)  == e \div 100000
PutItem(dv, it, n) ==
  IF \E j \in 1..Len(dv) : ItemOf(dv[j]) = it
  THEN [j \in 1..Len(dv) |-> IF ItemOf(dv[j]) = it THEN Enc(it, n) ELSE dv[j]]
  ELSE Append(dv, Enc(it, n))

RECURSIVE Concat(_)
Concat(ss) == IF ss = << >> THEN << >> ELSE Head(ss) \o Concat(Tail(ss))

(***************************************************************************)
(* Ref: the documented fold                                                *)
(***************************************************************************)
ApplyRef(cfg, a) ==
  CASE a.op = "set"  -> [cfg EXCEPT ![a.key] = a.v]
    [] a.op = "app"  -> [cfg EXCEPT ![a.key] = @ \o a.v]
    [] a.op = "item" -> [cfg EXCEPT ![a.key] = PutItem(@, a.item, a.v[1])]
RECURSIVE FoldAsgs(_, _)
FoldAsgs(cfg, as) == IF as = << >> THEN cfg ELSE FoldAsgs(ApplyRef(cfg, Head(as)), Tail(as))

\* A source assignment:
\*   defaults : key -> value          the defaults in the source code
\*   dcf      : Seq(Seq(Asg))         the default config files that exist, in effective order
\*   env      : BOOLEAN               is the environment consulted (default_env / env=True / JSONARGPARSE_DEFAULT_ENV)
\*   envc     : Seq(Asg)              the config in the environment (APP_CFG)
\*   envv     : Seq(Asg)              individual variables
\*   argv     : Seq([kind, asgs])     kind "opt" (one assignment) or "cfg" (a config file or string: several)
\*   last     : Seq(Asg)              the config string / object / path of parse_string, parse_object, parse_path
ArgvAsgs(argv) == Concat([i \in 1..Len(argv) |-> argv[i].asgs])
Flatten(s) == Concat(s.dcf) \o (IF s.env THEN s.envc \o s.envv ELSE << >>) \o ArgvAsgs(s.argv) \o s.last
Fold(s) == FoldAsgs(s.defaults, Flatten(s))

(***************************************************************************)
(* Alg: namespaces and merge_config                                        *)
(***************************************************************************)
\* A (partial) namespace: which keys are set, their values, and the pending 'key+' entries.
NS(has, val, happ, app) == [has |-> has, val |-> val, happ |-> happ, app |-> app]
EmptyNSOver(defaults) == NS({}, defaults, {}, defaults)          \* val/app are total, only has/happ matter
FullNS(defaults) == NS(DOMAIN defaults, defaults, {}, defaults)

\* _load_config_parser_mode:689-715 / _apply_actions:1319-1379 -- a config parsed on its own: a 'key+' entry has no
\* action and is kept as a key of the namespace
RECURSIVE ParseIsolatedFrom(_, _)
ParseIsolatedFrom(ns, as) ==
  IF as = << >> THEN ns
  ELSE LET a == Head(as) IN
       ParseIsolatedFrom(
         IF a.op = "set" THEN NS(ns.has \cup {a.key}, [ns.val EXCEPT ![a.key] = a.v], ns.happ, ns.app)
         ELSE NS(ns.has, ns.val, ns.happ \cup {a.key}, [ns.app EXCEPT ![a.key] = a.v]),
         Tail(as))
ParseIsolated(defaults, as) == ParseIsolatedFrom(EmptyNSOver(defaults), as)

\* merge_config:1381-1397 -- cfg_to.update(cfg_from) replaces leaf by leaf (whole lists and dicts), then
\* ActionTypeHint.apply_appends:488-495 resolves every pending 'key+' against the value now in cfg_to
Merge(from, to) ==
  LET has  == to.has \cup from.has
      val  == [k \in DOMAIN to.val |-> IF k \in from.has THEN from.val[k] ELSE to.val[k]]
      happ == to.happ \cup from.happ
      app  == [k \in DOMAIN to.app |-> IF k \in from.happ THEN from.app[k] ELSE to.app[k]]
  IN NS(has \cup happ,
        [k \in DOMAIN val |-> IF k \in happ THEN (IF k \in has THEN val[k] ELSE << >>) \o app[k] ELSE val[k]],
        {}, app)

\* ActionTypeHint.__call__:521-552 for one command line option
ApplyOpt(ns, a) ==
  CASE a.op = "set"  -> NS(ns.has \cup {a.key}, [ns.val EXCEPT ![a.key] = a.v], ns.happ, ns.app)
    [] a.op = "app"  -> NS(ns.has \cup {a.key}, [ns.val EXCEPT ![a.key] = (IF a.key \in ns.has THEN @ ELSE << >>) \o a.v], ns.happ, ns.app)
    [] a.op = "item" -> NS(ns.has \cup {a.key}, [ns.val EXCEPT ![a.key] = PutItem(IF a.key \in ns.has THEN @ ELSE << >>, a.item, a.v[1])], ns.happ, ns.app)

\* _load_env_vars:523-551 -- a FRESH namespace: the config variable first (ActionConfigFile.apply_config merges
\* it into the fresh namespace, so a pending 'key+' is resolved against nothing), then each variable (plain set)
RECURSIVE SetAll(_, _)
SetAll(ns, as) == IF as = << >> THEN ns ELSE SetAll(ApplyOpt(ns, [Head(as) EXCEPT !.op = "set"]), Tail(as))
AlgEnv(defaults, envc, envv) == SetAll(Merge(ParseIsolated(defaults, envc), EmptyNSOver(defaults)), envv)

\* get_defaults:998-1052 -- action defaults, then each default config file parsed alone and merged
RECURSIVE AlgDcf(_, _, _)
AlgDcf(defaults, cfg, files) ==
  IF files = << >> THEN cfg ELSE AlgDcf(defaults, Merge(ParseIsolated(defaults, Head(files)), cfg), Tail(files))

\* _parse_defaults_and_environ:391-408
AlgBase(s) ==
  LET c1 == AlgDcf(s.defaults, FullNS(s.defaults), s.dcf)
  IN IF s.env THEN Merge(AlgEnv(s.defaults, s.envc, s.envv), c1) ELSE c1

\* parse_args:449-466 -- argparse runs the actions left to right on the merged namespace;
\* ActionConfigFile.apply_config:191-212 parses the config alone and merges it at that point
AlgArgvItem(defaults, cfg, it) ==
  IF it.kind = "opt" THEN ApplyOpt(cfg, it.asgs[1]) ELSE Merge(ParseIsolated(defaults, it.asgs), cfg)
RECURSIVE AlgArgv(_, _, _)
AlgArgv(defaults, cfg, argv) ==
  IF argv = << >> THEN cfg ELSE AlgArgv(defaults, AlgArgvItem(defaults, cfg, Head(argv)), Tail(argv))

\* parse_string:666-672 / parse_object:499-506 -- the given config is parsed alone and merged over defaults+environment
AlgFinal(s) ==
  LET c == AlgArgv(s.defaults, AlgBase(s), s.argv)
  IN (IF s.last = << >> THEN c ELSE Merge(ParseIsolated(s.defaults, s.last), c)).val

\* The named deviation of this tree (finding C04 env-config:append): an append in the ENVIRONMENT config is
\* resolved against the empty namespace and then replaces the list built so far.
EnvConfigAppend(s) == s.env /\ \E j \in 1..Len(s.envc) : s.envc[j].op = "app"
=============================================================================
