--------------------------- MODULE Trace_Registry ---------------------------
(* Validation of behaviours of the type registry recorded from the real jsonargparse (code -> spec), property C20.   *)
(* TRACE_FILE holds a sequence of behaviours [mach, ops, obs]: ops as in MC_Registry, obs[q] = what the real code   *)
(* did at step q: [out, cli, object, sem].  Ref and Alg of Registry.tla are run along the recorded operations and    *)
(* every failing clause is printed as <<"R", "registry", behaviour, step, clause>>; clauses starting with "ref" are *)
(* property-level, the others Alg-level (drift).                                                                    *)
EXTENDS Registry, Json, IOUtils
CONSTANT TGroups
ASSUME [k |-> "x", v |-> 1] = [k |-> "x", v |-> 1]
Data == JsonDeserialize(IOEnv.TRACE_FILE)
NB == Len(Data)

VARIABLES tkind, tnum
tvars == <<tkind, tnum>>
Init == tkind = "root" /\ tnum = 0
Next == \/ tkind = "root" /\ \E g \in 1..TGroups : tkind' = "group" /\ tnum' = g
        \/ tkind = "group" /\ \E n \in {m \in 1..NB : m % TGroups = tnum % TGroups} : tkind' = "beh" /\ tnum' = n

Say(n, q, clause) == PrintT(<<"R", "registry", n, q, clause>>)
SemOfObs(ob) == <<ob.sem[1], ob.sem[2], ob.sem[3]>>
SemT(sp) == LET f == Sem(sp) IN <<f[1], f[2], f[3]>>

RECURSIVE RunH(_, _, _, _), RunC(_, _, _, _, _), RunA(_, _, _, _, _, _)
V4(x) == <<x[1], x[2], x[3], x[4]>>
\* machine "alias": obs = [out, sem, cli, object, file (acceptance on the four probes), econt (the content the type's expression text shows)]
RunA(n, q, atypes, keysA, namesA, cur) ==
  LET b == Data[n] IN
  IF q > Len(b.ops) THEN TRUE
  ELSE LET o == b.ops[q]  ob == b.obs[q] IN
       IF o.op = "mutate" THEN RunA(n, q + 1, atypes, keysA, namesA, AMutate(cur, o.h))
       ELSE IF o.op = "createa" THEN
         LET R == RefCreateA(atypes, o.name, cur)
             a == AlgCreateA(keysA, namesA, o.name, cur)
         IN /\ (ob.out \in R /\ (ob.out = "raise" \/ V4(ob.sem) = V4(ASem(cur)))) \/ Say(n, q, "ref-alias-create")
            /\ (ob.out = a.out) \/ Say(n, q, "alg-create")
            /\ (ob.out # a.out \/ ob.out = "raise" \/ ob.econt = a.cont) \/ Say(n, q, "ref-alias-expression")
            /\ RunA(n, q + 1, IF a.out = "new" THEN atypes \cup {[name |-> o.name, cont |-> cur]} ELSE atypes, a.keys, a.names, cur)
       ELSE
         LET known == \E ty \in atypes : ty.name = o.name
             rc == IF known THEN RefProbeA(atypes, o.name) ELSE << >>
         IN /\ known \/ Say(n, q, "alg-probe-unknown")
            /\ (~known \/ V4(ob.sem) = V4(ASem(rc))) \/ Say(n, q, "ref-alias-probe-direct")
            /\ (~known \/ V4(ob.cli) = V4(ASem(rc))) \/ Say(n, q, "ref-alias-probe-cli")
            /\ (~known \/ V4(ob.object) = V4(ASem(rc))) \/ Say(n, q, "ref-alias-probe-object")
            /\ (~known \/ V4(ob.file) = V4(ASem(rc))) \/ Say(n, q, "ref-alias-probe-file")
            /\ (~known \/ ob.econt = rc) \/ Say(n, q, "ref-alias-expression")
            /\ RunA(n, q + 1, atypes, keysA, namesA, cur)
RunH(n, q, rreg, ahs) ==
  LET b == Data[n] IN
  IF q > Len(b.ops) THEN TRUE
  ELSE LET o == b.ops[q]  ob == b.obs[q] IN
       IF o.op = "reg" THEN
         LET r == RefRegister(rreg, o.c, o.h, o.fail)  a == AlgRegister(ahs, o.c, o.h, o.fail) IN
         /\ (ob.out = r.out) \/ Say(n, q, "ref-register")
         /\ (ob.out = a.out) \/ Say(n, q, "alg-register")
         /\ RunH(n, q + 1, r.reg, a.hs)
       ELSE IF o.op = "use" THEN
         /\ ((ob.cli = "value") = (RefUse(rreg, o.c, o.h) = "value")) \/ Say(n, q, "ref-use-cli")
         /\ ((ob.object = "value") = (RefUse(rreg, o.c, o.h) = "value")) \/ Say(n, q, "ref-use-object")
         /\ ((ob.out = "value") = (RefUse(rreg, o.c, o.h) = "value")) \/ Say(n, q, "ref-use-wrapper")
         /\ (ob.out = AlgDeserWrapper(ahs, o.c, o.h)) \/ Say(n, q, "alg-wrapper")
         /\ RunH(n, q + 1, rreg, ahs)
       ELSE
         /\ (ob.out = RefDump(rreg, o.c)) \/ Say(n, q, "ref-dump")
         /\ (ob.out = AlgSer(ahs, o.c)) \/ Say(n, q, "alg-dump")
         /\ RunH(n, q + 1, rreg, ahs)
RunC(n, q, rtypes, akeys, anames) ==
  LET b == Data[n] IN
  IF q > Len(b.ops) THEN TRUE
  ELSE LET o  == b.ops[q]
           ob == b.obs[q]
           nm == IF o.name = "auto" THEN AutoName(o.spec) ELSE o.name
           R  == RefCreate(rtypes, nm, o.spec)
           a  == AlgCreate(akeys, anames, o.name, o.spec)
           okRef == ob.out \in R /\ (ob.out = "raise" \/ SemOfObs(ob) = SemT(o.spec))
       IN /\ okRef \/ Say(n, q, IF a.dev # "-" /\ ob.out = a.out /\ SemOfObs(ob) = <<a.sem[1], a.sem[2], a.sem[3]>> THEN "ref-dev-" \o a.dev ELSE "ref-create")
          /\ (ob.out = a.out) \/ Say(n, q, "alg-create")
          /\ RunC(n, q + 1, IF a.out = "new" THEN rtypes \cup {[name |-> nm, spec |-> o.spec]} ELSE rtypes, a.keys, a.names)

Check == IF tkind # "beh" THEN TRUE
         ELSE IF Data[tnum].mach = "handlers" THEN RunH(tnum, 1, [c \in UClasses |-> NoHandler], [c \in UClasses |-> NoObj])
         ELSE IF Data[tnum].mach = "alias" THEN RunA(tnum, 1, {}, {}, {}, AContent0)
         ELSE RunC(tnum, 1, {}, {}, {})
Inv == Check \/ TRUE
=============================================================================
