SPECIFICATION Spec
CONSTANTS
  ClearOnError = FALSE
  Full = FALSE
  Emit = TRUE
INVARIANT Balanced
INVARIANT FramesExplainCtx
INVARIANT NoStaleRead
INVARIANT AlgIsRefOnFresh
INVARIANT HistoryIndependent
INVARIANT DeviationShape
INVARIANT RepairClears
INVARIANT PendingIsLocal
INVARIANT EmitState
CHECK_DEADLOCK FALSE
