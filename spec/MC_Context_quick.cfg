SPECIFICATION Spec
CONSTANTS
  ClearOnError = TRUE
  Full = FALSE
  Emit = TRUE
INVARIANT Balanced
INVARIANT FramesExplainCtx
INVARIANT NoStaleRead
INVARIANT AlgIsRefOnFresh
INVARIANT HistoryIndependent
INVARIANT DeviationShape
INVARIANT RepairClears
INVARIANT PendingIsLocal
INVARIANT EmitState
CHECK_DEADLOCK FALSE
