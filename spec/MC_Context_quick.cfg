SPECIFICATION Spec
CONSTANTS
  ShtabBreaksDefaults = {"A", "B"}
  ClearOnError = TRUE
  Full = FALSE
  Emit = TRUE
INVARIANT Balanced
INVARIANT FramesExplainCtx
INVARIANT NoStaleRead
INVARIANT AlgIsRefOnFresh
INVARIANT HistoryIndependent
INVARIANT DeviationShape
INVARIANT ShtabShape
INVARIANT RepairClears
INVARIANT PendingIsLocal
INVARIANT EmitState
CHECK_DEADLOCK FALSE
