----------------------------- MODULE Trace_Dump -----------------------------
(* Validation of executions recorded from real parsers (code -> spec), type and configuration level of C01.         *)
(* TRACE_FILE holds [shapes |-> <<...>>, accepts |-> <<...>>, leafs |-> <<...>>, cfgs |-> <<...>>]:                   *)
(*   accept = [t, x, v]            parse_object({"x": x}) on a parser with one argument of type t stored v           *)
(*                                 (or was rejected: v.k = "error")                                                 *)
(*   leaf   = [t, v, fmt, sn, route, doc, re]   the configuration value v of that argument was written with format  *)
(*                                 fmt (sn: with skip_none)                                                         *)
(*                                 through `route` (dump -> parse_string, --print_config -> file -> --config,       *)
(*                                 save -> parse_path); doc = the scalars of the text with their styles (or null    *)
(*                                 when not recorded / an error when the dump raised), re = the value parsed back   *)
(*   cfg    = [sh, cfg, fmt, sn, sd, route, doc, re]   the same for a whole parser of shape shapes[sh], with         *)
(*                                 skip_none = sn and skip_default = sd                                             *)
(* Every observation is checked independently; failing clauses are printed as <<"R", kind, index, clause>>:         *)
(*   ref-other          the re-parsed configuration differs and no named deviation explains it      (VIOLATION)     *)
(*   ref-dev:<names>    it differs, named deviations apply and the code did what the Alg layer says (known finding) *)
(*   alg-*              the code satisfies Ref but not the Alg transcription                        (drift)         *)
EXTENDS Dump, Json, IOUtils, TLCExt, SequencesExt

\* round 4: Trace_Dump_json.cfg / Trace_Dump_jsonnet.cfg validate the observations made with ArgumentParser(parser_mode=...)
\* (CONSTANT ParserMode <- ModeJson / ModeJsonnet)
ModeJson == "json"
ModeJsonnet == "jsonnet"
Data    == JsonDeserialize(IOEnv.TRACE_FILE)
Shapes  == Data.shapes
Accepts == Data.accepts
Leafs   == Data.leafs
Cfgs    == Data.cfgs
NA == Len(Accepts)
NL == Len(Leafs)
NC == Len(Cfgs)

\* One observation per behaviour.  The check is evaluated in the NEXT step (as the value of `ok'`), so that TLC's
\* workers share the observations; it is always TRUE, the failing clauses are printed.
VARIABLES i, ph, ok
Init == i \in 1..(NA + NL + NC) /\ ph = 0 /\ ok = TRUE
Say(kind, idx, clause) == PrintT(ToJson(<<"R", kind, idx, clause>>))      \* one line whatever the length (TLC wraps long tuples)
RECURSIVE JoinNames(_)
JoinNames(s) == IF s = << >> THEN "" ELSE IF Len(s) = 1 THEN s[1] ELSE s[1] \o "+" \o JoinNames(Tail(s))
\* the names of a set of deviation families, in a fixed order, joined with "+"
Order == <<"decimal-serialised-as-float", "json-nonfinite-float", "json-raw-line-break", "json-unescaped-nonprintable-rejected", "loader-float-dot-underscore",
           "loader-float-without-dot-or-signed-exponent", "nel-folded-in-single-quoted-scalar",
           "union-enum-member-serialises-anything", "jsonnet-integral-float-read-as-int", "jsonnet-int-through-double", "multifile-subconfig-not-serialised",
           "skip-default-equal-but-other-type", "skip-default-inside-dict-value", "skip-default-required-subcommand-raises", "subcommand-selector-not-dumped">>
Names(S) == JoinNames(SelectSeq(Order, LAMBDA a : a \in S))
RECURSIVE HasSet(_)
HasSet(v) == IF v.k = "set" THEN TRUE
             ELSE IF v.k \in {"list", "tuple"} THEN \E n \in 1..Len(v.v) : HasSet(v.v[n])
             ELSE IF v.k \in {"dict", "ns", "odict"} THEN \E n \in 1..Len(v.v) : HasSet(v.v[n][2])
             ELSE FALSE

\* the predicted doc against the observed one.  The harness tokenises yaml text with PyYAML's scanner, so a
\* single-quoted token arrives as SCANNED (ReadSingle); a float may be spelled differently when it went through a nested
\* dump; the order of the items of a mapping is not compared (it does not change what is read).
RECURSIVE DocEq(_, _)
DocEq(p, o) ==
  IF p.k # o.k THEN FALSE
  ELSE IF p.k = "tok" THEN /\ TokStyle(p) = TokStyle(o)
                           /\ \/ (IF TokStyle(p) = "single" THEN ReadSingle(TokText(p)) ELSE TokText(p)) = TokText(o)
                              \/ (TokStyle(p) = "plain" /\ LoaderTag(TokText(p)) = "float" /\ LoaderTag(TokText(o)) = "float")
  ELSE IF p.k = "list" THEN Len(p.v) = Len(o.v) /\ \A n \in 1..Len(p.v) : DocEq(p.v[n], o.v[n])
  ELSE IF p.k = "dict" THEN Len(p.v) = Len(o.v) /\ \A n \in 1..Len(p.v) : \E m \in 1..Len(o.v) : DocEq(p.v[n][1], o.v[m][1]) /\ DocEq(p.v[n][2], o.v[m][2])
  ELSE p = o

CheckAccept(k) ==
  LET o == Accepts[k]
      a == Accept(o.t, o.x)
  IN (IsUnsure(a) \/ (IsErr(a) /\ IsErr(o.v)) \/ Same(a, o.v)) \/ Say("accept", k, "alg-accept")

\* the strings of a value (keys included) that belong to a named deviation family of the scalar layer
RECURSIVE ValueHazards(_, _)
ValueHazards(fmt, v) ==
  IF v.k \in SeqKinds THEN UNION {ValueHazards(fmt, v.v[n]) : n \in 1..Len(v.v)}
  ELSE IF v.k \in {"dict", "odict"} THEN UNION {ValueHazards(fmt, v.v[n][1]) \cup ValueHazards(fmt, v.v[n][2]) : n \in 1..Len(v.v)}
  ELSE IF v.k = "ns" THEN UNION {ValueHazards(fmt, v.v[n][2]) : n \in 1..Len(v.v)}
  ELSE IF v.k = "str" THEN {IF fmt = "yaml" THEN Deviation(v.v) ELSE JsonStrDeviation(v.v)} \ {"none"}
  ELSE IF v.k = "reg" THEN LET w == RegSer(RegName(v), v) IN
                           (IF w.k = "str" THEN {IF fmt = "yaml" THEN Deviation(w.v) ELSE JsonStrDeviation(w.v)} \ {"none"} ELSE {}) \cup ValueFamilies(v)
  ELSE IF v.k = "float" /\ fmt # "yaml" THEN {JsonDeviation(v.v)} \ {"none"}
  ELSE {}

\* how a re-parse ended, as far as a named deviation has to be recognised.  A hazard str that was read as a float may be
\* rejected or silently accepted further on depending on WHICH float it is (3e+932 is inf, written Infinity by json, a str
\* again ...), which this spec does not compute: under a hazard only "failed" / "same" is compared
Outcome(r, v) == IF ~IsErr(r) /\ Same(r, v) THEN "same" ELSE "failed"
CheckLeaf(k) ==
  LET o    == Leafs[k]
      viaRuyaml == o.route = "print/comments"                                \* the text was rewritten by a second yaml library: not modelled
      multi == o.route \in {"savemulti/yaml", "savemulti/json"}              \* round 4: multi-file save, the value went to its own file UNSERIALISED
      alg  == IF multi THEN ReparseMultiLeaf(o.t, o.v, o.fmt, FALSE) ELSE ReparseLeafSN(o.t, o.v, o.fmt, FALSE, o.sn)
      hz   == IF multi THEN MultiHazards(o.t, o.v, o.fmt) ELSE LeafHazards(o.t, o.v, o.fmt)
      tree == SerializeLeafSN(o.t, o.v, FALSE, o.sn)
      \* skip_none loses the None fields of dataclass values by design: what must come back is what the ideal pipeline gives
      want == IF o.sn THEN ReparseLeafSN(o.t, o.v, o.fmt, TRUE, TRUE) ELSE o.v
      vhz  == IF ParserMode = "yaml" THEN ValueHazards("yaml", o.v) \cup ValueHazards(o.fmt, o.v)      \* nested dataclass values travel through yaml whatever the format
              ELSE IF ParserMode = "json" THEN ValueFamilies(o.v)                                 \* json.loads inverts json.dumps: no scalar-level family is excused
              ELSE LET s == SerializeLeafSN(o.t, o.v, TRUE, o.sn) IN ValueFamilies(o.v) \cup (IF Bad(s) THEN {} ELSE Hazards(o.fmt, s) \cup Hazards("json", s))   \* jsonnet: the families of the serialised tree
  IN \* ---- Ref: the re-parsed value is the value, value for value and type for type
     /\ (Same(o.re, want) \/ (o.sn /\ IsUnsure(want) /\ ~IsErr(o.re)) \/ (o.sn /\ Same(o.re, o.v)))      \* (the identity is always right: skip_none lost nothing)
        \/ Say("leaf", k, IF hz # {} /\ ~IsUnsure(alg) /\ Outcome(o.re, want) = Outcome(alg, want) THEN "ref-dev:" \o Names(hz)
                          ELSE IF viaRuyaml /\ SchemaDependent(o.v) THEN "ref-dev:yaml-comments-schema-dependent-scalar"
                          ELSE IF IsUnsure(alg) /\ vhz # {} THEN "ref-dev:" \o Names(vhz)
                          ELSE "ref-other")
     \* ---- Alg
     /\ (viaRuyaml \/ IsUnsure(alg) \/ Approx(o.re, alg) \/ (IsErr(o.re) /\ IsErr(alg)) \/ (hz # {} /\ Outcome(o.re, want) = Outcome(alg, want))) \/ Say("leaf", k, "alg-reparse")
     /\ (o.doc.k = "null" \/ Bad(tree) \/ IsErr(o.doc) \/ HasSet(o.v) \/ DocEq(WriteDoc(o.fmt, tree), o.doc)) \/ Say("leaf", k, "alg-dump-text")

Fl(o, ideal) == Flags(ideal, o.sn, o.sd)
CheckCfg(k) ==
  LET o     == Cfgs[k]
      shape == Shapes[o.sh]
      want  == Expected(shape, o.cfg, Fl(o, FALSE))
      \* under skip_default a set is compared with its default as the LIST python happened to iterate it into: not decided here
      setOrder == o.sd /\ ((\E n \in 1..Len(o.cfg.top) : HasSet(o.cfg.top[n])) \/ (\E n \in 1..Len(o.cfg.sub) : HasSet(o.cfg.sub[n])))
      alg   == IF setOrder THEN Unsure ELSE ReparseCfg(shape, o.cfg, o.fmt, Fl(o, FALSE))
      devs  == CfgDeviations(shape, o.cfg, o.fmt, Fl(o, FALSE))
      tree  == DumpTree(shape, o.cfg, Fl(o, FALSE))
      asAlg == (IsErr(o.re) /\ IsErr(alg)) \/ (~Bad(o.re) /\ ~Bad(alg) /\ o.re.sel = alg.sel /\ Len(o.re.top) = Len(alg.top) /\ Len(o.re.sub) = Len(alg.sub)
                                               /\ (\A n \in 1..Len(alg.top) : Approx(o.re.top[n], alg.top[n])) /\ (\A n \in 1..Len(alg.sub) : Approx(o.re.sub[n], alg.sub[n])))
      okCfg(r) == ~Bad(r) /\ SameCfg(r, want)
      kindAs(a) == ~IsUnsure(a) /\ okCfg(o.re) = okCfg(a)                                                     \* failed / same, see Outcome
      sameKind == kindAs(alg)
      \* the same with an IDEAL scalar layer: what remains when only the configuration-level deviations apply
      ialg    == ReparseCfg(shape, o.cfg, o.fmt, Fl(o, TRUE))
      cfgdevs == devs \cap {"skip-default-equal-but-other-type", "skip-default-inside-dict-value", "skip-default-required-subcommand-raises", "subcommand-selector-not-dumped"}
  IN /\ (~Bad(o.re) /\ SameCfg(o.re, want))
        \/ Say("cfg", k, IF devs # {} /\ (asAlg \/ IsUnsure(alg) \/ sameKind) THEN "ref-dev:" \o Names(devs)
                         ELSE IF cfgdevs # {} /\ ~IsUnsure(ialg) /\ kindAs(ialg) THEN "ref-dev:" \o Names(cfgdevs)
                         ELSE "ref-other")
     /\ (IsUnsure(alg) \/ asAlg \/ (devs # {} /\ sameKind)) \/ Say("cfg", k, "alg-reparse")
     /\ (o.doc.k = "null" \/ Bad(tree) \/ IsErr(o.doc) \/ (\E n \in 1..Len(o.cfg.top) : HasSet(o.cfg.top[n])) \/ (\E n \in 1..Len(o.cfg.sub) : HasSet(o.cfg.sub[n]))
         \/ DocEq(WriteDoc(o.fmt, tree), o.doc)) \/ Say("cfg", k, "alg-dump-text")
     /\ (IsErr(o.doc) = IsErr(tree) \/ o.doc.k = "null" \/ IsUnsure(tree)) \/ Say("cfg", k, "alg-dump-raises")

Check == IF i <= NA THEN CheckAccept(i) ELSE IF i <= NA + NL THEN CheckLeaf(i - NA) ELSE CheckCfg(i - NA - NL)
Next == ph = 0 /\ ph' = 1 /\ i' = i /\ ok' = Check
Inv == ok
=============================================================================
