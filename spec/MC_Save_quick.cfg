SPECIFICATION Spec
CONSTANTS
  Variant = "code"
  Level = 1
  MaxFaults = 1
  Ext = 1
  Emit = TRUE
INVARIANT TypeOK
INVARIANT InvRunAgrees
INVARIANT InvNoSilentOverwrite
INVARIANT InvNoSilentOverwriteLocal
INVARIANT InvAllOrNothingModuloKnown
INVARIANT InvSavedReparsesModuloKnown
INVARIANT InvCauseSound
INVARIANT InvOldDataKept
INVARIANT EmitBehaviour
CHECK_DEADLOCK FALSE
