INIT Init
NEXT Next
CONSTANTS
  TGroups = 64
INVARIANT Inv
CHECK_DEADLOCK FALSE
