------------------------------- MODULE Links -------------------------------
(***************************************************************************)
(* Argument links applied on instantiation (property C16).                 *)
(*                                                                         *)
(* Part A  the DirectedGraph of jsonargparse/_link_arguments.py:75-109     *)
(*         Ref: Cyclic / IsTopo / IsPermOf (graph theory, no algorithm)    *)
(*         Alg: node list in first-mention order, adjacency lists by       *)
(*              index, recursive DFS with exploring / visited,             *)
(*              order.insert(0, source), ValueError on a back edge.        *)
(* Part B  the instantiate_classes machine                                 *)
(*         Ref: BuiltBefore / ExactlyOnce / ReceivesSource over a          *)
(*              construction log, RejectedWhenAdded for cycles             *)
(*         Alg: ActionLink.instantiation_order (:409-434), reorder         *)
(*              (:437-447), apply_instantiation_links (:327-370),          *)
(*              instantiate_classes (_core.py:1214-1256), the cycle check  *)
(*              of ActionLink.__init__ (:193-198).                         *)
(*                                                                         *)
(* Line anchors are those of properties.jsonl (snapshot 7f1da0b); in       *)
(* _core.py they moved down by 3 lines after the later fix: of save.       *)
(*                                                                         *)
(* Keys are paths: the dotted key "r.child.init_args.p" is the sequence    *)
(* <<"r","child","init_args","p">>.                                        *)
(***************************************************************************)
EXTENDS Naturals, Sequences, FiniteSets, TLC

Range(s)      == {s[i] : i \in DOMAIN s}
Has(s, x)     == \E i \in DOMAIN s : s[i] = x
Index(s, x)   == CHOOSE i \in DOMAIN s : s[i] = x          \* list.index(x); only used on lists without duplicates
NoDup(s)      == \A i, j \in DOMAIN s : i # j => s[i] # s[j]
RECURSIVE Concat(_, _)
Concat(ss, i) == IF i > Len(ss) THEN << >> ELSE ss[i] \o Concat(ss, i + 1)

(***************************************************************************)
(* Part A, Ref: directed graphs as sets of edges <<source, target>>        *)
(***************************************************************************)
EdgeSet(es)  == {<<es[i][1], es[i][2]>> : i \in DOMAIN es}
NodesOf(E)   == {e[1] : e \in E} \cup {e[2] : e \in E}
\* a digraph has a cycle iff some non-empty set of nodes is closed under "has a successor inside the set"
Cyclic(E)    == \E S \in SUBSET NodesOf(E) : S # {} /\ \A n \in S : \E m \in S : <<n, m>> \in E
\* the same through the transitive closure (Warshall); the two definitions are compared in MC_Links (RefLaws)
RECURSIVE Warshall(_, _, _)
Warshall(R, N, todo) ==
  IF todo = {} THEN R
  ELSE LET k == CHOOSE x \in todo : TRUE IN
       Warshall(R \cup {<<a, b>> \in N \X N : <<a, k>> \in R /\ <<k, b>> \in R}, N, todo \ {k})
Closure(E)   == Warshall(E, NodesOf(E), NodesOf(E))
CyclicTC(E)  == \E n \in NodesOf(E) : <<n, n>> \in Closure(E)
IsPermOf(order, S) == Range(order) = S /\ Len(order) = Cardinality(S)
IsTopo(order, E)   == \A e \in E : /\ Has(order, e[1]) /\ Has(order, e[2])
                                   /\ Index(order, e[1]) < Index(order, e[2])

\* what the property says about one run of the graph code: es = the edges in insertion order,
\* out = [raised |-> BOOLEAN, order |-> sequence of nodes]
RefGraphOK(es, out) ==
  LET E == EdgeSet(es) IN
  IF Cyclic(E) THEN out.raised
  ELSE ~out.raised /\ IsPermOf(out.order, NodesOf(E)) /\ IsTopo(out.order, E)

(***************************************************************************)
(* Part A, Alg: class DirectedGraph                                        *)
(***************************************************************************)
\* __init__:76-78   nodes = [], edges_dict = defaultdict(list); adj[i] is edges_dict[i] (0-based i in the code)
EmptyGraph == [nodes |-> << >>, adj |-> << >>]

\* add_edge:81-83   `if node not in self.nodes: self.nodes.append(node)`
Mention(g, n) == IF Has(g.nodes, n) THEN g ELSE [nodes |-> Append(g.nodes, n), adj |-> Append(g.adj, << >>)]
\* add_edge:80-87
AddEdge(g, s, t) ==
  LET g1 == Mention(Mention(g, s), t)
      si == Index(g1.nodes, s)
      ti == Index(g1.nodes, t)
  IN IF Has(g1.adj[si], ti) THEN g1 ELSE [g1 EXCEPT !.adj[si] = Append(@, ti)]
RECURSIVE AddEdges(_, _, _)
AddEdges(g, es, i) == IF i > Len(es) THEN g ELSE AddEdges(AddEdge(g, es[i][1], es[i][2]), es, i + 1)
BuildGraph(es) == AddEdges(EmptyGraph, es, 1)

\* the mutable lists of get_topological_order, plus `raised` for the ValueError (unwinds every frame)
SortInit == [exploring |-> {}, visited |-> {}, order |-> << >>, raised |-> FALSE, at |-> << >>]

\* topological_sort:98-109
RECURSIVE TopoSort(_, _, _), TopoTargets(_, _, _, _)
TopoSort(g, source, st) ==
  LET st1 == [st EXCEPT !.exploring = @ \cup {source}]                              \* :99
      st2 == TopoTargets(g, source, 1, st1)                                         \* :100-106
  IN IF st2.raised THEN st2
     ELSE [st2 EXCEPT !.visited = @ \cup {source}, !.exploring = @ \ {source},      \* :107-108
                      !.order = <<source>> \o @]                                    \* :109 order.insert(0, source)
TopoTargets(g, source, k, st) ==
  IF st.raised THEN st
  ELSE IF k > Len(g.adj[source]) THEN st
  ELSE LET target == g.adj[source][k] IN
       IF target \in st.exploring THEN [st EXCEPT !.raised = TRUE, !.at = <<source, target>>]   \* :101-104
       ELSE IF target \notin st.visited THEN TopoTargets(g, source, k + 1, TopoSort(g, target, st))   \* :105-106
       ELSE TopoTargets(g, source, k + 1, st)

\* get_topological_order:89-96
RECURSIVE TopoLoop(_, _, _)
TopoLoop(g, source, st) ==
  IF st.raised THEN st
  ELSE IF source > Len(g.nodes) THEN st
  ELSE IF source \in st.visited THEN TopoLoop(g, source + 1, st)
  ELSE TopoLoop(g, source + 1, TopoSort(g, source, st))
TopologicalOrder(g) ==
  LET st == TopoLoop(g, 1, SortInit) IN
  IF st.raised THEN [raised |-> TRUE, order |-> << >>]
  ELSE [raised |-> FALSE, order |-> [i \in 1..Len(st.order) |-> g.nodes[st.order[i]]]]      \* :96
AlgGraphRun(es) == TopologicalOrder(BuildGraph(es))

\* structural sanity of a built graph
GraphWellFormed(g) == /\ NoDup(g.nodes) /\ Len(g.adj) = Len(g.nodes)
                      /\ \A i \in DOMAIN g.adj : NoDup(g.adj[i]) /\ Range(g.adj[i]) \subseteq DOMAIN g.nodes
GraphEdges(g) == UNION {{<<g.nodes[i], g.nodes[g.adj[i][k]]>> : k \in DOMAIN g.adj[i]} : i \in DOMAIN g.adj}

(***************************************************************************)
(* Part B: shapes                                                          *)
(*                                                                         *)
(* A shape describes a parser with class components and links applied on   *)
(* instantiation:                                                          *)
(*   decl   sequence of top-level declarations in the order they are added *)
(*          [dest, kind, cparams]: kind "group" = add_class_arguments,     *)
(*          kind "sub" = a class-typed argument (add_subclass_arguments /  *)
(*          add_argument(type=Class)); cparams = the class-typed           *)
(*          parameters of a group (each one a parser-level argument        *)
(*          dest \o <<name>>), in signature order                          *)
(*   objs   every object that instantiate_classes constructs, as a set of  *)
(*          object paths (a nested object of a class argument has the path *)
(*          of its spec: <<"r","child","init_args","grand">>)              *)
(*   plains plain (non-class) top-level arguments that are link targets,    *)
(*          as paths <<"t1">>; they are never constructed, the value       *)
(*          arrives in the returned configuration                          *)
(*   links  sequence, in the order link_arguments is called, of            *)
(*          [srcs : sequence of [obj, attr] (attr "" = the whole object),  *)
(*           tobj : the object that receives the value (or a plain         *)
(*           argument), param : its parameter, fn : BOOLEAN (a compute     *)
(*           function is given)]                                           *)
(***************************************************************************)
IsPrefix(q, p)  == Len(q) <= Len(p) /\ \A i \in 1..Len(q) : q[i] = p[i]
Parent(p)       == SubSeq(p, 1, Len(p) - 1)
Last(p)         == p[Len(p)]
StartsWithDot(d, key) == d = key \/ (Len(d) > Len(key) /\ IsPrefix(key, d))       \* d == key or d.startswith(key + ".")

\* parser-level components of a shape, as instantiate_classes finds them
\* (round 4) two more kinds of declaration: "list" = a List[Class] argument whose value is a list of class specs, cparams =
\* the names of its items in list order (the items are the objects dest \o <<name>>; the list itself is not an object);
\* "opt" = an Optional[Class] argument whose value is None: a component that constructs nothing.
DeclActions(d) == IF d.kind = "group" THEN [i \in 1..Len(d.cparams) |-> d.dest \o <<d.cparams[i]>>] ELSE <<d.dest>>
CompDests(shape) == UNION {Range(DeclActions(shape.decl[i])) : i \in DOMAIN shape.decl}
                    \cup {shape.decl[i].dest : i \in DOMAIN shape.decl}
IsGroup(shape, o) == \E i \in DOMAIN shape.decl : shape.decl[i].dest = o /\ shape.decl[i].kind = "group"
IsList(shape, o)  == \E i \in DOMAIN shape.decl : shape.decl[i].dest = o /\ shape.decl[i].kind = "list"
IsOpt(shape, o)   == \E i \in DOMAIN shape.decl : shape.decl[i].dest = o /\ shape.decl[i].kind = "opt"
ItemsOf(shape, o) == LET d == shape.decl[CHOOSE i \in DOMAIN shape.decl : shape.decl[i].dest = o] IN [k \in DOMAIN d.cparams |-> o \o <<d.cparams[k]>>]
\* the component whose instantiation constructs object o: the longest component dest that is a prefix of o
OwnerOf(shape, o) == CHOOSE c \in CompDests(shape) : IsPrefix(c, o) /\ \A c2 \in CompDests(shape) : IsPrefix(c2, o) => Len(c2) <= Len(c)
\* o2 is constructed as (part of) a constructor argument of o1
Inside(o2, o1)  == o1 # o2 /\ IsPrefix(o1, o2)
\* the key link_arguments is given for a target: group parameters are plain, everything else goes through init_args
TargetKey(shape, l) == IF l.tobj \in shape.plains THEN l.tobj
                       ELSE IF IsGroup(shape, l.tobj) THEN l.tobj \o <<l.param>> ELSE l.tobj \o <<"init_args", l.param>>
\* dest of the action that owns the target key (what _find_parent_action returns, :145)
TargetAction(shape, l) == IF l.tobj \in shape.plains \/ IsGroup(shape, l.tobj) THEN TargetKey(shape, l) ELSE OwnerOf(shape, l.tobj)
\* (round 4) a link source may be an object nested inside a class argument (m.init_args.enc, written "m.enc" / "m.enc.u" in
\* the source key): SrcDest = dest of the action find_subclass_action_or_class_group returns (:46-60, the parent action
\* of the key), AttrPath = what follows that dest in the source key
SrcDest(shape, s)  == IF s.obj \in CompDests(shape) THEN s.obj ELSE OwnerOf(shape, s.obj)
AttrPath(shape, s) == LET c == SrcDest(shape, s)
                          NotIA(x) == x # "init_args"
                      IN SelectSeq(SubSeq(s.obj, Len(c) + 1, Len(s.obj)), NotIA) \o (IF s.attr = "" THEN << >> ELSE <<s.attr>>)
\* the objects a link feeds: every item of a List[Class] target, nothing when the target is an Optional argument that is None
Receivers(shape, l) == IF IsList(shape, l.tobj) THEN Range(ItemsOf(shape, l.tobj)) ELSE IF l.tobj \in shape.objs THEN {l.tobj} ELSE {}
\* every source of the link is an object that gets constructed (an Optional source that is None is not)
LiveLink(shape, l)  == \A j \in DOMAIN l.srcs : l.srcs[j].obj \in shape.objs

(***************************************************************************)
(* Part B, Ref                                                             *)
(***************************************************************************)
\* link edges between objects, and the dependency graph including "constructor argument of"
LinkEdgeSet(links) == UNION {{<<links[i].srcs[j].obj, links[i].tobj>> : j \in DOMAIN links[i].srcs} : i \in DOMAIN links}
ArgEdges(objs)     == {<<o2, o1>> \in objs \X objs : Inside(o2, o1)}
\* a link whose source can only exist after its target (the source contains the target) is outside the property
\* (round 4) a source nested inside a class argument (m.init_args.enc) only comes into existence while that argument is
\* instantiated: the same dependency graph with such sources lifted to their component (m).  A link set that is
\* cyclic only after the lifting (s --> m.q, m.enc --> s.p) is outside the property like the ones above.
\* (not for a link whose sources and target lie inside ONE class argument: its source exists where it is applied)
SameArgument(shape, l) == /\ l.tobj \notin shape.plains /\ ~IsGroup(shape, l.tobj) /\ ~IsList(shape, l.tobj)
                          /\ \A j \in DOMAIN l.srcs : SrcDest(shape, l.srcs[j]) = OwnerOf(shape, l.tobj) /\ l.srcs[j].obj # SrcDest(shape, l.srcs[j])
LiftedEdgeSet(shape, links) == UNION {{<<IF SameArgument(shape, links[i]) THEN links[i].srcs[j].obj ELSE SrcDest(shape, links[i].srcs[j]), links[i].tobj>>
                                         : j \in DOMAIN links[i].srcs} : i \in DOMAIN links}
AnyNestedSource(shape, links) == \E i \in DOMAIN links : \E j \in DOMAIN links[i].srcs : links[i].srcs[j].obj \notin CompDests(shape)
Feasible(shape)    == /\ ~Cyclic(LinkEdgeSet(shape.links) \cup ArgEdges(shape.objs))
                      /\ AnyNestedSource(shape, shape.links) => ~Cyclic(LiftedEdgeSet(shape, shape.links) \cup ArgEdges(shape.objs))

\* a construction log is a sequence of events
\*   [ev |-> "new", obj |-> object path, kw |-> function param -> value term]   a constructor call
\*   [ev |-> "fn", link |-> i, args |-> sequence of value terms]                  a compute function call
\* value terms: [k |-> "obj", o |-> path, n |-> occurrence], [k |-> "attr", o |-> path, a |-> name, n |-> occ],
\*              [k |-> "fn", i |-> link, args |-> ...], [k |-> "stale", o |-> path] (an un-instantiated spec), [k |-> "none"]
Obj(o)        == [k |-> "obj", o |-> o, n |-> 1]
Attr(o, a)    == [k |-> "attr", o |-> o, a |-> a, n |-> 1]
FnVal(i, as)  == [k |-> "fn", i |-> i, args |-> as]
Stale(o)      == [k |-> "stale", o |-> o]
None          == [k |-> "none"]

News(log)        == {i \in DOMAIN log : log[i].ev = "new"}
NewOf(log, o)    == {i \in News(log) : log[i].obj = o}
FirstNew(log, o) == CHOOSE i \in NewOf(log, o) : \A j \in NewOf(log, o) : i <= j

ExactlyOnce(log, objs) == /\ \A o \in objs : Cardinality(NewOf(log, o)) = 1
                          /\ \A i \in News(log) : log[i].obj \in objs
BuiltBefore(log, links, objs) ==
  \A e \in LinkEdgeSet(links) : e[2] \in objs => (NewOf(log, e[1]) # {} /\ NewOf(log, e[2]) # {} /\ FirstNew(log, e[1]) < FirstNew(log, e[2]))
SrcVal(s)           == IF s.attr = "" THEN Obj(s.obj) ELSE Attr(s.obj, s.attr)
Expected(links, i)  == IF links[i].fn THEN FnVal(i, [j \in DOMAIN links[i].srcs |-> SrcVal(links[i].srcs[j])])
                       ELSE SrcVal(links[i].srcs[1])
ReceivesSource(log, links) ==
  \A i \in DOMAIN links : \A n \in NewOf(log, links[i].tobj) :
     links[i].param \in DOMAIN log[n].kw /\ log[n].kw[links[i].param] = Expected(links, i)
\* a compute function is called once per link, with the source values
FnCalledOnce(log, links) ==
  \A i \in DOMAIN links : LET calls == {n \in DOMAIN log : log[n].ev = "fn" /\ log[n].link = i} IN
     IF links[i].fn THEN Cardinality(calls) = 1 /\ \A n \in calls : FnVal(i, log[n].args) = Expected(links, i)
     ELSE calls = {}

\* (round 4) the same clauses over shapes with List[Class] targets (every item is fed), Optional components that are None
\* (nothing is constructed for them; what a link fed from a missing source delivers is not stated by the property: Ref is
\* silent there, the others must still be ordered, constructed once and fed) and sources nested inside a class argument.
\* On shapes without these features they coincide with BuiltBefore / ReceivesSource / FnCalledOnce above.
LinkEdgeSetX(shape) == UNION {{<<shape.links[i].srcs[j].obj, r>> : j \in {x \in DOMAIN shape.links[i].srcs : shape.links[i].srcs[x].obj \in shape.objs},
                                                                  r \in Receivers(shape, shape.links[i])} : i \in DOMAIN shape.links}
BuiltBeforeX(shape, log) ==
  \A e \in LinkEdgeSetX(shape) : NewOf(log, e[1]) # {} /\ NewOf(log, e[2]) # {} /\ FirstNew(log, e[1]) < FirstNew(log, e[2])
ReceivesSourceX(shape, log) ==
  \A i \in DOMAIN shape.links : LiveLink(shape, shape.links[i]) => \A r \in Receivers(shape, shape.links[i]) : \A n \in NewOf(log, r) :
     shape.links[i].param \in DOMAIN log[n].kw /\ log[n].kw[shape.links[i].param] = Expected(shape.links, i)
FnCalledOnceX(shape, log) ==
  \A i \in DOMAIN shape.links : LET calls == {n \in DOMAIN log : log[n].ev = "fn" /\ log[n].link = i} IN
     IF ~shape.links[i].fn THEN calls = {}
     ELSE IF LiveLink(shape, shape.links[i]) THEN Cardinality(calls) = 1 /\ \A n \in calls : FnVal(i, log[n].args) = Expected(shape.links, i)
     ELSE Cardinality(calls) <= 1
RefInstOK(shape, log) == /\ ExactlyOnce(log, shape.objs)
                         /\ BuiltBeforeX(shape, log)
                         /\ ReceivesSourceX(shape, log)
\* links into plain arguments: the returned configuration holds the value (final: plain path -> value term)
RefPlainOK(shape, final) ==
  \A i \in DOMAIN shape.links : (shape.links[i].tobj \in shape.plains /\ LiveLink(shape, shape.links[i])) =>
     (shape.links[i].tobj \in DOMAIN final /\ final[shape.links[i].tobj] = Expected(shape.links, i))

\* "A set of links that would create a cycle is rejected when the link is added":
\* results[i] \in {"ok", "rejected"} for the links in the order they are added, stopping at the first rejection.
\* A cycle among the links must be rejected; a set that is acyclic even together with the constructor-argument
\* edges must be accepted; in between (cyclic only through a constructor argument) the property does not say.
SubLinks(links, n) == SubSeq(links, 1, n)
RefAddOK(shape, results) ==
  LET links == shape.links IN
  /\ Len(results) <= Len(links)
  /\ \A i \in DOMAIN results :
        /\ results[i] \in {"ok", "rejected"}
        /\ Cyclic(LinkEdgeSet(SubLinks(links, i))) => results[i] = "rejected"
        /\ (/\ ~Cyclic(LinkEdgeSet(SubLinks(links, i)) \cup ArgEdges(shape.objs))
            /\ AnyNestedSource(shape, SubLinks(links, i)) => ~Cyclic(LiftedEdgeSet(shape, SubLinks(links, i)) \cup ArgEdges(shape.objs))) => results[i] = "ok"
        /\ results[i] = "rejected" => i = Len(results)
  /\ (Len(results) < Len(links) => Len(results) > 0 /\ results[Len(results)] = "rejected")
AllAccepted(shape, results) == Len(results) = Len(shape.links) /\ \A i \in DOMAIN results : results[i] = "ok"

(***************************************************************************)
(* Part B, Alg                                                             *)
(***************************************************************************)
\* split_key_leaf(key)[0] with a trailing ".init_args" removed (:417): the graph node of a link target
\* (split_key_leaf of a key without a dot returns the key itself)
DropInitArgs(p)  == IF Len(p) > 0 /\ Last(p) = "init_args" THEN Parent(p) ELSE p
TargetNode(tkey) == IF Len(tkey) = 1 THEN tkey ELSE DropInitArgs(Parent(tkey))

\* :416-420  one edge per source of every link (source_action.dest --> target node); targets in first-mention order
RECURSIVE LinkEdgeSeq(_, _, _)
LinkEdgeSeq(shape, links, i) ==
  IF i > Len(links) THEN << >>
  ELSE LET t == TargetNode(TargetKey(shape, links[i])) IN
       [j \in DOMAIN links[i].srcs |-> <<SrcDest(shape, links[i].srcs[j]), t>>] \o LinkEdgeSeq(shape, links, i + 1)
RECURSIVE TargetSeq(_, _, _, _)
TargetSeq(shape, links, i, acc) ==
  IF i > Len(links) THEN acc
  ELSE LET t == TargetNode(TargetKey(shape, links[i])) IN
       TargetSeq(shape, links, i + 1, IF Has(acc, t) THEN acc ELSE Append(acc, t))
\* :423  sorted(targets, key=lambda x: len(split_key(x))) over a set: the order among targets of equal length is the
\* set's, but it cannot influence the graph -- every edge added by :424-431 starts at a different node (the target
\* itself), and all its end points were mentioned by :416-420 already
SortByLen(ts) == LET mx == IF ts = << >> THEN 0 ELSE CHOOSE m \in {Len(ts[i]) : i \in DOMAIN ts} : \A i \in DOMAIN ts : Len(ts[i]) <= m
                 IN Concat([n \in 1..mx |-> LET K(x) == Len(x) = n IN SelectSeq(ts, K)], 1)
\* :426-430  prefixes of a target, "init_args." glued to the following name, the full key excluded
GluedPrefixes(t) == LET ends == {n \in 1..(Len(t) - 1) : t[n] # "init_args"} IN
                    [k \in 1..Cardinality(ends) |-> SubSeq(t, 1, CHOOSE n \in ends : Cardinality({m \in ends : m < n}) = k - 1)]
\* :424-431
RECURSIVE PrefixEdgeSeq(_, _, _)
PrefixEdgeSeq(ts, i, seen) ==
  IF i > Len(ts) THEN << >>
  ELSE LET K(q) == q \in seen
           ps   == SelectSeq(GluedPrefixes(ts[i]), K)
       IN [k \in DOMAIN ps |-> <<ts[i], ps[k]>>] \o PrefixEdgeSeq(ts, i + 1, seen \cup {ts[i]})
\* instantiation_order:409-434.  repair = FALSE is the code as it is; repair = TRUE is the repair proposed in
\* tools/design.d/C16.md (seen_targets = set(graph.nodes), loop over all targets): a nested target is connected to
\* every enclosing graph node, not only to enclosing targets.
InstantiationOrderR(shape, links, repair) ==
  IF links = << >> THEN [raised |-> FALSE, order |-> << >>]
  ELSE LET ts == SortByLen(TargetSeq(shape, links, 1, << >>))
           le == LinkEdgeSeq(shape, links, 1)
           es == le \o (IF repair THEN PrefixEdgeSeq(ts, 1, NodesOf(EdgeSet(le))) ELSE PrefixEdgeSeq(ts, 2, {ts[1]}))
       IN AlgGraphRun(es)
InstantiationOrder(shape, links) == InstantiationOrderR(shape, links, FALSE)

\* reorder:437-447 over a sequence of items [d |-> dest, x |-> payload] (components: d = x = dest; link actions:
\* d = target key, x = link index)
RECURSIVE Reorder(_, _, _)
Reorder(order, i, items) ==
  IF i > Len(order) THEN items
  ELSE LET In(it)  == StartsWithDot(it.d, order[i])                                \* :442
           Out(it) == ~StartsWithDot(it.d, order[i])
       IN SelectSeq(items, In) \o Reorder(order, i + 1, SelectSeq(items, Out))    \* :443-447
Payloads(items) == [i \in DOMAIN items |-> items[i].x]

\* _core.py:1214-1228  actions first (in parser._actions order), then groups, stable sort by decreasing depth, reorder
ParserComponents(shape) ==
  LET acts == Concat([i \in DOMAIN shape.decl |-> DeclActions(shape.decl[i])], 1)
      G(d) == d.kind = "group"
      grps == LET gs == SelectSeq(shape.decl, G) IN [i \in DOMAIN gs |-> gs[i].dest]
  IN acts \o grps
SortByDepthDesc(cs) == LET mx == IF cs = << >> THEN 0 ELSE CHOOSE m \in {Len(cs[i]) : i \in DOMAIN cs} : \A i \in DOMAIN cs : Len(cs[i]) <= m
                       IN Concat([n \in 1..mx |-> LET K(x) == Len(x) = mx + 1 - n IN SelectSeq(cs, K)], 1)
PlannedComponents(shape, order) ==
  LET cs == SortByDepthDesc(ParserComponents(shape)) IN
  Payloads(Reorder(order, 1, [i \in DOMAIN cs |-> [d |-> cs[i], x |-> cs[i]]]))

\* the objects one component constructs, inner ones first (ActionTypeHint.instantiate_classes is post-order)
OwnedObjects(shape, c) == {o \in shape.objs : OwnerOf(shape, o) = c}
RECURSIVE DeepestFirst(_)
DeepestFirst(S) == IF S = {} THEN << >>
                   ELSE LET o == CHOOSE x \in S : \A y \in S : Len(y) <= Len(x) IN <<o>> \o DeepestFirst(S \ {o})

\* is_nested_instantiation_link:481-491: source and target inside the same class argument (handled by the type hint)
IsNestedLink(shape, l) ==
  /\ l.tobj \notin shape.plains /\ ~IsGroup(shape, l.tobj)
  /\ ~IsList(shape, l.tobj)                                          \* is_subclass_typehint without also_lists
  /\ \A j \in DOMAIN l.srcs : SrcDest(shape, l.srcs[j]) = TargetAction(shape, l) /\ AttrPath(shape, l.srcs[j]) # << >>

\* the state of one instantiate_classes call
\*   built    objects constructed so far                 vals   target key -> value written by a link
\*   applied  links recorded in __applied_instantiation_links__    log   the construction log
\*   failed   an exception escaped (AttributeError on an un-instantiated group, see :358)
MachineInit == [built |-> {}, vals |-> << >>, applied |-> {}, log |-> << >>, failed |-> FALSE]

\* apply_instantiation_links:343-358  the value of one source.  `cfg[source_action.dest]` (:345) walks the
\* configuration by the dotted key: once a class group is instantiated its entry is the object, and a class-typed
\* parameter below it (r.child) can no longer be reached (NSKeyError) -- recorded deviation nested-source-unreachable.
SourceUnreachable(shape, m, s) == \E g \in m.built : IsGroup(shape, g) /\ Inside(s.obj, g)
\* (round 4) :349 `attr = split_key_leaf(source_key)[1]` keeps only the LAST name of the source key, and :358 reads it from
\* the object of the source action: for a source nested two or more names below the action ("m.enc.u", "m.enc.inner") the
\* value is the attribute u of m itself -- or the link is ignored when m has no such attribute -- recorded deviation
\* nested-attr-source (LeafOnly).  Universe: every object has the attributes u and v and one attribute per class-typed
\* parameter, named like the parameter, holding the object it was given.
ChildObj(shape, c, a)  == IF IsGroup(shape, c) THEN c \o <<a>> ELSE c \o <<"init_args", a>>
LeafValue(shape, c, a) == IF a \in {"u", "v"} THEN Attr(c, a)
                          ELSE IF ChildObj(shape, c, a) \in shape.objs THEN Obj(ChildObj(shape, c, a)) ELSE [k |-> "skip"]
LeafOnly(shape, s)     == Len(AttrPath(shape, s)) >= 2
SourceValue(shape, m, s) ==
  LET c  == SrcDest(shape, s)
      ap == AttrPath(shape, s)
  IN IF SourceUnreachable(shape, m, s) THEN [k |-> "raise"]
     ELSE IF IsOpt(shape, c) THEN (IF ap = << >> THEN None ELSE [k |-> "skip"])     \* cfg[dest] is None: passed on (:347) / no attribute (:352)
     ELSE IF c \in m.built THEN (IF ap = << >> THEN Obj(c) ELSE LeafValue(shape, c, Last(ap)))   \* :347 / :349,:358
     ELSE IF ap = << >> THEN Stale(c)                                   \* :347 the Namespace of the spec is passed on
     ELSE IF IsGroup(shape, c) THEN [k |-> "raise"]                     \* :358 getattr(Namespace, attr)
     ELSE [k |-> "skip"]                                                \* :352-357 "ignored since attribute not found"
\* apply one link action (:343-367)
ApplyLink(shape, m, i) ==
  LET l    == shape.links[i]
      raw  == [j \in DOMAIN l.srcs |-> SourceValue(shape, m, l.srcs[j])]
      Ok(v) == v.k # "skip"
      args == SelectSeq(raw, Ok)
      tkey == TargetKey(shape, l)
  IN IF \E j \in DOMAIN raw : raw[j].k = "raise" THEN [m EXCEPT !.failed = TRUE]
     ELSE IF args = << >> THEN m                                                                      \* :359-360
     ELSE LET value == IF l.fn THEN FnVal(i, args) ELSE args[1]                                      \* :361-364
              log2  == IF l.fn THEN Append(m.log, [ev |-> "fn", link |-> i, args |-> args]) ELSE m.log
          IN [m EXCEPT !.vals = [k \in DOMAIN m.vals \cup {tkey} |-> IF k = tkey THEN value ELSE m.vals[k]],   \* :365
                       !.applied = @ \cup {i}, !.log = log2]                                         \* :366
RECURSIVE ApplyLinks(_, _, _, _)
ApplyLinks(shape, m, idxs, n) == IF n > Len(idxs) \/ m.failed THEN m ELSE ApplyLinks(shape, ApplyLink(shape, m, idxs[n]), idxs, n + 1)

\* apply_instantiation_links:327-370 called with target=component.dest (order=None) ...
ApplyFor(shape, m, target) ==
  LET K(i) == /\ i \notin m.applied                                                                   \* :333 skip=applied_links
              /\ StartsWithDot(TargetKey(shape, shape.links[i]), target)                              \* :339-340
              /\ ~IsNestedLink(shape, shape.links[i])                                                 \* :341
      idxs == SelectSeq([i \in DOMAIN shape.links |-> i], K)
  IN ApplyLinks(shape, m, idxs, 1)
\* ... and called at the end with order=order (target=None): every remaining link, reordered (:334-335)
ApplyRest(shape, m, order) ==
  LET K(i) == i \notin m.applied /\ ~IsNestedLink(shape, shape.links[i])
      rest == SelectSeq([i \in DOMAIN shape.links |-> i], K)
      idxs == Payloads(Reorder(order, 1, [n \in DOMAIN rest |-> [d |-> TargetKey(shape, shape.links[rest[n]]), x |-> rest[n]]]))
  IN ApplyLinks(shape, m, idxs, 1)

\* constructing one component (_core.py:1233-1248): its objects inner first, each with the values the links wrote
\* (a link into a List[Class] argument writes the value into every item, set_target_value:392-396)
FeedsObj(shape, l, o) == l.tobj = o \/ (Len(o) = Len(l.tobj) + 1 /\ IsPrefix(l.tobj, o) /\ IsList(shape, l.tobj))
KwOf(shape, m, o) == LET ps == {i \in DOMAIN shape.links : FeedsObj(shape, shape.links[i], o)} IN
  [p \in {shape.links[i].param : i \in ps} |->
     LET i == CHOOSE x \in ps : shape.links[x].param = p
         k == TargetKey(shape, shape.links[i])
     IN IF k \in DOMAIN m.vals THEN m.vals[k] ELSE None]
RECURSIVE NewEvents(_, _, _, _)
NewEvents(shape, m, os, n) == IF n > Len(os) THEN << >>
                              ELSE <<[ev |-> "new", obj |-> os[n], kw |-> KwOf(shape, m, os[n])]>> \o NewEvents(shape, m, os, n + 1)
\* (round 4) sibling nested classes are constructed in signature order (the inner parser of _typehints.py:636-662 adds
\* the class-typed parameters in that order and has no links of its own here): a shape may carry `sig`, a sequence of its
\* objects in which siblings appear in signature order; without it the order among siblings is left open (CHOOSE)
RECURSIVE PostOrder(_, _)
PostOrder(shape, o) == LET K(q) == Len(q) = Len(o) + 2 /\ IsPrefix(o, q) /\ q[Len(o) + 1] = "init_args"
                           ks   == SelectSeq(shape.sig, K)
                       IN Concat([k \in DOMAIN ks |-> PostOrder(shape, ks[k])], 1) \o <<o>>
Construct(shape, m, c) ==
  LET os == IF IsList(shape, c) THEN ItemsOf(shape, c)                                                   \* _typehints.py:624 items in list order
            ELSE IF "sig" \in DOMAIN shape /\ c \in shape.objs THEN PostOrder(shape, c)
            ELSE DeepestFirst(OwnedObjects(shape, c)) IN
  [m EXCEPT !.built = @ \cup Range(os), !.log = @ \o NewEvents(shape, m, os, 1)]

\* the loop of instantiate_classes:1231-1250 as a fold (MC_LinksInst runs the same steps as actions)
RECURSIVE RunLoop(_, _, _, _)
RunLoop(shape, m, comps, n) ==
  IF m.failed \/ n > Len(comps) THEN m
  ELSE LET m1 == ApplyFor(shape, m, comps[n]) IN
       RunLoop(shape, IF m1.failed THEN m1 ELSE Construct(shape, m1, comps[n]), comps, n + 1)
AlgInstantiateR(shape, repair) ==
  LET o  == InstantiationOrderR(shape, shape.links, repair) \* :1227
      cs == PlannedComponents(shape, o.order)               \* :1228
      m  == RunLoop(shape, MachineInit, cs, 1)              \* :1231-1248
  IN IF m.failed THEN m ELSE ApplyRest(shape, m, o.order)   \* :1250
AlgInstantiate(shape) == AlgInstantiateR(shape, FALSE)
\* what the returned configuration holds for the plain link targets
FinalPlain(shape, m) == [t \in shape.plains |-> IF t \in DOMAIN m.vals THEN m.vals[t] ELSE None]

\* link_arguments one link at a time: the cycle check of ActionLink.__init__:193-198 runs instantiation_order over
\* the links added so far (the new one included, :191) and turns its ValueError into the rejection
RECURSIVE AlgAddLinksR(_, _, _)
AlgAddLinksR(shape, n, repair) ==
  IF n > Len(shape.links) THEN << >>
  ELSE IF InstantiationOrderR(shape, SubLinks(shape.links, n), repair).raised THEN <<"rejected">>
  ELSE <<"ok">> \o AlgAddLinksR(shape, n + 1, repair)
AlgAddLinks(shape, n) == AlgAddLinksR(shape, n, FALSE)

(***************************************************************************)
(* Round 4: recorded deviations of the extended universe, as predicates of *)
(* the shape (shared by MC_LinksExt and Trace_Links)                       *)
(***************************************************************************)
NestedLinks(sh) == {i \in DOMAIN sh.links : IsNestedLink(sh, sh.links[i])}
\* nested-attr-source: a source two or more names below its action is read by its last name only (:349)
LeafLinks(sh)   == {i \in DOMAIN sh.links : \E j \in DOMAIN sh.links[i].srcs : LeafOnly(sh, sh.links[i].srcs[j])}
\* nested-link-owner-targeted: a nested link contributes the edge m --> m.init_args.dec (:416-420, its source action is
\* m), and the node m.init_args.dec gets an edge back to m as soon as m is itself a target node (:424-431) -- or the
\* nested link feeds a parameter of m itself (edge m --> m): a cycle in the graph that is no cycle of links.  n = number
\* of links added so far.
OwnerTargeted(sh, n) == \E i \in 1..n : \E k \in 1..n :
                           /\ IsNestedLink(sh, sh.links[i])
                           /\ TargetNode(TargetKey(sh, sh.links[k])) = TargetAction(sh, sh.links[i])
\* nested-cycle-accepted: the graph node of a source nested inside a class argument is the argument's action, and the
\* node of a target nested inside a component is only tied to enclosing TARGETS: a cycle of links through such an
\* object (s.u --> r.child.init_args.grand.init_args.p, r.child.grand --> s.q) is not a cycle of the graph
HasNestedSource(sh, n) == \E i \in 1..n : \E j \in DOMAIN sh.links[i].srcs : sh.links[i].srcs[j].obj \notin CompDests(sh)
NestedCycleAccepted(sh, results) == \E n \in DOMAIN results : /\ results[n] = "ok" /\ Cyclic(LinkEdgeSet(SubLinks(sh.links, n)))
                                                              /\ HasNestedSource(sh, n)
=============================================================================
