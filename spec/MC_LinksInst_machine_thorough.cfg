INIT InitMachine
NEXT NextMachine
CONSTANTS
  MaxFlat = 3
  FullPermsUpTo = 3
  AllKindsUpTo = 2
  MaxDeepLinks = 2
  DeepFull = TRUE
  Emit = FALSE
INVARIANT MTypeOK
INVARIANT Bookkeeping
INVARIANT NoStale
INVARIANT AppliedBeforeBuilt
INVARIANT MachineAgreesWithFold
INVARIANT DoneRefinesRef
INVARIANT RejectedRefinesRef
CHECK_DEADLOCK FALSE
