-------------------------- MODULE Trace_SubSources --------------------------
(* Validation of parses observed on the real jsonargparse (code -> spec) for the sources of a sub-command's      *)
(* options.  TRACE_FILE holds a sequence of cases [s, obs]: the combination of sources that was rendered into    *)
(* files / environment / argv, and the final a.x / a.l the real parse_args returned.  Each case is checked       *)
(* against the documented order (Ref, verdict) and against the staged algorithm (Alg, drift).                    *)
EXTENDS SubSources, Json, IOUtils, TLCExt

Cases == JsonDeserialize(IOEnv.TRACE_FILE)
VARIABLE tidx
Init == tidx \in 1..Len(Cases)
Next == UNCHANGED tidx
Say(idx, clause) == PrintT(<<"R", "case", idx, clause>>)
Check ==
  LET c == Cases[tidx]
      refs == RefOutcomes(c.s)
      alg == AlgFinal(c.s)
      dev == Deviation(c.s)
  IN /\ (c.obs \in refs) \/ Say(tidx, IF dev \notin {"none", "unnamed"} /\ c.obs = alg THEN "ref-dev-as-alg:" \o dev ELSE "ref")
     /\ (c.obs = alg) \/ Say(tidx, "alg")
Inv == Check \/ TRUE
=============================================================================
