SPECIFICATION Spec
CONSTANTS
  Variant = "dumpfirst"
  Level = 1
  MaxFaults = 2
  Ext = 0
  Emit = FALSE
INVARIANT TypeOK
INVARIANT InvRunAgrees
INVARIANT InvNoSilentOverwrite
INVARIANT InvAtomicSingle
INVARIANT InvMainNotEmptiedByBadConfig
INVARIANT InvSavedReparsesModuloKnown
INVARIANT InvCauseSound
CHECK_DEADLOCK FALSE
