------------------------------ MODULE Channels ------------------------------
(***************************************************************************)
(* The same settings give the same configuration through every input       *)
(* channel (property C05).                                                 *)
(*                                                                         *)
(* A JSON value is  [c, e]  with c \in {"scalar","list","dict"} and e a    *)
(* sequence of elements [k, id, key]: k the scalar kind ("int","float",    *)
(* "bool","null","str"), id its canonical text ("3", "2.5", "1.0", "true", *)
(* "null", or the string itself), key the dict key ("" otherwise).  A      *)
(* scalar is a one-element sequence; c = "dictlist" is a dict whose values  *)
(* are lists (the elements of one list share their key).  A type is         *)
(* [c, st, opt]: container,                                                 *)
(* scalar type of the (element) value, Optional or not.                    *)
(*                                                                         *)
(* Ref:  Outcome(shape, settings) -- does not mention the channel: the     *)
(*       settings are accepted iff every value is accepted by the type of  *)
(*       its key, and then the result is the fold of the normalised values *)
(*       (Sources.tla's "set").  Channel independence is therefore the     *)
(*       statement  AlgOutcome(ch, ...) = Outcome(...)  for every channel. *)
(* Alg:  what each channel hands to the type adapter and how that is read: *)
(*       text channels (argv, environment) deliver text that load_value    *)
(*       reads (strings raw, everything else as JSON), with the fall-back  *)
(*       to the original text for str; document channels (config file /    *)
(*       string, parse_string, parse_path, object) deliver loaded values   *)
(*       through _apply_actions, which runs leniently: a null is kept for  *)
(*       ANY type there, while a text channel rejects "null" for a         *)
(*       non-Optional type -- the named deviation NullNonOptional.         *)
(***************************************************************************)
EXTENDS Naturals, Sequences, FiniteSets, TLC

El(k, id, key) == [k |-> k, id |-> id, key |-> key]
Scalar(k, id)  == [c |-> "scalar", e |-> <<El(k, id, "")>>]
Null           == Scalar("null", "null")
Ty(c, st, opt) == [c |-> c, st |-> st, opt |-> opt]

\* "argv_items": a dict-typed key is given item by item (--d.k1=1, --dl.k1=[1, 2]); other values as --k=v
TextChannels == {"argv_eq", "argv_sp", "env", "argv_items"}
DocChannels  == {"cfg_file", "cfg_str", "parse_string", "parse_path", "object_nested", "object_dotted"}
AllChannels  == TextChannels \cup DocChannels

(***************************************************************************)
(* The type adapter on unambiguous values (adapt_typehints leaf, list and  *)
(* dict branches, _typehints.py:731-934; bool is not an int: :775-781)     *)
(***************************************************************************)
ElemOk(st, el) ==
  CASE st = "int"   -> el.k = "int"
    [] st = "float" -> el.k \in {"int", "float"}
    [] st = "bool"  -> el.k = "bool"
    [] st = "str"   -> el.k = "str"
\* the canonical text (Python repr) of an int converted to float: 3 -> "3.0", 10^16 -> "1e+16"
FloatIdOfInt(id) == IF id = "10000000000000000" THEN "1e+16" ELSE id \o ".0"
ElemNorm(st, el) == IF st = "float" /\ el.k = "int" THEN El("float", FloatIdOfInt(el.id), el.key) ELSE el

IsNull(v) == v.c = "scalar" /\ v.e[1].k = "null"
Accepts(t, v) ==
  IF IsNull(v) THEN t.opt
  ELSE /\ (v.c = t.c \/ (v.c = "dict" /\ v.e = << >> /\ t.c = "dictlist"))          \* {} is the empty dict of any value type
       /\ \A j \in 1..Len(v.e) : ElemOk(t.st, v.e[j])
Norm(t, v) == IF IsNull(v) THEN v ELSE [c |-> v.c, e |-> [j \in 1..Len(v.e) |-> ElemNorm(t.st, v.e[j])]]

(***************************************************************************)
(* Ref: one outcome per settings, whatever the channel                     *)
(***************************************************************************)
\* settings: sequence of [key, v];  shape: key -> type;  result: key -> value (Null when never set)
RECURSIVE FoldSet(_, _, _)
FoldSet(shape, cfg, ss) ==
  IF ss = << >> THEN cfg
  ELSE FoldSet(shape, [cfg EXCEPT ![Head(ss).key] = Norm(shape[Head(ss).key], Head(ss).v)], Tail(ss))
AllAccepted(shape, ss) == \A j \in 1..Len(ss) : Accepts(shape[ss[j].key], ss[j].v)
Unset(shape) == [k \in DOMAIN shape |-> Null]
Rejected(shape) == [ok |-> FALSE, cfg |-> Unset(shape)]
Outcome(shape, ss) == IF AllAccepted(shape, ss) THEN [ok |-> TRUE, cfg |-> FoldSet(shape, Unset(shape), ss)] ELSE Rejected(shape)

(***************************************************************************)
(* Alg: per channel and parser mode                                        *)
(***************************************************************************)
ObjectChannels  == {"object_nested", "object_dotted"}
DocTextChannels == DocChannels \ ObjectChannels

\* --- named deviation 1 (finding C05 jsonnet:integral-float): the jsonnet loader manifests numbers as doubles and
\* prints integral ones without a fraction, so 2500.0 / 2.5e3 / 1.0 arrive as the INT 2500 / 1 wherever text goes
\* through the mode's loader: config documents always, command line and environment text for containers (scalars are
\* read by load_basic before the mode's loader is asked, _loaders_dumpers.py:184-205).
IntegralAsInt == [id \in {"1.0", "2500.0", "1000.0", "1e+16"} |->
                    CASE id = "1.0" -> "1" [] id = "2500.0" -> "2500" [] id = "1000.0" -> "1000" [] id = "1e+16" -> "10000000000000000"]
JsonnetApplies(ch, mode, v) == mode = "jsonnet" /\ ch \notin ObjectChannels /\ (v.c # "scalar" \/ ch \in DocTextChannels)
JsonnetEl(el) == IF el.k = "float" /\ el.id \in DOMAIN IntegralAsInt THEN El("int", IntegralAsInt[el.id], el.key) ELSE el
HasIntegralFloat(v) == \E j \in 1..Len(v.e) : v.e[j].k = "float" /\ v.e[j].id \in DOMAIN IntegralAsInt

\* A raw string on a text channel is first read by load_value; the adapter rejects a non-str loaded value for str and
\* _check_type:583-597 retries with the ORIGINAL text, so look-alikes ("1", "true", "1e3") arrive unchanged.  A text
\* that YAML reads as null ("null", "~", a comment "#x") at an Optional[str] position IS None -- on every channel, also
\* as a JSON string in a document, because string values are loaded there too.  Such texts are ambiguous and not part
\* of the property's quantifier; the instances do not offer them.
ReadsAsNull(s) == s \in {"null", "~", "#x", "#c"}
IsStrScalarVal(v) == v.c = "scalar" /\ v.e[1].k = "str"

\* what the adapter finally works on
AlgDeliver(ch, mode, t, v) ==
  IF JsonnetApplies(ch, mode, v) THEN [c |-> v.c, e |-> [j \in 1..Len(v.e) |-> JsonnetEl(v.e[j])]]
  ELSE v

\* --- named deviation 2 (finding C05 null:non-optional): _apply_actions runs leniently, a None is kept for ANY type on
\* the document channels (_core.py:1410-1411, validate skips None), while "null" as text is rejected for a
\* non-Optional type.
AlgAccepts(ch, t, d) ==
  IF IsNull(d) THEN (IF ch \in DocChannels THEN TRUE ELSE t.opt)
  ELSE IF ch \in TextChannels /\ IsStrScalarVal(d) THEN (t.c = "scalar" /\ t.st = "str")
  ELSE Accepts(t, d)

RECURSIVE AlgFoldSet(_, _, _, _, _)
AlgFoldSet(ch, mode, shape, cfg, ss) ==
  IF ss = << >> THEN cfg
  ELSE LET t == shape[Head(ss).key] IN
       AlgFoldSet(ch, mode, shape, [cfg EXCEPT ![Head(ss).key] = Norm(t, AlgDeliver(ch, mode, t, Head(ss).v))], Tail(ss))
AlgAllAccepted(ch, mode, shape, ss) == \A j \in 1..Len(ss) : AlgAccepts(ch, shape[ss[j].key], AlgDeliver(ch, mode, shape[ss[j].key], ss[j].v))
AlgOutcome(ch, mode, shape, ss) ==
  IF AlgAllAccepted(ch, mode, shape, ss) THEN [ok |-> TRUE, cfg |-> AlgFoldSet(ch, mode, shape, Unset(shape), ss)] ELSE Rejected(shape)

\* which named deviation can make a channel differ from the channel-free outcome for these settings
NullNonOptional(shape, ss) == \E j \in 1..Len(ss) : IsNull(ss[j].v) /\ ~shape[ss[j].key].opt
DevNull(ch, shape, ss)     == ch \in DocChannels /\ NullNonOptional(shape, ss)
DevJsonnet(ch, mode, ss)   == \E j \in 1..Len(ss) : JsonnetApplies(ch, mode, ss[j].v) /\ HasIntegralFloat(ss[j].v)
Deviates(ch, mode, shape, ss) == DevNull(ch, shape, ss) \/ DevJsonnet(ch, mode, ss)
Why(ch, mode, shape, ss) == (IF DevNull(ch, shape, ss) THEN "null:non-optional;" ELSE "")
                            \o (IF DevJsonnet(ch, mode, ss) THEN "jsonnet:integral-float;" ELSE "")
AllModes == {"yaml", "json", "jsonnet", "omegaconf"}
=============================================================================
