INIT Init
NEXT Next
CONSTANTS
  ClearOnError = TRUE
INVARIANT Inv
CHECK_DEADLOCK FALSE
