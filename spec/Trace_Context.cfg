INIT Init
NEXT Next
CONSTANTS
  ShtabBreaksDefaults = {"A"}
  ClearOnError = TRUE
INVARIANT Inv
CHECK_DEADLOCK FALSE
