INIT Init
NEXT Next
CONSTANTS
  ClearOnError = FALSE
INVARIANT Inv
CHECK_DEADLOCK FALSE
