INIT Init
NEXT Next
CONSTANTS
  ShtabBreaksDefaults = {"A", "B"}
  ClearOnError = TRUE
INVARIANT Inv
CHECK_DEADLOCK FALSE
