--------------------------- MODULE Trace_Namespace ---------------------------
(* Validation of executions recorded from the real jsonargparse.Namespace (code -> spec).            *)
(* TRACE_FILE holds  [steps |-> <<...>>, states |-> <<...>>] :                                        *)
(*   a step  = [tid, pre, op, res, post]   one public call observed on a real Namespace: the abstract *)
(*             state before (alpha of the object), the call, its result, the abstract state after;    *)
(*   a state = [tree, obs]                  a distinct post state with the answers of every observer. *)
(* Each record is checked independently (every step logs its full pre- and post-state, so nothing has *)
(* to be inferred and one bad step does not hide the rest); chaining post(i) = pre(i+1) inside a      *)
(* trace is checked as well.  Failing clauses are printed as <<"R", kind, index, clause>>.            *)
EXTENDS Namespace, Json, IOUtils, TLCExt

Data == JsonDeserialize(IOEnv.TRACE_FILE)
Steps == Data.steps
States == Data.states
NS == Len(Steps)
NT == Len(States)

T(pairs) == [r \in {pairs[k][1] : k \in 1..Len(pairs)} |-> pairs[CHOOSE k \in 1..Len(pairs) : pairs[k][1] = r][2]]
ToOp(j) == Op(j.op, j.p, T(j.v), [k \in 1..Len(j.items) |-> <<j.items[k][1], T(j.items[k][2])>>], j.ou)
PathSet(ps) == {ps[k] : k \in 1..Len(ps)}

VARIABLE tidx
Init == tidx \in 1..(NS + NT)
Next == UNCHANGED tidx

Say(kind, idx, clause) == PrintT(<<"R", kind, idx, clause>>)

CheckStep(k) ==
  LET s    == Steps[k]
      pre  == T(s.pre)
      post == T(s.post)
      o    == ToOp(s.op)
      seen == Out(post, s.res.r, T(s.res.v))
      ref  == RefApply(o, pre)
      alg  == AlgApply(o, pre)
      td   == ThroughDict(o, pre)
  IN /\ (WellFormed(pre) /\ WellFormed(post)) \/ Say("step", k, "malformed")
     /\ (ref = seen) \/ Say("step", k, IF td THEN (IF alg = seen THEN "ref-td-as-alg" ELSE "ref-td-other") ELSE "ref")
     /\ (alg = seen) \/ Say("step", k, "alg")
     /\ (s.prev = 0 \/ Steps[s.prev].post = s.pre) \/ Say("step", k, "chain")

CheckState(k) ==
  LET s  == States[k]
      t  == T(s.tree)
      ob == s.obs
      exp_in == {p \in PathSet(ob.universe) : IF WalkEntersDict(t, p) THEN AlgFound(t, p) ELSE RefHas(t, p)}
  IN /\ PathSet(ob.keys) = Keys(t, FALSE) \/ Say("state", k, "keys")
     /\ Len(ob.keys) = Cardinality(PathSet(ob.keys)) \/ Say("state", k, "keys-dup")
     /\ PathSet(ob.keys_b) = Keys(t, TRUE) \/ Say("state", k, "keys-branches")
     /\ PathSet(ob.items_keys) = Keys(t, FALSE) \/ Say("state", k, "items")
     /\ (\A j \in 1..Len(ob.vals) : ob.vals[j][1] \in DOMAIN t /\ T(ob.vals[j][2]) = Cut(t, ob.vals[j][1])) \/ Say("state", k, "values")
     /\ (PathSet(ob.sorted_keys) = SortedKeys(t) /\ DepthSorted(ob.sorted_keys)) \/ Say("state", k, "get_sorted_keys")
     /\ PathSet(ob.flat_keys) = Keys(t, FALSE) \/ Say("state", k, "as_flat")
     /\ T(ob.as_dict) = AsDict(t) \/ Say("state", k, "as_dict")
     /\ T(ob.n2d) = AsDict(t) \/ Say("state", k, "namespace_to_dict")
     /\ T(ob.d2n) = DictToNamespace(AsDict(t)) \/ Say("state", k, "dict_to_namespace")
     \* Ref-level laws on what was observed: as_dict leaves no Namespace behind (below converted nodes), and a plain
     \* dictionary comes back unchanged from dict_to_namespace followed by as_dict
     /\ (\A q \in DOMAIN t : Conv(t, q) => (q \in DOMAIN T(ob.as_dict) /\ T(ob.as_dict)[q] # "ns" /\ ~HoldsNS(T(ob.as_dict)[q]))) \/ Say("state", k, "as_dict-keeps-namespace")
     /\ (Plain(T(ob.as_dict)) => (T(ob.rt) = T(ob.as_dict) /\ NoDictLeft(T(ob.d2n)))) \/ Say("state", k, "dict-roundtrip")
     \* the conversions return copies (observed after everything reachable from a FIRST conversion was modified)
     /\ T(ob.d2n_second) = DictToNamespace(AsDict(t)) \/ Say("state", k, "dict_to_namespace-shares")
     /\ T(ob.d2n_input_after) = AsDict(t) \/ Say("state", k, "dict_to_namespace-modifies-input")
     /\ ob.n2d_indep \/ Say("state", k, "namespace_to_dict-shares")
     /\ T(ob.ctor) = AsDict(t) \/ Say("state", k, "Namespace(dict)")
     /\ T(ob.clone) = t \/ Say("state", k, "clone")
     /\ ob.clone_eq \/ Say("state", k, "clone-eq")
     /\ ob.clone_indep \/ Say("state", k, "clone-shares")
     /\ ob.eq_rebuilt \/ Say("state", k, "eq")
     /\ ob.ne_changed \/ Say("state", k, "ne")
     /\ PathSet(ob.contains) = exp_in \/ Say("state", k, "contains")

Check == IF tidx <= NS THEN CheckStep(tidx) ELSE CheckState(tidx - NS)
Inv == Check \/ TRUE
=============================================================================
