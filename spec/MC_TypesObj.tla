----------------------------- MODULE MC_TypesObj -----------------------------
(* Round 4 extension of the C02 instance (the instance of MC_Types is untouched: C10 runs it too).          *)
(*  (a) TYPED OBJECTS THAT ARE INSTANCES OF SUBCLASSES of the declared leaf type -- class MyInt(int), a      *)
(*      member of an IntEnum, PositiveInt(2), class MyStr(str), a member of class SE(str, Enum),           *)
(*      NotEmptyStr('abc') -- as the whole argument and inside List / Set / Tuple / Dict / Optional /      *)
(*      Union, through parse_object and as the value that a parse-link copies from a PositiveInt option    *)
(*      to the option of the declared type (the final validation pass sees the typed object).             *)
(*  (b) deeper compositions: Dict[str, List[Optional[int]]], List[Tuple[int, Union[str, None]]],           *)
(*      Optional[Dict[str, Union[int, List[int]]]], Unions of two container types with overlapping        *)
(*      acceptance, in every order of the members of every Union, with the candidates of MC_Types         *)
(*      (structures over conforming / non-conforming elements, texts) and the typed objects of (a).       *)
(* One state per (type, input); the laws of C02 in every state; every case is printed for the replay.      *)
EXTENDS MC_Types
ObjFieldOrder == [k |-> "tag", v |-> "payload"]

\* ------------------------------------------------------------------ the typed objects
SubInts  == {SubV("MyInt", IntV(2)), SubV("IntEnum", IntV(1)), SubV("PositiveInt", IntV(2))}
SubStrs  == {SubV("MyStr", StrV("abc")), SubV("StrEnum", StrV("1")), SubV("NotEmptyStr", StrV("abc"))}
\* as the whole argument: also texts that would read as something else if they were plain str (they are not loaded: the
\* loaders look at type(value) is str)
SubTop   == SubInts \cup SubStrs \cup {SubV("IntEnum", IntV(2)), SubV("PositiveInt", IntV(1)), SubV("MyStr", StrV("1")), SubV("MyStr", StrV("null")),
                                      SubV("MyStr", StrV("[1]")), SubV("StrEnum", StrV("abc")), SubV("NotEmptyStr", StrV("1"))}
PlainPool == IF Tier = "quick" THEN {IntV(1), StrV("a"), BoolV(TRUE), NoneV} ELSE {IntV(1), StrV("a"), StrV("1"), BoolV(TRUE), NoneV, FloatV(3, 2)}
SubPool  == (IF Tier = "quick" THEN SubInts \cup {SubV("MyStr", StrV("abc")), SubV("StrEnum", StrV("1"))} ELSE SubInts \cup SubStrs) \cup PlainPool
SmallPool == {SubV("MyInt", IntV(2)), SubV("IntEnum", IntV(1)), SubV("MyStr", StrV("abc")), SubV("StrEnum", StrV("1")), IntV(1), StrV("a"), NoneV}

\* the types whose treatment of such an object is modelled: plain leaves and containers / Unions of them, str keys
RECURSIVE PlainT(_)
PlainT(ty) == CASE ty.k \in LeafKinds -> TRUE
                [] ty.k \in {"list", "set", "tupleE", "tuple", "union"} -> Len(ty.v) > 0 /\ \A i \in 1..Len(ty.v) : PlainT(ty.v[i])
                [] ty.k = "dict" -> Len(ty.v) = 2 /\ ty.v[1] = StrT /\ PlainT(ty.v[2])
                [] OTHER -> FALSE

RECURSIVE ObjElems(_, _)
\* elements for a position of type ty; small: the pool for a position that is itself inside a nested structure
ObjElems(ty, small) ==
  CASE ty.k \in LeafKinds -> IF small THEN SmallPool ELSE SubPool
    [] ty.k = "union" -> UNION {ObjElems(ty.v[i], small) : i \in 1..Len(ty.v)}
    [] ty.k \in {"list", "set", "tupleE"} -> {ListV(<< >>)} \cup {ListV(<<e>>) : e \in ObjElems(ty.v[1], TRUE)}
    [] ty.k = "tuple" -> {ListV(s) : s \in SeqProd([n \in 1..Len(ty.v) |-> ObjElems(ty.v[n], TRUE)])}
    [] ty.k = "dict" -> {DictV(<< >>)} \cup {D1(StrV("a"), e) : e \in ObjElems(ty.v[2], TRUE)}
RECURSIVE HasSub(_)
HasSub(y) == CASE y.k = "sub" -> TRUE
               [] y.k \in {"list", "tuple"} -> \E n \in 1..Len(y.v) : HasSub(y.v[n])
               [] y.k = "set" -> \E e \in y.v : HasSub(e)
               [] y.k = "dict" -> \E n \in 1..Len(y.v) : HasSub(y.v[n][2])
               [] OTHER -> FALSE
RECURSIVE ObjStructs(_)
ObjStructs(ty) ==
  CASE ty.k \in LeafKinds -> SubTop
    [] ty.k = "union" -> UNION {ObjStructs(ty.v[i]) : i \in 1..Len(ty.v)}
    [] ty.k \in {"list", "set", "tupleE"} ->
         LET P == ObjElems(ty.v[1], FALSE)
             \* lists of containers: at most one element, the same element twice, and (thorough) every element followed by one
             \* element that holds a typed object and by one that does not
             Few == {CHOOSE a \in P : HasSub(a), CHOOSE b \in P : ~HasSub(b)}
             S == IF ty.v[1].k \in LeafKinds \cup {"union"} THEN SeqsUpTo2(P)
                  ELSE {<< >>} \cup {<<e>> : e \in P} \cup {<<e, e>> : e \in P} \cup (IF Tier = "quick" THEN {} ELSE {<<e, f>> : e \in P, f \in Few})
         IN {ListV(s) : s \in S} \cup {TupleV(<<e>>) : e \in P} \cup {SetV({e}) : e \in {e \in P : Hashable(e)}}
    [] ty.k = "tuple" ->
         LET full == SeqProd([n \in 1..Len(ty.v) |-> ObjElems(ty.v[n], FALSE)])
         IN {ListV(s) : s \in full} \cup {TupleV(s) : s \in {s \in full : s[1].k = "sub"}} \cup {ListV(s \o <<SubV("MyInt", IntV(2))>>) : s \in {s \in full : s[1].k = "sub"}}
    [] ty.k = "dict" ->
         LET P == ObjElems(ty.v[2], FALSE)
         IN {D1(StrV("a"), e) : e \in P} \cup {DictV(<< <<StrV("a"), e>>, <<StrV("b"), f>> >>) : e \in P, f \in {IntV(1), SubV("MyInt", IntV(2)), SubV("MyStr", StrV("abc"))}}
ObjCands(ty) == {y \in ObjStructs(ty) : HasSub(y)}

\* ------------------------------------------------------------------ the types
Closed(S) == UNION {AllPerms(ty) : ty \in S}
OptInt == UnionT(<<IntT, NoneT>>)
OptStr == UnionT(<<StrT, NoneT>>)
SubTypesQuick == Closed(
     {IntT, FloatT, StrT, BoolT, OptInt, UnionT(<<IntT, StrT>>), UnionT(<<FloatT, StrT>>), UnionT(<<IntT, FloatT>>), UnionT(<<BoolT, IntT>>),
      ListT(IntT), ListT(StrT), ListT(FloatT), SetT(IntT), TupleET(StrT), TupleT(<<IntT, StrT>>), DictT(StrT, IntT), DictT(StrT, StrT),
      ListT(OptInt), ListT(UnionT(<<IntT, StrT>>)), DictT(StrT, UnionT(<<IntT, StrT>>)), TupleT(<<UnionT(<<IntT, StrT>>), IntT>>), UnionT(<<ListT(IntT), StrT>>)})
SubTypesThorough == SubTypesQuick \cup Closed(
     {UnionT(<<IntT, StrT, NoneT>>), UnionT(<<BoolT, StrT>>), UnionT(<<FloatT, IntT, StrT>>), ListT(BoolT), SetT(StrT), SetT(UnionT(<<IntT, StrT>>)), TupleET(IntT), TupleET(FloatT),
      TupleT(<<StrT, IntT>>), TupleT(<<FloatT, StrT>>), TupleT(<<IntT, IntT, StrT>>), DictT(StrT, FloatT), DictT(StrT, OptInt), ListT(ListT(IntT)), ListT(DictT(StrT, IntT)),
      DictT(StrT, ListT(IntT)), ListT(TupleT(<<IntT, StrT>>)), UnionT(<<ListT(IntT), ListT(StrT)>>), UnionT(<<DictT(StrT, IntT), DictT(StrT, StrT)>>),
      UnionT(<<TupleT(<<IntT, StrT>>), ListT(StrT)>>), UnionT(<<ListT(FloatT), ListT(IntT)>>), UnionT(<<NoneT, ListT(UnionT(<<IntT, StrT>>))>>)})
\* (b) the deeper compositions
DeepA == DictT(StrT, ListT(OptInt))                                                         \* Dict[str, List[Optional[int]]]
DeepB == ListT(TupleT(<<IntT, OptStr>>))                                                    \* List[Tuple[int, Union[str, None]]]
DeepC == UnionT(<<DictT(StrT, UnionT(<<IntT, ListT(IntT)>>)), NoneT>>)                      \* Optional[Dict[str, Union[int, List[int]]]]
OverlapQuick == {UnionT(<<ListT(IntT), ListT(FloatT)>>), UnionT(<<DictT(StrT, IntT), DictT(StrT, FloatT)>>)}
OverlapThorough == OverlapQuick \cup
     {UnionT(<<ListT(OptInt), ListT(StrT)>>), UnionT(<<TupleET(IntT), ListT(FloatT)>>), UnionT(<<ListT(OptInt), ListT(OptStr)>>), UnionT(<<DictT(StrT, OptInt), DictT(StrT, ListT(IntT))>>),
      UnionT(<<ListT(TupleT(<<IntT, StrT>>)), ListT(ListT(IntT))>>), UnionT(<<SetT(IntT), ListT(FloatT)>>), UnionT(<<ListT(UnionT(<<IntT, StrT>>)), DictT(StrT, IntT)>>),
      DictT(StrT, ListT(UnionT(<<IntT, StrT, NoneT>>))), ListT(TupleT(<<IntT, UnionT(<<StrT, NoneT, FloatT>>)>>)), UnionT(<<DictT(StrT, UnionT(<<IntT, ListT(OptInt)>>)), NoneT>>),
      ListT(DeepA), DictT(StrT, DeepB)}
DeepTypes == Closed({DeepA, DeepB, DeepC} \cup (IF Tier = "quick" THEN OverlapQuick ELSE OverlapThorough))
ObjTypeSet == (IF Tier = "quick" THEN SubTypesQuick ELSE SubTypesThorough) \cup DeepTypes
ASSUME \A ty \in ObjTypeSet : PlainT(ty)

\* the candidates of MC_Types for the deep types (their own instance has no type of this depth), the typed objects for all
AllObjCands(ty) == ObjCands(ty) \cup (IF ty \in DeepTypes THEN Cands(ty) ELSE {})

\* ------------------------------------------------------------------ a parse-link  src (PositiveInt) --> k (the declared type)
\* _link_arguments.py:387-406 set_target_value: cfg[target] = value, the value of the source as it is; the target is only
\* CHECKED afterwards by the final validation pass (_core.py:1135-1140), whose result is discarded.  So the linked value is
\* accepted iff _check_type accepts the typed object, and it stays the object it is -- also where the declared type would
\* normalise it (a PositiveInt under float): named deviation rawLink.
LinkSources == {SubV("PositiveInt", IntV(1)), SubV("PositiveInt", IntV(2))}
AlgLink(ty, y) == LET r == AlgCheckType(ty, y, NoneV)
                  IN IF r.ok THEN Ok(Protect(y, r.m), r.dev \cup (IF r.v # y THEN {"rawLink"} ELSE {}), y) ELSE r

ObjInit == ph = 0 /\ x = NoneV /\ d = NoneV /\ t \in ObjTypeSet
ObjNext == ph = 0 /\ ph' = 1 /\ t' = t /\ d' = d /\ x' \in AllObjCands(t)
ObjSpec == ObjInit /\ [][ObjNext]_vars

ObjInv ==
  IF ~Case THEN (Emit # "none" => PrintT(ToJson([type |-> t, d |-> d])))
  ELSE LET acc == Accepts(t, x)
           res == TopResults(t, x)
           a   == AlgParse(t, x, d)
           lk  == IF x \in LinkSources THEN AlgLink(t, x) ELSE Er({}, x)
       IN /\ Named("RefLaws", RefLawsCore(t, x) /\ acc = (res # {}))
          /\ IsRep(t) => Named("RefPermInvariant", \A p \in AllPerms(t) \ {t} : Accepts(p, x) = acc /\ TopResults(p, x) = res)
          /\ Named("AlgRefinesRef", Devs(a) = {} => (a.ok = acc /\ (a.ok => (a.v \in res /\ ConformsTop(t, a.v)))))
          /\ (Tier # "quick") => Named("AlgPermInvariant", AlgPermInvariantA(t, x, d, a))
          /\ Named("DevsAsDescribed", ((Devs(a) # {} /\ Devs(a) \subseteq {"litEq", "dictKey", "origNested"} /\ ~a.ok) => ~acc))
          \* an object that IS an instance of the declared type is accepted, and every accepted object passes isinstance
          /\ Named("InstanceAccepted", (HasSub(x) /\ Conforms(t, x)) => (acc /\ (Devs(a) = {} => a.ok)))
          /\ Named("LinkAsChecked", x \in LinkSources => (lk.ok = acc /\ (lk.ok /\ lk.dev = {} => lk.v \in res)))
          /\ (Emit = "all") => PrintT(ToJson(
                IF x \in LinkSources
                THEN [t |-> t, d |-> d, x |-> x, acc |-> acc, res |-> res, aok |-> a.ok, av |-> a.v, dev |-> a.dev, lok |-> lk.ok, lv |-> lk.v, ldev |-> lk.dev]
                ELSE [t |-> t, d |-> d, x |-> x, acc |-> acc, res |-> res, aok |-> a.ok, av |-> a.v, dev |-> a.dev]))
=============================================================================
