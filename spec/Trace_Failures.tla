--------------------------- MODULE Trace_Failures ---------------------------
(* Validation of outcomes observed on the real code (code -> spec).  TRACE_FILE: [obs, inj]                          *)
(*   obs: parses of fuzzed inputs  [eoe, asked0, out, usage]            -> Ref ChannelOK                             *)
(*   inj: injected failures        [method, frames (names, inside out), cls, out] -> Alg Propagate on those frames   *)
EXTENDS Failures, Json, IOUtils, TLCExt
Data == JsonDeserialize(IOEnv.TRACE_FILE)
AllFrames == {F_parse_method, F_known_args, F_check_type, F_union_loop, F_load_config, F_apply_config, F_config_load_a, F_links, F_validate, F_default_cfg, F_value_key, F_env_list, F_path_resolve, F_cfg_path,
              F_path_read, F_float_conv, F_registered, F_registered_dec, F_defaults}
FrameNamed(n) == CHOOSE f \in AllFrames : f.name = n
VARIABLE tidx
Init == tidx \in 1..(Len(Data.obs) + Len(Data.inj))
Next == UNCHANGED tidx
Say(kind, idx, clause) == PrintT(<<"R", kind, idx, clause>>)
Check ==
  IF tidx <= Len(Data.obs)
  THEN LET o == Data.obs[tidx] IN ChannelOK(o.eoe, o.asked0, o.out, o.usage) \/ Say("obs", tidx, "channel")
  ELSE LET k == tidx - Len(Data.obs)
           j == Data.inj[k]
           frames == [i \in 1..Len(j.frames) |-> FrameNamed(j.frames[i])]
           comes == Propagate(j.cls, frames, 1)
           exp == IF comes \in {"error", "ArgparseError"} THEN "channel" ELSE IF comes = "swallowed" THEN "return" ELSE "escape"
       IN (j.out = exp) \/ Say("inj", k, IF exp = "channel" THEN "protected-route-escapes" ELSE "alg")
Inv == Check \/ TRUE
=============================================================================
