SPECIFICATION Spec
CONSTANTS
  Tier = "quick"
  Emit = "all"
INVARIANT InvRefLaws
INVARIANT InvRefPermInvariant
INVARIANT InvAlg
CHECK_DEADLOCK FALSE
