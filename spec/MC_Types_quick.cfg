SPECIFICATION Spec
CONSTANTS
  Tier = "quick"
  Emit = "all"
  Laws = "c02"
INVARIANT InvCase
CHECK_DEADLOCK FALSE
