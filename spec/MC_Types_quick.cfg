SPECIFICATION Spec
CONSTANTS
  Tier = "quick"
  Emit = "all"
  Laws = "all"
INVARIANT InvRefLaws
INVARIANT InvRefPermInvariant
INVARIANT InvAlg
CHECK_DEADLOCK FALSE
