SPECIFICATION Spec
CONSTANTS
  Focus = {"my-list", "g.my-list"}
  NDcf = 1
  MaxArgv = 2
  Repeat = TRUE
  Emit = TRUE
INVARIANT DocumentedOrder
INVARIANT StagesAgree
INVARIANT NoPendingAppend
INVARIANT LastOptWins
INVARIANT EmitCase
CHECK_DEADLOCK FALSE
