SPECIFICATION Spec
CONSTANTS
  MaxPre = 1
  MaxPost = 1
  Emit = TRUE
INVARIANT InvAlgRefinesRef
INVARIANT InvSubOnlyIsRef
INVARIANT InvParentLookupIsRef
INVARIANT InvSpellingIrrelevantWhereFree
INVARIANT InvSetOnlyIsRef
INVARIANT InvLastWins
INVARIANT EmitCase
CHECK_DEADLOCK FALSE
