----------------------------- MODULE MC_Sources -----------------------------
(* Bounded instance of Sources.tla: for a focus set of keys, every assignment of values to every subset of the  *)
(* sources.  Values carry the index of the source they come from, so a wrong order is visible in the result.    *)
EXTENDS Sources, Json
CONSTANTS Focus,     \* keys that the sources may touch (a subset of the keys of the shape)
          NDcf,      \* number of default config files
          MaxArgv,   \* command line items: 0..MaxArgv
          Repeat,    \* TRUE: also listings in which the first default config file is listed AGAIN after the second
          Emit

KeySeq == <<"a", "l", "d", "g.x", "g.y", "s", "n", "my-list", "g.my-list">>
\* "s" is a str key (value n stands for the text "s<n>", 0 for the EMPTY string), "n" an Optional[int] key (99999 = None)
\* "my-list" / "g.my-list": list options whose NAME contains a dash (dest my_list); the '+' form must work for them too
Kind(k) == CASE k \in {"l", "my-list", "g.my-list"} -> "list" [] k = "d" -> "dict" [] k = "s" -> "str" [] k = "n" -> "optint" [] OTHER -> "int"
Edge(k) == CASE Kind(k) = "str" -> {<<0>>} [] Kind(k) = "optint" -> {<<99999>>} [] OTHER -> {}      \* edge values: '' and None
Defaults == [k \in {KeySeq[i] : i \in 1..Len(KeySeq)} |-> IF Kind(k) \in {"str", "optint"} THEN <<7>> ELSE <<0>>]   \* dict default {k0: 0} = << Enc(0, 0) >>

ValFor(k, tag) == IF Kind(k) = "dict" THEN <<Enc(1, tag)>> ELSE <<tag>>
CfgChoices(k, tag) == {<< >>, <<Asg(k, "set", 0, ValFor(k, tag))>>}
                      \cup (IF Kind(k) = "list" THEN {<<Asg(k, "app", 0, <<tag>>)>>} ELSE {})
                      \cup {<<Asg(k, "set", 0, e)>> : e \in Edge(k)}
RECURSIVE CfgFrom(_, _)
CfgFrom(i, tag) == IF i > Len(KeySeq) THEN {<< >>}
                   ELSE IF KeySeq[i] \in Focus THEN {c \o r : c \in CfgChoices(KeySeq[i], tag), r \in CfgFrom(i + 1, tag)}
                   ELSE CfgFrom(i + 1, tag)
CfgAsgs(tag) == CfgFrom(1, tag)
RECURSIVE EnvFrom(_, _)
EnvFrom(i, tag) == IF i > Len(KeySeq) THEN {<< >>}
                   ELSE IF KeySeq[i] \in Focus THEN {c \o r : c \in {<< >>, <<Asg(KeySeq[i], "set", 0, ValFor(KeySeq[i], tag))>>} \cup {<<Asg(KeySeq[i], "set", 0, e)>> : e \in Edge(KeySeq[i])}, r \in EnvFrom(i + 1, tag)}
                   ELSE EnvFrom(i + 1, tag)

Opt(a) == [kind |-> "opt", asgs |-> <<a>>]
ArgvItems(tag) ==
     {Opt(Asg(k, "set", 0, ValFor(k, tag))) : k \in Focus}
  \cup UNION {{Opt(Asg(k, "set", 0, e)) : e \in Edge(k)} : k \in Focus}
  \cup {Opt(Asg(k, "app", 0, <<tag>>)) : k \in {x \in Focus : Kind(x) = "list"}}
  \cup {Opt(Asg(k, "item", it, <<tag>>)) : k \in {x \in Focus : Kind(x) = "dict"}, it \in {1, 2}}
  \cup {[kind |-> "cfg", asgs |-> c] : c \in CfgAsgs(tag) \ {<< >>}}
RECURSIVE ArgvSeqs(_, _)
ArgvSeqs(n, from) == IF n = 0 THEN {<< >>} ELSE {<<it>> \o r : it \in ArgvItems(10 + from), r \in ArgvSeqs(n - 1, from + 1)}
AllArgv == UNION {ArgvSeqs(n, 1) : n \in 0..MaxArgv}

RECURSIVE DcfSeqs(_)
DcfSeqs(i) == IF i > NDcf THEN {<< >>} ELSE {<<c>> \o r : c \in CfgAsgs(i), r \in DcfSeqs(i + 1)}
\* default_config_files is a LIST of patterns, expanded one by one (_get_default_config_files:980-982): a file that is
\* listed twice, or matched by two patterns, appears twice in the expansion and is applied twice -- the documented fold
\* over the list as given.  Such listings: first file, second file, the first file again.
DcfRepeats == IF Repeat THEN {<<c1, c2, c1>> : c1 \in CfgAsgs(1) \ {<< >>}, c2 \in CfgAsgs(2) \ {<< >>}} ELSE {}
AllDcf == DcfSeqs(1) \cup DcfRepeats

EnvChoices == {[env |-> FALSE, envc |-> << >>, envv |-> << >>]}
              \cup {[env |-> TRUE, envc |-> c, envv |-> v] : c \in CfgAsgs(5), v \in EnvFrom(1, 6)}
Calls == {[method |-> "args", argv |-> av, last |-> << >>] : av \in AllArgv}
         \cup {[method |-> m, argv |-> << >>, last |-> c] : m \in {"string", "object", "path"}, c \in CfgAsgs(20) \ {<< >>}}
         \cup {[method |-> "env", argv |-> << >>, last |-> << >>]}

Source(d, e, c) == [defaults |-> Defaults, dcf |-> d, env |-> e.env \/ c.method = "env", envc |-> e.envc, envv |-> e.envv,
                    argv |-> c.argv, last |-> c.last, method |-> c.method]

VARIABLES s, pc, cfg, pos
vars == <<s, pc, cfg, pos>>

Init == /\ \E d \in AllDcf, e \in EnvChoices, c \in Calls :
             /\ (c.method = "env" => e.env)
             /\ s = Source(d, e, c)
        /\ pc = "base" /\ cfg = FullNS(Defaults) /\ pos = 1

\* the stages of a parse call as separate steps (anchors: Sources.tla)
Base  == pc = "base" /\ cfg' = AlgBase(s) /\ pc' = "argv" /\ UNCHANGED <<s, pos>>
Argv  == pc = "argv" /\ pos <= Len(s.argv) /\ cfg' = AlgArgvItem(s.defaults, cfg, s.argv[pos]) /\ pos' = pos + 1 /\ UNCHANGED <<s, pc>>
Last  == pc = "argv" /\ pos > Len(s.argv) /\ pc' = "done" /\ UNCHANGED <<s, pos>>
         /\ cfg' = (IF s.last = << >> THEN cfg ELSE Merge(ParseIsolated(s.defaults, s.last), cfg))
Next == Base \/ Argv \/ Last
Spec == Init /\ [][Next]_vars

\* ------------------------------------------------------------------ invariants
\* C04 at design level: the staged algorithm computes the documented fold -- except for the recorded deviation
DocumentedOrder == (pc = "done" /\ ~EnvConfigAppend(s)) => cfg.val = Fold(s)
\* the functional form used by the trace spec is the same algorithm as the staged one
StagesAgree == pc = "done" => cfg.val = AlgFinal(s)
\* no pending append survives a parse
NoPendingAppend == pc = "done" => cfg.happ = {}
\* later sources win: a key set by the last command line option has that option's value
LastOptWins == (pc = "done" /\ s.argv # << >> /\ s.argv[Len(s.argv)].kind = "opt" /\ s.argv[Len(s.argv)].asgs[1].op = "set" /\ s.last = << >>)
                 => cfg.val[s.argv[Len(s.argv)].asgs[1].key] = s.argv[Len(s.argv)].asgs[1].v

EmitCase == (Emit /\ pc = "done") => PrintT(ToJson([s |-> s, ref |-> Fold(s), alg |-> cfg.val, dev |-> EnvConfigAppend(s)]))
=============================================================================
