SPECIFICATION Spec
CONSTANTS
  MaxCmp = 3
  StrLen = 5
  HazLen = 4
  B64Set = "large"
  Groups = 64
  Emit = TRUE
INVARIANT NumAlgRefinesRef
INVARIANT NumParseRefinesRef
INVARIANT NumIdempotent
INVARIANT NumJoinLaw
INVARIANT NumComplement
INVARIANT NumWellFormed
INVARIANT CreateAgrees
INVARIANT StrAlgRefinesRef
INVARIANT StrParseRefinesRef
INVARIANT StrAnchoredLaw
INVARIANT StrPrefixLaw
INVARIANT StrxAlgRefinesRef
INVARIANT StrxRepLaw
INVARIANT StrxCaseLaw
INVARIANT RegAlgRefinesRef
INVARIANT RegSerDeserInverse
INVARIANT RegCrashOnlyPaths
INVARIANT RegB64Law
INVARIANT RegResolverLaw
INVARIANT RegDecimalFinding
INVARIANT RegMAlgRefinesRef
INVARIANT RegMJsonTomlClean
INVARIANT RegMJsonnetLaw
INVARIANT PModeRefinesRef
INVARIANT PModeJsonTomlNoCrash
INVARIANT RegCAlgRefinesRef
INVARIANT RegCItemsNeverCrash
INVARIANT RegCPathLike
INVARIANT RegCContextNeutral
INVARIANT SecretNonInterference
INVARIANT SecretNoLeak
INVARIANT EmitCase
CHECK_DEADLOCK FALSE
