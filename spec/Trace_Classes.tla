---------------------------- MODULE Trace_Classes ----------------------------
(* Validation of executions recorded from the real jsonargparse (code -> spec) for property C14.                      *)
(* TRACE_FILE holds [fams |-> <<family, ...>>, cases |-> <<[f, T, items, obs, pair], ...>>]:                            *)
(*   (dflt, chan: the default of the argument and the channel of the first source, see Classes.tla; host: "top" | "sub", *)
(*   whether the argument lives in the parsed parser or in the parser of a sub-command -- the spec does not look at it;   *)
(*   vis: the late units (modules / packages of the family's layout) that were imported when the parse started)           *)
(*   f      index of the class family (the harness generated a module with exactly these classes, whose constructors  *)
(*          log their keyword arguments), T the class the argument --x is typed with, items the sources as in         *)
(*          Classes.tla -- exactly what the harness concretised (argv / --cfg text) and executed;                     *)
(*   obs    [ok, v, inst, log, root, rtype]: parse accepted?, alpha(cfg.x) (the normalised spec), then for            *)
(*          instantiate_classes "ok" | "raise" | "skip", the constructor log, the index of the log entry that built   *)
(*          the returned object and type(result).__name__;                                                            *)
(*   pair   0, or the index of the case that replays the explicit form of the same sources (normal forms must agree). *)
(* TLC runs the Alg machine on every recorded case and prints <<"R", index, clause>> for every failing clause:        *)
(*   "ref"            the parse outcome is not what the property says          (verdict)                              *)
(*   "ref-dev-stale" / "ref-dev-nokw" / "ref-dev-both"   ... but exactly what the named dict_kwargs deviation gives   *)
(*   "ref-dev-envreq" ... rejected exactly where the named environment-variable deviation rejects                    *)
(*   "ref-dev-emptydict" / "ref-dev-listlen" / "ref-dev-nonetext"  ... rejected exactly where that named deviation does  *)
(*   "ref-log"        the constructor log does not rebuild the normal form     (verdict)                              *)
(*   "ref-inst-raise" instantiate_classes raised on an accepted spec           (verdict; "-nokw": the named deviation)*)
(*   "ref-pair"       short form and explicit form do not denote the same configuration (verdict)                     *)
(*   "alg"            differs from the transcribed algorithm                   (drift)                                *)
EXTENDS Classes, Json, IOUtils
\* TLC orders record fields by first appearance of the name in the root module: keep the tag first
FieldOrder == [k |-> 0]

Data == JsonDeserialize(IOEnv.TRACE_FILE)
Cases == Data.cases
N == Len(Cases)

VARIABLE tid
TraceFamOf(c) == [Data.fams[c.f] EXCEPT !.vis = c.vis]    \* FamOf <- TraceFamOf in the cfg: the family is not part of the state
Init == \E t \in 1..N : tid = t /\ InitCase([f |-> Cases[t].f, T |-> Cases[t].T, items |-> Cases[t].items, dflt |-> Cases[t].dflt, chan |-> Cases[t].chan, host |-> Cases[t].host, vis |-> Cases[t].vis])
TNext == Next /\ UNCHANGED tid

Say(idx, clause) == PrintT(<<"R", idx, clause>>)
ObsParsed(o) == IF o.ok THEN Parsed(TRUE, o.v) ELSE Parsed(FALSE, Rej)
\* a spec node with dict_kwargs on a class whose __init__ has no **kwargs
RECURSIVE Unchecked(_, _)
Unchecked(fam, v) ==
  CASE v.k = "spec" -> (DOMAIN v.w # {} /\ ~HasKw(fam, v.c)) \/ \E n \in DOMAIN v.a : Unchecked(fam, v.a[n])
    [] v.k = "list" -> \E j \in 1..Len(v.l) : Unchecked(fam, v.l[j])
    [] v.k = "dict" -> \E n \in DOMAIN v.d : Unchecked(fam, v.d[n])
    [] OTHER        -> FALSE
Check == Done =>
  LET c == Cases[tid]
      o == c.obs
      p == ObsParsed(o)
      ref == RefOf(NoDev)
      Allowed(dev) == p = RefOfF(dev, TRUE) \/ p = RefOfF(dev, FALSE)       \* both readings of the default (see RefStart)
  IN /\ Allowed(NoDev) \/ Say(tid, IF Allowed([stale |-> TRUE, nokw |-> FALSE]) THEN "ref-dev-stale"
                                   ELSE IF Allowed([stale |-> FALSE, nokw |-> TRUE]) THEN "ref-dev-nokw"
                                   ELSE IF Allowed(CodeDev) THEN "ref-dev-both"
                                   ELSE IF EnvReqDeviation /\ ~o.ok THEN "ref-dev-envreq"
                                   ELSE IF EmptyDictDeviation /\ ~o.ok THEN "ref-dev-emptydict"
                                   ELSE IF ListLenDeviation /\ ~o.ok THEN "ref-dev-listlen"
                                   ELSE IF NoneTextDeviation /\ ~o.ok THEN "ref-dev-nonetext" ELSE "ref")
     /\ (p = AlgParsed) \/ Say(tid, "alg")
     /\ (o.ok /\ o.inst = "ok") => (LogOK(FamOf(cs), o.v, o.log, o.root, o.rtype) \/ Say(tid, "ref-log"))
     /\ (o.ok /\ o.inst = "raise") => Say(tid, IF Unchecked(FamOf(cs), o.v) THEN "ref-inst-raise-nokw" ELSE "ref-inst-raise")
     /\ (c.pair # 0) => ((ObsParsed(Cases[c.pair].obs) = p) \/ Say(tid, "ref-pair"))
     /\ (p = ref /\ p = AlgParsed) \/ PrintT(ToJson([explain |-> tid, ref |-> ref, alg |-> AlgParsed]))       \* what the spec expected (for the report)
     /\ PrintT(<<"D", tid>>)
Inv == Check \/ TRUE
=============================================================================
