------------------------------ MODULE MC_Save ------------------------------
(* Bounded instance of Save.tla: every scenario of the universe below, every step of save() on it.          *)
(*   Level 1 (quick):    files main,f1,f2; <= 2 sub-files (incl. a name collision, a sub-file called like   *)
(*                       the main file, a save_path_content file); pre-existing content absent/old/empty    *)
(*   Level 2 (thorough): + f3, <= 3 sub-files, more collisions, an inline component, pre-existing "dir"     *)
(* MaxFaults bounds how many of {invalid value, unserialisable value, environment fault} are present.       *)
EXTENDS Save, Json, SequencesExt
CONSTANTS Level, MaxFaults, Emit, Ext     \* Ext = 0: the universe of rounds 1-2; 1 / 2: + the round-4 territory (quick / thorough)

S(k, n) == <<k, n, "cfg">>
P(k, n) == <<k, n, "content">>
\* order inside a choice = order of cfg.get_sorted_keys(): leaf values (d, p) before nested namespaces (s1, s2)
SubChoices1 == { << >>,
                 <<S("s1", "f1")>>,
                 <<S("s1", "f1"), S("s2", "f2")>>,
                 <<S("s1", "f1"), S("s2", "f1")>>,            \* two components loaded from files with one base name
                 <<S("s1", "main")>>,                          \* a sub-file called like the target
                 <<P("p", "f2"), S("s1", "f1")>> }
SubChoices2 == SubChoices1 \cup
               { <<S("s2", "f2")>>,                            \* s1 inline, s2 from a file
                 <<P("p", "f1")>>,
                 <<S("d", "f3"), S("s1", "f1"), S("s2", "f2")>>,
                 <<P("p", "f3"), S("s1", "f1"), S("s2", "f2")>>,
                 <<S("d", "f1"), S("s1", "f1"), S("s2", "f2")>>,
                 <<S("s1", "f1"), S("s2", "main")>>,
                 <<P("p", "f1"), S("s1", "f1")>>,
                 <<S("d", "f1"), P("p", "f1")>> }
SubChoices == IF Level = 1 THEN SubChoices1 ELSE SubChoices2
Files      == IF Level = 1 THEN {"main", "f1", "f2"} ELSE {"main", "f1", "f2", "f3"}
PreKinds   == IF Level = 1 THEN {"absent", "old", "empty"} ELSE {"absent", "old", "empty", "dir"}
MaxN       == IF Level = 1 THEN 3 ELSE 4
Faults     == {NoFault, [kind |-> "format", n |-> 0], [kind |-> "noparent", n |-> 0]}
              \cup {[kind |-> k, n |-> n] : k \in {"open", "write"}, n \in 1..MaxN}
InvalidAt  == {"none", "main", "s1", "s2"}
\* ---- round 4: skip_validation, sub-files of ActionJsonSchema ("js", dumped) and ActionJsonnet ("jn", kind "orig": written
\* as the text it was loaded from), a component edited after loading, fsspec targets
O(k, n) == <<k, n, "orig">>
XSubChoices == { <<O("jn", "f1")>>,
                 <<S("js", "f2")>> }
               \cup (IF Ext >= 2 THEN { <<O("jn", "f1"), S("js", "f2")>>, <<O("jn", "f2"), S("s1", "f1")>>, <<S("d", "f3"), O("jn", "f1"), S("js", "f2")>>,
                                        <<O("jn", "f1"), S("js", "f1")>>,              \* collision with an orig file
                                        <<O("jn", "main")>>,
                                        <<P("p", "f3"), O("jn", "f1"), S("s1", "f2")>> } ELSE {})
XEditedAt  == IF Ext < 2 THEN {"none", "jn", "js"} ELSE {"none", "main", "s1", "jn", "js"}
XInvalidAt == IF Ext < 2 THEN {"none", "jn"} ELSE {"none", "main", "s1", "jn"}
XUnserAt   == IF Ext < 2 THEN {"none", "main"} ELSE {"none", "main", "s1"}                        \* (an unserialisable object never sits in a jsonnet / jsonschema value)
XFaults    == IF Ext < 2 THEN {NoFault, [kind |-> "write", n |-> 2]}
              ELSE {NoFault, [kind |-> "format", n |-> 0]} \cup {[kind |-> k, n |-> n] : k \in {"open", "write"}, n \in 1..2}
FsFaults   == {NoFault, [kind |-> "format", n |-> 0]} \cup {[kind |-> "open", n |-> n] : n \in 1..2}
UnserAt    == {"none", "main", "s1", "s2", "d"}
Contents   == {"absent", "dir", "old", "empty", "main", "s1", "s2", "d", "p", "jn", "js", Stale("jn")}
PCs        == {"format", "resolve", "check_main", "s_open", "s_validate", "s_serialize", "s_write", "m_clone", "m_validate",
               "m_sub", "m_sub_resolve", "m_sub_check", "m_sub_dump", "m_sub_open", "m_sub_write", "m_sub_replace",
               "m_open", "m_serialize", "m_write", "m_flush", "done", "failed",
               "fs_probe", "fs_probe_close", "fs_multi", "fs_open", "fs_validate", "fs_serialize", "fs_write"}

NFaults(iv, un, ft) == (IF iv # "none" THEN 1 ELSE 0) + (IF un # "none" THEN 1 ELSE 0) + (IF ft.kind # "none" THEN 1 ELSE 0)
UsedNames(q) == {"main"} \cup {SubName(x) : x \in Range(q)}
HasCollision(q) == \/ \E a, b \in 1..Len(q) : a # b /\ SubName(q[a]) = SubName(q[b])
                   \/ \E a \in 1..Len(q) : SubName(q[a]) = "main"
\* saved in place: the directory holds exactly the files the config was loaded from
InplacePre(q) == [f \in Files |-> IF f = "main" THEN "main"
                                  ELSE IF \E x \in Range(q) : SubName(x) = f THEN SubKey(CHOOSE x \in Range(q) : SubName(x) = f)
                                  ELSE "absent"]
PreOK(q, ft, pre) ==
  /\ \A f \in Files \ UsedNames(q) : pre[f] \in (IF Level = 1 THEN {"absent"} ELSE {"absent", "old"})
  /\ ft.kind = "noparent" => \A f \in Files : pre[f] = "absent"

VARIABLES sc, st
vars == <<sc, st>>

BaseInit == \E mf \in BOOLEAN, ow \in BOOLEAN, q \in SubChoices, iv \in InvalidAt, un \in UnserAt, ft \in Faults :
          /\ NFaults(iv, un, ft) <= MaxFaults
          /\ mf \/ \A x \in Range(q) : SubKind(x) = "cfg"       \* a relative path value saved elsewhere in one file: not a save() matter
          /\ \E ip \in BOOLEAN :
               /\ ip => (~HasCollision(q) /\ ft.kind # "noparent")
               /\ \E pre \in (IF ip THEN {InplacePre(q)} ELSE [Files -> PreKinds]) :
                    /\ ip \/ PreOK(q, ft, pre)
                    /\ sc = [multifile |-> mf, overwrite |-> ow, subs |-> q, invalid |-> iv, unser |-> un, fault |-> ft,
                             pre |-> pre, inplace |-> ip, skipval |-> FALSE, edited |-> "none", scheme |-> "path"]
                    /\ st = Start(sc)

Sc(mf, ow, q, iv, un, ft, pre, sv, ed, sch) ==
  [multifile |-> mf, overwrite |-> ow, subs |-> q, invalid |-> iv, unser |-> un, fault |-> ft, pre |-> pre, inplace |-> FALSE,
   skipval |-> sv, edited |-> ed, scheme |-> sch]
HasKey(q, k) == k \in {"none", "main"} \/ \E x \in Range(q) : SubKey(x) = k
\* quick: the files save() would write are all absent or all the user's old data; thorough: every combination
XPres(q) == IF Ext < 2 THEN {[f \in Files |-> IF f \in UsedNames(q) THEN c ELSE "absent"] : c \in {"absent", "old"}}
            ELSE {pre \in [Files -> {"absent", "old"}] : \A f \in Files \ UsedNames(q) : pre[f] = "absent"}
                 \cup {[f \in Files |-> IF f \in UsedNames(q) THEN "empty" ELSE "absent"],
                       [f \in Files |-> IF f = "main" THEN "dir" ELSE "absent"],
                       [f \in Files |-> IF f = "main" THEN "absent" ELSE IF f \in UsedNames(q) THEN "dir" ELSE "absent"]}
\* (a) skip_validation=True on the sub-file layouts of rounds 1-2, with or without an invalid value
InitSkipval == \E mf \in BOOLEAN, ow \in BOOLEAN, q \in (IF Ext < 2 THEN {<< >>, <<S("s1", "f1")>>, <<S("s1", "f1"), S("s2", "f2")>>, <<P("p", "f2"), S("s1", "f1")>>} ELSE SubChoices1), iv \in InvalidAt, un \in {"none", "main", "s1"}, ft \in XFaults :
          /\ NFaults("none", un, ft) <= 1
          /\ mf \/ \A x \in Range(q) : SubKind(x) = "cfg"
          /\ (Ext < 2) => (iv \in {"main", "s1"} /\ un = "none")
          /\ \E pre \in XPres(q) :
               /\ sc = Sc(mf, ow, q, iv, un, ft, pre, TRUE, "none", "path")
               /\ st = Start(sc)
\* (b) jsonnet / jsonschema sub-files, a component edited after loading
InitOrig == \E mf \in BOOLEAN, ow \in BOOLEAN, q \in XSubChoices, iv \in XInvalidAt, un \in XUnserAt, ft \in XFaults, ed \in XEditedAt, sv \in BOOLEAN :
          /\ NFaults(iv, un, ft) <= 1
          /\ HasKey(q, iv) /\ HasKey(q, un) /\ HasKey(q, ed)
          /\ mf \/ \A x \in Range(q) : SubKind(x) # "content"       \* (as in BaseInit: a path value saved elsewhere in ONE file is not a save() matter)
          /\ sv => (Ext >= 2 /\ iv # "none")
          \* (+ overwrite=False with a NEW main file and existing sub-files: the refusal has to come from the sub-file's own check)
          /\ \E pre \in XPres(q) \cup (IF ~ow THEN {[f \in Files |-> IF f # "main" /\ f \in UsedNames(q) THEN "old" ELSE "absent"]} ELSE {}) :
               /\ sc = Sc(mf, ow, q, iv, un, ft, pre, sv, ed, "path")
               /\ st = Start(sc)
\* (c) an fsspec target (local://...): single file only -- multifile=True is refused, but after the probe
InitFsspec == \E mf \in BOOLEAN, ow \in BOOLEAN, q \in (IF Ext < 2 THEN {<< >>} ELSE {<< >>, <<S("s1", "f1")>>}), iv \in {"none", "main", "s1"}, un \in {"none", "main", "s1"},
                 ft \in FsFaults, sv \in BOOLEAN :
          /\ NFaults(iv, un, ft) <= (IF Ext < 2 THEN 1 ELSE 2)
          /\ sv => iv # "none"
          /\ \E pre \in XPres(q) \cup {[f \in Files |-> IF f = "main" THEN "empty" ELSE "absent"]} :
               /\ sc = Sc(mf, ow, q, iv, un, ft, pre, sv, "none", "fsspec")
               /\ st = Start(sc)
\* (d) the target spelled file:///abs/path: a local file -- every flag, an existing target and existing sub-files included
InitFileUrl == \E mf \in BOOLEAN, ow \in BOOLEAN, q \in {<< >>, <<S("s1", "f1")>>} \cup (IF Ext >= 2 THEN {<<S("s1", "f1"), S("s2", "f2")>>, <<P("p", "f2"), S("s1", "f1")>>} ELSE {}),
                  iv \in {"none", "main"}, un \in {"none", "main", "s1"}, ft \in XFaults :
          /\ NFaults(iv, un, ft) <= 1
          /\ mf \/ \A x \in Range(q) : SubKind(x) = "cfg"
          /\ \E pre \in [Files -> {"absent", "old"}] \cup XPres(q) :
               /\ \A f \in Files \ UsedNames(q) : pre[f] = "absent"
               /\ sc = Sc(mf, ow, q, iv, un, ft, pre, FALSE, "none", "fileurl")
               /\ st = Start(sc)
\* (e) an in-memory fsspec target (memory://...): like (c), without faults the harness could not inject
InitMemory == \E mf \in BOOLEAN, ow \in BOOLEAN, iv \in {"none", "main"}, un \in {"none", "main"}, ft \in {NoFault, [kind |-> "format", n |-> 0]}, sv \in BOOLEAN :
          /\ NFaults(iv, un, ft) <= 1
          /\ sv => iv # "none"
          /\ \E c \in {"absent", "old", "empty"} :
               /\ sc = Sc(mf, ow, << >>, iv, un, ft, [f \in Files |-> IF f = "main" THEN c ELSE "absent"], sv, "none", "memory")
               /\ st = Start(sc)
Init == BaseInit \/ (Ext >= 1 /\ (InitSkipval \/ InitOrig \/ InitFsspec \/ InitFileUrl \/ InitMemory))

\* one TLC action per step of save() (so that -coverage counts each of them)
A_CheckFormat   == st.pc = "format" /\ st' = CheckFormat(sc, st) /\ UNCHANGED sc
A_ResolveTarget == st.pc = "resolve" /\ st' = ResolveTarget(sc, st) /\ UNCHANGED sc
A_CheckMain     == st.pc = "check_main" /\ st' = CheckMain(sc, st) /\ UNCHANGED sc
A_SOpen         == st.pc = "s_open" /\ st' = SOpen(sc, st) /\ UNCHANGED sc
A_SValidate     == st.pc = "s_validate" /\ st' = SValidate(sc, st) /\ UNCHANGED sc
A_SSerialize    == st.pc = "s_serialize" /\ st' = SSerialize(sc, st) /\ UNCHANGED sc
A_SWrite        == st.pc = "s_write" /\ st' = SWrite(sc, st) /\ UNCHANGED sc
A_MClone        == st.pc = "m_clone" /\ st' = MClone(sc, st) /\ UNCHANGED sc
A_MValidate     == st.pc = "m_validate" /\ st' = MValidate(sc, st) /\ UNCHANGED sc
A_MSubNext      == st.pc = "m_sub" /\ st' = MSubNext(sc, st) /\ UNCHANGED sc
A_MSubResolve   == st.pc = "m_sub_resolve" /\ st' = MSubResolve(sc, st) /\ UNCHANGED sc
A_MSubCheck     == st.pc = "m_sub_check" /\ st' = MSubCheck(sc, st) /\ UNCHANGED sc
A_MSubDump      == st.pc = "m_sub_dump" /\ st' = MSubDump(sc, st) /\ UNCHANGED sc
A_MSubOpen      == st.pc = "m_sub_open" /\ st' = MSubOpen(sc, st) /\ UNCHANGED sc
A_MSubWrite     == st.pc = "m_sub_write" /\ st' = MSubWrite(sc, st) /\ UNCHANGED sc
A_MSubReplace   == st.pc = "m_sub_replace" /\ st' = MSubReplace(sc, st) /\ UNCHANGED sc
A_MOpen         == st.pc = "m_open" /\ st' = MOpen(sc, st) /\ UNCHANGED sc
A_MSerialize    == st.pc = "m_serialize" /\ st' = MSerialize(sc, st) /\ UNCHANGED sc
A_MWrite        == st.pc = "m_write" /\ st' = MWrite(sc, st) /\ UNCHANGED sc
A_MFlush        == st.pc = "m_flush" /\ st' = MFlush(sc, st) /\ UNCHANGED sc
A_FsProbe       == st.pc = "fs_probe" /\ st' = FsProbe(sc, st) /\ UNCHANGED sc
A_FsProbeClose  == st.pc = "fs_probe_close" /\ st' = FsProbeClose(sc, st) /\ UNCHANGED sc
A_FsMulti       == st.pc = "fs_multi" /\ st' = FsMulti(sc, st) /\ UNCHANGED sc
A_FsOpen        == st.pc = "fs_open" /\ st' = FsOpen(sc, st) /\ UNCHANGED sc
A_FsValidate    == st.pc = "fs_validate" /\ st' = FsValidate(sc, st) /\ UNCHANGED sc
A_FsSerialize   == st.pc = "fs_serialize" /\ st' = FsSerialize(sc, st) /\ UNCHANGED sc
A_FsWrite       == st.pc = "fs_write" /\ st' = FsWrite(sc, st) /\ UNCHANGED sc
Next == \/ A_CheckFormat \/ A_ResolveTarget \/ A_CheckMain
        \/ A_SOpen \/ A_SValidate \/ A_SSerialize \/ A_SWrite
        \/ A_MClone \/ A_MValidate \/ A_MSubNext \/ A_MSubResolve \/ A_MSubCheck \/ A_MSubDump \/ A_MSubOpen
        \/ A_MSubWrite \/ A_MSubReplace \/ A_MOpen \/ A_MSerialize \/ A_MWrite \/ A_MFlush
        \/ A_FsProbe \/ A_FsProbeClose \/ A_FsMulti \/ A_FsOpen \/ A_FsValidate \/ A_FsSerialize \/ A_FsWrite
Spec == Init /\ [][Next]_vars

Outcome == IF st.pc = "done" THEN "ok" ELSE IF st.pc = "failed" THEN "raise" ELSE "running"

\* ------------------------------------------------------------------ invariants
TypeOK == /\ st.pc \in PCs /\ st.fs \in [Files -> Contents] /\ st.i \in 1..(Len(sc.subs) + 1)
          /\ \A j \in 1..Len(st.hist) : st.hist[j][1] \in {"open", "close"} /\ st.hist[j][2] \in Files
\* the steps and the recursive Run used by the trace specification are the same machine
InvRunAgrees == Terminal(st) => Run(sc) = st
\* C18, clause 1 -- holds in every state, also in the middle of a failing save
\* (round 4: on an fsspec target the pinned tree VIOLATES it -- exactly as the named deviation, nothing else)
InvNoSilentOverwrite == NoSilentOverwrite(sc, st.fs) \/ DevFsspecNoOverwriteCheck(sc, st.fs)
\* ... a target that is a local file however it is spelled (plain path, file:// URL) is never touched without the request
InvNoSilentOverwriteLocal == LocalBranch(sc) => NoSilentOverwrite(sc, st.fs)
\* C18, clause 2 -- the pinned code VIOLATES it (MC_Save_cex_aon.cfg expects the counterexample) ...
InvAllOrNothing == Terminal(st) => AllOrNothing(sc, Outcome, st.fired, st.fs)
\* ... and every violation is one of the named deviations, nothing else
KnownAtomicityDevs == {"single-open-before-dump", "multi-written-before-main-dump", "multi-written-before-sub-dump", "fsspec-open-before-dump"}
InvAllOrNothingModuloKnown == Terminal(st) => (AllOrNothing(sc, Outcome, st.fired, st.fs) \/ DevName(sc, st) \in KnownAtomicityDevs)
\* C18, clause 3 -- violated exactly by file-name collisions (MC_Save_cex_rep.cfg expects the counterexample)
InvSavedReparses == Terminal(st) => SavedReparses(sc, Outcome, st.fs, st.refs)
InvSavedReparsesModuloKnown == Terminal(st) => (SavedReparses(sc, Outcome, st.fs, st.refs) \/ DevName(sc, st) \in {"multi-name-collision", "inplace-content-emptied", "multi-orig-text-stale"})
\* the reason the algorithm gives for a failure is one the scenario really contains; it succeeds only when none is there
InvCauseSound == /\ st.pc = "failed" => st.cause \in Causes(sc, st.fired)
                 /\ st.pc = "done" => (Causes(sc, st.fired) = {} \/ DevFsspecNoOverwriteCheck(sc, st.fs))
\* a failure that is not one of the deviations leaves at most files that it legitimately wrote: nothing pre-existing is lost
\* unless overwrite was requested
InvOldDataKept == \A f \in Files : (IsFile(sc.pre[f]) /\ st.fs[f] # sc.pre[f]) => (sc.overwrite \/ DevFsspecNoOverwriteCheck(sc, st.fs))
\* what the repairs guarantee
InvAtomicSingle == (Terminal(st) /\ ~sc.multifile) => AllOrNothing(sc, Outcome, st.fired, st.fs)
InvMainNotEmptiedByBadConfig == (st.pc = "failed" /\ st.cause \in {"invalid", "unserialisable"} /\ ~Collision(sc)) => st.fs["main"] = sc.pre["main"]

\* ------------------------------------------------------------------ emission of the behaviours to replay
FsSeq(f) == LET q == SetToSeq(DOMAIN f) IN [j \in 1..Len(q) |-> <<q[j], f[q[j]]>>]
ScJson == [multifile |-> sc.multifile, overwrite |-> sc.overwrite, subs |-> sc.subs, invalid |-> sc.invalid, unser |-> sc.unser,
           fault |-> <<sc.fault.kind, sc.fault.n>>, pre |-> FsSeq(sc.pre), inplace |-> sc.inplace,
           skipval |-> sc.skipval, edited |-> sc.edited, scheme |-> sc.scheme]
EmitBehaviour ==
  (Emit /\ Terminal(st)) =>
    PrintT(ToJson([sc |-> ScJson, out |-> Outcome, cause |-> st.cause, fired |-> st.fired, fs |-> FsSeq(st.fs),
                   hist |-> [j \in 1..Len(st.hist) |-> <<st.hist[j][1], st.hist[j][2], FsSeq(st.hist[j][3])>>],
                   dev |-> DevName(sc, st), atomic |-> MustBeAtomic(sc, st.fired), refs |-> st.refs]))
=============================================================================
