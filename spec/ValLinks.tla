------------------------------ MODULE ValLinks ------------------------------
(***************************************************************************)
(* Property C06, extension: argument links x required keys.                *)
(*                                                                         *)
(* link_arguments(source, target) makes the TARGET a computed key: it is   *)
(* the only key that stops being required.  Everything else that was       *)
(* required stays required: the other parameters of the class the target   *)
(* belongs to, the class-typed parameter ABOVE a deep target               *)
(* (model.init_args.encoder when the target is                             *)
(* model.init_args.encoder.init_args.dim), the class argument itself, the  *)
(* source, unrelated options.                                              *)
(*                                                                         *)
(* Universe: a fixed table of classes CT (parameters: required?, scalar or *)
(* class-typed with a declared base class), a parser description           *)
(*   decl : top-level key -> [kind, req, cls]                              *)
(*     "leaf"  plain option            "group" add_class_arguments(cls, k) *)
(*     "cls"   add_subclass_arguments(cls, k) / add_argument(type=cls)     *)
(* a set of link targets (full key paths) and a configuration (entries     *)
(* [p, v] as in Validate.tla).  Classes nest three levels deep             *)
(* (Model.encoder : Encoder, BigEncoder.norm : Norm).                      *)
(*                                                                         *)
(* Ref  required = a SET of keys (those in force for the classes the       *)
(*      configuration selects); a link removes exactly its target key.     *)
(* Alg  what the code does with the strings: root required_args minus the  *)
(*      target when it is literally in it (_link_arguments.py:181-182),    *)
(*      otherwise the rest of the target after the first ".init_args." is  *)
(*      stored in linked_targets of the class-typed action (:183-188); the *)
(*      per-class parser drops the required parameters whose NAME is in    *)
(*      linked_targets (_signatures.py:354-357, _typehints.py:653-656) and *)
(*      hands "parent.init_args.key" / "parent.key" entries down to the    *)
(*      action parent as key (_typehints.py:1384-1398), recursively.       *)
(***************************************************************************)
EXTENDS Validate

Scalar == ""
Par(req, base) == [req |-> req, base |-> base]
CT == ("Model"      :> (("encoder" :> Par(TRUE, "Encoder")) @@ ("dim" :> Par(TRUE, Scalar)) @@ ("name" :> Par(FALSE, Scalar))))
   @@ ("BigModel"   :> (("encoder" :> Par(TRUE, "Encoder")) @@ ("dim" :> Par(TRUE, Scalar)) @@ ("extra" :> Par(TRUE, Scalar)) @@ ("name" :> Par(FALSE, Scalar))))
   @@ ("Encoder"    :> (("dim" :> Par(TRUE, Scalar)) @@ ("depth" :> Par(FALSE, Scalar))))
   @@ ("BigEncoder" :> (("dim" :> Par(TRUE, Scalar)) @@ ("width" :> Par(TRUE, Scalar)) @@ ("norm" :> Par(TRUE, "Norm")) @@ ("depth" :> Par(FALSE, Scalar))))
   @@ ("Norm"       :> (("eps" :> Par(TRUE, Scalar)) @@ ("affine" :> Par(FALSE, Scalar))))
   @@ ("Data"       :> (("size" :> Par(TRUE, Scalar)) @@ ("bs" :> Par(FALSE, Scalar))))
IsCls(c, n) == CT[c][n].base # Scalar
ReqNames(c) == {n \in DOMAIN CT[c] : CT[c][n].req}
ClsNames(c) == {n \in DOMAIN CT[c] : IsCls(c, n)}

Given(cfg, q) == \E e \in cfg : IsPrefix(q, e.p) /\ e.v # "null"
ClassOf(cfg, q, base) == IF HasValue(cfg, q \o <<"class_path">>) THEN ValOf(cfg, q \o <<"class_path">>) ELSE base
K(p, cls) == [p |-> p, cls |-> cls]           \* a required key; cls: its value is a class spec (satisfied by any non-null content)
Sat(cfg, r) == IF r.cls THEN Given(cfg, r.p) ELSE HasValue(cfg, r.p)

(***************************************************************************)
(* Ref                                                                     *)
(***************************************************************************)
\* the keys required by the parameters of class c, which live below the path pre; the parameters of a class-typed
\* parameter come into force once that parameter is given, for the class it names
RECURSIVE ReqOfClass(_, _, _, _)
ReqOfClass(cfg, pre, c, fuel) ==
  {K(pre \o <<n>>, IsCls(c, n)) : n \in ReqNames(c)}
  \cup UNION {IF fuel > 0 /\ Given(cfg, pre \o <<n>>)
              THEN ReqOfClass(cfg, pre \o <<n, "init_args">>, ClassOf(cfg, pre \o <<n>>, CT[c][n].base), fuel - 1) ELSE {} : n \in ClsNames(c)}
ReqKeys(decl, cfg) == UNION {LET d == decl[k] IN
    CASE d.kind = "leaf"  -> IF d.req THEN {K(<<k>>, FALSE)} ELSE {}
      [] d.kind = "group" -> ReqOfClass(cfg, <<k>>, d.cls, 3)
      [] d.kind = "cls"   -> (IF d.req THEN {K(<<k>>, TRUE)} ELSE {})
                             \cup (IF Given(cfg, <<k>>) THEN ReqOfClass(cfg, <<k, "init_args">>, ClassOf(cfg, <<k>>, d.cls), 3) ELSE {})
    : k \in DOMAIN decl}
\* a link removes exactly its target
LRequired(decl, links, cfg) == {r \in ReqKeys(decl, cfg) : r.p \notin links}
LMissing(decl, links, cfg) == {r \in LRequired(decl, links, cfg) : ~Sat(cfg, r)}
LOutcome(decl, links, cfg) == IF LMissing(decl, links, cfg) = {} THEN "ok" ELSE "err"

(***************************************************************************)
(* Alg                                                                     *)
(***************************************************************************)
\* parser.required_args of the root parser after the declarations (_core.py:156-159, _signatures.py:528-531)
RootReq(decl) == UNION {LET d == decl[k] IN
    CASE d.kind = "leaf"  -> IF d.req THEN {K(<<k>>, FALSE)} ELSE {}
      [] d.kind = "group" -> {K(<<k, n>>, IsCls(d.cls, n)) : n \in ReqNames(d.cls)}
      [] d.kind = "cls"   -> IF d.req THEN {K(<<k>>, TRUE)} ELSE {}
    : k \in DOMAIN decl}
\* ActionLink.__init__ :181-182   if target in parser.required_args: remove it
RootReqLinked(decl, links) == {r \in RootReq(decl) : r.p \notin links}
\* the class-typed actions of the root parser with their declared class
ClsActions(decl) == UNION {LET d == decl[k] IN
    CASE d.kind = "cls"   -> {[a |-> <<k>>, cls |-> d.cls]}
      [] d.kind = "group" -> {[a |-> <<k, n>>, cls |-> CT[d.cls][n].base] : n \in ClsNames(d.cls)}
      [] OTHER            -> {}
    : k \in DOMAIN decl}
\* :183-188  subtarget = target.split(".init_args.", 1)[1] goes into sub_add_kwargs["linked_targets"] of the target's action
HasInit(t) == \E i \in 1..Len(t) : t[i] = "init_args"
AfterFirstInit(t) == LET i == CHOOSE i \in 1..Len(t) : t[i] = "init_args" /\ \A j \in 1..(i - 1) : t[j] # "init_args"
                     IN SubSeq(t, i + 1, Len(t))
ActionLT(links, a) == {AfterFirstInit(t) : t \in {x \in links : IsPrefix(a, x) /\ Len(x) > Len(a) /\ HasInit(x)}}
\* get_class_parser(c, linked_targets=LT): a required parameter whose NAME is in LT is not required (_signatures.py:354-357);
\* the keys of LT are removed from the class parser's required_args (_typehints.py:653-656)
ParserReq(c, LT) == {n \in ReqNames(c) : <<n>> \notin LT}
\* adapt_class_type :1384-1398  "parent.init_args.key" or "parent.key" -> key is added to the linked_targets of action parent
ChildLT(LT, n) == {IF t[2] = "init_args" THEN SubSeq(t, 3, Len(t)) ELSE SubSeq(t, 2, Len(t)) : t \in {x \in LT : Len(x) >= 2 /\ x[1] = n}}
\* check_required of the class parser (_core.py:1115-1124) and, per class-typed parameter that has a value, the same one level down
RECURSIVE AlgMissIn(_, _, _, _, _)
AlgMissIn(cfg, pre, c, LT, fuel) ==
  {K(pre \o <<n>>, IsCls(c, n)) : n \in {x \in ParserReq(c, LT) : ~Sat(cfg, K(pre \o <<x>>, IsCls(c, x)))}}
  \cup UNION {IF fuel > 0 /\ Given(cfg, pre \o <<n>>)
              THEN AlgMissIn(cfg, pre \o <<n, "init_args">>, ClassOf(cfg, pre \o <<n>>, CT[c][n].base), ChildLT(LT, n), fuel - 1) ELSE {} : n \in ClsNames(c)}
AlgLMissing(decl, links, cfg) ==
  {r \in RootReqLinked(decl, links) : ~Sat(cfg, r)}
  \cup UNION {IF Given(cfg, x.a) THEN AlgMissIn(cfg, x.a \o <<"init_args">>, ClassOf(cfg, x.a, x.cls), ActionLT(links, x.a), 3) ELSE {} : x \in ClsActions(decl)}
AlgLOutcome(decl, links, cfg) == IF AlgLMissing(decl, links, cfg) = {} THEN "ok" ELSE "err"

(***************************************************************************)
(* Foreign keys at every depth of a class specification (round 4).         *)
(* Ref: a key path is defined iff it walks through declared keys: the      *)
(* parameters of a class group, {class_path, init_args} of a class spec,   *)
(* the parameters of the class that class_path names (the declared class   *)
(* when absent) -- recursively, three classes deep; nothing lives below a  *)
(* scalar.  (dict_kwargs / meta keys: see Validate.tla, not repeated.)     *)
(* Walk returns where the path leaves the parser:                          *)
(*   "ok" | "params" (an undeclared name among the parameters of a class / *)
(*   at the root) | "spec" (an undeclared key next to class_path) |        *)
(*   "scalar" (something below a scalar)                                   *)
(***************************************************************************)
RECURSIVE WalkParams(_, _, _, _), WalkSpec(_, _, _, _)
WalkParams(cfg, p, i, c) ==
  IF i > Len(p) THEN "ok"
  ELSE IF p[i] \notin DOMAIN CT[c] THEN "params"
  ELSE IF ~IsCls(c, p[i]) THEN (IF i = Len(p) THEN "ok" ELSE "scalar")
  ELSE WalkSpec(cfg, p, i + 1, CT[c][p[i]].base)
WalkSpec(cfg, p, i, base) ==
  IF i > Len(p) THEN "ok"
  ELSE IF p[i] = "class_path" THEN (IF i = Len(p) THEN "ok" ELSE "scalar")
  ELSE IF p[i] = "init_args" THEN WalkParams(cfg, p, i + 1, ClassOf(cfg, SubSeq(p, 1, i - 1), base))
  ELSE "spec"
Walk(decl, cfg, p) ==
  IF p[1] \notin DOMAIN decl THEN "params"
  ELSE LET d == decl[p[1]] IN
       CASE d.kind = "leaf"  -> IF Len(p) = 1 THEN "ok" ELSE "scalar"
         [] d.kind = "group" -> WalkParams(cfg, p, 2, d.cls)
         [] d.kind = "cls"   -> WalkSpec(cfg, p, 2, d.cls)
LForeign(decl, cfg) == {e \in cfg : Walk(decl, cfg, e.p) # "ok"}
FOutcome(decl, links, cfg) == IF LForeign(decl, cfg) # {} \/ LMissing(decl, links, cfg) # {} THEN "err" ELSE "ok"
\* Alg: every parser (the root parser and the per-class parsers alike) validates with check_values, which walks the LEAF
\* keys of the namespace (_core.py:1126-1127): an undeclared name among PARAMETERS whose value is an empty mapping (or only
\* nested empty mappings) is an empty Namespace without leaves and is never looked at (finding
\* foreign-key:empty-mapping-dropped).  Next to class_path it IS reported: the shape of a class spec is checked key by key.
AlgLForeign(decl, cfg) == {e \in LForeign(decl, cfg) : ~(e.v = "emptymap" /\ Walk(decl, cfg, e.p) = "params")}
AlgFOutcome(decl, links, cfg) == IF AlgLForeign(decl, cfg) # {} \/ AlgLMissing(decl, links, cfg) # {} THEN "err" ELSE "ok"
\* Which key the rejection names.  Ref: the undeclared key.  Alg, second named deviation (finding
\* class-spec-without-init-args:foreign-key-misnamed): a class spec {class_path, zz} WITHOUT init_args is not recognised as a
\* class spec (is_subclass_spec, _typehints.py:1171-1176: keys outside {class_path, init_args, dict_kwargs}); the whole
\* mapping is then taken for init_args of the class and the per-class parser reports its first undeclared key -- class_path.
Misnamed(decl, cfg, e) ==
  /\ Walk(decl, cfg, e.p) = "spec"
  /\ \E i \in 1..(Len(e.p) - 1) : LET q == SubSeq(e.p, 1, i) IN
        /\ Walk(decl, cfg, q \o <<"class_path">>) = "ok" /\ Walk(decl, cfg, SubSeq(e.p, 1, i + 1)) = "spec"
        /\ HasValue(cfg, q \o <<"class_path">>) /\ ~\E x \in cfg : IsPrefix(q \o <<"init_args">>, x.p)
FDev(decl, links, cfg) == FOutcome(decl, links, cfg) = "err" /\ AlgFOutcome(decl, links, cfg) = "ok"

(***************************************************************************)
(* The family of parsers of the bounded instance and of the random driver  *)
(* (a variant v: how the class argument model is declared, when links      *)
(* apply, which of the three links exist).                                 *)
(***************************************************************************)
Leaf(req) == [kind |-> "leaf", req |-> req, cls |-> ""]
Decl(v) == ("other" :> Leaf(TRUE)) @@ ("tgt" :> Leaf(TRUE))
        @@ (IF v.on = "parse" THEN ("src" :> Leaf(TRUE)) ELSE ("data" :> [kind |-> "group", req |-> FALSE, cls |-> "Data"]))
        @@ ("model" :> [kind |-> v.kind, req |-> v.kind = "cls", cls |-> "Model"])
Pre(v) == IF v.kind = "group" THEN <<"model">> ELSE <<"model", "init_args">>
Links(v) == (IF v.ldim THEN {Pre(v) \o <<"dim">>} ELSE {}) \cup (IF v.lenc THEN {Pre(v) \o <<"encoder", "init_args", "dim">>} ELSE {})
            \cup (IF v.ltgt THEN {<<"tgt">>} ELSE {})
=============================================================================
