---------------------------- MODULE Trace_Groups ----------------------------
(* Validation of outcomes observed on the four declaration styles (code -> spec).  TRACE_FILE: sequence of cases   *)
(*   [fields, chan, items, outs]  outs = per style [style, ok, cfg] with cfg a list of <<field, value>> pairs.      *)
EXTENDS Groups, Json, IOUtils, TLCExt
Cases == JsonDeserialize(IOEnv.TRACE_FILE)
MapOf(pairs) == [k \in {pairs[j][1] : j \in 1..Len(pairs)} |-> LET j == CHOOSE j \in 1..Len(pairs) : pairs[j][1] = k IN pairs[j][2]]
VARIABLE tidx
Init == tidx \in 1..Len(Cases)
Next == UNCHANGED tidx
Say(idx, j, clause) == PrintT(<<"R", idx, j, clause>>)
Seen(o) == IF o.ok THEN [ok |-> TRUE, cfg |-> MapOf(o.cfg)] ELSE Err
Check == LET c == Cases[tidx]
             ref == Outcome(c.fields, c.items)
         IN IF Unspecified(c.items)
            THEN (\A j, k \in 1..Len(c.outs) : Seen(c.outs[j]) = Seen(c.outs[k])) \/ Say(tidx, 1, "styles-disagree")
            ELSE \A j \in 1..Len(c.outs) :
              LET o == c.outs[j]
                  alg == AlgOutcome(o.style, c.chan, c.fields, c.items)
              IN /\ (Seen(o) = ref) \/ Say(tidx, j, IF DottedNoWholeGroup(o.style, c.chan, c.items) THEN (IF Seen(o) = alg THEN "ref-dev-as-alg" ELSE "ref-dev") ELSE "ref")
                 /\ (Seen(o) = alg) \/ DottedNoWholeGroup(o.style, c.chan, c.items) \/ Say(tidx, j, "alg")
Inv == Check \/ TRUE
=============================================================================
