SPECIFICATION Spec
CONSTANTS
  Focus = {"a", "l"}
  NDcf = 1
  MaxArgv = 1
  Repeat = FALSE
  Emit = TRUE
INVARIANT DocumentedOrder
INVARIANT StagesAgree
INVARIANT NoPendingAppend
INVARIANT LastOptWins
INVARIANT EmitCase
CHECK_DEADLOCK FALSE
