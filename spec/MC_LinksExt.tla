----------------------------- MODULE MC_LinksExt -----------------------------
(* Round 4 extension of the bounded instances of Links.tla, part B (property C16): shapes with                 *)
(*   - a List[Class] argument as link target (the value goes into the init_args of EVERY item),                 *)
(*   - an Optional[Class] argument whose value is None as source / target (a component that constructs nothing: *)
(*     order, exactly-once and the fed values must still hold for all the others),                              *)
(*   - link sources that are objects nested inside a class argument ("m.enc", "m.enc.u", "r.child.grand.u"):   *)
(*     the graph node of such a source is the enclosing component, the value is read from the object of that    *)
(*     component by the LAST name of the key only (recorded deviation nested-attr-source),                       *)
(*   - nested links (source and target inside ONE class argument; applied by the type hint through              *)
(*     get_nested_links): acceptance / rejection when the link is added is predicted (recorded deviation        *)
(*     nested-link-owner-targeted), the run itself is validated against Ref by Trace_Links only.                *)
(* One state per shape, as in the case mode of MC_LinksInst (whose variables and operators are reused).         *)
EXTENDS MC_LinksInst
CONSTANT XLevel      \* 1 = quick, 2 = thorough

L == "list"
O == "opt"
Sibs == <<"dec", "enc">>                 \* signature order of the two nested classes of XN (= the order gamma generates)
\* X1: a component a, a List[Class] argument l with two items, an Optional[Class] argument n that is None
X1(ka) == [decl |-> <<D(<<"a">>, ka, << >>), D(<<"l">>, L, <<"i1", "i2">>), D(<<"n">>, O, << >>)>>,
           objs |-> {<<"a">>, <<"l", "i1">>, <<"l", "i2">>}, plains |-> {}, deep |-> FALSE, x |-> "flat"]
\* X2: the same with two ordinary components
X2(ka, kb) == [decl |-> <<D(<<"a">>, ka, << >>), D(<<"b">>, kb, << >>), D(<<"l">>, L, <<"i1", "i2">>), D(<<"n">>, O, << >>)>>,
               objs |-> {<<"a">>, <<"b">>, <<"l", "i1">>, <<"l", "i2">>}, plains |-> {}, deep |-> FALSE, x |-> "flat"]
\* X3: an Optional argument that is None and a plain link target (final pass, _core.py:1250)
X3(ka) == [decl |-> <<D(<<"a">>, ka, << >>), D(<<"n">>, O, << >>)>>, objs |-> {<<"a">>}, plains |-> {<<"t1">>}, deep |-> FALSE, x |-> "flat"]
\* X4: class argument m whose spec has a nested class enc with a nested class inner; sources may be the nested objects
X4(ks, ko) == [decl |-> <<D(<<"s">>, ks, << >>), D(<<"m">>, S, << >>), D(<<"o">>, ko, << >>)>>,
               objs |-> {<<"s">>, <<"m">>, <<"o">>, <<"m", "init_args", "enc">>, <<"m", "init_args", "enc", "init_args", "inner">>},
               plains |-> {}, deep |-> TRUE, x |-> "src"]
\* X5: class group r with class-typed parameter child whose spec has a nested class grand
X5(ks, ko) == [decl |-> <<D(<<"s">>, ks, << >>), D(<<"r">>, G, <<"child">>), D(<<"o">>, ko, << >>)>>,
               objs |-> {<<"s">>, <<"r">>, <<"o">>, <<"r", "child">>, <<"r", "child", "init_args", "grand">>}, plains |-> {}, deep |-> TRUE, x |-> "src"]
\* XN: class argument m with two sibling nested classes (nested links between them), and a component s
XN(ks) == [decl |-> <<D(<<"s">>, ks, << >>), D(<<"m">>, S, << >>)>>,
           objs |-> {<<"s">>, <<"m">>, <<"m", "init_args", "dec">>, <<"m", "init_args", "enc">>}, plains |-> {}, deep |-> TRUE, x |-> "nest"]

\* X6: THREE nested target levels in one class group: r (parameter pr), r.child (pch), r.child.init_args.grand (pg), each
\* fed from a different source component s1, s2, s3 -- every order of the three links, every declaration order (the
\* shared-prefix edges of instantiation_order:424-431 must chain a deep target to EVERY prefix target seen before it)
X6(k1, k2, k3) == [decl |-> <<D(<<"s1">>, k1, << >>), D(<<"s2">>, k2, << >>), D(<<"s3">>, k3, << >>), D(<<"r">>, G, <<"child">>)>>,
                   objs |-> {<<"s1">>, <<"s2">>, <<"s3">>, <<"r">>, <<"r", "child">>, <<"r", "child", "init_args", "grand">>},
                   plains |-> {}, deep |-> TRUE, x |-> "deep3"]
X6Edges == { << <<"s1">>, <<"r">> >>, << <<"s2">>, <<"r", "child">> >>, << <<"s3">>, <<"r", "child", "init_args", "grand">> >> }

XTemplates == {X6(G, G, G)} \cup (IF XLevel >= 2 THEN {X6(S, G, S), X6(G, S, G)} ELSE {}) \cup
              {X1(ka) : ka \in {G, S}} \cup {X3(ka) : ka \in {G, S}}
              \cup (IF XLevel >= 2 THEN {X2(G, S), X2(S, G)} ELSE {})
              \cup (IF XLevel >= 2 THEN {X4(ks, ko) : ks \in {G, S}, ko \in {G, S}} \cup {X5(ks, ko) : ks \in {G, S}, ko \in {G, S}}
                    ELSE {X4(G, S), X5(S, G)})
              \cup (IF XLevel >= 2 THEN {XN(G), XN(S)} ELSE {XN(G)})

\* ------------------------------------------------------------------ candidate links
ItemsAll(t)  == UNION {Range(ItemsOf(t, t.decl[i].dest)) : i \in {x \in DOMAIN t.decl : t.decl[x].kind = L}}
Dests(t)     == {t.decl[i].dest : i \in DOMAIN t.decl}
\* sources: parser-level components that are not List arguments (link_arguments refuses those, :137-141), and -- in the
\* "src" / "nest" templates -- the objects nested inside class arguments
XSources(t)  == {c \in CompDests(t) : ~IsList(t, c)} \cup (IF t.x \in {"flat", "deep3"} THEN {} ELSE t.objs)
\* targets: every object except the items of a list (a link names the list), the List / Optional arguments, plain arguments
XTargets(t)  == ((t.objs \cup Dests(t)) \ ItemsAll(t)) \cup t.plains
NestedSrc(t, e) == e[1] \notin CompDests(t)
XCand(t)     == {e \in XSources(t) \X XTargets(t) : e[1] # e[2] /\ ~Inside(e[2], e[1])}
XCandSeq(t)  == SetToSeq(XCand(t))
XSrcIdx(t, c) == Index(SetToSeq(XSources(t)), c)
XStyleLink(t, es, k, style) ==
  [srcs  |-> <<[obj |-> es[k][1], attr |-> IF (k + style) % 2 = 0 THEN "" ELSE "u"]>>,
   tobj  |-> es[k][2], param |-> "p" \o ToString(XSrcIdx(t, es[k][1])), fn |-> ((k + style) \div 2) % 2 = 1]
XLinksOf(t, es, style) == IF style = 4 THEN Merged(t, es) ELSE [k \in DOMAIN es |-> XStyleLink(t, es, k, style)]
\* sig: siblings in signature order (gamma generates class-typed parameters in alphabetical order: dec before enc)
XSig(t) == IF t.x = "nest" THEN <<<<"s">>, <<"m">>, <<"m", "init_args", "dec">>, <<"m", "init_args", "enc">>>> ELSE SetToSeq(t.objs)
XShape(t, p, es, style) == [decl |-> Permuted(t, p).decl, objs |-> t.objs, plains |-> t.plains, links |-> XLinksOf(t, es, style), sig |-> XSig(t)]

\* flat templates: every subset of the candidate edges (in two orders); src / nest templates: every sequence of <= 2 edges
XSubsets(t)  == LET K(m) == LET Keep(e) == (m \div (2 ^ (Index(XCandSeq(t), e) - 1))) % 2 = 1 IN SelectSeq(XCandSeq(t), Keep)
                IN {K(m) : m \in 0..(2 ^ Len(XCandSeq(t)) - 1)}
XSeqs(t)     == {s \in UNION {[1..n -> XCand(t)] : n \in 1..2} : NoDup(s)}
\* the new territory only: at least one link involves a List / Optional argument, a nested source, or is a nested link
Involves(t, e) == \/ IsList(t, e[2]) \/ IsOpt(t, e[2]) \/ IsOpt(t, e[1]) \/ NestedSrc(t, e)
XEdgeSeqs(t) == IF t.x = "deep3" THEN {s \in [1..3 -> X6Edges] : NoDup(s)}
                ELSE IF t.x = "flat" THEN UNION {{s, Rev(s)} : s \in {z \in XSubsets(t) : \E k \in DOMAIN z : Involves(t, z[k])}}
                ELSE {s \in XSeqs(t) : \E k \in DOMAIN s : NestedSrc(t, s[k])}
XStyles(t, es) == IF t.x = "deep3" THEN (IF XLevel >= 2 THEN {0, 3} ELSE {0})
                  ELSE IF t.x = "flat" THEN (IF Len(t.decl) >= 4 THEN (IF es = EvenFirst(es) THEN {1, 4} ELSE {1}) ELSE {0, 3, 4})
                  ELSE IF XLevel >= 2 THEN {0, 1, 3} ELSE {0, 3}
XPerms(t, es)  == LET n == Len(t.decl) IN
                  IF t.x = "deep3" THEN Perms(n)
                  ELSE IF XLevel >= 2 /\ n <= 3 /\ t.x = "flat" THEN Perms(n)
                  ELSE IF XLevel >= 2 THEN {[i \in 1..n |-> i], [i \in 1..n |-> n + 1 - i], [i \in 1..n |-> (i % n) + 1]}
                  ELSE IF t.x = "flat" THEN {[i \in 1..n |-> i], [i \in 1..n |-> n + 1 - i]}
                  ELSE {IF Len(es) = 2 /\ NestedSrc(t, es[1]) THEN [i \in 1..n |-> n + 1 - i] ELSE [i \in 1..n |-> i]}      \* quick: one order per link sequence

Nested(sh) == NestedLinks(sh)      \* their run is outside the Alg layer (validated against Ref by Trace_Links only)
Leaf(sh)   == LeafLinks(sh)

InitExt == phase = "seed" /\ tpl \in XTemplates /\ shape = NoShape /\ Idle
NextExt == /\ phase = "seed" /\ phase' = "case" /\ UNCHANGED <<tpl, pc, ki, order, hist>>
           /\ \E es \in XEdgeSeqs(tpl) : \E style \in XStyles(tpl, es) : \E p \in XPerms(tpl, es) :
                /\ (Cyclic(EdgeSet(es)) => p = IdPerm(Len(tpl.decl)))
                /\ PlainOnce(tpl, es, style)
                /\ shape' = XShape(tpl, p, es, style)
                /\ (tpl.x = "nest") = (Nested(shape') # {})            \* nested links in the "nest" template only
           /\ results' = AlgAddLinks(shape', 1)
           /\ comps' = (IF AllAccepted(shape', results') THEN PlannedComponents(shape', InstantiationOrder(shape', shape'.links).order) ELSE << >>)
           /\ mach' = (IF AllAccepted(shape', results') /\ Nested(shape') = {} THEN AlgInstantiate(shape') ELSE MachineInit)

Nst == Nested(shape) # {}
\* rejection: Ref (cycle of links => rejected; acyclic together with the constructor-argument edges, also with nested
\* sources lifted to their components => accepted) -- outside the recorded deviation
XAddRefinesRef == Case => (RefAddOK(shape, results) \/ OwnerTargeted(shape, Len(results)) \/ NestedCycleAccepted(shape, results))
\* ... and inside the first deviation the algorithm really rejects an acyclic link set, exactly at the link that completes
\* the pattern; inside the second it really accepts a cycle of links
XOwnerTargetedExact == (Case /\ ~RefAddOK(shape, results) /\ ~NestedCycleAccepted(shape, results)) =>
                          /\ results[Len(results)] = "rejected" /\ ~Cyclic(LinkEdgeSet(SubLinks(shape.links, Len(results))))
                          /\ ~OwnerTargeted(shape, Len(results) - 1)
XAlgRefinesRef == (Case /\ Acc /\ Feasible(shape) /\ ~Mis /\ ~Unr /\ ~Nst /\ Leaf(shape) = {}) =>
                    /\ ~mach.failed /\ RefInstOK(shape, mach.log) /\ FnCalledOnceX(shape, mach.log)
                    /\ RefPlainOK(shape, FinalPlain(shape, mach))
                    /\ {i \in DOMAIN shape.links : LiveLink(shape, shape.links[i])} \subseteq mach.applied
XLeafExact == (Case /\ Acc /\ Feasible(shape) /\ ~Mis /\ ~Unr /\ ~Nst /\ Leaf(shape) # {}) =>
                 (mach.failed \/ ~RefInstOK(shape, mach.log) \/ ~RefPlainOK(shape, FinalPlain(shape, mach)))
XShapeSane == Case => \A i \in DOMAIN shape.links :
                 /\ shape.links[i].tobj \in XTargets(tpl)
                 /\ \A j \in DOMAIN shape.links[i].srcs : shape.links[i].srcs[j].obj \in XSources(tpl)
\* non-vacuity counters are taken from the emitted flags by the harness
EmitExt == (Case /\ Emit) =>
  PrintT(ToJson([shape |-> [decl |-> shape.decl, objs |-> SetToSeq(shape.objs), plains |-> SetToSeq(shape.plains), links |-> shape.links, sig |-> shape.sig], add |-> results, accepted |-> Acc, feasible |-> Feasible(shape),
                 dev |-> (Acc /\ (Mis \/ Unr)), leaf |-> (Leaf(shape) # {}), nested |-> Nst,
                 owner |-> (~RefAddOK(shape, results) /\ OwnerTargeted(shape, Len(results))), cyc |-> NestedCycleAccepted(shape, results), plan |-> comps,
                 failed |-> mach.failed, log |-> LogJson(mach.log),
                 final |-> LET ps == SetToSeq(shape.plains) IN [x \in DOMAIN ps |-> <<ps[x], FinalPlain(shape, mach)[ps[x]]>>]]))
ASSUME PrintT(<<"XSEEDS", Cardinality(XTemplates)>>)
=============================================================================
