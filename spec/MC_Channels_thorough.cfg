SPECIFICATION Spec
CONSTANTS
  MaxSettings = 2
  Emit = TRUE
  FullPairs = TRUE
INVARIANT ChannelIndependent
INVARIANT ResultConforms
INVARIANT EmitCase
CHECK_DEADLOCK FALSE
