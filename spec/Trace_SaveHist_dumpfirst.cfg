CONSTANTS
  Variant = "dumpfirst"
INIT Init
NEXT Next
INVARIANT Inv
CHECK_DEADLOCK FALSE
