----------------------------- MODULE MC_Failures -----------------------------
(* The whole lattice: every parse method x stage x exception class.  TLC computes what comes out, checks the     *)
(* design-level invariants and emits the table that the harness injects into the real code.                       *)
EXTENDS Failures, Json, SequencesExt
CONSTANT Emit
VARIABLES m, stage, cls
vars == <<m, stage, cls>>
Init == m \in Methods /\ stage \in StagesOf(m) /\ cls \in Classes
Next == UNCHANGED vars
Spec == Init /\ [][Next]_vars

\* every class a stage is written to raise for bad input is protected (before fix 3bf3b7b the Path of parse_path was
\* built outside every handler: the lattice showed that route unprotected, the fuzz confirmed it on the real code)
AnticipatedProtected == cls \in stage.ant => Protected(stage, cls)
\* conversions never produce a class that then escapes: whatever a frame turns an exception into is caught further out
ConversionsLand == \A i \in 1..Len(stage.frames) :
                      LET to == stage.frames[i].to IN
                      to \in {"error", "swallowed", "same"} \/ Propagate(to, stage.frames, i + 1) \in {"error", "swallowed", "ArgparseError"}
\* SystemExit is never swallowed by an `except Exception`
ExitPasses == Comes(stage, "SystemExit") = "SystemExit"
\* every stage below a parse method ends in its (TypeError, KeyError) handler
OuterFrame == stage.frames[Len(stage.frames)] \in {F_parse_method, F_path_resolve, F_path_read}
EmitRow == Emit => PrintT(ToJson([method |-> m, stage |-> stage.name, cls |-> cls, comes |-> Comes(stage, cls), frames |-> [i \in 1..Len(stage.frames) |-> stage.frames[i].name]]))
=============================================================================
