---------------------------- MODULE MC_LinksInst ----------------------------
(* Bounded instances of Links.tla, part B (links applied on instantiation).                                   *)
(*   case mode     one state per shape: every link graph (cyclic ones included) over the templates below, in  *)
(*                 the declaration orders / link orders / link styles of the instance; the whole              *)
(*                 instantiate_classes run is evaluated as a fold (AlgInstantiate) and compared with Ref      *)
(*   machine mode  the same run as a state machine (one action per step of _core.py:1231-1250), invariants on *)
(*                 every intermediate state, and agreement of the final state with the fold                   *)
EXTENDS Links, Json
CONSTANTS MaxFlat,      \* flat templates with 1..MaxFlat components
          FullPermsUpTo,\* flat templates with at most this many components: every declaration order and kind vector
          MaxDeepLinks, \* deep templates: link sets with at most this many links
          Emit

RECURSIVE SetToSeq(_)
SetToSeq(X) == IF X = {} THEN << >> ELSE LET x == CHOOSE y \in X : TRUE IN <<x>> \o SetToSeq(X \ {x})
Names == <<"a", "b", "c", "d">>
G == "group"
S == "sub"
D(dest, kind, cps) == [dest |-> dest, kind |-> kind, cparams |-> cps]

\* ------------------------------------------------------------------ templates
KindVecs(n)  == [1..n -> {G, S}]
FewKinds(n)  == {[i \in 1..n |-> G], [i \in 1..n |-> S], [i \in 1..n |-> IF i % 2 = 1 THEN G ELSE S],
                 [i \in 1..n |-> IF i \in {2, 3} THEN G ELSE S]}
Flat(n, kv)  == [decl |-> [i \in 1..n |-> D(<<Names[i]>>, kv[i], << >>)], objs |-> {<<Names[i]>> : i \in 1..n}, deep |-> FALSE]
\* a group declared under a nested key ("n.b"): deeper components are sorted first (_core.py:1226)
FlatNested(kv) == [decl |-> <<D(<<"a">>, kv[1], << >>), D(<<"n", "b">>, kv[2], << >>), D(<<"c">>, kv[3], << >>)>>,
                   objs |-> {<<"a">>, <<"n", "b">>, <<"c">>}, deep |-> FALSE]
\* D1: a class group r whose parameter `child` is a class argument, whose spec has a nested class `grand`
Deep1(ks, ko) == [decl |-> <<D(<<"s">>, ks, << >>), D(<<"r">>, G, <<"child">>), D(<<"o">>, ko, << >>)>>,
                  objs |-> {<<"s">>, <<"r">>, <<"o">>, <<"r", "child">>, <<"r", "child", "init_args", "grand">>}, deep |-> TRUE]
\* D2: a top-level class argument m whose spec has a nested class `enc`
Deep2(ks, ko) == [decl |-> <<D(<<"s">>, ks, << >>), D(<<"m">>, S, << >>), D(<<"o">>, ko, << >>)>>,
                  objs |-> {<<"s">>, <<"m">>, <<"o">>, <<"m", "init_args", "enc">>}, deep |-> TRUE]

FlatTemplates == UNION {{Flat(n, kv) : kv \in (IF n <= FullPermsUpTo THEN KindVecs(n) ELSE FewKinds(n))} : n \in 1..MaxFlat}
                 \cup (IF MaxFlat >= 3 THEN {FlatNested(kv) : kv \in FewKinds(3)} ELSE {})
DeepTemplates == IF MaxDeepLinks = 0 THEN {} ELSE
                 {Deep1(ks, ko) : ks \in {G, S}, ko \in {G, S}} \cup {Deep2(ks, ko) : ks \in {G}, ko \in {G, S}}
Templates == FlatTemplates \cup DeepTemplates

\* ------------------------------------------------------------------ declaration orders
Perms(n) == {p \in [1..n -> 1..n] : \A i, j \in 1..n : i # j => p[i] # p[j]}
FewPerms(n) == {[i \in 1..n |-> i], [i \in 1..n |-> n + 1 - i], [i \in 1..n |-> (i % n) + 1], [i \in 1..n |-> ((i + 1) % n) + 1]}
DeclPerms(t) == LET n == Len(t.decl) IN IF t.deep \/ n <= FullPermsUpTo THEN Perms(n) ELSE FewPerms(n)
IdPerm(n) == [i \in 1..n |-> i]
Permuted(t, p) == [t EXCEPT !.decl = [i \in DOMAIN t.decl |-> t.decl[p[i]]]]

\* ------------------------------------------------------------------ candidate link edges of a template
\* sources are parser-level components; a source that contains its target is outside the property (Feasible)
CandEdges(t) == {e \in CompDests(t) \X t.objs : e[1] # e[2] /\ ~Inside(e[2], e[1])}
CandSeq(t)   == SetToSeq(CandEdges(t))
EdgeSeqs(t)  == IF t.deep
                THEN {s \in UNION {[1..n -> CandEdges(t)] : n \in 0..MaxDeepLinks} : NoDup(s)}          \* every order
                ELSE LET K(m) == LET Keep(e) == (m \div (2 ^ (Index(CandSeq(t), e) - 1))) % 2 = 1 IN SelectSeq(CandSeq(t), Keep)
                     IN {K(m) : m \in 0..(2 ^ Len(CandSeq(t)) - 1)}
Rev(s)      == [i \in DOMAIN s |-> s[Len(s) + 1 - i]]
Rot(s)      == LET h == Len(s) \div 2 IN SubSeq(s, h + 1, Len(s)) \o SubSeq(s, 1, h)
OrdersOf(t, s) == IF t.deep THEN {s} ELSE {s, Rev(s), Rot(s)}

\* ------------------------------------------------------------------ links of an edge sequence, by style
\* styles 0..3 rotate "whole object / attribute" and "no function / function" over the links; style 4 merges the
\* links into the same object into one multi-source link with a compute function
CompIdx(t, c) == Index(SetToSeq(CompDests(t)), c)
StyleLink(t, es, k, style) ==
  [srcs  |-> <<[obj |-> es[k][1], attr |-> IF (k + style) % 2 = 0 THEN "" ELSE "u"]>>,
   tobj  |-> es[k][2], param |-> "p" \o ToString(CompIdx(t, es[k][1])), fn |-> ((k + style) \div 2) % 2 = 1]
Merged(t, es) ==
  LET firsts == LET F(k) == \A j \in 1..(k - 1) : es[j][2] # es[k][2] IN SelectSeq([k \in DOMAIN es |-> k], F)
  IN [n \in DOMAIN firsts |->
        LET tgt  == es[firsts[n]][2]
            Mine(k) == es[k][2] = tgt
            ks   == SelectSeq([k \in DOMAIN es |-> k], Mine)
        IN [srcs |-> [j \in DOMAIN ks |-> [obj |-> es[ks[j]][1], attr |-> IF (j + n) % 2 = 0 THEN "" ELSE "v"]],
            tobj |-> tgt, param |-> "pm", fn |-> TRUE]]
LinksOf(t, es, style) == IF style = 4 THEN Merged(t, es) ELSE [k \in DOMAIN es |-> StyleLink(t, es, k, style)]
Styles(t) == IF t.deep THEN {0, 3} ELSE IF Len(t.decl) <= FullPermsUpTo THEN {0, 1, 3, 4} ELSE {1, 2, 4}

MkShape(t, p, es, style) == [decl |-> Permuted(t, p).decl, objs |-> t.objs, links |-> LinksOf(t, es, style)]

\* ------------------------------------------------------------------ case mode
VARIABLES phase, tpl, shape,
          pc, k, results, order, comps, m          \* machine mode only
mvars == <<phase, tpl, shape, pc, k, results, order, comps, m>>
NoShape == [decl |-> << >>, objs |-> {}, links |-> << >>]
Idle == pc = "-" /\ k = 0 /\ results = << >> /\ order = << >> /\ comps = << >> /\ m = MachineInit
InitCase == phase = "seed" /\ tpl \in Templates /\ shape = NoShape /\ Idle
NextCase == /\ phase = "seed" /\ phase' = "case" /\ UNCHANGED <<tpl, pc, k, results, order, comps, m>>
            /\ \E es0 \in EdgeSeqs(tpl) : \E es \in OrdersOf(tpl, es0) : \E style \in Styles(tpl) : \E p \in DeclPerms(tpl) :
                 \* the declaration order cannot matter for a rejected link set: one order is enough there
                 /\ (Cyclic(EdgeSet(es)) => p = IdPerm(Len(tpl.decl)))
                 /\ shape' = MkShape(tpl, p, es, style)

Case == phase = "case"
Accepted(sh) == ~Cyclic(LinkEdgeSet(sh.links))
Run(sh)      == AlgInstantiate(sh)
Plan(sh)     == PlannedComponents(sh, InstantiationOrder(sh, sh.links).order)

\* The recorded deviation (finding C16 deep-target-misordered): the graph node of a target that lies INSIDE a class
\* argument is not connected to the component that constructs it, so that component can be planned before a
\* source of the link.  Named here; everything outside it must refine Ref.
DeepTargetMisordered(sh) ==
  \E i \in DOMAIN sh.links : \E j \in DOMAIN sh.links[i].srcs :
     LET own == OwnerOf(sh, sh.links[i].tobj)
         src == sh.links[i].srcs[j].obj
     IN own # sh.links[i].tobj /\ Index(Plan(sh), own) < Index(Plan(sh), src)

\* C16 (b), design level
AddRefinesRef == Case => RefAddOK(shape.links, AlgAddLinks(shape, 1))
AlgRefinesRef == (Case /\ Accepted(shape) /\ Feasible(shape) /\ ~DeepTargetMisordered(shape)) =>
                   LET m == Run(shape) IN ~m.failed /\ RefInstOK(shape, m.log) /\ FnCalledOnce(m.log, shape.links)
                                          /\ m.applied = DOMAIN shape.links
\* the deviation is exactly where the algorithm breaks the property (so the finding is neither wider nor narrower)
DeviationExact == (Case /\ Accepted(shape) /\ Feasible(shape) /\ DeepTargetMisordered(shape)) =>
                   LET m == Run(shape) IN m.failed \/ ~RefInstOK(shape, m.log)
\* every component is planned exactly once, and the plan is a topological order of the component-level links
PlanSane == (Case /\ Accepted(shape)) =>
              /\ IsPermOf(Plan(shape), CompDests(shape))
              /\ \A c1, c2 \in CompDests(shape) : (Inside(c2, c1) /\ Has(Plan(shape), c1)) => Index(Plan(shape), c2) < Index(Plan(shape), c1)
\* the graph node computed by the algorithm is the receiving object of the Ref vocabulary
TargetNodeIsObject == Case => \A i \in DOMAIN shape.links : TargetNode(TargetKey(shape, shape.links[i])) = shape.links[i].tobj
ShapeSane == Case => /\ \A i \in DOMAIN shape.links : shape.links[i].tobj \in shape.objs
                                                       /\ \A j \in DOMAIN shape.links[i].srcs : shape.links[i].srcs[j].obj \in CompDests(shape)
                     /\ Feasible(shape) \/ ~Accepted(shape)

\* ------------------------------------------------------------------ emission
ValJson(v) == v
LogJson(log) == [n \in DOMAIN log |->
                   IF log[n].ev = "new" THEN [ev |-> "new", obj |-> log[n].obj,
                                              kw |-> LET ps == SetToSeq(DOMAIN log[n].kw) IN [x \in DOMAIN ps |-> <<ps[x], log[n].kw[ps[x]]>>]]
                   ELSE [ev |-> "fn", link |-> log[n].link, args |-> log[n].args]]
ShapeJson(sh) == [decl |-> sh.decl, objs |-> SetToSeq(sh.objs), links |-> sh.links]
EmitCase == (Case /\ Emit) =>
  LET add == AlgAddLinks(shape, 1)
      acc == Accepted(shape)
      m   == IF acc THEN Run(shape) ELSE MachineInit
  IN PrintT(ToJson([shape |-> ShapeJson(shape), add |-> add, cyclic |-> ~acc,
                    dev |-> (acc /\ DeepTargetMisordered(shape)),
                    plan |-> IF acc THEN Plan(shape) ELSE << >>,
                    failed |-> m.failed, log |-> LogJson(m.log)]))

\* ------------------------------------------------------------------ machine mode
\* pc: "add" (link_arguments calls) -> "plan" -> "apply"/"build" per component -> "rest" -> "done" | "rejected" | "failed"
InitMachine == /\ phase = "case" /\ tpl \in Templates
               /\ \E es0 \in EdgeSeqs(tpl) : \E style \in Styles(tpl) : \E p \in DeclPerms(tpl) :
                    /\ (Cyclic(EdgeSet(es0)) => p = IdPerm(Len(tpl.decl)))
                    /\ shape = MkShape(tpl, p, es0, style)
               /\ pc = "add" /\ k = 1 /\ results = << >> /\ order = << >> /\ comps = << >> /\ m = MachineInit
AddLink ==   \* ActionLink.__init__:191-198
  /\ pc = "add" /\ k <= Len(shape.links)
  /\ LET o == InstantiationOrder(shape, SubLinks(shape.links, k)) IN
       IF o.raised THEN results' = Append(results, "rejected") /\ pc' = "rejected" /\ k' = k
       ELSE results' = Append(results, "ok") /\ k' = k + 1 /\ pc' = "add"
  /\ UNCHANGED <<phase, tpl, shape, order, comps, m>>
MakePlan ==  \* _core.py:1214-1228
  /\ pc = "add" /\ k > Len(shape.links)
  /\ order' = InstantiationOrder(shape, shape.links).order
  /\ comps' = PlannedComponents(shape, order')
  /\ k' = 1 /\ pc' = "apply"
  /\ UNCHANGED <<phase, tpl, shape, results, m>>
ApplyStep == \* _core.py:1232
  /\ pc = "apply" /\ k <= Len(comps)
  /\ m' = ApplyFor(shape, m, comps[k])
  /\ pc' = (IF m'.failed THEN "failed" ELSE "build")
  /\ UNCHANGED <<phase, tpl, shape, k, results, order, comps>>
BuildStep == \* _core.py:1233-1248
  /\ pc = "build"
  /\ m' = Construct(shape, m, comps[k])
  /\ k' = k + 1 /\ pc' = "apply"
  /\ UNCHANGED <<phase, tpl, shape, results, order, comps>>
RestStep ==  \* _core.py:1250
  /\ pc = "apply" /\ k > Len(comps)
  /\ m' = ApplyRest(shape, m, order)
  /\ pc' = (IF m'.failed THEN "failed" ELSE "done")
  /\ UNCHANGED <<phase, tpl, shape, k, results, order, comps>>
NextMachine == AddLink \/ MakePlan \/ ApplyStep \/ BuildStep \/ RestStep

\* invariants of the machine
MTypeOK == /\ pc \in {"add", "apply", "build", "done", "rejected", "failed"}
           /\ m.applied \subseteq DOMAIN shape.links /\ m.built \subseteq shape.objs
\* the bookkeeping of __applied_instantiation_links__: a link's compute function runs once, a written value is
\* never written again, what is recorded as applied has been written
Bookkeeping == /\ \A i \in m.applied : TargetKey(shape, shape.links[i]) \in DOMAIN m.vals
               /\ \A i \in DOMAIN shape.links : Cardinality({n \in DOMAIN m.log : m.log[n].ev = "fn" /\ m.log[n].link = i}) <= 1
               /\ \A o \in shape.objs : Cardinality(NewOf(m.log, o)) <= 1
\* outside the recorded deviation no link is ever fed from an object that does not exist yet
NoStale == (Feasible(shape) /\ ~DeepTargetMisordered(shape) /\ pc # "rejected") =>
             /\ pc # "failed"
             /\ \A key \in DOMAIN m.vals : m.vals[key].k # "stale"
                                          /\ (m.vals[key].k = "fn" => \A j \in DOMAIN m.vals[key].args : m.vals[key].args[j].k # "stale")
\* a link is applied before the object it feeds is constructed
AppliedBeforeBuilt == (Feasible(shape) /\ ~DeepTargetMisordered(shape)) =>
                        \A i \in DOMAIN shape.links : shape.links[i].tobj \in m.built => i \in m.applied
\* the machine ends exactly where the fold says, and the property holds there
MachineAgreesWithFold == /\ pc = "done" => (m = Run(shape) /\ results = AlgAddLinks(shape, 1))
                         /\ pc = "failed" => Run(shape).failed
                         /\ pc = "rejected" => results = AlgAddLinks(shape, 1)
DoneRefinesRef == (pc = "done" /\ Feasible(shape) /\ ~DeepTargetMisordered(shape)) => RefInstOK(shape, m.log)
RejectedRefinesRef == (pc \in {"rejected", "done", "failed"}) => RefAddOK(shape.links, results)
=============================================================================
