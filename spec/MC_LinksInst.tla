---------------------------- MODULE MC_LinksInst ----------------------------
(* Bounded instances of Links.tla, part B (links applied on instantiation).                                   *)
(*   case mode     one state per shape: every link graph (cyclic ones included) over the templates below, in  *)
(*                 the declaration orders / link orders / link styles of the instance; the whole              *)
(*                 instantiate_classes run is evaluated as a fold (AlgInstantiate) and compared with Ref      *)
(*   machine mode  the same run as a state machine (one action per step of _core.py:1231-1250), invariants on *)
(*                 every intermediate state, and agreement of the final state with the fold                   *)
(*   history mode  ONE parser used twice: a first batch of links, instantiate_classes, the remaining links,   *)
(*                 instantiate_classes again -- every acyclic link sequence over three components, every      *)
(*                 split point (none / all of the links before the first call included); the property must    *)
(*                 hold after EACH call: the order is a function of the links present at the call             *)
EXTENDS Links, Json
CONSTANTS MaxFlat,      \* flat templates with 1..MaxFlat components
          FullPermsUpTo,\* flat templates with at most this many components: every declaration order and kind vector
          AllKindsUpTo, \* flat templates with at most this many components: every group / class-argument vector
          MaxDeepLinks, \* deep templates: link sets with at most this many links
          DeepFull,     \* TRUE (thorough): every kind vector and declaration order of the deep / nested-key templates,
                        \* three link orders for the 3-component templates
          Emit

RECURSIVE SetToSeq(_)
SetToSeq(X) == IF X = {} THEN << >> ELSE LET x == CHOOSE y \in X : TRUE IN <<x>> \o SetToSeq(X \ {x})
Names == <<"a", "ab", "c", "d">>      \* "a" is a prefix of "ab" (reorder compares key + ".")
G == "group"
S == "sub"
D(dest, kind, cps) == [dest |-> dest, kind |-> kind, cparams |-> cps]

\* ------------------------------------------------------------------ templates
KindVecs(n)  == [1..n -> {G, S}]
FewKinds(n)  == {[i \in 1..n |-> G], [i \in 1..n |-> S], [i \in 1..n |-> IF i % 2 = 1 THEN G ELSE S],
                 [i \in 1..n |-> IF i \in {2, 3} THEN G ELSE S]}
Flat(n, kv)  == [decl |-> [i \in 1..n |-> D(<<Names[i]>>, kv[i], << >>)], objs |-> {<<Names[i]>> : i \in 1..n}, plains |-> {}, deep |-> FALSE]
\* a group declared under a nested key ("n.b"): deeper components are sorted first (_core.py:1226)
FlatNested(kv) == [decl |-> <<D(<<"a">>, kv[1], << >>), D(<<"n", "b">>, kv[2], << >>), D(<<"c">>, kv[3], << >>)>>,
                   objs |-> {<<"a">>, <<"n", "b">>, <<"c">>}, plains |-> {}, deep |-> FALSE]
\* two components and two plain arguments that are link targets (applied by the final pass, _core.py:1250)
FlatPlain(kv) == [decl |-> <<D(<<"a">>, kv[1], << >>), D(<<"b">>, kv[2], << >>)>>,
                  objs |-> {<<"a">>, <<"b">>}, plains |-> {<<"t1">>, <<"t2">>}, deep |-> FALSE]
\* D1: a class group r whose parameter `child` is a class argument, whose spec has a nested class `grand`
Deep1(ks, ko) == [decl |-> <<D(<<"s">>, ks, << >>), D(<<"r">>, G, <<"child">>), D(<<"o">>, ko, << >>)>>,
                  objs |-> {<<"s">>, <<"r">>, <<"o">>, <<"r", "child">>, <<"r", "child", "init_args", "grand">>}, plains |-> {}, deep |-> TRUE]
\* D2: a top-level class argument m whose spec has a nested class `enc`
Deep2(ks, ko) == [decl |-> <<D(<<"s">>, ks, << >>), D(<<"m">>, S, << >>), D(<<"o">>, ko, << >>)>>,
                  objs |-> {<<"s">>, <<"m">>, <<"o">>, <<"m", "init_args", "enc">>}, plains |-> {}, deep |-> TRUE]

FlatTemplates == UNION {{Flat(n, kv) : kv \in (IF n <= AllKindsUpTo THEN KindVecs(n) ELSE FewKinds(n))} : n \in 1..MaxFlat}
                 \cup (IF MaxFlat >= 3 THEN {FlatNested(kv) : kv \in (IF DeepFull THEN FewKinds(3) ELSE {[i \in 1..3 |-> IF i % 2 = 1 THEN G ELSE S]})} ELSE {})
                 \cup {FlatPlain(kv) : kv \in KindVecs(2)}
DeepTemplates == IF MaxDeepLinks = 0 THEN {} ELSE
                 IF DeepFull THEN {Deep1(ks, ko) : ks \in {G, S}, ko \in {G, S}} \cup {Deep2(ks, ko) : ks \in {G}, ko \in {G, S}}
                 ELSE {Deep1(G, G), Deep1(S, S), Deep2(G, S)}
Templates == FlatTemplates \cup DeepTemplates

\* ------------------------------------------------------------------ declaration orders
Perms(n) == {p \in [1..n -> 1..n] : \A i, j \in 1..n : i # j => p[i] # p[j]}
FewPerms(n) == {[i \in 1..n |-> i], [i \in 1..n |-> n + 1 - i], [i \in 1..n |-> (i % n) + 1], [i \in 1..n |-> ((i + 1) % n) + 1]}
DeclPerms(t, es) == LET n == Len(t.decl) IN
                IF t.deep THEN (IF DeepFull /\ Len(es) <= 2 THEN Perms(n) ELSE {[i \in 1..n |-> i], [i \in 1..n |-> n + 1 - i], [i \in 1..n |-> (i % n) + 1]})
                ELSE IF n <= FullPermsUpTo THEN Perms(n) ELSE FewPerms(n)
IdPerm(n) == [i \in 1..n |-> i]
Permuted(t, p) == [t EXCEPT !.decl = [i \in DOMAIN t.decl |-> t.decl[p[i]]]]

\* ------------------------------------------------------------------ candidate link edges of a template
\* sources are parser-level components; a source that contains its target is outside the property (Feasible)
CandEdges(t) == {e \in CompDests(t) \X (t.objs \cup t.plains) : e[1] # e[2] /\ ~Inside(e[2], e[1])}
CandSeq(t)   == SetToSeq(CandEdges(t))
EdgeSeqs(t)  == IF t.deep
                THEN {s \in UNION {[1..n -> CandEdges(t)] : n \in 0..MaxDeepLinks} : NoDup(s)}          \* every order
                ELSE LET K(m) == LET Keep(e) == (m \div (2 ^ (Index(CandSeq(t), e) - 1))) % 2 = 1 IN SelectSeq(CandSeq(t), Keep)
                     IN {K(m) : m \in 0..(2 ^ Len(CandSeq(t)) - 1)}
Rev(s)      == [i \in DOMAIN s |-> s[Len(s) + 1 - i]]
Rot(s)      == LET h == Len(s) \div 2 IN SubSeq(s, h + 1, Len(s)) \o SubSeq(s, 1, h)
Big(t)         == ~t.deep /\ Len(t.decl) > FullPermsUpTo
EvenFirst(s)   == IF Len(s) < 2 \/ Index(SetToSeq(Range(s)), s[1]) <= Index(SetToSeq(Range(s)), s[Len(s)]) THEN s ELSE Rev(s)   \* one of {s, Rev(s)}
OrdersOf(t, s) == IF t.deep THEN {s} ELSE IF Big(t) THEN (IF Cyclic(EdgeSet(s)) THEN {s} ELSE {s, Rev(s)})
                  ELSE IF DeepFull \/ Len(t.decl) <= AllKindsUpTo THEN {s, Rev(s), Rot(s)} ELSE {s, Rev(s)}

\* ------------------------------------------------------------------ links of an edge sequence, by style
\* styles 0..3 rotate "whole object / attribute" and "no function / function" over the links; style 4 merges the
\* links into the same object into one multi-source link with a compute function
CompIdx(t, c) == Index(SetToSeq(CompDests(t)), c)
StyleLink(t, es, k, style) ==
  [srcs  |-> <<[obj |-> es[k][1], attr |-> IF (k + style) % 2 = 0 THEN "" ELSE "u"]>>,
   tobj  |-> es[k][2], param |-> "p" \o ToString(CompIdx(t, es[k][1])), fn |-> ((k + style) \div 2) % 2 = 1]
Merged(t, es) ==
  LET firsts == LET F(k) == \A j \in 1..(k - 1) : es[j][2] # es[k][2] IN SelectSeq([k \in DOMAIN es |-> k], F)
  IN [n \in DOMAIN firsts |->
        LET tgt  == es[firsts[n]][2]
            Mine(k) == es[k][2] = tgt
            ks   == SelectSeq([k \in DOMAIN es |-> k], Mine)
        IN [srcs |-> [j \in DOMAIN ks |-> [obj |-> es[ks[j]][1], attr |-> IF (j + n) % 2 = 0 THEN "" ELSE "v"]],
            tobj |-> tgt, param |-> "pm", fn |-> TRUE]]
LinksOf(t, es, style) == IF style = 4 THEN Merged(t, es) ELSE [k \in DOMAIN es |-> StyleLink(t, es, k, style)]
Styles(t, es) == IF t.deep THEN (IF Len(es) >= 3 THEN {0} ELSE {0, 3})
                 ELSE IF Len(t.decl) <= AllKindsUpTo THEN {0, 1, 2, 3, 4}
                 ELSE IF Len(t.decl) <= FullPermsUpTo THEN {0, 3, 4}
                 ELSE IF Cyclic(EdgeSet(es)) THEN {1} ELSE (IF es = EvenFirst(es) THEN {1, 4} ELSE {1})
\* the largest families are thinned: a rejected link set of a big flat template is tried with one kind vector only (the
\* kinds cannot matter for the rejection), deep link sets of three links with equal kinds of s and o and three orders
AllGroups(t)   == \A i \in DOMAIN t.decl : t.decl[i].kind = G
EqualKinds(t)  == \A i, j \in DOMAIN t.decl : (t.decl[i].cparams = << >> /\ t.decl[j].cparams = << >> /\ t.decl[i].dest # <<"m">> /\ t.decl[j].dest # <<"m">>) => t.decl[i].kind = t.decl[j].kind
Monotone(t, es) == \/ \A i \in 1..(Len(es) - 1) : Index(CandSeq(t), es[i]) < Index(CandSeq(t), es[i + 1])
                   \/ \A i \in 1..(Len(es) - 1) : Index(CandSeq(t), es[i]) > Index(CandSeq(t), es[i + 1])
Thinned(t, es) == /\ (Big(t) /\ Cyclic(EdgeSet(es))) => AllGroups(t)
                  /\ (t.deep /\ Len(es) >= 3) => (EqualKinds(t) /\ Monotone(t, es))

\* a plain argument can be the target of one link only (the second link_arguments call finds no action, :145-148)
PlainOnce(t, es, style) == style = 4 \/ \A i, j \in DOMAIN es : (i # j /\ es[i][2] \in t.plains) => es[i][2] # es[j][2]
MkShape(t, p, es, style) == [decl |-> Permuted(t, p).decl, objs |-> t.objs, plains |-> t.plains, links |-> LinksOf(t, es, style)]

\* ------------------------------------------------------------------ case mode
VARIABLES phase, tpl, shape,
          pc, ki, results, order, comps, mach,         \* machine mode only
          hist                                         \* history mode only: the run of the first instantiate_classes call
mvars == <<phase, tpl, shape, pc, ki, results, order, comps, mach, hist>>
NoShape == [decl |-> << >>, objs |-> {}, plains |-> {}, links |-> << >>]
Idle == pc = "-" /\ ki = 0 /\ results = << >> /\ order = << >> /\ comps = << >> /\ mach = MachineInit /\ hist = MachineInit
InitCase == phase = "seed" /\ tpl \in Templates /\ shape = NoShape /\ Idle
\* (the run of the algorithm is computed once, when the case state is created: results / comps / mach hold
\* AlgAddLinks, the plan and the final machine state of the shape)
NextCase == /\ phase = "seed" /\ phase' = "case" /\ UNCHANGED <<tpl, pc, ki, order, hist>>
            /\ \E es0 \in EdgeSeqs(tpl) : \E es \in OrdersOf(tpl, es0) : \E style \in Styles(tpl, es) : \E p \in DeclPerms(tpl, es) :
                 \* the declaration order cannot matter for a rejected link set: one order is enough there
                 /\ (Cyclic(EdgeSet(es)) => p = IdPerm(Len(tpl.decl)))
                 /\ Thinned(tpl, es)
                 /\ PlainOnce(tpl, es, style)
                 /\ shape' = MkShape(tpl, p, es, style)
            /\ results' = AlgAddLinks(shape', 1)
            /\ comps' = (IF AllAccepted(shape', results') THEN PlannedComponents(shape', InstantiationOrder(shape', shape'.links).order) ELSE << >>)
            /\ mach' = (IF AllAccepted(shape', results') THEN AlgInstantiate(shape') ELSE MachineInit)

Case == phase = "case"
Accepted(sh) == AllAccepted(sh, AlgAddLinks(sh, 1))
Run(sh)      == AlgInstantiate(sh)
Plan(sh)     == PlannedComponents(sh, InstantiationOrder(sh, sh.links).order)

\* The recorded deviation (finding C16 nested-target-misordered).  When the receiving object lies INSIDE another
\* component (a class-typed parameter of a class group such as r.child, or a nested class in the spec of a class
\* argument such as r.child.init_args.grand) the plan can put the component that constructs it before a source of
\* the link: the graph node of a deep target is connected to its owner only when the owner is itself a target
\* (:424-431), and reorder (:442) drags r.child along with the key r.  Named here; everything else must refine Ref.
NestedTarget(sh, l) == \E c \in CompDests(sh) : Inside(l.tobj, c)
MisorderedLinksP(sh, plan) == {i \in DOMAIN sh.links : NestedTarget(sh, sh.links[i]) /\ \E j \in DOMAIN sh.links[i].srcs :
                                 Index(plan, OwnerOf(sh, sh.links[i].tobj)) < Index(plan, SrcDest(sh, sh.links[i].srcs[j]))}
MisorderedLinks(sh) == MisorderedLinksP(sh, Plan(sh))
NestedTargetMisordered(sh) == MisorderedLinks(sh) # {}
\* Second recorded deviation (finding C16 nested-source-unreachable): a class-typed parameter of a class group
\* (r.child) used as a link SOURCE is looked up as cfg["r.child"] when the link is applied; if the group r has been
\* instantiated before that, the key is gone and instantiate_classes raises NSKeyError.
UnreachableLinksP(sh, plan) == {i \in DOMAIN sh.links : \E j \in DOMAIN sh.links[i].srcs : \E g \in CompDests(sh) :
                                  /\ IsGroup(sh, g) /\ Inside(sh.links[i].srcs[j].obj, g)
                                  /\ (sh.links[i].tobj \in sh.plains \/ Index(plan, g) < Index(plan, OwnerOf(sh, sh.links[i].tobj)))}
UnreachableLinks(sh) == UnreachableLinksP(sh, Plan(sh))
NestedSourceUnreachable(sh) == UnreachableLinks(sh) # {}
Deviation(sh) == NestedTargetMisordered(sh) \/ NestedSourceUnreachable(sh)

\* C16 (b), design level (case mode: results / comps / mach are the stored run of `shape`)
Acc  == AllAccepted(shape, results)
Mis  == MisorderedLinksP(shape, comps) # {}
Unr  == UnreachableLinksP(shape, comps) # {}
AddRefinesRef == Case => RefAddOK(shape, results)
AlgRefinesRef == (Case /\ Acc /\ Feasible(shape) /\ ~Mis /\ ~Unr) =>
                   /\ ~mach.failed /\ RefInstOK(shape, mach.log) /\ FnCalledOnce(mach.log, shape.links)
                   /\ RefPlainOK(shape, FinalPlain(shape, mach))
                   /\ mach.applied = DOMAIN shape.links
\* the deviations are exactly where the algorithm breaks the property (the findings are neither wider nor narrower)
DeviationExact == (Case /\ Acc /\ Feasible(shape) /\ (Mis \/ Unr)) => (mach.failed \/ ~RefInstOK(shape, mach.log))
\* ... and the second deviation is exactly the NSKeyError of the transcription
UnreachableExact == (Case /\ Acc /\ Feasible(shape) /\ ~Mis) => (Unr <=> mach.failed)
\* every component is planned exactly once, inner components before the ones that contain them
PlanSane == (Case /\ Acc) =>
              /\ IsPermOf(comps, CompDests(shape))
              /\ \A c1, c2 \in CompDests(shape) : Inside(c2, c1) => Index(comps, c2) < Index(comps, c1)
\* The repair proposed for the first finding, checked on the same instance (configuration MC_LinksInst_repair, not
\* part of ./check): with it no accepted feasible shape is misordered, cycles through constructor arguments are
\* rejected when the link is added, and the only remaining failure is the second deviation.
RepairRefinesRef == Case =>
  LET add == AlgAddLinksR(shape, 1, TRUE) IN
  /\ RefAddOK(shape, add)
  /\ (AllAccepted(shape, add) => Feasible(shape))
  /\ (AllAccepted(shape, add) =>
        LET o    == InstantiationOrderR(shape, shape.links, TRUE).order
            plan == PlannedComponents(shape, o)
            m    == AlgInstantiateR(shape, TRUE)
        IN /\ MisorderedLinksP(shape, plan) = {}
           /\ (UnreachableLinksP(shape, plan) = {} => (~m.failed /\ RefInstOK(shape, m.log) /\ RefPlainOK(shape, FinalPlain(shape, m)))))
\* the graph node computed by the algorithm is the receiving object of the Ref vocabulary
TargetNodeIsObject == Case => \A i \in DOMAIN shape.links : TargetNode(TargetKey(shape, shape.links[i])) = shape.links[i].tobj
ShapeSane == Case => /\ \A i \in DOMAIN shape.links : shape.links[i].tobj \in shape.objs \cup shape.plains
                                                       /\ \A j \in DOMAIN shape.links[i].srcs : shape.links[i].srcs[j].obj \in CompDests(shape)

\* ------------------------------------------------------------------ emission
ValJson(v) == v
LogJson(log) == [n \in DOMAIN log |->
                   IF log[n].ev = "new" THEN [ev |-> "new", obj |-> log[n].obj,
                                              kw |-> LET ps == SetToSeq(DOMAIN log[n].kw) IN [x \in DOMAIN ps |-> <<ps[x], log[n].kw[ps[x]]>>]]
                   ELSE [ev |-> "fn", link |-> log[n].link, args |-> log[n].args]]
ShapeJson(sh) == [decl |-> sh.decl, objs |-> SetToSeq(sh.objs), plains |-> SetToSeq(sh.plains), links |-> sh.links]
EmitCase == (Case /\ Emit) =>
  PrintT(ToJson([shape |-> ShapeJson(shape), add |-> results, accepted |-> Acc, feasible |-> Feasible(shape),
                 dev |-> (Acc /\ (Mis \/ Unr)), plan |-> comps,
                 failed |-> mach.failed, log |-> LogJson(mach.log),
                 final |-> LET ps == SetToSeq(shape.plains) IN [x \in DOMAIN ps |-> <<ps[x], FinalPlain(shape, mach)[ps[x]]>>]]))

ASSUME PrintT(<<"SEEDS", Cardinality(Templates)>>)

\* ------------------------------------------------------------------ history mode
\* ki = the split point: links 1..ki are added before the first instantiate_classes call, the rest before the second;
\* hist / mach = the two runs.  The algorithm keeps nothing between calls (instantiation_order is recomputed from
\* the parser's links at :1227 every time), so each run is AlgInstantiate of the links present at that call.
HistTemplates == {Flat(3, kv) : kv \in (IF DeepFull THEN FewKinds(3) ELSE {[i \in 1..3 |-> G], [i \in 1..3 |-> IF i % 2 = 1 THEN G ELSE S]})}
HistSeqs(t)   == {es \in UNION {[1..n -> CandEdges(t)] : n \in 0..3} : NoDup(es) /\ ~Cyclic(EdgeSet(es))}
HistStyles    == IF DeepFull THEN {0, 3} ELSE {1}
Before(sh, n) == [sh EXCEPT !.links = SubLinks(sh.links, n)]
InitHist == phase = "seed" /\ tpl \in HistTemplates /\ shape = NoShape /\ Idle
NextHist == /\ phase = "seed" /\ phase' = "hist" /\ UNCHANGED <<tpl, pc, order>>
            /\ \E es \in HistSeqs(tpl) : \E style \in HistStyles : \E p \in Perms(3) : \E n \in 0..Len(es) :
                 shape' = MkShape(tpl, p, es, style) /\ ki' = n
            /\ results' = AlgAddLinks(shape', 1)
            /\ comps' = PlannedComponents(shape', InstantiationOrder(shape', shape'.links).order)
            /\ hist' = AlgInstantiate(Before(shape', ki'))
            /\ mach' = AlgInstantiate(shape')
Hist == phase = "hist"
HistoryRefinesRef == Hist =>
  /\ AllAccepted(shape, results)
  /\ ~hist.failed /\ RefInstOK(Before(shape, ki), hist.log) /\ FnCalledOnce(hist.log, Before(shape, ki).links)
  /\ ~mach.failed /\ RefInstOK(shape, mach.log) /\ FnCalledOnce(mach.log, shape.links)
\* (`reorders` marks the histories that add, after the first call, a link whose source was built AFTER its target in
\* the first run: the second call has to plan differently; counted by the harness for non-vacuity)
EmitHist == (Hist /\ Emit) =>
  PrintT(ToJson([hist |-> TRUE, shape |-> ShapeJson(shape), split |-> ki, plan |-> comps,
                 log1 |-> LogJson(hist.log), log2 |-> LogJson(mach.log),
                 reorders |-> (\E i \in (ki + 1)..Len(shape.links) : \E j \in DOMAIN shape.links[i].srcs :
                                  FirstNew(hist.log, shape.links[i].tobj) < FirstNew(hist.log, shape.links[i].srcs[j].obj))]))
ASSUME PrintT(<<"HSEEDS", Cardinality(HistTemplates)>>)

\* ------------------------------------------------------------------ machine mode
\* pc: "add" (link_arguments calls) -> "plan" -> "apply"/"build" per component -> "rest" -> "done" | "rejected" | "failed"
InitMachine == /\ phase = "case" /\ tpl \in Templates
               /\ \E es0 \in EdgeSeqs(tpl) : \E style \in Styles(tpl, es0) : \E p \in DeclPerms(tpl, es0) :
                    /\ (Cyclic(EdgeSet(es0)) => p = IdPerm(Len(tpl.decl)))
                    /\ Thinned(tpl, es0)
                    /\ PlainOnce(tpl, es0, style)
                    /\ shape = MkShape(tpl, p, es0, style)
               /\ pc = "add" /\ ki = 1 /\ results = << >> /\ order = << >> /\ comps = << >> /\ mach = MachineInit /\ hist = MachineInit
AddLink ==   \* ActionLink.__init__:191-198
  /\ pc = "add" /\ ki <= Len(shape.links)
  /\ LET o == InstantiationOrder(shape, SubLinks(shape.links, ki)) IN
       IF o.raised THEN results' = Append(results, "rejected") /\ pc' = "rejected" /\ ki' = ki
       ELSE results' = Append(results, "ok") /\ ki' = ki + 1 /\ pc' = "add"
  /\ UNCHANGED <<phase, tpl, shape, order, comps, mach>>
MakePlan ==  \* _core.py:1214-1228
  /\ pc = "add" /\ ki > Len(shape.links)
  /\ order' = InstantiationOrder(shape, shape.links).order
  /\ comps' = PlannedComponents(shape, order')
  /\ ki' = 1 /\ pc' = "apply"
  /\ UNCHANGED <<phase, tpl, shape, results, mach>>
ApplyStep == \* _core.py:1232
  /\ pc = "apply" /\ ki <= Len(comps)
  /\ mach' = ApplyFor(shape, mach, comps[ki])
  /\ pc' = (IF mach'.failed THEN "failed" ELSE "build")
  /\ UNCHANGED <<phase, tpl, shape, ki, results, order, comps>>
BuildStep == \* _core.py:1233-1248
  /\ pc = "build"
  /\ mach' = Construct(shape, mach, comps[ki])
  /\ ki' = ki + 1 /\ pc' = "apply"
  /\ UNCHANGED <<phase, tpl, shape, results, order, comps>>
RestStep ==  \* _core.py:1250
  /\ pc = "apply" /\ ki > Len(comps)
  /\ mach' = ApplyRest(shape, mach, order)
  /\ pc' = (IF mach'.failed THEN "failed" ELSE "done")
  /\ UNCHANGED <<phase, tpl, shape, ki, results, order, comps>>
NextMachine == (AddLink \/ MakePlan \/ ApplyStep \/ BuildStep \/ RestStep) /\ UNCHANGED hist

\* invariants of the machine
MTypeOK == /\ pc \in {"add", "apply", "build", "done", "rejected", "failed"}
           /\ mach.applied \subseteq DOMAIN shape.links /\ mach.built \subseteq shape.objs
\* the bookkeeping of __applied_instantiation_links__: a link's compute function runs once, a written value is
\* never written again, what is recorded as applied has been written
Bookkeeping == /\ \A i \in mach.applied : TargetKey(shape, shape.links[i]) \in DOMAIN mach.vals
               /\ \A i \in DOMAIN shape.links : Cardinality({n \in DOMAIN mach.log : mach.log[n].ev = "fn" /\ mach.log[n].link = i}) <= 1
               /\ \A o \in shape.objs : Cardinality(NewOf(mach.log, o)) <= 1
\* outside the recorded deviation no link is ever fed from an object that does not exist yet
NoStale == (Feasible(shape) /\ ~Deviation(shape) /\ pc # "rejected") =>
             /\ pc # "failed"
             /\ \A key \in DOMAIN mach.vals : mach.vals[key].k # "stale"
                                          /\ (mach.vals[key].k = "fn" => \A j \in DOMAIN mach.vals[key].args : mach.vals[key].args[j].k # "stale")
\* a link is applied before the object it feeds is constructed
AppliedBeforeBuilt == (Feasible(shape) /\ ~Deviation(shape)) =>
                        /\ \A i \in DOMAIN shape.links : shape.links[i].tobj \in mach.built => i \in mach.applied
                        /\ pc = "done" => mach.applied = DOMAIN shape.links
\* the machine ends exactly where the fold says, and the property holds there
MachineAgreesWithFold == /\ pc = "done" => (mach = Run(shape) /\ results = AlgAddLinks(shape, 1))
                         /\ pc = "failed" => Run(shape).failed
                         /\ pc = "rejected" => results = AlgAddLinks(shape, 1)
DoneRefinesRef == (pc = "done" /\ Feasible(shape) /\ ~Deviation(shape)) =>
                    RefInstOK(shape, mach.log) /\ RefPlainOK(shape, FinalPlain(shape, mach))
RejectedRefinesRef == (pc \in {"rejected", "done", "failed"}) => RefAddOK(shape, results)
=============================================================================
