----------------------------- MODULE MC_Classes -----------------------------
(* Bounded instance of Classes.tla: one class family (base, subclasses adding / overriding / retyping parameters, a   *)
(* **kwargs class, an unrelated class, an abstract base, factories, owners with class-typed, Optional, List, Dict and   *)
(* Union-of-class parameters) x every sequence of up to MaxLen sources from a vocabulary per declared type.             *)
EXTENDS Classes, Json
\* TLC orders record fields by first appearance of the name in the root module: keep the tag first
FieldOrder == [k |-> 0]
CONSTANTS MaxLen,    \* sources per case
          Emit

TInt == [k |-> "int", c |-> "", c2 |-> ""]
TStr == [k |-> "str", c |-> "", c2 |-> ""]
TCls(c) == [k |-> "cls", c |-> c, c2 |-> ""]
TOpt(c) == [k |-> "opt", c |-> c, c2 |-> ""]
TList(c) == [k |-> "list", c |-> c, c2 |-> ""]
TDict(c) == [k |-> "dict", c |-> c, c2 |-> ""]
TOptList(c) == [k |-> "optlist", c |-> c, c2 |-> ""]
TListOpt(c) == [k |-> "listopt", c |-> c, c2 |-> ""]
TOptDict(c) == [k |-> "optdict", c |-> c, c2 |-> ""]
TUnion(c, c2) == [k |-> "union", c |-> c, c2 |-> c2]
Pm(n, t, d) == [n |-> n, t |-> t, req |-> FALSE, d |-> d]
Rq(n, t) == [n |-> n, t |-> t, req |-> TRUE, d |-> NoVal]
Cl(parent, abs, kw, params) == [parent |-> parent, abs |-> abs, kw |-> kw, params |-> params]

Bd(m, n, c, def, u) == [m |-> m, n |-> n, c |-> c, def |-> def, u |-> u]
ClassNames == {"Base", "Sub1", "Sub2", "Sub3", "SubKw", "SubKw2", "Other", "Abs", "Conc", "Outer", "OuterOpt", "OuterList", "OuterDict", "OuterUnion", "Outer2",
               "OuterOptList", "OuterListOpt", "OuterOptDict", "TopOpt",
               "SubNew~L1", "Sub1~L2", "Fast~Pv2", "Fast~P", "Fast~Qv2", "Fast~Q", "Quick~Rv2"}
Fam == [cls |-> [c \in ClassNames |->
          CASE c = "Base"   -> Cl("", FALSE, FALSE, <<Pm("a", TInt, VInt(1))>>)
            [] c = "Sub1"   -> Cl("Base", FALSE, FALSE, <<Pm("a", TInt, VInt(2)), Pm("b", TStr, VStr("s"))>>)        \* adds b
            [] c = "Sub2"   -> Cl("Base", FALSE, FALSE, <<Rq("c", TInt), Pm("a", TInt, VInt(3))>>)                  \* adds a required c
            [] c = "Sub3"   -> Cl("Base", FALSE, FALSE, <<Pm("a", TStr, VStr("t"))>>)                               \* re-types a
            [] c = "SubKw"  -> Cl("Base", FALSE, TRUE, <<Pm("a", TInt, VInt(4))>>)                                  \* takes **kwargs
            [] c = "SubKw2" -> Cl("SubKw", FALSE, TRUE, <<Pm("a", TInt, VInt(6)), Pm("b", TStr, VStr("v"))>>)
            [] c = "Other"  -> Cl("", FALSE, FALSE, <<Pm("a", TInt, VInt(5))>>)                                     \* unrelated
            [] c = "Abs"    -> Cl("", TRUE, FALSE, <<Pm("z", TInt, VInt(9))>>)                                      \* abstract base
            [] c = "Conc"   -> Cl("Abs", FALSE, FALSE, <<Pm("z", TInt, VInt(0))>>)
            [] c = "Outer"  -> Cl("", FALSE, FALSE, <<Rq("inner", TCls("Base")), Pm("n", TInt, VInt(0))>>)
            [] c = "OuterOpt"   -> Cl("", FALSE, FALSE, <<Pm("inner", TOpt("Base"), VNull)>>)
            [] c = "OuterList"  -> Cl("", FALSE, FALSE, <<Rq("inners", TList("Base"))>>)
            [] c = "OuterDict"  -> Cl("", FALSE, FALSE, <<Rq("inners", TDict("Base"))>>)
            [] c = "OuterUnion" -> Cl("", FALSE, FALSE, <<Rq("inner", TUnion("Base", "Other"))>>)
            [] c = "OuterOptList" -> Cl("", FALSE, FALSE, <<Pm("inners", TOptList("Base"), VNull)>>)                   \* round 4: Optional[List[Base]] = None
            [] c = "OuterListOpt" -> Cl("", FALSE, FALSE, <<Rq("inners", TListOpt("Base"))>>)                          \*          List[Optional[Base]]
            [] c = "OuterOptDict" -> Cl("", FALSE, FALSE, <<Pm("inners", TOptDict("Base"), VNull), Pm("n", TInt, VInt(0))>>)   \*  Optional[Dict[str, Base]] = None
            [] c = "TopOpt" -> Cl("", FALSE, FALSE, <<Rq("own", TCls("OuterOpt")), Pm("m", TInt, VInt(1))>>)                \*  an owner of an owner with an Optional[Base]
            \* round 4: classes OUTSIDE the module (see Ext below); the key is not the class's name
            [] c = "SubNew~L1" -> Cl("Base", FALSE, FALSE, <<Pm("a", TInt, VInt(30)), Pm("e", TStr, VStr("n"))>>)   \* a subclass defined in a module imported LATER
            [] c = "Sub1~L2"   -> Cl("Base", FALSE, FALSE, <<Pm("a", TInt, VInt(31))>>)                              \* a second subclass NAMED Sub1, appearing later
            [] c = "Fast~Pv2"  -> Cl("Base", FALSE, FALSE, <<Pm("a", TInt, VInt(20)), Pm("b", TStr, VStr("f"))>>)   \* P/v2.py: the Fast that subclasses Base
            [] c = "Fast~P"    -> Cl("", FALSE, FALSE, <<Pm("q", TInt, VInt(70))>>)                                  \* P/__init__.py: a legacy Fast, unrelated
            [] c = "Fast~Qv2"  -> Cl("Base", FALSE, FALSE, <<Pm("a", TInt, VInt(21)), Pm("b", TStr, VStr("g"))>>)   \* Q/v2.py
            [] c = "Fast~Q"    -> Cl("Base", FALSE, FALSE, <<Pm("a", TInt, VInt(71))>>)                              \* Q/__init__.py: a legacy Fast that ALSO subclasses Base (other defaults, no b)
            [] c = "Quick~Rv2" -> Cl("Base", FALSE, FALSE, <<Pm("a", TInt, VInt(22))>>)                              \* R/v2.py, re-exported by R/__init__.py (the same object)
            [] c = "Outer2" -> Cl("", FALSE, FALSE, <<Rq("p", TCls("Base")), Rq("p2", TCls("Base"))>>)],      \* two class-typed parameters, p a string prefix of p2
        fn |-> [f \in {"make_base", "make_other"} |->
                  IF f = "make_base" THEN [ret |-> "Base", params |-> <<Pm("a", TInt, VInt(7))>>]
                  ELSE [ret |-> "Other", params |-> <<Pm("a", TInt, VInt(8))>>]],
        other |-> <<"notclass">>,
        ext |-> <<Bd("L1", "SubNew", "SubNew~L1", TRUE, "L1"), Bd("L2", "Sub1", "Sub1~L2", TRUE, "L2"),
                  Bd("P.v2", "Fast", "Fast~Pv2", TRUE, "P"), Bd("P", "Fast", "Fast~P", TRUE, "P"),
                  Bd("Q.v2", "Fast", "Fast~Qv2", TRUE, "Q"), Bd("Q", "Fast", "Fast~Q", TRUE, "Q"),
                  Bd("R.v2", "Quick", "Quick~Rv2", TRUE, "R"), Bd("R", "Quick", "Quick~Rv2", FALSE, "R")>>,
        late |-> <<"L1", "L2", "P", "Q", "R">>, vis |-> << >>]

\* ---------------------------------------------------------------- vocabulary
Bare(n) == VRef("", n)
Path(n) == VRef(Mod, n)
D1(k1, v1) == VDict([x \in {k1} |-> v1])
D2(k1, v1, k2, v2) == VDict([x \in {k1, k2} |-> IF x = k1 THEN v1 ELSE v2])
D3(k1, v1, k2, v2, k3, v3) == VDict([x \in {k1, k2, k3} |-> IF x = k1 THEN v1 ELSE IF x = k2 THEN v2 ELSE v3])
CP(r) == D1("class_path", r)
CPI(r, ia) == D2("class_path", r, "init_args", ia)
CPK(r, dk) == D2("class_path", r, "dict_kwargs", dk)
W(v) == [k |-> "whole", v |-> v]
C(v) == [k |-> "cfg", v |-> v]
Dt(p, v) == [k |-> "dot", p |-> p, v |-> v]

ItemsBase == <<
  W(Bare("Sub1")), W(Path("Sub1")), W(Bare("Base")), W(Bare("Sub2")), W(Bare("Sub3")), W(Bare("SubKw")),          \* 1-6
  W(Bare("Other")), W(Path("Other")), W(Path("notclass")), W(Path("nonexist")), W(VRef("X", "Sub1")),             \* 7-11  wrong class / non-class / import errors
  W(Path("make_base")), W(Path("make_other")), W(VStr("w w")), W(Bare("Conc")), W(VInt(3)),                       \* 12-16
  W(CPI(Bare("Sub1"), D1("a", VInt(5)))), W(CPI(Path("Sub1"), D1("b", VStr("k")))),                               \* 17-18
  W(CPI(Path("Sub2"), D1("c", VInt(1)))), W(CP(Bare("Sub2"))),                                                    \* 19-20
  W(CPI(Bare("Sub1"), D1("zz", VInt(5)))), W(CPI(Bare("Sub1"), D1("a", VStr("q")))),                              \* 21-22  unknown / ill-typed init_args
  W(CPI(Bare("Sub3"), D1("a", VStr("u")))), W(D1("init_args", D1("a", VInt(9)))), W(D1("a", VInt(9))), W(D1("b", VStr("k"))),   \* 23-26
  W(CPK(Bare("SubKw"), D1("k", VInt(3)))), W(CPK(Bare("SubKw"), D2("k", VInt(3), "a", VInt(6)))),                 \* 27-28
  W(CPK(Bare("Sub1"), D1("k", VInt(3)))), W(D1("dict_kwargs", D1("j", VInt(4)))),                                 \* 29-30
  Dt(<<"a">>, VInt(9)), Dt(<<"init_args", "a">>, VInt(8)), Dt(<<"b">>, VStr("w")), Dt(<<"c">>, VInt(4)),          \* 31-34
  Dt(<<"a">>, VStr("q")), Dt(<<"dict_kwargs", "k">>, VInt(7)), Dt(<<"zz">>, VInt(1)),                             \* 35-37
  C(CPI(Bare("Sub1"), D2("a", VInt(5), "b", VStr("k")))), C(CPI(Path("Sub2"), D1("c", VInt(1)))), C(Bare("Sub2")),  \* 38-40
  C(D1("init_args", D1("a", VInt(6)))), C(CPI(Path("make_base"), D1("a", VInt(2)))), W(Bare("SubKw2")),           \* 41-43
  W(CPI(Bare("SubKw2"), D1("b", VStr("y")))), W(CPI(Bare("Sub3"), D1("a", DStr(11)))), W(CPI(Bare("Sub1"), D1("a", DStr(12))))   \* 44-46 digit strs
>>
InnerSub2 == CPI(Bare("Sub2"), D1("c", VInt(1)))
ItemsOuter == <<
  W(Bare("Outer")), W(CPI(Path("Outer"), D1("inner", Bare("Sub1")))), W(D1("inner", Bare("Sub1"))),               \* 1-3
  W(D2("inner", InnerSub2, "n", VInt(5))), W(D1("inner", CP(Path("Other")))),                                      \* 4-5
  W(D1("inner", CPI(Bare("Sub1"), D1("a", VInt(6))))), W(D1("inner", CPI(Bare("Sub1"), D1("b", VStr("k"))))),     \* 6-7
  W(D1("inner", VInt(3))), W(D1("inner", CPI(Bare("Sub2"), D1("c", VInt(2))))),                                    \* 8-9
  Dt(<<"inner">>, Bare("Sub1")), Dt(<<"inner">>, Bare("Sub2")), Dt(<<"inner">>, Path("Other")),                   \* 10-12
  Dt(<<"inner", "a">>, VInt(3)), Dt(<<"inner", "b">>, VStr("k")), Dt(<<"inner", "c">>, VInt(2)),                  \* 13-15
  Dt(<<"inner", "init_args", "a">>, VInt(7)), Dt(<<"init_args", "inner", "init_args", "b">>, VStr("z")),          \* 16-17
  Dt(<<"n">>, VInt(2)), Dt(<<"inner">>, InnerSub2), Dt(<<"inner", "dict_kwargs", "k">>, VInt(1)),                 \* 18-20
  Dt(<<"inner">>, Bare("SubKw")), Dt(<<"inner">>, Bare("Sub3")), Dt(<<"inner", "zz">>, VInt(1)),                  \* 21-23
  C(CPI(Bare("Outer"), D1("inner", CPI(Bare("Sub1"), D2("a", VInt(5), "b", VStr("k")))))),                         \* 24
  C(CPI(Bare("Outer"), D1("inner", InnerSub2)))                                                                    \* 25
>>
ItemsOuterOpt == <<
  W(Bare("OuterOpt")), Dt(<<"inner">>, Bare("Sub1")), Dt(<<"inner">>, VNull), Dt(<<"inner", "a">>, VInt(3)),
  W(D1("inner", VNull)), W(D1("inner", InnerSub2)), Dt(<<"inner", "b">>, VStr("k")), W(D1("inner", Path("Other")))
>>
L2(x, y) == VList(<<x, y>>)
ItemsOuterList == <<
  W(D1("inners", L2(Bare("Sub1"), CPI(Bare("Base"), D1("a", VInt(0)))))), Dt(<<"inners">>, L2(Bare("Sub2"), Bare("Sub1"))),
  W(D1("inners", VList(<< >>))), W(D1("inners", VList(<<Bare("Other")>>))), W(D1("inners", VInt(3))),
  Dt(<<"inners">>, L2(CPI(Bare("Sub1"), D1("b", VStr("k"))), InnerSub2)), W(D1("inners", VList(<<Path("make_base")>>))), W(Bare("OuterList")),
  Dt(<<"inners">>, L2(CPI(Bare("Sub1"), D1("a", VInt(7))), Bare("Base"))), W(D1("inners", VList(<<InnerSub2>>)))       \* a shorter list after a longer one
>>
DK2(v1, v2) == D2("k1", v1, "k2", v2)
DK3(v1, v2, v3) == D3("k1", v1, "k2", v2, "k3", v3)
IA(n, v) == D1("init_args", D1(n, v))
ES1 == CPI(Bare("Sub1"), D2("a", VInt(5), "b", VStr("k")))
ES1w == CPI(Path("Sub1"), D1("b", VStr("w")))
ES2 == CPI(Bare("Sub2"), D1("c", VInt(1)))
ItemsOuterDict == <<
  W(D1("inners", D2("k1", CP(Bare("Sub1")), "k2", Bare("Base")))), Dt(<<"inners">>, D1("k1", InnerSub2)),
  W(D1("inners", D1("k1", CPI(Bare("Sub1"), D1("b", VStr("k")))))), W(D1("inners", D1("k3", Path("Other")))), W(D1("inners", VDict(EF))),
  W(D1("inners", L2(Bare("Sub1"), Bare("Sub1")))),
  \* 7-18: two / three keys, each a subclass spec; a later source overrides the first / a non-first / several keys in the short form
  \* (init_args only, parameters only), with the same class_path and part of the init_args, or with a changed class_path
  C(D1("inners", DK2(ES1, ES1w))), W(D1("inners", DK3(ES1, ES2, ES1w))), C(CPI(Bare("OuterDict"), D1("inners", DK2(ES1, ES2)))),              \* 7-9 earlier sources
  C(D1("inners", DK2(IA("a", VInt(6)), IA("a", VInt(7))))),                                                                             \* 10 both keys short
  W(D1("inners", DK2(CPI(Bare("Sub1"), D1("a", VInt(6))), IA("b", VStr("z"))))),                                                         \* 11 k1 same class partial, k2 short
  C(D1("inners", DK2(ES1, D1("a", VInt(7))))),                                                                                          \* 12 k2 parameters only
  Dt(<<"inners">>, DK2(IA("a", VInt(6)), CPI(Bare("Sub3"), D1("a", VStr("u"))))),                                                       \* 13 k1 short, k2 changes class
  W(D1("inners", D1("k2", IA("a", VInt(7))))),                                                                                          \* 14 only k2, short (k1 is dropped)
  C(D1("inners", DK3(Bare("Sub1"), IA("a", VInt(8)), IA("b", VStr("y"))))),                                                             \* 15 three keys: k2, k3 short
  W(D1("inners", DK3(IA("b", VStr("q")), CPI(Path("Sub2"), D1("a", VInt(9))), ES1w))),                                                   \* 16 k1 short, k2 same class partial (c kept)
  C(D1("inners", DK2(IA("zz", VInt(1)), IA("a", VInt(7))))), W(D1("inners", DK2(IA("a", VInt(6)), IA("c", VInt(3)))))                   \* 17 unknown init_arg in k1; 18 c only valid for Sub2
>>
ItemsOuterUnion == <<
  Dt(<<"inner">>, Bare("Sub1")), Dt(<<"inner">>, Bare("Other")), Dt(<<"inner">>, Path("Other")), Dt(<<"inner", "a">>, VInt(3)),
  Dt(<<"inner">>, Path("Conc")), W(D1("inner", CPI(Path("Other"), D1("a", VInt(1))))), Dt(<<"inner", "b">>, VStr("k")), W(D1("inner", InnerSub2))
>>
ItemsAbs == <<
  W(Bare("Conc")), W(Path("Conc")), W(Bare("Abs")), Dt(<<"z">>, VInt(3)), W(D1("init_args", D1("z", VInt(1)))), W(Path("Base")),
  W(CPI(Bare("Conc"), D1("z", VInt(2))))
>>
ItemsSubKw == <<
  W(Bare("SubKw")), W(Bare("SubKw2")), W(CPK(Bare("SubKw"), D1("k", VInt(3)))), Dt(<<"dict_kwargs", "j">>, VInt(4)),
  W(CPK(Bare("SubKw2"), D1("m", VInt(5)))), Dt(<<"b">>, VStr("w")), W(CPK(Bare("SubKw"), D1("b", VStr("q")))),
  W(D3("class_path", Bare("SubKw"), "init_args", D1("a", VInt(5)), "dict_kwargs", D1("a", VInt(6))))               \* a dict_kwargs entry that names a parameter wins
>>
\* two class-typed parameters of one class (the name of the first is a prefix of the second's): class changes on either, through
\* config sources (merge_config), whole values and dotted options
PK(v) == CPI(Bare("Sub1"), D1("b", VStr(v)))
ItemsOuter2 == <<
  C(CPI(Bare("Outer2"), D2("p", PK("k"), "p2", PK("k")))),                                                   \* 1 both Sub1(b=k)
  C(D1("init_args", D2("p", Bare("Sub1"), "p2", InnerSub2))),                                                \* 2 p stays Sub1, p2 -> Sub2 (lacks b)
  C(CPI(Path("Outer2"), D2("p", CPI(Bare("Sub1"), D1("a", VInt(5))), "p2", CPI(Bare("Sub2"), D1("c", VInt(2)))))),   \* 3
  W(D2("p", PK("w"), "p2", PK("w"))),                                                                        \* 4 parameters only
  W(D2("p", Bare("Sub1"), "p2", Bare("Sub3"))),                                                              \* 5 p2 -> Sub3 (re-typed a)
  Dt(<<"p2">>, InnerSub2), Dt(<<"p2", "b">>, VStr("z")), Dt(<<"p">>, Bare("Sub2")),                           \* 6-8
  W(D2("p", InnerSub2, "p2", CPI(Bare("Sub1"), D1("a", VInt(7))))),                                          \* 9 p -> Sub2, p2 -> Sub1
  C(D1("init_args", D2("p", CPI(Bare("Sub1"), D1("a", VInt(6))), "p2", Bare("Base")))),                      \* 10 p2 -> Base (lacks b)
  C(D1("init_args", D1("p2", InnerSub2))), W(Bare("Outer2"))                                                 \* 11 only p2 given; 12
>>
\* round 4: containers one level deeper -- null for the whole container / for an element, short forms of elements after a
\* null / a spec / a list of another length, class changes inside elements across sources
ItemsOuterOptList == <<
  W(Bare("OuterOptList")), W(D1("inners", L2(Bare("Sub1"), CPI(Bare("Base"), D1("a", VInt(0)))))), Dt(<<"inners">>, VNull),           \* 1-3
  Dt(<<"inners">>, L2(CPI(Bare("Sub1"), D1("b", VStr("k"))), InnerSub2)),                                                               \* 4
  W(D1("inners", L2(IA("a", VInt(6)), Bare("Sub3")))),                                                                                  \* 5 element 1 short, element 2 changes class
  W(D1("inners", VList(<<Bare("Other")>>))), C(CPI(Bare("OuterOptList"), D1("inners", VList(<<InnerSub2>>)))), W(D1("inners", VInt(3))),  \* 6-8
  C(D1("init_args", D1("inners", L2(D1("b", VStr("z")), IA("a", VInt(7))))))                                                            \* 9 parameters only / init_args only elements
>>
ItemsOuterListOpt == <<
  W(D1("inners", L2(Bare("Sub1"), VNull))), Dt(<<"inners">>, L2(VNull, InnerSub2)),                                                     \* 1-2
  W(D1("inners", L2(IA("a", VInt(6)), IA("a", VInt(7))))),                                                                              \* 3 short forms (after null: the declared class)
  W(D1("inners", VList(<<VNull>>))), C(CPI(Bare("OuterListOpt"), D1("inners", L2(CPI(Bare("Sub1"), D1("b", VStr("k"))), Bare("Sub2"))))),  \* 4-5 (Sub2 lacks its required c)
  Dt(<<"inners">>, L2(Bare("Sub3"), D1("b", VStr("z")))), W(D1("inners", VList(<<Path("Other")>>))), W(Bare("OuterListOpt")),           \* 6-8
  C(D1("inners", L2(CPI(Path("Sub1"), D2("a", VInt(5), "b", VStr("k"))), CPI(Bare("Sub1"), D1("b", VStr("w"))))))                        \* 9
>>
ItemsOuterOptDict == <<
  W(Bare("OuterOptDict")), W(D1("inners", DK2(ES1, ES1w))), Dt(<<"inners">>, VNull), C(D1("inners", DK2(IA("a", VInt(6)), IA("a", VInt(7))))),   \* 1-4
  W(D1("inners", D1("k2", CPI(Bare("Sub3"), D1("a", VStr("u")))))), Dt(<<"inners">>, D1("k1", Path("Other"))), Dt(<<"n">>, VInt(4)),   \* 5-7
  C(CPI(Bare("OuterOptDict"), D1("inners", D1("k1", D1("b", VStr("z"))))))                                                               \* 8 parameters only
>>
\* dotted options two levels down, null among the values
ItemsTopOpt == <<
  W(Bare("TopOpt")), Dt(<<"own", "inner">>, VNull), Dt(<<"own", "inner">>, Bare("Sub1")), Dt(<<"own", "inner", "a">>, VInt(3)),              \* 1-4
  W(D1("own", D1("inner", VNull))), Dt(<<"own">>, D1("inner", VNull)), Dt(<<"init_args", "own", "init_args", "inner">>, InnerSub2),          \* 5-7
  C(CPI(Bare("TopOpt"), D1("own", CPI(Bare("OuterOpt"), D1("inner", CPI(Bare("Sub1"), D1("b", VStr("k")))))))), Dt(<<"m">>, VInt(2))           \* 8-9
>>
\* round 4: sub-config files (sub_configs=True / enable_path=True).  File(v) = the path of a file whose content is v: a class spec,
\* init_args only, parameters only, a bare class name; as the value of the argument, of a --cfg entry, of a class-typed
\* parameter inside a spec, of a dotted option; a file that names another file; mixed with the other notations
File(v) == [k |-> "file", v |-> v]
ItemsBaseF == <<
  W(File(CPI(Bare("Sub1"), D1("b", VStr("k"))))), W(File(D1("init_args", D1("a", VInt(9))))), W(File(D1("a", VInt(9)))),                \* 1-3
  C(File(CPI(Path("Sub2"), D1("c", VInt(1))))), W(File(CPI(Bare("Sub1"), D1("zz", VInt(5))))), W(File(CPK(Bare("SubKw"), D1("k", VInt(3))))),  \* 4-6
  W(Bare("Sub1")), W(CPI(Bare("Sub3"), D1("a", VStr("u")))), Dt(<<"b">>, VStr("w")), Dt(<<"a">>, VInt(8))                                  \* 7-10  (a file holds a mapping: a bare class name in a file is not a documented notation)
>>
ItemsOuterF == <<
  W(File(CPI(Path("Outer"), D1("inner", Bare("Sub1"))))), W(CPI(Bare("Outer"), D1("inner", File(InnerSub2)))),                           \* 1-2
  Dt(<<"inner">>, File(CPI(Bare("Sub1"), D1("b", VStr("k"))))), Dt(<<"inner">>, File(D1("init_args", D1("a", VInt(7))))),                \* 3-4
  W(D1("inner", File(InnerSub2))), Dt(<<"inner", "a">>, VInt(3)), C(CPI(Bare("Outer"), D1("inner", File(CP(Path("Other")))))),           \* 5-7
  W(File(CPI(Bare("Outer"), D1("inner", File(CPI(Bare("Sub3"), D1("a", VStr("u")))))))), Dt(<<"inner">>, Bare("Sub2"))                    \* 8 a file that names a file; 9
>>
\* a vocabulary name that is not a class: the declared class it belongs to
DeclT(t) == CASE t = "BaseF" -> "Base" [] t = "OuterF" -> "Outer" [] OTHER -> t
Decl == <<"Base", "Outer", "OuterOpt", "OuterList", "OuterDict", "OuterUnion", "Abs", "SubKw", "Outer2", "OuterOptList", "OuterListOpt", "OuterOptDict", "TopOpt",
          "BaseF", "OuterF">>
Vocab(t) == CASE t = "BaseF" -> ItemsBaseF [] t = "OuterF" -> ItemsOuterF [] t = "TopOpt" -> ItemsTopOpt [] t = "OuterOptList" -> ItemsOuterOptList [] t = "OuterListOpt" -> ItemsOuterListOpt [] t = "OuterOptDict" -> ItemsOuterOptDict
              [] t = "Outer2" -> ItemsOuter2 [] t = "Base" -> ItemsBase [] t = "Outer" -> ItemsOuter [] t = "OuterOpt" -> ItemsOuterOpt [] t = "OuterList" -> ItemsOuterList
              [] t = "OuterDict" -> ItemsOuterDict [] t = "OuterUnion" -> ItemsOuterUnion [] t = "Abs" -> ItemsAbs [] t = "SubKw" -> ItemsSubKw

\* sequences of three sources are built from the core of the two large vocabularies (all items of the small ones)
Core(t) == CASE t = "Base"  -> {1, 3, 4, 5, 6, 8, 12, 17, 19, 23, 24, 26, 27, 29, 30, 31, 33, 34, 36, 38, 39, 41, 43, 45}
             [] t = "Outer" -> {2, 4, 6, 7, 10, 11, 13, 14, 15, 17, 19, 20, 21, 22, 24, 25}
             [] OTHER       -> 1..Len(Vocab(t))
\* ---------------------------------------------------------------- defaults that are specs x channels (declared class Base)
Defaults == << CPI(Path("Sub1"), D1("b", VStr("k"))),            \* lazy_instance(Sub1, b="k")
               CP(Path("SubKw")),                                 \* lazy_instance(SubKw)
               CPI(Path("Sub2"), D1("c", VInt(4))) >>             \* lazy_instance(Sub2, c=4)
Chans == <<"argv", "dcf", "env", "string">>
FirstD == << D1("init_args", D1("a", VInt(5))), D1("a", VInt(5)), D1("b", VStr("w")), Bare("Sub2"), CPI(Path("Sub3"), D1("a", VStr("u"))),
             Bare("Sub1"), D1("init_args", D1("zz", VInt(1))), D1("init_args", D1("c", VInt(7))), Bare("Base") >>
\* after a default config file only sources that do not designate a class follow (see design.d/C14.md)
SecondD == << Dt(<<"a">>, VInt(9)), Dt(<<"b">>, VStr("z")), W(D1("init_args", D1("a", VInt(6)))), Dt(<<"c">>, VInt(2)) >>
DIds == {<<"D", d, ch, i1, i2>> : d \in 1..Len(Defaults), ch \in 1..2, i1 \in 1..Len(FirstD), i2 \in 0..Len(SecondD)}
        \cup {<<"D", d, ch, i1, 0>> : d \in 1..Len(Defaults), ch \in 3..4, i1 \in 1..Len(FirstD)}
        \cup {<<"D", d, 1, 0, i2>> : d \in 1..Len(Defaults), i2 \in 0..Len(SecondD)}                 \* the default alone / only a dotted option
DItems(id) == (IF id[4] = 0 THEN << >> ELSE <<W(FirstD[id[4]])>>) \o (IF id[5] = 0 THEN << >> ELSE <<SecondD[id[5]]>>)

\* ---------------------------------------------------------------- round 4: HISTORIES over the family and package LAYOUTS
\* A history = the parses of ONE process, in order, interleaved with imports of late units.  Every parse is a case whose family is
\* the family AT THAT TIME (vis = the late units imported by the earlier steps: an "import" step, or a parse that names a path in
\* the unit -- import_object imports it whether or not the value is then accepted).
Ps(t, items) == [ev |-> "parse", T |-> t, items |-> items, m |-> ""]
Imp(u) == [ev |-> "import", T |-> "", items |-> << >>, m |-> u]
XRef(m, n) == VRef(m, n)
Hists == <<
  \* 1: a subclass defined AFTER the short names of its base were first resolved
  << Ps("Base", <<W(Bare("Sub1"))>>), Ps("Base", <<W(Bare("SubNew"))>>), Imp("L1"), Ps("Base", <<W(Bare("SubNew"))>>),
     Ps("Base", <<W(CPI(Bare("SubNew"), D1("e", VStr("k"))))>>), Ps("Base", <<W(Bare("Sub1")), W(CP(Bare("SubNew")))>>), Ps("Outer", <<W(D1("inner", Bare("SubNew")))>>) >>,
  \* 2: ... brought in by an explicit class_path of an earlier parse
  << Ps("Base", <<W(Bare("SubNew"))>>), Ps("Base", <<W(XRef("L1", "SubNew"))>>), Ps("Base", <<W(Bare("SubNew")), Dt(<<"e">>, VStr("w"))>>),
     Ps("Outer", <<W(Bare("Outer")), Dt(<<"inner">>, Bare("SubNew"))>>) >>,
  \* 3: a SECOND subclass with the same short name appears: the short name is ambiguous from then on, the paths are not
  << Ps("Base", <<W(Bare("Sub1"))>>), Imp("L2"), Ps("Base", <<W(Bare("Sub1"))>>), Ps("Base", <<W(Path("Sub1"))>>), Ps("Base", <<W(XRef("L2", "Sub1"))>>),
     Ps("Base", <<W(CPI(Bare("Sub1"), D1("a", VInt(5))))>>), Ps("Base", <<W(CPI(XRef("L2", "Sub1"), D1("b", VStr("k"))))>>), Ps("Base", <<W(Bare("Sub2"))>>),
     Ps("Base", <<W(Path("Sub1")), Dt(<<"b">>, VStr("w"))>>), Ps("Base", <<W(XRef("L2", "Sub1")), W(Path("Sub1"))>>) >>,
  \* 4: package P -- P/__init__.py binds a legacy Fast (unrelated), P/v2.py defines the Fast that subclasses Base
  << Ps("Base", <<W(XRef("P.v2", "Fast"))>>), Ps("Base", <<W(CPI(XRef("P.v2", "Fast"), D1("b", VStr("k"))))>>), Ps("Base", <<W(XRef("P", "Fast"))>>),
     Ps("Base", <<W(Bare("Fast"))>>), Ps("Base", <<W(CPI(XRef("P.v2", "Fast"), D1("q", VInt(1))))>>), Ps("Base", <<W(XRef("P.v2", "Fast")), Dt(<<"b">>, VStr("w"))>>),
     Ps("Outer", <<W(D1("inner", CPI(XRef("P.v2", "Fast"), D1("a", VInt(4)))))>>) >>,
  \* 5: package Q -- the legacy Fast of Q/__init__.py ALSO subclasses Base (other defaults, no parameter b)
  << Ps("Base", <<W(XRef("Q.v2", "Fast"))>>), Ps("Base", <<W(XRef("Q", "Fast"))>>), Ps("Base", <<W(CPI(XRef("Q.v2", "Fast"), D1("b", VStr("k"))))>>),
     Ps("Base", <<W(CPI(XRef("Q", "Fast"), D1("b", VStr("k"))))>>), Ps("Base", <<W(Bare("Fast"))>>), Ps("Base", <<W(XRef("Q", "Fast")), W(XRef("Q.v2", "Fast"))>>),
     Ps("Base", <<W(CPI(XRef("Q.v2", "Fast"), D1("b", VStr("k")))), W(XRef("Q", "Fast"))>>), Ps("Base", <<W(XRef("Q.v2", "Fast")), Dt(<<"b">>, VStr("w"))>>) >>,
  \* 6: package R -- R/__init__.py re-exports the Quick of R/v2.py: both paths are the same object
  << Ps("Base", <<W(XRef("R.v2", "Quick"))>>), Ps("Base", <<W(XRef("R", "Quick"))>>), Ps("Base", <<W(Bare("Quick"))>>),
     Ps("Base", <<W(CPI(XRef("R", "Quick"), D1("a", VInt(5)))), W(D1("class_path", XRef("R.v2", "Quick")))>>), Ps("Base", <<W(XRef("R", "Nope"))>>) >>,
  \* 7: the packages met in another order, the short name Fast meaning different things over time
  << Ps("Base", <<W(Bare("Fast"))>>), Imp("P"), Ps("Base", <<W(Bare("Fast"))>>), Imp("Q"), Ps("Base", <<W(Bare("Fast"))>>), Ps("Base", <<W(XRef("P.v2", "Fast"))>>),
     Ps("Base", <<W(XRef("Q.v2", "Fast"))>>), Imp("R"), Ps("Base", <<W(Bare("Quick"))>>) >>
>>
RECURSIVE RefUnits(_)
RefUnits(v) == CASE v.k = "ref"  -> {b.u : b \in {x \in ExtSet(Fam) : x.m = v.m}}
                 [] v.k = "dict" -> UNION {RefUnits(v.d[n]) : n \in DOMAIN v.d}
                 [] v.k = "list" -> UNION {RefUnits(v.l[j]) : j \in 1..Len(v.l)}
                 [] v.k = "file" -> RefUnits(v.v)
                 [] OTHER        -> {}
StepUnits(st) == IF st.ev = "import" THEN {st.m} ELSE UNION {RefUnits(st.items[j].v) : j \in 1..Len(st.items)}
VisBefore(h, k) == SetToSeq(UNION {StepUnits(Hists[h][j]) : j \in 1..(k - 1)})
AllHIds == {<<"H", h, k, 0>> : h \in 1..Len(Hists), k \in 1..12}
HIds == {id \in AllHIds : id[3] <= Len(Hists[id[2]]) /\ Hists[id[2]][id[3]].ev = "parse"}

\* ids: <<declared class, i1, i2, i3>>, 0 = no further source
Ids == UNION {{<<Decl[d], i1, 0, 0>> : i1 \in 1..Len(Vocab(Decl[d]))} : d \in 1..Len(Decl)}
  \cup (IF MaxLen >= 2 THEN UNION {{<<Decl[d], i1, i2, 0>> : i1 \in 1..Len(Vocab(Decl[d])), i2 \in 1..Len(Vocab(Decl[d]))} : d \in 1..Len(Decl)} ELSE {})
  \cup (IF MaxLen >= 3 THEN UNION {{<<Decl[d], i1, i2, i3>> : i1 \in Core(Decl[d]), i2 \in Core(Decl[d]), i3 \in Core(Decl[d])} : d \in 1..Len(Decl)} ELSE {})
ItemsOf(id) == LET v == Vocab(id[1]) IN
  <<v[id[2]]>> \o (IF id[3] = 0 THEN << >> ELSE <<v[id[3]]>>) \o (IF id[4] = 0 THEN << >> ELSE <<v[id[4]]>>)
Case(id, items) == IF id[1] = "H" THEN [aid |-> id, T |-> Hists[id[2]][id[3]].T, items |-> items, dflt |-> NoVal, chan |-> "argv", host |-> "top", vis |-> VisBefore(id[2], id[3])]
                   ELSE IF id[1] = "D" THEN [aid |-> id, T |-> "Base", items |-> items, dflt |-> Defaults[id[2]], chan |-> Chans[id[3]], host |-> "top", vis |-> << >>]
                   ELSE [aid |-> id, T |-> DeclT(id[1]), items |-> items, dflt |-> NoVal, chan |-> "argv", host |-> "top", vis |-> << >>]
MCFamOf(c) == IF c.vis = << >> THEN Fam ELSE [Fam EXCEPT !.vis = c.vis]                  \* FamOf <- MCFamOf in the cfg: the family is not part of the state

Init == \E id \in Ids \cup DIds \cup HIds : /\ cs = Case(id, << >>) /\ pc = "build" /\ i = 1 /\ cur = NoVal /\ ok = "run" /\ log = << >>
\* the first step builds the case and does what InitCase does
ABuild == /\ pc = "build"
          /\ LET c == Case(cs.aid, IF cs.aid[1] = "H" THEN Hists[cs.aid[2]][cs.aid[3]].items ELSE IF cs.aid[1] = "D" THEN DItems(cs.aid) ELSE ItemsOf(cs.aid))
                 d0 == AlgDefault0(MCFamOf(c), c.T, c.dflt)
             IN /\ cs' = c
                /\ cur' = IF d0 = Rej \/ d0 = NoVal THEN NoVal ELSE IF c.chan = "argv" \/ c.items = << >> THEN AlgSubDefaults(MCFamOf(c), c.T, d0) ELSE d0
          /\ pc' = "source" /\ UNCHANGED <<i, ok, log>>
MCNext == ABuild \/ Next
Spec == Init /\ [][MCNext]_vars

\* ------------------------------------------------------------------ emission for the replay
\* (the family is emitted once, by the ASSUME; a case carries its sources, their explicit form and what the spec predicts)
ASSUME Emit => PrintT(ToJson([fam |-> Fam]))
ASSUME Emit => PrintT(ToJson([hists |-> Hists]))
EmitCase == (Emit /\ Done) =>
  PrintT(ToJson([id |-> cs.aid, T |-> cs.T, items |-> cs.items, dflt |-> cs.dflt, chan |-> cs.chan, vis |-> cs.vis,
                 explicit |-> IF cs.dflt = NoVal /\ ~EmptyDictDeviation /\ ~Round4Deviation THEN ExplicitItems(MCFamOf(cs), cs.T, cs.items) ELSE << >>,
                 alg |-> AlgParsed, ref |-> RefOf(NoDev), code |-> RefOf(CodeDev), log |-> log]))
=============================================================================
