----------------------------- MODULE MC_Classes -----------------------------
(* Bounded instance of Classes.tla: one class family (base, subclasses adding / overriding / retyping parameters, a   *)
(* **kwargs class, an unrelated class, an abstract base, factories, owners with class-typed, Optional, List, Dict and   *)
(* Union-of-class parameters) x every sequence of up to MaxLen sources from a vocabulary per declared type.             *)
EXTENDS Classes, Json
\* TLC orders record fields by first appearance of the name in the root module: keep the tag first
FieldOrder == [k |-> 0]
CONSTANTS MaxLen,    \* sources per case
          Emit

TInt == [k |-> "int", c |-> "", c2 |-> ""]
TStr == [k |-> "str", c |-> "", c2 |-> ""]
TCls(c) == [k |-> "cls", c |-> c, c2 |-> ""]
TOpt(c) == [k |-> "opt", c |-> c, c2 |-> ""]
TList(c) == [k |-> "list", c |-> c, c2 |-> ""]
TDict(c) == [k |-> "dict", c |-> c, c2 |-> ""]
TUnion(c, c2) == [k |-> "union", c |-> c, c2 |-> c2]
Pm(n, t, d) == [n |-> n, t |-> t, req |-> FALSE, d |-> d]
Rq(n, t) == [n |-> n, t |-> t, req |-> TRUE, d |-> NoVal]
Cl(parent, abs, kw, params) == [parent |-> parent, abs |-> abs, kw |-> kw, params |-> params]

ClassNames == {"Base", "Sub1", "Sub2", "Sub3", "SubKw", "SubKw2", "Other", "Abs", "Conc", "Outer", "OuterOpt", "OuterList", "OuterDict", "OuterUnion", "Outer2"}
Fam == [cls |-> [c \in ClassNames |->
          CASE c = "Base"   -> Cl("", FALSE, FALSE, <<Pm("a", TInt, VInt(1))>>)
            [] c = "Sub1"   -> Cl("Base", FALSE, FALSE, <<Pm("a", TInt, VInt(2)), Pm("b", TStr, VStr("s"))>>)        \* adds b
            [] c = "Sub2"   -> Cl("Base", FALSE, FALSE, <<Rq("c", TInt), Pm("a", TInt, VInt(3))>>)                  \* adds a required c
            [] c = "Sub3"   -> Cl("Base", FALSE, FALSE, <<Pm("a", TStr, VStr("t"))>>)                               \* re-types a
            [] c = "SubKw"  -> Cl("Base", FALSE, TRUE, <<Pm("a", TInt, VInt(4))>>)                                  \* takes **kwargs
            [] c = "SubKw2" -> Cl("SubKw", FALSE, TRUE, <<Pm("a", TInt, VInt(6)), Pm("b", TStr, VStr("v"))>>)
            [] c = "Other"  -> Cl("", FALSE, FALSE, <<Pm("a", TInt, VInt(5))>>)                                     \* unrelated
            [] c = "Abs"    -> Cl("", TRUE, FALSE, <<Pm("z", TInt, VInt(9))>>)                                      \* abstract base
            [] c = "Conc"   -> Cl("Abs", FALSE, FALSE, <<Pm("z", TInt, VInt(0))>>)
            [] c = "Outer"  -> Cl("", FALSE, FALSE, <<Rq("inner", TCls("Base")), Pm("n", TInt, VInt(0))>>)
            [] c = "OuterOpt"   -> Cl("", FALSE, FALSE, <<Pm("inner", TOpt("Base"), VNull)>>)
            [] c = "OuterList"  -> Cl("", FALSE, FALSE, <<Rq("inners", TList("Base"))>>)
            [] c = "OuterDict"  -> Cl("", FALSE, FALSE, <<Rq("inners", TDict("Base"))>>)
            [] c = "OuterUnion" -> Cl("", FALSE, FALSE, <<Rq("inner", TUnion("Base", "Other"))>>)
            [] c = "Outer2" -> Cl("", FALSE, FALSE, <<Rq("p", TCls("Base")), Rq("p2", TCls("Base"))>>)],      \* two class-typed parameters, p a string prefix of p2
        fn |-> [f \in {"make_base", "make_other"} |->
                  IF f = "make_base" THEN [ret |-> "Base", params |-> <<Pm("a", TInt, VInt(7))>>]
                  ELSE [ret |-> "Other", params |-> <<Pm("a", TInt, VInt(8))>>]],
        other |-> <<"notclass">>]

\* ---------------------------------------------------------------- vocabulary
Bare(n) == VRef("", n)
Path(n) == VRef(Mod, n)
D1(k1, v1) == VDict([x \in {k1} |-> v1])
D2(k1, v1, k2, v2) == VDict([x \in {k1, k2} |-> IF x = k1 THEN v1 ELSE v2])
D3(k1, v1, k2, v2, k3, v3) == VDict([x \in {k1, k2, k3} |-> IF x = k1 THEN v1 ELSE IF x = k2 THEN v2 ELSE v3])
CP(r) == D1("class_path", r)
CPI(r, ia) == D2("class_path", r, "init_args", ia)
CPK(r, dk) == D2("class_path", r, "dict_kwargs", dk)
W(v) == [k |-> "whole", v |-> v]
C(v) == [k |-> "cfg", v |-> v]
Dt(p, v) == [k |-> "dot", p |-> p, v |-> v]

ItemsBase == <<
  W(Bare("Sub1")), W(Path("Sub1")), W(Bare("Base")), W(Bare("Sub2")), W(Bare("Sub3")), W(Bare("SubKw")),          \* 1-6
  W(Bare("Other")), W(Path("Other")), W(Path("notclass")), W(Path("nonexist")), W(VRef("X", "Sub1")),             \* 7-11  wrong class / non-class / import errors
  W(Path("make_base")), W(Path("make_other")), W(VStr("w w")), W(Bare("Conc")), W(VInt(3)),                       \* 12-16
  W(CPI(Bare("Sub1"), D1("a", VInt(5)))), W(CPI(Path("Sub1"), D1("b", VStr("k")))),                               \* 17-18
  W(CPI(Path("Sub2"), D1("c", VInt(1)))), W(CP(Bare("Sub2"))),                                                    \* 19-20
  W(CPI(Bare("Sub1"), D1("zz", VInt(5)))), W(CPI(Bare("Sub1"), D1("a", VStr("q")))),                              \* 21-22  unknown / ill-typed init_args
  W(CPI(Bare("Sub3"), D1("a", VStr("u")))), W(D1("init_args", D1("a", VInt(9)))), W(D1("a", VInt(9))), W(D1("b", VStr("k"))),   \* 23-26
  W(CPK(Bare("SubKw"), D1("k", VInt(3)))), W(CPK(Bare("SubKw"), D2("k", VInt(3), "a", VInt(6)))),                 \* 27-28
  W(CPK(Bare("Sub1"), D1("k", VInt(3)))), W(D1("dict_kwargs", D1("j", VInt(4)))),                                 \* 29-30
  Dt(<<"a">>, VInt(9)), Dt(<<"init_args", "a">>, VInt(8)), Dt(<<"b">>, VStr("w")), Dt(<<"c">>, VInt(4)),          \* 31-34
  Dt(<<"a">>, VStr("q")), Dt(<<"dict_kwargs", "k">>, VInt(7)), Dt(<<"zz">>, VInt(1)),                             \* 35-37
  C(CPI(Bare("Sub1"), D2("a", VInt(5), "b", VStr("k")))), C(CPI(Path("Sub2"), D1("c", VInt(1)))), C(Bare("Sub2")),  \* 38-40
  C(D1("init_args", D1("a", VInt(6)))), C(CPI(Path("make_base"), D1("a", VInt(2)))), W(Bare("SubKw2")),           \* 41-43
  W(CPI(Bare("SubKw2"), D1("b", VStr("y")))), W(CPI(Bare("Sub3"), D1("a", DStr(11)))), W(CPI(Bare("Sub1"), D1("a", DStr(12))))   \* 44-46 digit strs
>>
InnerSub2 == CPI(Bare("Sub2"), D1("c", VInt(1)))
ItemsOuter == <<
  W(Bare("Outer")), W(CPI(Path("Outer"), D1("inner", Bare("Sub1")))), W(D1("inner", Bare("Sub1"))),               \* 1-3
  W(D2("inner", InnerSub2, "n", VInt(5))), W(D1("inner", CP(Path("Other")))),                                      \* 4-5
  W(D1("inner", CPI(Bare("Sub1"), D1("a", VInt(6))))), W(D1("inner", CPI(Bare("Sub1"), D1("b", VStr("k"))))),     \* 6-7
  W(D1("inner", VInt(3))), W(D1("inner", CPI(Bare("Sub2"), D1("c", VInt(2))))),                                    \* 8-9
  Dt(<<"inner">>, Bare("Sub1")), Dt(<<"inner">>, Bare("Sub2")), Dt(<<"inner">>, Path("Other")),                   \* 10-12
  Dt(<<"inner", "a">>, VInt(3)), Dt(<<"inner", "b">>, VStr("k")), Dt(<<"inner", "c">>, VInt(2)),                  \* 13-15
  Dt(<<"inner", "init_args", "a">>, VInt(7)), Dt(<<"init_args", "inner", "init_args", "b">>, VStr("z")),          \* 16-17
  Dt(<<"n">>, VInt(2)), Dt(<<"inner">>, InnerSub2), Dt(<<"inner", "dict_kwargs", "k">>, VInt(1)),                 \* 18-20
  Dt(<<"inner">>, Bare("SubKw")), Dt(<<"inner">>, Bare("Sub3")), Dt(<<"inner", "zz">>, VInt(1)),                  \* 21-23
  C(CPI(Bare("Outer"), D1("inner", CPI(Bare("Sub1"), D2("a", VInt(5), "b", VStr("k")))))),                         \* 24
  C(CPI(Bare("Outer"), D1("inner", InnerSub2)))                                                                    \* 25
>>
ItemsOuterOpt == <<
  W(Bare("OuterOpt")), Dt(<<"inner">>, Bare("Sub1")), Dt(<<"inner">>, VNull), Dt(<<"inner", "a">>, VInt(3)),
  W(D1("inner", VNull)), W(D1("inner", InnerSub2)), Dt(<<"inner", "b">>, VStr("k")), W(D1("inner", Path("Other")))
>>
L2(x, y) == VList(<<x, y>>)
ItemsOuterList == <<
  W(D1("inners", L2(Bare("Sub1"), CPI(Bare("Base"), D1("a", VInt(0)))))), Dt(<<"inners">>, L2(Bare("Sub2"), Bare("Sub1"))),
  W(D1("inners", VList(<< >>))), W(D1("inners", VList(<<Bare("Other")>>))), W(D1("inners", VInt(3))),
  Dt(<<"inners">>, L2(CPI(Bare("Sub1"), D1("b", VStr("k"))), InnerSub2)), W(D1("inners", VList(<<Path("make_base")>>))), W(Bare("OuterList")),
  Dt(<<"inners">>, L2(CPI(Bare("Sub1"), D1("a", VInt(7))), Bare("Base"))), W(D1("inners", VList(<<InnerSub2>>)))       \* a shorter list after a longer one
>>
DK2(v1, v2) == D2("k1", v1, "k2", v2)
DK3(v1, v2, v3) == D3("k1", v1, "k2", v2, "k3", v3)
IA(n, v) == D1("init_args", D1(n, v))
ES1 == CPI(Bare("Sub1"), D2("a", VInt(5), "b", VStr("k")))
ES1w == CPI(Path("Sub1"), D1("b", VStr("w")))
ES2 == CPI(Bare("Sub2"), D1("c", VInt(1)))
ItemsOuterDict == <<
  W(D1("inners", D2("k1", CP(Bare("Sub1")), "k2", Bare("Base")))), Dt(<<"inners">>, D1("k1", InnerSub2)),
  W(D1("inners", D1("k1", CPI(Bare("Sub1"), D1("b", VStr("k")))))), W(D1("inners", D1("k3", Path("Other")))), W(D1("inners", VDict(EF))),
  W(D1("inners", L2(Bare("Sub1"), Bare("Sub1")))),
  \* 7-18: two / three keys, each a subclass spec; a later source overrides the first / a non-first / several keys in the short form
  \* (init_args only, parameters only), with the same class_path and part of the init_args, or with a changed class_path
  C(D1("inners", DK2(ES1, ES1w))), W(D1("inners", DK3(ES1, ES2, ES1w))), C(CPI(Bare("OuterDict"), D1("inners", DK2(ES1, ES2)))),              \* 7-9 earlier sources
  C(D1("inners", DK2(IA("a", VInt(6)), IA("a", VInt(7))))),                                                                             \* 10 both keys short
  W(D1("inners", DK2(CPI(Bare("Sub1"), D1("a", VInt(6))), IA("b", VStr("z"))))),                                                         \* 11 k1 same class partial, k2 short
  C(D1("inners", DK2(ES1, D1("a", VInt(7))))),                                                                                          \* 12 k2 parameters only
  Dt(<<"inners">>, DK2(IA("a", VInt(6)), CPI(Bare("Sub3"), D1("a", VStr("u"))))),                                                       \* 13 k1 short, k2 changes class
  W(D1("inners", D1("k2", IA("a", VInt(7))))),                                                                                          \* 14 only k2, short (k1 is dropped)
  C(D1("inners", DK3(Bare("Sub1"), IA("a", VInt(8)), IA("b", VStr("y"))))),                                                             \* 15 three keys: k2, k3 short
  W(D1("inners", DK3(IA("b", VStr("q")), CPI(Path("Sub2"), D1("a", VInt(9))), ES1w))),                                                   \* 16 k1 short, k2 same class partial (c kept)
  C(D1("inners", DK2(IA("zz", VInt(1)), IA("a", VInt(7))))), W(D1("inners", DK2(IA("a", VInt(6)), IA("c", VInt(3)))))                   \* 17 unknown init_arg in k1; 18 c only valid for Sub2
>>
ItemsOuterUnion == <<
  Dt(<<"inner">>, Bare("Sub1")), Dt(<<"inner">>, Bare("Other")), Dt(<<"inner">>, Path("Other")), Dt(<<"inner", "a">>, VInt(3)),
  Dt(<<"inner">>, Path("Conc")), W(D1("inner", CPI(Path("Other"), D1("a", VInt(1))))), Dt(<<"inner", "b">>, VStr("k")), W(D1("inner", InnerSub2))
>>
ItemsAbs == <<
  W(Bare("Conc")), W(Path("Conc")), W(Bare("Abs")), Dt(<<"z">>, VInt(3)), W(D1("init_args", D1("z", VInt(1)))), W(Path("Base")),
  W(CPI(Bare("Conc"), D1("z", VInt(2))))
>>
ItemsSubKw == <<
  W(Bare("SubKw")), W(Bare("SubKw2")), W(CPK(Bare("SubKw"), D1("k", VInt(3)))), Dt(<<"dict_kwargs", "j">>, VInt(4)),
  W(CPK(Bare("SubKw2"), D1("m", VInt(5)))), Dt(<<"b">>, VStr("w")), W(CPK(Bare("SubKw"), D1("b", VStr("q")))),
  W(D3("class_path", Bare("SubKw"), "init_args", D1("a", VInt(5)), "dict_kwargs", D1("a", VInt(6))))               \* a dict_kwargs entry that names a parameter wins
>>
\* two class-typed parameters of one class (the name of the first is a prefix of the second's): class changes on either, through
\* config sources (merge_config), whole values and dotted options
PK(v) == CPI(Bare("Sub1"), D1("b", VStr(v)))
ItemsOuter2 == <<
  C(CPI(Bare("Outer2"), D2("p", PK("k"), "p2", PK("k")))),                                                   \* 1 both Sub1(b=k)
  C(D1("init_args", D2("p", Bare("Sub1"), "p2", InnerSub2))),                                                \* 2 p stays Sub1, p2 -> Sub2 (lacks b)
  C(CPI(Path("Outer2"), D2("p", CPI(Bare("Sub1"), D1("a", VInt(5))), "p2", CPI(Bare("Sub2"), D1("c", VInt(2)))))),   \* 3
  W(D2("p", PK("w"), "p2", PK("w"))),                                                                        \* 4 parameters only
  W(D2("p", Bare("Sub1"), "p2", Bare("Sub3"))),                                                              \* 5 p2 -> Sub3 (re-typed a)
  Dt(<<"p2">>, InnerSub2), Dt(<<"p2", "b">>, VStr("z")), Dt(<<"p">>, Bare("Sub2")),                           \* 6-8
  W(D2("p", InnerSub2, "p2", CPI(Bare("Sub1"), D1("a", VInt(7))))),                                          \* 9 p -> Sub2, p2 -> Sub1
  C(D1("init_args", D2("p", CPI(Bare("Sub1"), D1("a", VInt(6))), "p2", Bare("Base")))),                      \* 10 p2 -> Base (lacks b)
  C(D1("init_args", D1("p2", InnerSub2))), W(Bare("Outer2"))                                                 \* 11 only p2 given; 12
>>
Decl == <<"Base", "Outer", "OuterOpt", "OuterList", "OuterDict", "OuterUnion", "Abs", "SubKw", "Outer2">>
Vocab(t) == CASE t = "Outer2" -> ItemsOuter2 [] t = "Base" -> ItemsBase [] t = "Outer" -> ItemsOuter [] t = "OuterOpt" -> ItemsOuterOpt [] t = "OuterList" -> ItemsOuterList
              [] t = "OuterDict" -> ItemsOuterDict [] t = "OuterUnion" -> ItemsOuterUnion [] t = "Abs" -> ItemsAbs [] t = "SubKw" -> ItemsSubKw

\* sequences of three sources are built from the core of the two large vocabularies (all items of the small ones)
Core(t) == CASE t = "Base"  -> {1, 3, 4, 5, 6, 8, 12, 17, 19, 23, 24, 26, 27, 29, 30, 31, 33, 34, 36, 38, 39, 41, 43, 45}
             [] t = "Outer" -> {2, 4, 6, 7, 10, 11, 13, 14, 15, 17, 19, 20, 21, 22, 24, 25}
             [] OTHER       -> 1..Len(Vocab(t))
\* ---------------------------------------------------------------- defaults that are specs x channels (declared class Base)
Defaults == << CPI(Path("Sub1"), D1("b", VStr("k"))),            \* lazy_instance(Sub1, b="k")
               CP(Path("SubKw")),                                 \* lazy_instance(SubKw)
               CPI(Path("Sub2"), D1("c", VInt(4))) >>             \* lazy_instance(Sub2, c=4)
Chans == <<"argv", "dcf", "env", "string">>
FirstD == << D1("init_args", D1("a", VInt(5))), D1("a", VInt(5)), D1("b", VStr("w")), Bare("Sub2"), CPI(Path("Sub3"), D1("a", VStr("u"))),
             Bare("Sub1"), D1("init_args", D1("zz", VInt(1))), D1("init_args", D1("c", VInt(7))), Bare("Base") >>
\* after a default config file only sources that do not designate a class follow (see design.d/C14.md)
SecondD == << Dt(<<"a">>, VInt(9)), Dt(<<"b">>, VStr("z")), W(D1("init_args", D1("a", VInt(6)))), Dt(<<"c">>, VInt(2)) >>
DIds == {<<"D", d, ch, i1, i2>> : d \in 1..Len(Defaults), ch \in 1..2, i1 \in 1..Len(FirstD), i2 \in 0..Len(SecondD)}
        \cup {<<"D", d, ch, i1, 0>> : d \in 1..Len(Defaults), ch \in 3..4, i1 \in 1..Len(FirstD)}
        \cup {<<"D", d, 1, 0, i2>> : d \in 1..Len(Defaults), i2 \in 0..Len(SecondD)}                 \* the default alone / only a dotted option
DItems(id) == (IF id[4] = 0 THEN << >> ELSE <<W(FirstD[id[4]])>>) \o (IF id[5] = 0 THEN << >> ELSE <<SecondD[id[5]]>>)

\* ids: <<declared class, i1, i2, i3>>, 0 = no further source
Ids == UNION {{<<Decl[d], i1, 0, 0>> : i1 \in 1..Len(Vocab(Decl[d]))} : d \in 1..Len(Decl)}
  \cup (IF MaxLen >= 2 THEN UNION {{<<Decl[d], i1, i2, 0>> : i1 \in 1..Len(Vocab(Decl[d])), i2 \in 1..Len(Vocab(Decl[d]))} : d \in 1..Len(Decl)} ELSE {})
  \cup (IF MaxLen >= 3 THEN UNION {{<<Decl[d], i1, i2, i3>> : i1 \in Core(Decl[d]), i2 \in Core(Decl[d]), i3 \in Core(Decl[d])} : d \in 1..Len(Decl)} ELSE {})
ItemsOf(id) == LET v == Vocab(id[1]) IN
  <<v[id[2]]>> \o (IF id[3] = 0 THEN << >> ELSE <<v[id[3]]>>) \o (IF id[4] = 0 THEN << >> ELSE <<v[id[4]]>>)
Case(id, items) == IF id[1] = "D" THEN [aid |-> id, T |-> "Base", items |-> items, dflt |-> Defaults[id[2]], chan |-> Chans[id[3]]]
                   ELSE [aid |-> id, T |-> id[1], items |-> items, dflt |-> NoVal, chan |-> "argv"]
MCFamOf(c) == Fam                  \* FamOf <- MCFamOf in the cfg: the family is not part of the state

Init == \E id \in Ids \cup DIds : /\ cs = Case(id, << >>) /\ pc = "build" /\ i = 1 /\ cur = NoVal /\ ok = "run" /\ log = << >>
\* the first step builds the case and does what InitCase does
ABuild == /\ pc = "build"
          /\ LET c == Case(cs.aid, IF cs.aid[1] = "D" THEN DItems(cs.aid) ELSE ItemsOf(cs.aid))
                 d0 == AlgDefault0(Fam, c.T, c.dflt)
             IN /\ cs' = c
                /\ cur' = IF d0 = Rej \/ d0 = NoVal THEN NoVal ELSE IF c.chan = "argv" \/ c.items = << >> THEN AlgSubDefaults(Fam, c.T, d0) ELSE d0
          /\ pc' = "source" /\ UNCHANGED <<i, ok, log>>
MCNext == ABuild \/ Next
Spec == Init /\ [][MCNext]_vars

\* ------------------------------------------------------------------ emission for the replay
\* (the family is emitted once, by the ASSUME; a case carries its sources, their explicit form and what the spec predicts)
ASSUME Emit => PrintT(ToJson([fam |-> Fam]))
EmitCase == (Emit /\ Done) =>
  PrintT(ToJson([id |-> cs.aid, T |-> cs.T, items |-> cs.items, dflt |-> cs.dflt, chan |-> cs.chan,
                 explicit |-> IF cs.dflt = NoVal /\ ~EmptyDictDeviation THEN ExplicitItems(Fam, cs.T, cs.items) ELSE << >>,
                 alg |-> AlgParsed, ref |-> RefOf(NoDev), code |-> RefOf(CodeDev), log |-> log]))
=============================================================================
