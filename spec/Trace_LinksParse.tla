-------------------------- MODULE Trace_LinksParse --------------------------
(* Validation of observations recorded from the real jsonargparse (code -> spec), property C15.                  *)
(* TRACE_FILE holds [obs |-> <<...>>, links |-> <<...>>]; an observation is                                                          *)
(*   [shape, items, out |-> [ok, c], dumped |-> BOOLEAN, dump, re |-> [ok, c],                                     *)
(*    tried, saved |-> BOOLEAN, smain, ssub, ssingle, sre |-> [ok, c],   (save() in both modes, every file read)   *)
(*    ptried, pok |-> BOOLEAN, printed]                                   (--print_config with the same input)      *)
(* one parse of a real parser built from `shape` with the supplied `items`: whether it succeeded and the abstract  *)
(* configuration, then (if it succeeded) whether dump() succeeded, the configuration read back from the dump text  *)
(* (yaml), and the outcome of parsing that text again.  Failing clauses are printed as <<"R", "parse", n, clause>>; *)
(* clauses starting with "ref" are the property (verdict), "alg" is the transcription (drift).                     *)
EXTENDS LinksParse, Json, IOUtils

Data == JsonDeserialize(IOEnv.TRACE_FILE)
Obs  == Data.obs
Links == Data.links     \* [l1, l2, accepted]: link_arguments(l1) succeeded, then link_arguments(l2) was accepted or raised ValueError
VARIABLE i
Init == i \in 1..(Len(Obs) + Len(Links))
Next == UNCHANGED i
Say(n, clause) == PrintT(<<"R", "parse", n, clause>>)

IsInt(v) == v.k = "int"
\* (the recorded list-item deviation, whatever the value: --print_config dumps None values too)
ListHasP(c) == c.m.k = "list" /\ \E x \in DOMAIN c.m.v : "p" \in DOMAIN c.m.v[x].ia
\* the sources of the links hold integers (the compute functions are defined on integers only)
OptTyped(v) == v.k \in {"none", "int", "str", "elist"}
SourcesTyped(c) == /\ IsInt(c.a) /\ IsInt(c.b) /\ IsInt(c.gx) /\ IsInt(c.gy)
                   /\ c.o.k = "absent" \/ OptTyped(c.o)
                   /\ c.s.k \in {"absent", "none"} \/ (c.s.k = "cls" /\ ("limit" \in DOMAIN c.s.ia => OptTyped(c.s.ia["limit"])))

Check(n) ==
  LET ob   == Obs[n]
      sh   == ob.shape
      out  == ob.out
      alg  == AlgParse(sh, ob.items)
      adump == AlgDump(sh, alg.c)
      dcf  == DcfItemsOf(ob.items)
      are  == AlgReparse(sh, dcf, adump)
      dev  == out.ok /\ ListItemsKeepTarget(sh, out.c)
      asv  == AlgSaveMulti(sh, alg.c)
      asre == AlgSaveReparse(sh, dcf, asv)
      \* (round 4) the recorded deviation ApDropsLinks: the observation breaks the property AND is exactly (parse, dump,
      \* re-parse) what the transcription of the ActionParser route gives
      apdev == /\ sh.ap /\ out.ok /\ SourcesTyped(out.c) /\ ob.dumped /\ ApDropsLinks(sh, ob.items, out, ob.dump)
               /\ alg.ok /\ out.c = alg.c /\ ob.dump = adump /\ ob.re.ok = are.ok /\ (are.ok => ob.re.c = are.c)
  IN /\ (out.ok => SourcesTyped(out.c)) \/ Say(n, "ref-malformed")
     /\ IF out.ok /\ ~SourcesTyped(out.c) THEN TRUE
        ELSE IF apdev THEN Say(n, "ref-dev-ap-as-alg")
        ELSE IF DcfDeviation(sh, ob.items, out) THEN Say(n, "ref-dev-dcf-as-alg")
        ELSE IF SubEnvDeviation(sh, ob.items, out) THEN Say(n, "ref-dev-sub-env-as-alg")     \* (round 4; the observation is a failed parse, like the transcription)
        ELSE /\ (out.ok => TargetEq(sh, out.c)) \/ Say(n, "ref-target-not-fn-of-sources")
             /\ ((\E x \in DOMAIN ob.items : UsesPlainOption(sh, ob.items[x])) => ~out.ok) \/ Say(n, "ref-plain-option-accepted")
             /\ (((\A x \in DOMAIN ob.items : ~SuppliesTarget(ob.items[x])) /\ ~RaisesOn(sh, ob.items)) => out.ok) \/ Say(n, "ref-target-required")
             /\ (RaisesOn(sh, ob.items) => ~out.ok) \/ Say(n, "ref-raising-fn-accepted")
             /\ (out.ok => ob.dumped) \/ Say(n, "ref-dump-fails")
             /\ IF ~(out.ok /\ ob.dumped) THEN TRUE
                ELSE /\ (dev \/ DumpHidesTarget(sh, ob.dump)) \/ Say(n, "ref-dump-shows-target")
                     /\ (~dev \/ DumpHidesTarget(sh, ob.dump)) \/ Say(n, IF ob.dump = AlgDump(sh, out.c) THEN "ref-dev-list-item-as-alg" ELSE "ref-dev-list-item-other")
                     /\ (ob.re.ok /\ SourcesTyped(ob.re.c) /\ Reconstructed(sh, out.c, ob.re)) \/ Say(n, "ref-not-reconstructed")
                     \* --print_config with the same input (TLC does not predict the text, only the clause is evaluated)
                     /\ (~ob.ptried \/ ob.pok) \/ Say(n, "ref-print-config-fails")
                     /\ (~(ob.ptried /\ ob.pok) \/ ListHasP(ob.printed) \/ DumpHidesTarget(sh, ob.printed)) \/ Say(n, "ref-print-config-shows-target")
                     \* save(): both modes, every written file
                     /\ (~ob.tried \/ ob.saved) \/ Say(n, "ref-save-fails")
                     /\ IF ~(ob.tried /\ ob.saved) THEN TRUE
                        ELSE /\ (dev \/ SaveHidesTarget(sh, ob.smain, ob.ssub)) \/ Say(n, "ref-save-multifile-shows-target")
                             /\ (dev \/ DumpHidesTarget(sh, ob.ssingle)) \/ Say(n, "ref-save-singlefile-shows-target")
                             /\ (~dev \/ (SaveHidesTarget(sh, ob.smain, ob.ssub) /\ DumpHidesTarget(sh, ob.ssingle)) \/ (ob.smain = AlgSaveMulti(sh, out.c).main /\ ob.ssingle = AlgDump(sh, out.c)))
                                  \/ Say(n, "ref-dev-list-item-other")
                             /\ (ob.sre.ok /\ SourcesTyped(ob.sre.c) /\ Reconstructed(sh, out.c, ob.sre)) \/ Say(n, "ref-save-not-reconstructed")
             \* (round 4) dump(skip_default=True) and the parse of its text
             /\ IF ~(out.ok /\ ob.sdtried) THEN TRUE
                ELSE /\ ob.sdok \/ Say(n, "ref-skip-default-dump-fails")
                     /\ IF ~ob.sdok THEN TRUE
                        ELSE /\ (dev \/ DumpHidesTarget(sh, ob.sd)) \/ Say(n, "ref-skip-default-dump-shows-target")
                             /\ (ob.sdre.ok /\ SourcesTyped(ob.sdre.c) /\ Reconstructed(sh, out.c, ob.sdre)) \/ Say(n, "ref-skip-default-not-reconstructed")
                             /\ (~(alg.ok /\ out.c = alg.c) \/ LET asd == AlgDumpSD(sh, dcf, alg.c)  asdre == AlgReparse(sh, dcf, asd)
                                                                IN ob.sd = asd /\ ob.sdre.ok = asdre.ok /\ (asdre.ok => ob.sdre.c = asdre.c)) \/ Say(n, "alg-skip-default")
             \* (round 4) the sources of the returned namespace were edited and the namespace parsed again
             /\ IF ~(out.ok /\ ob.htried) THEN TRUE
                ELSE /\ (ob.hout.ok => SourcesTyped(ob.hout.c)) \/ Say(n, "ref-history-malformed")
                     /\ (~SourcesTyped(ob.hin) \/ (ob.hout.ok /\ ~SourcesTyped(ob.hout.c)) \/ HistOK(sh, ob.hin, ob.hout)) \/ Say(n, "ref-history-target-does-not-follow")
                     /\ (~SourcesTyped(ob.hin) \/ LET ah == AlgHist(sh, dcf, ob.hin) IN ob.hout.ok = ah.ok /\ (ah.ok => ob.hout.c = ah.c)) \/ Say(n, "alg-history")
             /\ (out.ok = alg.ok /\ (out.ok => out.c = alg.c)) \/ Say(n, "alg-parse")
             /\ (~(out.ok /\ alg.ok /\ ob.dumped /\ out.c = alg.c) \/ (ob.dump = adump /\ ob.re.ok = are.ok /\ (are.ok => ob.re.c = are.c))) \/ Say(n, "alg-dump")
             /\ (~(out.ok /\ alg.ok /\ ob.tried /\ ob.saved /\ out.c = alg.c)
                   \/ (ob.smain = asv.main /\ ob.ssub = asv.sub /\ ob.ssingle = adump /\ ob.sre.ok = asre.ok /\ (asre.ok => ob.sre.c = asre.c))) \/ Say(n, "alg-save")
CheckLink(n) ==
  LET x == Links[n] IN
  /\ (x.accepted = RefLinkAllowed(<<x.l1>>, x.l2)) \/ PrintT(<<"R", "link", n, "ref-chain-rule">>)
  /\ (x.accepted = AlgLinkAllowed(<<x.l1>>, x.l2)) \/ PrintT(<<"R", "link", n, "alg-link">>)
Inv == (IF i <= Len(Obs) THEN Check(i) ELSE CheckLink(i - Len(Obs))) \/ TRUE
=============================================================================
