------------------------------- MODULE Types -------------------------------
(***************************************************************************)
(* The type-hint adapter of jsonargparse (properties C02 and C10).         *)
(*                                                                         *)
(* VALUES are tagged records [k, v] (the tag k is compared first, so       *)
(* payloads of different kinds never meet):                                *)
(*   none 0 | bool b | int n | float <<num, den>> (reduced, den > 0)       *)
(*   str "text" | enum <<class, member>> | path "name" (a Path object)     *)
(*   reg <<type, code>>  a value of a registered type (timedelta, range,   *)
(*        Decimal, complex, UUID, bytes), named by a code                  *)
(*   list <<...>> | tuple <<...>> | set {...}                              *)
(*   dict << <<key, value>>, ... >>  in insertion order, keys distinct     *)
(*   bag [element -> count]  a set WRITTEN as a list by dump (any order)   *)
(*   exc 0   an exception OBJECT as a value (no branch produces it since   *)
(*           /repo 00430dc; inputs never hold one)                         *)
(*   fail 0  "the loader raised" (never a value of a configuration)        *)
(*   sub <<class, base>>  a TYPED OBJECT that is an instance of a SUBCLASS *)
(*        of int / str (class MyInt(int), an IntEnum member, PositiveInt(2),*)
(*        class MyStr(str), a member of class SE(str, Enum), NotEmptyStr): *)
(*        base is the IntV / StrV it equals.  Only ever an INPUT object    *)
(*        (parse_object, link source); never text.  (Round 4, C02)         *)
(* TYPE TERMS use the same record shape:                                   *)
(*   str int float bool none any path <<>>     leaf types                  *)
(*   rstr / rnum / reg <<[name]>>  user-defined restricted str / number    *)
(*        types and built-in registered types, defined by the tables       *)
(*        RStrDefs / RNumDefs / RegDefs                                    *)
(*   literal <<values>>   enum <<[k |-> "cls", v |-> name]>>               *)
(*   list <<t>> (<<>> = bare list)   set <<t>>   tupleE <<t>> (Tuple[t,...])*)
(*   tuple <<t1..tn>>   dict <<kt, vt>> (<<>> = bare dict)   union <<t1..>> *)
(*                                                                         *)
(* Two layers.                                                             *)
(*   Ref   Acc / Res / Conforms, Accepts / TopResults: what property C02   *)
(*         states, by structural induction on the type.  Deliberately      *)
(*         nondeterministic (Res is a SET) where the documentation does    *)
(*         not fix the normal form, e.g. which Union member wins.          *)
(*   Alg   adapt_typehints, sort_subtypes_for_union, _check_type and the   *)
(*         passes of a parse, transcribed branch by branch (anchors are    *)
(*         jsonargparse/_typehints.py unless another file is named).       *)
(*         adapt_typehints rewrites lists and dicts IN PLACE, so every Alg *)
(*         result also carries `m`, the state in which the call leaves the *)
(*         object it was given.                                            *)
(* Every Alg result carries `dev`, the set of NAMED deviations from Ref    *)
(* that the evaluation went through:                                       *)
(*   (excLeak -- vals[-1], an exception object, became the value when a    *)
(*               member failed after the str member's orig_val fall-back   *)
(*               -- was repaired by /repo 00430dc: the loop now keeps the   *)
(*               last attempt that succeeded; the arm is gone.)            *)
(*   origNested  the str member's orig_val fall-back inside a container:   *)
(*               the ELEMENT becomes the text of the WHOLE argument (since *)
(*               00430dc in every member order, see AlgUnionLoop).         *)
(*   inPlace     Union loop: a member that failed half-way through a list  *)
(*               or dict left it partly converted, and the next member is  *)
(*               tried on the converted object (Union[List[int],List[str]] *)
(*               rejects ["1","a"], Union[List[str],List[int]] accepts).   *)
(*   validateLeak the validation pass works on cfg.clone(), which SHARES    *)
(*               tuples: what a Union member converts in place below a     *)
(*               tuple during validation shows in the result, e.g.         *)
(*               Tuple[Union[List[Tuple[int]],List[Set[int]]],...] given   *)
(*               [[[1,1]]] returns ([(1,)],) instead of ([{1}],).          *)
(*   rawDefault  parse_args fills in a default as it is: a valid but       *)
(*               non-canonical default (1 for float, a tuple for List)     *)
(*               is neither normalised nor a fixed point of dump o parse;  *)
(*               parse_object normalises it.                               *)
(*   noneOverDefault (dump; recognised by Trace_Types) an explicit None for *)
(*               an argument that has a default is left out by dump        *)
(*               (skip_none), so the re-parse fills in the default again.  *)
(*   dumpLeak    (dump) dump(cfg) works on a clone that shares tuples with *)
(*               cfg: a list below a tuple is serialised IN PLACE in the   *)
(*               caller's configuration -- ([(1.5,)],) is ([[1.5]],) after *)
(*               the dump.                                                 *)
(*   leftInstance (dump) a value of a restricted type is an instance of a  *)
(*               sub-class of int / float / str; a Union member that is    *)
(*               tried before the restricted one and serialises by         *)
(*               returning the object (Enum, Literal, Any, int, float,     *)
(*               str) leaves that instance in the tree, and the yaml       *)
(*               dumper raises RepresenterError (json writes it).          *)
(*   setListing  a set with two or more members is turned into a List or   *)
(*               Tuple: the order is whatever Python lists the set in, so  *)
(*               Union[Tuple[int,str],Set[str]] may read its own result    *)
(*               {'1','A'} back as (1,'A').                                *)
(*   litEq       Literal membership is tested with == : True and 1.0 pass  *)
(*               for Literal[1].                                           *)
(*   dictKey     Dict keys are not validated (only int(k) for Dict[int,.]).*)
(*   serCollision (dump) two different members of a set are written alike, *)
(*               e.g. 'A' and E.A in a Set[Any]: the dump has duplicates.  *)
(*   yamlFloatStr (dump) the str '1e3' is written plain and read back as a *)
(*               float (the loader's float pattern is wider than the       *)
(*               dumper's).  REPAIRED by f3cd0b1: never predicted now.     *)
(*   serLenient  (dump) with serialize=True a member of a Union that never  *)
(*               accepted the value can still write it: the leaf branch    *)
(*               loads strings ('1' is written as 1 by an int member) and  *)
(*               Dict[int,.] applies str(k) to any key.  Union[Dict[int,   *)
(*               int],Dict[str,str]] writes {'a': '1'} as a: 1, which does *)
(*               not parse again.                                          *)
(*   jsonKeyCollision (dump) a dict with the keys 1 and '1' is written by  *)
(*               json.dumps with the key "1" twice.                        *)
(*   leftTuple   (dump) a tuple that nothing serialised (inside Any, or    *)
(*               passed through by an Enum member) is written as a list    *)
(*               and stays one: a Set[Any] of tuples does not parse again. *)
(*   firstMatch  NOT a deviation from Ref, a marker: a Union member takes  *)
(*               and changes a value that already is a normal form of a    *)
(*               LATER member (first accepting member wins).  This is how  *)
(*               a result can differ from its own re-parse (C10) without   *)
(*               any of the deviations above.                              *)
(*   reparseShift (dump; recognised by Trace_Types only) the tree that one *)
(*               Union member wrote is read back by an EARLIER member as   *)
(*               another value: Union[Set[str],Tuple[E,...]] writes        *)
(*               (E.A, E.B) as [A, B] and reads {'A','B'}.  The round trip *)
(*               itself is C01's; here the second dump differs.            *)
(*   leftObject / leftSet (dump) with serialize=True the Enum branch       *)
(*               returns ANY foreign value unchanged instead of raising,   *)
(*               so in a Union an Enum member written first wins and the   *)
(*               value stays unserialised: a member of another Enum makes  *)
(*               dump raise, a set makes the json dump raise.  Any does    *)
(*               not serialise what is inside a container either.          *)
(* MC_Types checks on every (type, input) of a bounded grammar that        *)
(* outside these named deviations Alg and Ref agree, the laws of Ref       *)
(* (compositional, permutation invariant, conforming values are fixed      *)
(* points) and the fixed-point laws of C10 on Alg.                         *)
(***************************************************************************)
EXTENDS Integers, Sequences, FiniteSets, TLC

\* TLC compares record fields in the order in which the field names were first seen: tag before payload.
FieldOrder == [k |-> "tag", v |-> "payload"]

NoneV         == [k |-> "none", v |-> 0]
BoolV(b)      == [k |-> "bool", v |-> b]
IntV(n)       == [k |-> "int", v |-> n]
FloatV(n, d)  == [k |-> "float", v |-> <<n, d>>]
StrV(s)       == [k |-> "str", v |-> s]
EnumV(c, m)   == [k |-> "enum", v |-> <<c, m>>]
ListV(s)      == [k |-> "list", v |-> s]
TupleV(s)     == [k |-> "tuple", v |-> s]
SetV(S)       == [k |-> "set", v |-> S]
DictV(ps)     == [k |-> "dict", v |-> ps]
BagV(f)       == [k |-> "bag", v |-> f]
PathV(name)   == [k |-> "path", v |-> name]        \* a jsonargparse Path object (by the name it was given)
RegV(n, code) == [k |-> "reg", v |-> <<n, code>>]  \* a value of the registered type n; code names the value (see RegDefs)
FileV(name, c) == [k |-> "file", v |-> <<name, c>>] \* INPUT only: the name of an existing config file whose content loads as c
ExcV          == [k |-> "exc", v |-> 0]
FailV         == [k |-> "fail", v |-> 0]
SubV(c, b)    == [k |-> "sub", v |-> <<c, b>>]     \* an instance of the subclass c of int / str; b: the plain IntV / StrV it is == to
IsSub(x)      == x.k = "sub"
Base(x)       == IF x.k = "sub" THEN x.v[2] ELSE x
IsStrLike(x)  == Base(x).k = "str"                 \* isinstance(x, str)
ASSUME IntV(1) # StrV("a") /\ FieldOrder.k = "tag"        \* dies at start-up if the field order is not tag-first

LeafT(c)      == [k |-> c, v |-> << >>]
StrT          == LeafT("str")
IntT          == LeafT("int")
FloatT        == LeafT("float")
BoolT         == LeafT("bool")
NoneT         == LeafT("none")
AnyT          == LeafT("any")
PathT         == LeafT("path")                     \* typing.Path_fr, a registered type
NameOf(n)     == <<[k |-> "name", v |-> n]>>
RStrT(n)      == [k |-> "rstr", v |-> NameOf(n)]   \* restricted_string_type(n, RStrDefs[n].pat): a user-defined restricted str
RNumT(n)      == [k |-> "rnum", v |-> NameOf(n)]   \* restricted_number_type(n, base, restrictions, join) as in RNumDefs[n]
RegT(n)       == [k |-> "reg", v |-> NameOf(n)]    \* a built-in registered type: timedelta range decimal complex uuid bytes
DefName(t)    == t.v[1].v
LitT(ms)      == [k |-> "literal", v |-> ms]
EnumT(c)      == [k |-> "enum", v |-> <<[k |-> "cls", v |-> c]>>]
ListT(t)      == [k |-> "list", v |-> <<t>>]
BareListT     == [k |-> "list", v |-> << >>]
SetT(t)       == [k |-> "set", v |-> <<t>>]
TupleET(t)    == [k |-> "tupleE", v |-> <<t>>]
TupleT(ts)    == [k |-> "tuple", v |-> ts]
DictT(kt, vt) == [k |-> "dict", v |-> <<kt, vt>>]
BareDictT     == [k |-> "dict", v |-> << >>]
UnionT(ts)    == [k |-> "union", v |-> ts]

LeafKinds == {"str", "int", "float", "bool", "none"}
IsStr(x)  == x.k = "str"
\* the registered values that are Iterable (a range, a bytes): adapt_typehints:891-892 makes a list of ANY iterable that is
\* not a list / str / mapping, so List[int] given range(5) is [0, 1, 2, 3, 4] and given b"ab" is [97, 98]
IterTbl == ("range" :> (("0,5,1" :> <<0, 1, 2, 3, 4>>) @@ ("0,10,2" :> <<0, 2, 4, 6, 8>>) @@ ("1,5,1" :> <<1, 2, 3, 4>>) @@ ("0,0,1" :> << >>) @@ ("5,0,-1" :> <<5, 4, 3, 2, 1>>)))
        @@ ("bytes" :> (("" :> << >>) @@ ("6162" :> <<97, 98>>) @@ ("ff00" :> <<255, 0>>) @@ ("61" :> <<97>>)))
IsIterReg(x) == x.k = "reg" /\ x.v[1] \in DOMAIN IterTbl /\ x.v[2] \in DOMAIN IterTbl[x.v[1]]
IsSeqLike(x) == x.k \in {"list", "tuple", "set", "bag"}                   \* what Tuple / Set take (:854)
IsListable(x) == IsSeqLike(x) \/ IsIterReg(x)                             \* what List takes (:891)
Range(s)  == {s[i] : i \in 1..Len(s)}
Min(S)    == CHOOSE n \in S : \A o \in S : n <= o

\* the enum classes of the model (the harness builds the same two classes)
EnumMembers(c) == IF c = "E" THEN {"A", "B"} ELSE IF c = "F" THEN {"A", "C"} ELSE {}
EnumCls(t) == t.v[1].v

RECURSIVE SetAsSeq(_)
SetAsSeq(S) == IF S = {} THEN << >> ELSE LET e == CHOOSE e \in S : TRUE IN <<e>> \o SetAsSeq(S \ {e})
RECURSIVE Repeat(_, _)
Repeat(e, n) == IF n = 0 THEN << >> ELSE <<e>> \o Repeat(e, n - 1)
RECURSIVE BagAsSeq(_, _)
BagAsSeq(f, es) == IF Len(es) = 0 THEN << >> ELSE Repeat(Head(es), f[Head(es)]) \o BagAsSeq(f, Tail(es))
BagOf(s) == [e \in Range(s) |-> Cardinality({i \in 1..Len(s) : s[i] = e})]
\* list(val); the order of a set is not specified
AsSeq(x) == IF x.k = "set" THEN SetAsSeq(x.v) ELSE IF x.k = "bag" THEN BagAsSeq(x.v, SetAsSeq(DOMAIN x.v))
            ELSE IF x.k = "reg" THEN [n \in 1..Len(IterTbl[x.v[1]][x.v[2]]) |-> IntV(IterTbl[x.v[1]][x.v[2]][n])] ELSE x.v

RECURSIVE SeqProd(_)
SeqProd(ss) == IF Len(ss) = 0 THEN {<< >>} ELSE {<<h>> \o tl : h \in Head(ss), tl \in SeqProd(Tail(ss))}

\* dict[key] = val on a sequence of pairs: an existing key keeps its place
PutPair(ps, key, val) == IF \E j \in 1..Len(ps) : ps[j][1] = key
                         THEN [j \in 1..Len(ps) |-> IF ps[j][1] = key THEN <<key, val>> ELSE ps[j]]
                         ELSE Append(ps, <<key, val>>)
\* a value with every dict turned into the SET of its pairs (Python's == on dicts ignores the order)
RECURSIVE Canon(_)
Canon(x) == CASE x.k \in {"list", "tuple"} -> [k |-> x.k, v |-> [n \in 1..Len(x.v) |-> Canon(x.v[n])]]
              [] x.k = "set"  -> SetV({Canon(e) : e \in x.v})
              [] x.k = "dict" -> [k |-> "dict", v |-> {<<Canon(x.v[n][1]), Canon(x.v[n][2])>> : n \in 1..Len(x.v)}]
              [] OTHER -> x

(***************************************************************************)
(* Python's == on the values of the model, and hashability                 *)
(***************************************************************************)
IsNum(a)  == a.k \in {"bool", "int", "float"}
NumOf(a)  == IF a.k = "bool" THEN <<IF a.v THEN 1 ELSE 0, 1>> ELSE IF a.k = "int" THEN <<a.v, 1>> ELSE a.v
RECURSIVE PyEq(_, _)
PyEq(a, b) == IF a.k = "sub" \/ b.k = "sub" THEN PyEq(Base(a), Base(b))   \* MyInt(1) == 1, IE.X == 1, SE.P == 'abc'
              ELSE IF IsNum(a) /\ IsNum(b) THEN NumOf(a) = NumOf(b)          \* True == 1 == 1.0
              ELSE IF a.k # b.k THEN FALSE
              ELSE IF a.k = "tuple" THEN Len(a.v) = Len(b.v) /\ \A i \in 1..Len(a.v) : PyEq(a.v[i], b.v[i])
              ELSE a = b
RECURSIVE Hashable(_)
Hashable(x) == IF x.k \in {"list", "set", "dict"} THEN FALSE
               ELSE IF x.k = "tuple" THEN \A i \in 1..Len(x.v) : Hashable(x.v[i]) ELSE TRUE
\* set(list): of two equal elements the first one stays
RECURSIVE KeepFirst(_, _, _)
KeepFirst(s, i, acc) == IF i > Len(s) THEN acc
                        ELSE KeepFirst(s, i + 1, IF \E e \in acc : PyEq(e, s[i]) THEN acc ELSE acc \cup {s[i]})

(***************************************************************************)
(* What a piece of text means (the loader).  The adapter only needs the    *)
(* MEANING of a text, so texts are opaque strings with a table written     *)
(* from YAML 1.1 as customised by _loaders_dumpers.py:43-82 (no timestamp, *)
(* own float pattern).  Any string outside the table is a plain word and   *)
(* means itself (the harness only produces such strings).  The replay      *)
(* executes every row on the real loader.                                  *)
(***************************************************************************)
D1(key, val) == DictV(<< <<key, val>> >>)
YamlTbl ==
     ("null" :> NoneV) @@ ("~" :> NoneV) @@ ("Null" :> NoneV)
  @@ ("true" :> BoolV(TRUE)) @@ ("false" :> BoolV(FALSE)) @@ ("yes" :> BoolV(TRUE)) @@ ("True" :> BoolV(TRUE))
  @@ ("off" :> BoolV(FALSE)) @@ ("False" :> BoolV(FALSE))
  @@ ("0" :> IntV(0)) @@ ("1" :> IntV(1)) @@ ("2" :> IntV(2)) @@ ("-1" :> IntV(-1)) @@ (" 1 " :> IntV(1))
  @@ ("0x10" :> IntV(16)) @@ ("1_000" :> IntV(1000))
  @@ ("1.5" :> FloatV(3, 2)) @@ ("1.0" :> FloatV(1, 1)) @@ ("1e3" :> FloatV(1000, 1)) @@ ("-0.5" :> FloatV(-1, 2))
  @@ ("\"1\"" :> StrV("1")) @@ ("'a'" :> StrV("a")) @@ ("'null'" :> StrV("null"))
  @@ ("[]" :> ListV(<< >>)) @@ ("[1]" :> ListV(<<IntV(1)>>)) @@ ("[1, 2]" :> ListV(<<IntV(1), IntV(2)>>))
  @@ ("[null]" :> ListV(<<NoneV>>)) @@ ("[1, a]" :> ListV(<<IntV(1), StrV("a")>>)) @@ ("[A]" :> ListV(<<StrV("A")>>))
  @@ ("[\"1\"]" :> ListV(<<StrV("1")>>)) @@ ("[true]" :> ListV(<<BoolV(TRUE)>>)) @@ ("[[1]]" :> ListV(<<ListV(<<IntV(1)>>)>>))
  @@ ("[null, 1]" :> ListV(<<NoneV, IntV(1)>>)) @@ ("[a, null]" :> ListV(<<StrV("a"), NoneV>>))
  @@ ("[\"1\", a]" :> ListV(<<StrV("1"), StrV("a")>>))
  @@ ("-" :> ListV(<<NoneV>>))
  @@ ("{}" :> DictV(<< >>)) @@ ("{\"a\": 1}" :> D1(StrV("a"), IntV(1))) @@ ("{\"1\": \"a\"}" :> D1(StrV("1"), StrV("a")))
  @@ ("{1: 2}" :> D1(IntV(1), IntV(2))) @@ ("{\"a\": null}" :> D1(StrV("a"), NoneV))
  @@ ("{\"a\": [1]}" :> D1(StrV("a"), ListV(<<IntV(1)>>))) @@ ("a: 1" :> D1(StrV("a"), IntV(1)))
  @@ ("{\"a\": \"1\", \"b\": x}" :> DictV(<< <<StrV("a"), StrV("1")>>, <<StrV("b"), StrV("x")>> >>))
  @@ ("1:00:00" :> IntV(3600)) @@ ("25:00:00" :> IntV(90000)) @@ ("24:00:00" :> IntV(86400)) @@ ("1:00" :> IntV(60))      \* YAML 1.1 base 60
  @@ ("0:00:00.5" :> FloatV(1, 2)) @@ ("0:00:00.500000" :> FloatV(1, 2)) @@ ("5" :> IntV(5)) @@ ("1234" :> IntV(1234))
  @@ ("2.0" :> FloatV(2, 1)) @@ ("1000.0" :> FloatV(1000, 1)) @@ ("0.0" :> FloatV(0, 1)) @@ ("0.5" :> FloatV(1, 2)) @@ ("16.0" :> FloatV(16, 1))   \* what str() writes
  @@ ("16" :> IntV(16)) @@ ("1000" :> IntV(1000))
  @@ ("[1" :> FailV) @@ ("{a" :> FailV) @@ ("\"a" :> FailV) @@ ("a: b: c" :> FailV)
Yaml(s)  == IF s \in DOMAIN YamlTbl THEN YamlTbl[s] ELSE StrV(s)       \* yaml_load:85-96
Blank(s) == s \in {"", " "}
\* the files that exist (and are readable) in the working directory of a run; their names are plain words
ExistingFiles == {"file.txt", "-"}          \* ("-" stands for the standard input and is always accepted by a readable-file path)
MetaKey == StrV("__path__")                        \* where a dict that was loaded from a file remembers the file

\* _util.parse_value_or_config:127-152 + load_value:184-205 (simple_types=False): only null / list / dict
\* replace the text, a scalar keeps its ORIGINAL text; "-" is passed through; a loader error keeps the text
LoadTop(s) == IF Blank(s) \/ s = "-" THEN StrV(s)
              ELSE LET y == Yaml(s) IN IF y.k \in {"fail", "str", "int", "float", "bool"} THEN StrV(s) ELSE y
\* json_or_yaml_load:163-168 under suppress(loader exceptions), as used by the leaf branch :781-783
LeafLoad(s) == IF Blank(s) THEN StrV(s) ELSE LET y == Yaml(s) IN IF y.k = "fail" THEN StrV(s) ELSE y
\* parse_value_or_config(val, enable_path=False, simple_types=True) under suppress, as used by the Any branch :766-768
LoadSimple(s) == IF Blank(s) \/ s = "-" THEN StrV(s)
                 ELSE LET y == Yaml(s) IN IF y.k \in {"fail", "str"} THEN StrV(s) ELSE y

\* Python's int(key) as used for the keys of Dict[int, ...] (:913-915)
PyIntTbl == ("0" :> 0) @@ ("1" :> 1) @@ ("2" :> 2) @@ ("-1" :> -1) @@ (" 1 " :> 1) @@ ("1_000" :> 1000) @@ ("5" :> 5) @@ ("1234" :> 1234) @@ ("16" :> 16) @@ ("1000" :> 1000)
Trunc(n, d) == IF n >= 0 THEN n \div d ELSE -((-n) \div d)
IntCast(key) == IF key.k = "int" THEN key
                ELSE IF key.k = "bool" THEN IntV(IF key.v THEN 1 ELSE 0)
                ELSE IF key.k = "float" THEN IntV(Trunc(key.v[1], key.v[2]))
                ELSE IF key.k = "str" /\ key.v \in DOMAIN PyIntTbl THEN IntV(PyIntTbl[key.v])
                ELSE FailV
StrOfInt(key) == IF key.k = "int" THEN StrV(ToString(key.v))               \* str(k) when serialising Dict[int, ...]
                 ELSE IF key.k = "bool" THEN StrV(IF key.v THEN "True" ELSE "False")
                 ELSE IF key.k = "none" THEN StrV("None") ELSE key
\* {cast(k): v for k, v in val.items()} (cast = str if serialize else int): entries <<new key, value, index of
\* the pair it came from>>; of two pairs whose keys cast alike the later value stays, in the place of the first
CastKey(key, ser) == IF ser THEN StrOfInt(key) ELSE IntCast(key)
RECURSIVE CastFold(_, _, _, _)
CastFold(ps, i, acc, ser) ==
  IF i > Len(ps) THEN acc
  ELSE LET key == CastKey(ps[i][1], ser) IN
       CastFold(ps, i + 1, IF \E j \in 1..Len(acc) : acc[j][1] = key
                           THEN [j \in 1..Len(acc) |-> IF acc[j][1] = key THEN <<key, ps[i][2], i>> ELSE acc[j]]
                           ELSE Append(acc, <<key, ps[i][2], i>>), ser)

(***************************************************************************)
(* Restricted and registered types (typing.py).  Regular expressions,      *)
(* timedelta arithmetic, base64 ... are not computed here: each type is a  *)
(* small TABLE over the texts / values of the instance, written from the   *)
(* documented semantics (re.match: the match starts at position 0; str()   *)
(* of a timedelta; the forms range_deserializer lists; Python's int() /    *)
(* float() / Decimal() / complex() / UUID() on a string); the run executes *)
(* every row on the real constructor first.                                *)
(***************************************************************************)
\* restricted_string_type:179-215.  m: the texts of the instance that the pattern matches AT POSITION 0 (re.match).
\* "xABC-1234" and "sku ABC-1234" contain a match of sku_u further right (re.search would find it): not accepted.
RStrDefs == ("sku_u" :> [pat |-> "[A-Z]{3}-[0-9]{4}$", m |-> {"ABC-1234"}])          \* not anchored with ^
         @@ ("sku_a" :> [pat |-> "^[A-Z]{3}-[0-9]{4}$", m |-> {"ABC-1234"}])
         @@ ("pre"   :> [pat |-> "ab", m |-> {"ab", "abc"}])                            \* a prefix: nothing anchors the end
\* float(text) of Python (int(text) is PyIntTbl): not YAML -- "0x10" is refused, "1_000" and " 1 " are read
PyFloatTbl == ("0" :> <<0, 1>>) @@ ("1" :> <<1, 1>>) @@ ("2" :> <<2, 1>>) @@ ("-1" :> <<-1, 1>>) @@ (" 1 " :> <<1, 1>>) @@ ("1_000" :> <<1000, 1>>)
           @@ ("1.5" :> <<3, 2>>) @@ ("1.0" :> <<1, 1>>) @@ ("1e3" :> <<1000, 1>>) @@ ("-0.5" :> <<-1, 2>>) @@ ("5" :> <<5, 1>>) @@ ("1234" :> <<1234, 1>>)
           @@ ("2.0" :> <<2, 1>>) @@ ("1000.0" :> <<1000, 1>>) @@ ("0.0" :> <<0, 1>>) @@ ("0.5" :> <<1, 2>>) @@ ("16.0" :> <<16, 1>>) @@ ("16" :> <<16, 1>>) @@ ("1000" :> <<1000, 1>>)
\* restricted_number_type:106-176.  rs: <<operator, numerator, denominator of the reference>>
\* (user-defined: none of them is one of the predefined types PositiveInt, NonNegativeInt, ClosedUnitInterval ...)
RNumDefs == ("gt1i" :> [base |-> "int", join |-> "and", rs |-> << <<">", 1, 1>> >>])
         @@ ("ge1i" :> [base |-> "int", join |-> "and", rs |-> << <<">=", 1, 1>> >>])
         @@ ("lt2i" :> [base |-> "int", join |-> "and", rs |-> << <<"<", 2, 1>> >>])
         @@ ("le1i" :> [base |-> "int", join |-> "and", rs |-> << <<"<=", 1, 1>> >>])
         @@ ("eq1i" :> [base |-> "int", join |-> "and", rs |-> << <<"==", 1, 1>> >>])
         @@ ("ne1i" :> [base |-> "int", join |-> "and", rs |-> << <<"!=", 1, 1>> >>])
         @@ ("gthf" :> [base |-> "float", join |-> "and", rs |-> << <<">", 1, 2>> >>])
         @@ ("in02f" :> [base |-> "float", join |-> "and", rs |-> << <<">=", 0, 1>>, <<"<=", 2, 1>> >>])
         @@ ("out01i" :> [base |-> "int", join |-> "or", rs |-> << <<"<", 0, 1>>, <<">", 1, 1>> >>])
Cmp(op, a, b) == LET l == a[1] * b[2]  r == b[1] * a[2]                                  \* a, b: <<num, den>>, den > 0
                 IN CASE op = ">" -> l > r [] op = ">=" -> l >= r [] op = "<" -> l < r [] op = "<=" -> l <= r [] op = "==" -> l = r [] op = "!=" -> l # r
\* validation_fn:159-167 then cls._type(v):  bool is refused, a float that is not integral is refused for an int base,
\* a string goes through int() / float(); the result is a value of the base type
RNumCast(df, x) ==
  IF x.k = "int" THEN (IF df.base = "int" THEN x ELSE FloatV(x.v, 1))
  ELSE IF x.k = "float" THEN (IF df.base = "float" THEN x ELSE IF x.v[2] = 1 THEN IntV(x.v[1]) ELSE FailV)
  ELSE IF x.k = "str" /\ df.base = "int" /\ x.v \in DOMAIN PyIntTbl THEN IntV(PyIntTbl[x.v])
  ELSE IF x.k = "str" /\ df.base = "float" /\ x.v \in DOMAIN PyFloatTbl THEN FloatV(PyFloatTbl[x.v][1], PyFloatTbl[x.v][2])
  ELSE FailV                                                                             \* bool, None, containers, other texts
RNumHolds(df, y) == LET cs == {Cmp(df.rs[i][1], NumOf(y), <<df.rs[i][2], df.rs[i][3]>>) : i \in 1..Len(df.rs)}
                    IN IF df.join = "and" THEN cs = {TRUE} ELSE TRUE \in cs
RNumOk(df, x) == RNumCast(df, x) # FailV /\ RNumHolds(df, RNumCast(df, x))

\* Registered types:385-468.  ser: value code -> what the serializer writes (a text; a float for Decimal);
\* txt: text -> value code, every spelling the deserializer reads; num: the non-str values the constructor takes;
\* bad: texts it refuses (candidates of the instance).  Codes: timedelta in microseconds, range "start,stop,step",
\* Decimal "num/den", complex "re,im" as fractions, bytes in hex.
TdH1 == "3600000000"  TdH25 == "90000000000"  TdD1 == "86400000000"  TdD2 == "172800000000"  TdHM1 == "-3600000000"  TdHalf == "500000"
UU == "12345678-1234-5678-1234-567812345678"
RegDefs ==
     ("timedelta" :> [ser |-> (TdH1 :> StrV("1:00:00")) @@ (TdH25 :> StrV("1 day, 1:00:00")) @@ (TdD1 :> StrV("1 day, 0:00:00")) @@ (TdD2 :> StrV("2 days, 0:00:00"))
                              @@ (TdHM1 :> StrV("-1 day, 23:00:00")) @@ (TdHalf :> StrV("0:00:00.500000")),
                      txt |-> ("1:00:00" :> TdH1) @@ ("01:00:00" :> TdH1) @@ ("25:00:00" :> TdH25) @@ ("24:00:00" :> TdD1) @@ ("1 day, 1:00:00" :> TdH25)
                              @@ ("1 days, 1:00:00" :> TdH25) @@ ("1 day, 0:00:00" :> TdD1) @@ ("2 days, 0:00:00" :> TdD2) @@ ("-1 day, 23:00:00" :> TdHM1)
                              @@ ("0:00:00.5" :> TdHalf) @@ ("0:00:00.500000" :> TdHalf),
                      num |-> << >>, bad |-> {"1:00", "1 day", "abc", "1"}])
  @@ ("range" :> [ser |-> ("0,5,1" :> StrV("range(5)")) @@ ("0,10,2" :> StrV("range(0, 10, 2)")) @@ ("1,5,1" :> StrV("range(1, 5)")) @@ ("0,0,1" :> StrV("range(0)"))
                          @@ ("5,0,-1" :> StrV("range(5, 0, -1)")),
                  txt |-> ("range(5)" :> "0,5,1") @@ ("range(0, 5)" :> "0,5,1") @@ ("range(0, 5, 1)" :> "0,5,1") @@ ("range(0, 10, 2)" :> "0,10,2")
                          @@ ("range(0,10,2)" :> "0,10,2") @@ ("range(1, 5)" :> "1,5,1") @@ ("range(1,5)" :> "1,5,1") @@ ("range(0)" :> "0,0,1") @@ ("range(5, 0, -1)" :> "5,0,-1"),
                  num |-> << >>, bad |-> {"5", "range(1, 2, 3, 4)", "range(a)", "abc"}])
  @@ ("decimal" :> [ser |-> ("0/1" :> FloatV(0, 1)) @@ ("1/2" :> FloatV(1, 2)) @@ ("1/1" :> FloatV(1, 1)) @@ ("2/1" :> FloatV(2, 1)) @@ ("3/2" :> FloatV(3, 2)) @@ ("1000/1" :> FloatV(1000, 1)) @@ ("-1/2" :> FloatV(-1, 2)),
                    txt |-> ("0" :> "0/1") @@ ("0.5" :> "1/2") @@ ("1" :> "1/1") @@ ("1.0" :> "1/1") @@ (" 1 " :> "1/1") @@ ("2" :> "2/1") @@ ("1.5" :> "3/2") @@ ("1_000" :> "1000/1") @@ ("1e3" :> "1000/1") @@ ("-0.5" :> "-1/2"),
                    num |-> (IntV(0) :> "0/1") @@ (BoolV(FALSE) :> "0/1") @@ (FloatV(0, 1) :> "0/1") @@ (IntV(1) :> "1/1") @@ (IntV(2) :> "2/1") @@ (BoolV(TRUE) :> "1/1") @@ (FloatV(1, 2) :> "1/2") @@ (FloatV(1, 1) :> "1/1") @@ (FloatV(2, 1) :> "2/1")
                            @@ (FloatV(3, 2) :> "3/2") @@ (FloatV(1000, 1) :> "1000/1") @@ (FloatV(-1, 2) :> "-1/2"),
                    bad |-> {"abc", "0x10", "true"}])
  @@ ("complex" :> [ser |-> ("0/1,0/1" :> StrV("0j")) @@ ("2/1,0/1" :> StrV("(2+0j)")) @@ ("1/1,2/1" :> StrV("(1+2j)")) @@ ("0/1,1/1" :> StrV("1j")) @@ ("1/1,0/1" :> StrV("(1+0j)")) @@ ("3/2,0/1" :> StrV("(1.5+0j)")),
                    txt |-> ("0j" :> "0/1,0/1") @@ ("0" :> "0/1,0/1") @@ ("(2+0j)" :> "2/1,0/1") @@ ("2" :> "2/1,0/1") @@ ("1+2j" :> "1/1,2/1") @@ ("(1+2j)" :> "1/1,2/1") @@ ("1j" :> "0/1,1/1") @@ ("1" :> "1/1,0/1") @@ ("(1+0j)" :> "1/1,0/1") @@ ("1.5" :> "3/2,0/1") @@ ("(1.5+0j)" :> "3/2,0/1"),
                    num |-> (IntV(0) :> "0/1,0/1") @@ (BoolV(FALSE) :> "0/1,0/1") @@ (IntV(1) :> "1/1,0/1") @@ (BoolV(TRUE) :> "1/1,0/1") @@ (IntV(2) :> "2/1,0/1")
                            @@ (FloatV(2, 1) :> "2/1,0/1") @@ (FloatV(3, 2) :> "3/2,0/1") @@ (FloatV(1, 1) :> "1/1,0/1"),
                    bad |-> {"1 + 2j", "abc"}])
  @@ ("uuid" :> [ser |-> (UU :> StrV(UU)), txt |-> (UU :> UU) @@ ("{" \o UU \o "}" :> UU) @@ ("urn:uuid:" \o UU :> UU), num |-> << >>, bad |-> {"abc", "1234"}])
  @@ ("bytes" :> [ser |-> ("" :> StrV("")) @@ ("6162" :> StrV("YWI=")) @@ ("ff00" :> StrV("/wA=")) @@ ("61" :> StrV("YQ==")),
                  txt |-> ("" :> "") @@ ("YWI=" :> "6162") @@ ("/wA=" :> "ff00") @@ ("YQ==" :> "61"), num |-> << >>, bad |-> {"YWI", "a", "1"}])
\* str(x) / int(x) / float(x) of Python, as the serializers of these types apply them to WHATEVER they are given
\* (adapt_typehints:802-803 does not look at the value first): None if the call raises
Abs(n) == IF n < 0 THEN -n ELSE n
AnyStrV == [k |-> "anystr", v |-> 0]         \* a text that the model does not spell out (only ever inside a serialised tree)
PyStr(x) == CASE IsStr(x) -> x [] x.k = "int" -> StrV(ToString(x.v)) [] x.k = "bool" -> StrV(IF x.v THEN "True" ELSE "False")
              [] x.k = "none" -> StrV("None")
              [] x.k = "float" /\ x.v[2] = 1 -> StrV(ToString(x.v[1]) \o ".0")            \* repr of a float that is a whole number (below 1e16)
              [] x.k = "float" /\ x.v[2] = 2 -> StrV((IF x.v[1] < 0 THEN "-" ELSE "") \o ToString(Abs(x.v[1]) \div 2) \o ".5")
              [] x.k = "enum" -> StrV(x.v[1] \o "." \o x.v[2])                              \* str(E.A) = 'E.A'
              [] x.k = "reg" /\ x.v[1] \in {"timedelta", "uuid", "complex"} -> RegDefs[x.v[1]].ser[x.v[2]]   \* (their serializer is str)
              [] OTHER -> AnyStrV                                                          \* repr of a container, of a range ...: SOME text
PyNum(base, x) == IF x.k = "int" THEN (IF base = "int" THEN x ELSE FloatV(x.v, 1))
                  ELSE IF x.k = "bool" THEN (IF base = "int" THEN IntV(IF x.v THEN 1 ELSE 0) ELSE FloatV(IF x.v THEN 1 ELSE 0, 1))
                  ELSE IF x.k = "float" THEN (IF base = "float" THEN x ELSE IntV(Trunc(x.v[1], x.v[2])))
                  ELSE IF IsStr(x) /\ base = "int" /\ x.v \in DOMAIN PyIntTbl THEN IntV(PyIntTbl[x.v])
                  ELSE IF IsStr(x) /\ base = "float" /\ x.v \in DOMAIN PyFloatTbl THEN FloatV(PyFloatTbl[x.v][1], PyFloatTbl[x.v][2])
                  ELSE FailV
RegNames == DOMAIN RegDefs
RegValues(n) == {RegV(n, c) : c \in DOMAIN RegDefs[n].ser}
\* what the deserializer makes of x (a value code), or "" \o FailV ...: the value itself when it already is one
RegRead(n, x) == IF x.k = "reg" /\ x.v[1] = n THEN x
                 ELSE IF IsStr(x) /\ x.v \in DOMAIN RegDefs[n].txt THEN RegV(n, RegDefs[n].txt[x.v])
                 ELSE IF x \in DOMAIN RegDefs[n].num THEN RegV(n, RegDefs[n].num[x])
                 ELSE FailV
RegWrite(n, x) == RegDefs[n].ser[x.v[2]]
\* The parser accepts its own dump: whatever a serializer writes is read back as the value it was written for
\* (C20 / C10 for these types; checked by TLC when the module is loaded)
ASSUME IterTblComplete == \A n \in DOMAIN IterTbl : DOMAIN IterTbl[n] = DOMAIN RegDefs[n].ser
ASSUME RegSelfConsistent == \A n \in RegNames : \A y \in RegValues(n) : RegRead(n, RegWrite(n, y)) = y

(***************************************************************************)
(* Ref layer                                                               *)
(***************************************************************************)
LitMembers(t) == Range(t.v)
ElemT(t, n) == IF t.k = "tuple" THEN t.v[n] ELSE t.v[1]
\* a key of a Dict[kt, ...]
KeyAcc(kt, key) == IF kt.k = "int" THEN key.k = "int" \/ (key.k = "str" /\ key.v \in DOMAIN PyIntTbl)
                   ELSE IF kt.k = "str" THEN key.k = "str" ELSE TRUE
KeyRes(kt, key) == IF kt.k = "int" THEN IntCast(key) ELSE key

\* Acc(t, x): the input x (as found INSIDE a structure: no whole-text loading) is acceptable for t.
\* Res(t, x): the normal forms a conforming implementation may return for it.
RECURSIVE Acc(_, _), Res(_, _)
\* the mapping that the pairs denote once the keys are normalised: of two pairs with the same key the later one counts
RECURSIVE PairFold(_, _, _, _)
PairFold(kt, ps, i, acc) == IF i > Len(ps) THEN acc ELSE PairFold(kt, ps, i + 1, PutPair(acc, KeyRes(kt, ps[i][1]), ps[i][2]))
FoldKeys(kt, ps) == PairFold(kt, ps, 1, << >>)
LeafRead(c, x) == IF IsStr(x) /\ c # "str" THEN LeafLoad(x.v) ELSE x       \* strings are read as YAML scalars for the
\* a TYPED OBJECT of a subclass of int / str is judged by isinstance alone (it is not text: nothing is read from it):
\* accepted where its base class is declared; an int instance is accepted for float (and becomes one); never for bool
SubLeafAcc(c, x) == (c = "str" /\ Base(x).k = "str") \/ (c \in {"int", "float"} /\ Base(x).k = "int")
LeafAcc(c, x) ==                                                          \* non-str leaf types (also inside objects)
  IF x.k = "sub" THEN SubLeafAcc(c, x) ELSE
  CASE c = "str"   -> x.k = "str"
    [] c = "int"   -> LeafRead(c, x).k = "int"
    [] c = "float" -> LeafRead(c, x).k \in {"int", "float"}
    [] c = "bool"  -> LeafRead(c, x).k = "bool"
    [] c = "none"  -> LeafRead(c, x).k = "none"
\* (the documentation does not say whether an instance of a subclass is kept or cast to the declared class: both conform)
LeafRes(c, x) == IF x.k = "sub" THEN (IF c = "float" THEN {FloatV(Base(x).v, 1)} ELSE {x, Base(x)})
                 ELSE LET y == LeafRead(c, x) IN IF c = "float" /\ y.k = "int" THEN {FloatV(y.v, 1)} ELSE {y}
\* a string is a literal if it is one, or if it reads as a non-string literal member
LitRead(t, x) == IF IsStr(x) /\ x \notin LitMembers(t) THEN LeafLoad(x.v) ELSE x
Acc(t, x) ==
  CASE t.k = "any"       -> TRUE
    [] t.k \in LeafKinds -> LeafAcc(t.k, x)
    [] t.k = "path"      -> x.k = "path" \/ (IsStr(x) /\ x.v \in ExistingFiles)
    [] t.k = "rstr"      -> IsStr(x) /\ x.v \in RStrDefs[DefName(t)].m               \* the pattern matches at position 0
    [] t.k = "rnum"      -> RNumOk(RNumDefs[DefName(t)], x)                          \* converts to the base type and the comparisons hold
    [] t.k = "reg"       -> RegRead(DefName(t), x) # FailV
    [] t.k = "literal"   -> LitRead(t, x) \in LitMembers(t) /\ (LitRead(t, x) # x => LitRead(t, x).k # "str")
    [] t.k = "enum"      -> (x.k = "enum" /\ x.v[1] = EnumCls(t)) \/ (x.k = "str" /\ x.v \in EnumMembers(EnumCls(t)))
    [] t.k = "union"     -> \E i \in 1..Len(t.v) : Acc(t.v[i], x)
    [] t.k \in {"list", "tupleE"} -> (IF t.k = "list" THEN IsListable(x) ELSE IsSeqLike(x)) /\ (Len(t.v) = 0 \/ \A e \in Range(AsSeq(x)) : Acc(t.v[1], e))
    [] t.k = "set"       -> IsSeqLike(x) /\ \A e \in Range(AsSeq(x)) : Acc(t.v[1], e) /\ \E r \in Res(t.v[1], e) : Hashable(r)
    [] t.k = "tuple"     -> IsSeqLike(x) /\ Len(AsSeq(x)) = Len(t.v) /\ \A n \in 1..Len(t.v) : Acc(t.v[n], AsSeq(x)[n])
    [] t.k = "dict"      -> x.k = "dict" /\ (Len(t.v) = 0 \/ (/\ \A p \in Range(x.v) : KeyAcc(t.v[1], p[1])
                                                            /\ \A p \in Range(FoldKeys(t.v[1], x.v)) : Acc(t.v[2], p[2])))
SeqChoices(t, s) == SeqProd([n \in 1..Len(s) |-> Res(ElemT(t, n), s[n])])
\* the sets a list of (possibly ==-equal) elements may collapse to
SetsOf(s) == {R \in SUBSET Range(s) : (\A e \in Range(s) : \E r \in R : PyEq(e, r)) /\ (\A r1, r2 \in R : r1 # r2 => ~PyEq(r1, r2))}
Res(t, x) ==
  IF ~Acc(t, x) THEN {}
  ELSE CASE t.k = "any"       -> IF IsStr(x) THEN {LoadSimple(x.v)} ELSE {x}          \* a string is read as what it spells
         [] t.k \in LeafKinds -> LeafRes(t.k, x)
         [] t.k = "path"      -> IF IsStr(x) THEN {PathV(x.v)} ELSE {x}
         [] t.k = "rstr"      -> {x}
         [] t.k = "rnum"      -> {RNumCast(RNumDefs[DefName(t)], x)}
         [] t.k = "reg"       -> {RegRead(DefName(t), x)}
         [] t.k = "literal"   -> {LitRead(t, x)}
         [] t.k = "enum"      -> IF x.k = "enum" THEN {x} ELSE {EnumV(EnumCls(t), x.v)}
         [] t.k = "union"     -> UNION {Res(t.v[i], x) : i \in 1..Len(t.v)}
         [] t.k = "list"      -> IF Len(t.v) = 0 THEN {ListV(AsSeq(x))} ELSE {ListV(c) : c \in SeqChoices(t, AsSeq(x))}
         [] t.k \in {"tupleE", "tuple"} -> {TupleV(c) : c \in SeqChoices(t, AsSeq(x))}
         [] t.k = "set"       -> UNION {{SetV(R) : R \in SetsOf(c)} : c \in {c \in SeqChoices(t, AsSeq(x)) : \A r \in Range(c) : Hashable(r)}}
         [] t.k = "dict"      -> IF Len(t.v) = 0 THEN {x}
                                 ELSE LET f == FoldKeys(t.v[1], x.v)
                                      IN {DictV([n \in 1..Len(f) |-> <<f[n][1], c[n]>>]) : c \in SeqProd([n \in 1..Len(f) |-> Res(t.v[2], f[n][2])])}

\* v is a normalised value of type t: right kind at every level, arity, membership
RECURSIVE Conforms(_, _)
Conforms(t, x) ==
  CASE t.k = "any"       -> ~IsStr(x) \/ LoadSimple(x.v) = x                 \* a string that spells something else is not normalised
    [] t.k \in LeafKinds -> x.k = t.k \/ (x.k = "sub" /\ Base(x).k = t.k)       \* isinstance: an instance of a subclass conforms
    [] t.k = "path"      -> x.k = "path"
    [] t.k = "rstr"      -> IsStr(x) /\ x.v \in RStrDefs[DefName(t)].m
    [] t.k = "rnum"      -> x.k = RNumDefs[DefName(t)].base /\ RNumHolds(RNumDefs[DefName(t)], x)
    [] t.k = "reg"       -> x.k = "reg" /\ x.v[1] = DefName(t)
    [] t.k = "literal"   -> x \in LitMembers(t)
    [] t.k = "enum"      -> x.k = "enum" /\ x.v[1] = EnumCls(t) /\ x.v[2] \in EnumMembers(EnumCls(t))
    [] t.k = "union"     -> \E i \in 1..Len(t.v) : Conforms(t.v[i], x)
    [] t.k = "list"      -> x.k = "list" /\ (Len(t.v) = 0 \/ \A e \in Range(x.v) : Conforms(t.v[1], e))
    [] t.k = "tupleE"    -> x.k = "tuple" /\ \A e \in Range(x.v) : Conforms(t.v[1], e)
    [] t.k = "tuple"     -> x.k = "tuple" /\ Len(x.v) = Len(t.v) /\ \A n \in 1..Len(t.v) : Conforms(t.v[n], x.v[n])
    [] t.k = "set"       -> x.k = "set" /\ \A e \in x.v : Conforms(t.v[1], e) /\ Hashable(e)
    [] t.k = "dict"      -> x.k = "dict" /\ (Len(t.v) = 0 \/ \A p \in Range(x.v) : Conforms(t.v[1], p[1]) /\ Conforms(t.v[2], p[2]))

\* A whole argument: None is never validated; a string is tried as what it reads as (null, list, dict) and,
\* for str targets, as the original text.
Accepts(t, x)    == x = NoneV \/ Acc(t, IF IsStr(x) THEN LoadTop(x.v) ELSE x) \/ (IsStr(x) /\ Acc(t, x))
TopResults(t, x) == IF x = NoneV THEN {NoneV}
                    ELSE Res(t, IF IsStr(x) THEN LoadTop(x.v) ELSE x) \cup (IF IsStr(x) THEN Res(t, x) ELSE {})
ConformsTop(t, x) == x = NoneV \/ Conforms(t, x)

\* every arrangement of the members of every Union inside t
PermSeqs(s) == {[i \in 1..Len(s) |-> s[p[i]]] : p \in Permutations(1..Len(s))}
RECURSIVE AllPerms(_)
AllPerms(t) ==
  IF t.k \in {"list", "set", "tupleE", "tuple", "dict", "union"} /\ Len(t.v) > 0
  THEN LET inner == SeqProd([i \in 1..Len(t.v) |-> AllPerms(t.v[i])])
       IN IF t.k = "union" THEN UNION {{[k |-> "union", v |-> q] : q \in PermSeqs(s)} : s \in inner}
          ELSE {[k |-> t.k, v |-> s] : s \in inner}
  ELSE {t}

(***************************************************************************)
(* Alg layer                                                               *)
(***************************************************************************)
\* ok: returned / raised;  v: the returned value;  dev: named deviations;  m: the given object after the call
Ok(val, dev, m) == [ok |-> TRUE, v |-> val, dev |-> dev, m |-> m]
Er(dev, m)      == [ok |-> FALSE, v |-> NoneV, dev |-> dev, m |-> m]

\* sort_subtypes_for_union:1477-1489 (append=False): a stable sort; NoneType first, and for a str value the
\* sequence / mapping members (List, Dict -- not Tuple, Set) before the others
IsSeqOrMapT(t) == t.k \in {"list", "dict"}
SortUnion(ts, val) ==
  IF IsStrLike(val)                                                                      \* isinstance(val, str)
  THEN SelectSeq(ts, LAMBDA mb : mb.k = "none") \o SelectSeq(ts, LAMBDA mb : mb.k # "none" /\ IsSeqOrMapT(mb))
       \o SelectSeq(ts, LAMBDA mb : mb.k # "none" /\ ~IsSeqOrMapT(mb))
  ELSE SelectSeq(ts, LAMBDA mb : mb.k = "none") \o SelectSeq(ts, LAMBDA mb : mb.k # "none")

\* Literal :772-777: the types of the non-str members, as a Union (the order of a Python set of types is not
\* fixed; at most one of these leaf types accepts a given text, so the order does not matter)
RECURSIVE LitKindSeq(_, _, _)
LitKindSeq(ms, i, acc) == IF i > Len(ms) THEN acc
                          ELSE LitKindSeq(ms, i + 1, IF ms[i].k = "str" \/ LeafT(ms[i].k) \in Range(acc) THEN acc
                                                     ELSE Append(acc, LeafT(ms[i].k)))
IsInstance(c, x) == IF c = "int" THEN x.k \in {"int", "bool"} ELSE x.k = c      \* bool is a subclass of int

\* for n, v in enumerate(val): val[n] = adapt(v, ...) over the sequence s.  rs[n]: the result for s[n];
\* inplace: val is the list itself (else a copy made by list(val)).  The state of the ORIGINAL elements after
\* the loop stopped at the first failure f (0: none): converted before f (only when in place), as the failing
\* call left it at f, untouched after f.
FirstFail(rs, len) == IF \E n \in 1..len : ~rs[n].ok THEN Min({n \in 1..len : ~rs[n].ok}) ELSE 0
ElemsAfter(s, rs, inplace) ==
  LET f == FirstFail(rs, Len(s))
  IN [n \in 1..Len(s) |-> IF f # 0 /\ n > f THEN s[n] ELSE IF f = n \/ ~inplace THEN rs[n].m ELSE rs[n].v]
\* list(val) of a set with two or more members: Python does not say in which order (only matters where the
\* order stays visible: List, Tuple)
Listing(t, val) == IF t.k # "set" /\ val.k = "set" /\ Cardinality(val.v) > 1 THEN {"setListing"} ELSE {}
\* the deviations met before the loop stopped (f = 0: all of them)
DevsOf(rs, len) == LET f == FirstFail(rs, len) IN UNION {rs[n].dev : n \in {n \in 1..len : f = 0 \/ n <= f}}
Rebuild(val, elems) == IF val.k \in {"list", "tuple"} THEN [k |-> val.k, v |-> elems] ELSE val      \* members of a set cannot change

RECURSIVE AlgAdapt(_, _, _, _, _), AlgUnionLoop(_, _, _, _, _, _, _)
\* adapt_typehints:731-1105.  val: the value; orig: orig_val of _check_type; top: val is the whole argument;
\* ser: serialize=True (the same function writes the config representation for dump)
AlgAdapt(t, val, orig, top, ser) ==
  CASE t.k = "any" ->                                                                    \* :762-769
         IF val.k = "enum" THEN Ok(IF ser THEN StrV(val.v[2]) ELSE val, {}, val)         \* adapt(val, type(val)): the Enum branch
         ELSE IF val.k = "path" THEN Ok(IF ser THEN StrV(val.v) ELSE val, {}, val)       \* ... a registered type
         ELSE IF val.k = "reg" THEN Ok(IF ser THEN RegWrite(val.v[1], val) ELSE val, {}, val)
         ELSE IF IsStr(val) THEN Ok(LoadSimple(val.v), {}, val) ELSE Ok(val, {}, val)    \* what is INSIDE a container is left alone
    [] t.k = "literal" ->                                                                \* :772-777
         LET mem(x) == \E i \in 1..Len(t.v) : PyEq(x, t.v[i])                            \* `val in subtypehints` uses ==
             kinds  == LitKindSeq(t.v, 1, << >>)
             r1 == IF ~mem(val) /\ IsStr(val)
                   THEN IF Len(kinds) = 0 THEN Er({}, val)                               \* Union[()] raises TypeError
                        ELSE IF Len(kinds) = 1 THEN AlgAdapt(kinds[1], val, orig, top, ser)
                        ELSE AlgAdapt(UnionT(kinds), val, orig, top, ser)
                   ELSE Ok(val, {}, val)
         IN IF ~r1.ok THEN r1
            ELSE IF mem(r1.v) THEN Ok(r1.v, r1.dev \cup (IF r1.v \in LitMembers(t) THEN {} ELSE {"litEq"}), val)
            ELSE Er(r1.dev, val)
    [] t.k \in LeafKinds /\ val.k = "sub" ->                                             \* :780-787 for an instance of a subclass of int / str
         \* :781-783 isinstance(val, str) and typehint is not str: yaml.load of a str SUBCLASS raises TypeError ("a string or
         \* stream input is required"), which is not a loader exception and leaves adapt_typehints (caught by a Union loop,
         \* or by _check_type:603);  :784-785 float(val) of an int instance;  :789 isinstance(val, typehint) -- kept as it is
         IF Base(val).k = "str" /\ t.k # "str" THEN Er({}, val)
         ELSE IF t.k = "float" /\ Base(val).k = "int" THEN Ok(FloatV(Base(val).v, 1), {}, val)
         ELSE IF IsInstance(t.k, Base(val)) THEN Ok(val, {}, val)
         ELSE Er({}, val)
    [] t.k \in LeafKinds /\ val.k # "sub" ->                                             \* :780-787
         LET v1 == IF IsStr(val) /\ t.k # "str" THEN LeafLoad(val.v) ELSE val             \* also when serialising
             v2 == IF t.k = "float" /\ v1.k = "int" THEN FloatV(v1.v, 1) ELSE v1         \* isinstance(val, int) and not bool
         IN IF ~IsInstance(t.k, v2) \/ (t.k \in {"int", "float"} /\ v2.k = "bool") THEN Er({}, val)
            ELSE Ok(v2, IF ser /\ IsStr(val) /\ t.k # "str" THEN {"serLenient"} ELSE {}, val)
    [] t.k = "rstr" ->                                                                   \* :800-805 + extend_base_type.__new__:92-94
         IF ser THEN Ok(PyStr(val), IF IsStr(val) THEN {} ELSE {"serLenient"}, val)       \* serializer = str, of anything
         ELSE IF IsStr(val) /\ val.v \in RStrDefs[DefName(t)].m THEN Ok(val, {}, val)    \* cls._regex.match(v)
         ELSE Er({}, val)
    [] t.k = "rnum" ->                                                                   \* :800-805 + validation_fn:159-167
         IF ser THEN (IF PyNum(RNumDefs[DefName(t)].base, val) = FailV THEN Er({}, val)   \* serializer = int / float, of anything
                      ELSE Ok(PyNum(RNumDefs[DefName(t)].base, val), IF val.k = RNumDefs[DefName(t)].base THEN {} ELSE {"serLenient"}, val))
         ELSE IF RNumOk(RNumDefs[DefName(t)], val) THEN Ok(RNumCast(RNumDefs[DefName(t)], val), {}, val)
         ELSE Er({}, val)
    [] t.k = "reg" ->                                                                    \* :800-805 with the (de)serializers of typing.py:385-468
         IF ser THEN (IF val.k = "reg" /\ val.v[1] = DefName(t) THEN Ok(RegWrite(DefName(t), val), {}, val)
                      ELSE IF DefName(t) \in {"timedelta", "uuid", "complex"} THEN Ok(PyStr(val), {"serLenient"}, val)         \* serializer = str
                      ELSE IF DefName(t) = "decimal" /\ PyNum("float", val) # FailV THEN Ok(PyNum("float", val), {"serLenient"}, val)  \* float
                      ELSE Er({}, val))                                                            \* range_serializer / b64encode raise
         ELSE IF RegRead(DefName(t), val) # FailV THEN Ok(RegRead(DefName(t), val), {}, val)       \* is_value_of_type, else the deserializer
         ELSE Er({}, val)
    [] t.k = "path" ->                                                                   \* :800-805 registered type Path_fr
         IF ser THEN Ok(IF val.k = "path" THEN StrV(val.v) ELSE val, {}, val)            \* serializer = str
         ELSE IF val.k = "path" THEN Ok(val, {}, val)                                    \* is_value_of_type: kept as it is
         ELSE IF IsStr(val) /\ val.v \in ExistingFiles THEN Ok(PathV(val.v), {}, val)    \* Path(val, mode="fr")
         ELSE Er({}, val)
    [] t.k = "enum" ->                                                                   \* :808-818 (by member NAME)
         IF ser THEN (IF val.k = "enum" /\ val.v[1] = EnumCls(t) THEN Ok(StrV(val.v[2]), {}, val)
                      ELSE Ok(val, {}, val))          \* :809-811  anything else is returned as it is -- never raises
         ELSE IF val.k = "enum" /\ val.v[1] = EnumCls(t) THEN Ok(val, {}, val)
         ELSE IF val.k = "str" /\ val.v \in EnumMembers(EnumCls(t)) THEN Ok(EnumV(EnumCls(t), val.v), {}, val)
         ELSE Er({}, val)
    [] t.k = "union" ->                                                                  \* :833-847
         AlgUnionLoop(SortUnion(t.v, val), 1, val, orig, top, ser, [good |-> FALSE, dev |-> {}])
    [] t.k \in {"tuple", "tupleE", "set"} ->                                             \* :850-863
         IF ~IsSeqLike(val) THEN Er({}, val)
         ELSE LET s == AsSeq(val) IN                                                     \* val = list(val): always a copy
              IF t.k = "tuple" /\ Len(s) # Len(t.v) THEN Er({}, val)
              ELSE LET rs == [n \in 1..Len(s) |-> AlgAdapt(ElemT(t, n), s[n], orig, FALSE, ser)]
                       vs == [n \in 1..Len(s) |-> rs[n].v]
                       dv == DevsOf(rs, Len(s)) \cup Listing(t, val)
                       mm == Rebuild(val, ElemsAfter(s, rs, FALSE))
                   IN IF FirstFail(rs, Len(s)) # 0 THEN Er(dv, mm)
                      ELSE IF ser                                                        \* :862 `if not serialize`: stays a list;
                           THEN (IF t.k = "set"                                          \* distinct members may be written alike
                                 THEN Ok(BagV(BagOf(vs)), dv \cup (IF Cardinality(Range(vs)) < Len(vs) THEN {"serCollision"} ELSE {}), mm)
                                 ELSE Ok(ListV(vs), dv, mm))
                      ELSE IF t.k = "set" THEN (IF \E n \in 1..Len(s) : ~Hashable(vs[n]) THEN Er(dv, mm)   \* set(val): TypeError
                                                ELSE Ok(SetV(KeepFirst(vs, 1, {})), dv, mm))
                      ELSE Ok(TupleV(vs), dv, mm)
    [] t.k = "list" ->                                                                   \* :866-899 (append=False, no path)
         IF ~IsListable(val) THEN Er({}, val)                                            \* dict / str / scalars are refused
         ELSE LET s == AsSeq(val)                                                        \* a tuple / set is copied (:888-889),
                  inplace == val.k = "list"                                              \* a list is converted IN PLACE (:899)
              IN IF Len(t.v) = 0 THEN Ok(ListV(s), Listing(t, val), val)
                 ELSE LET rs == [n \in 1..Len(s) |-> AlgAdapt(t.v[1], s[n], orig, FALSE, ser)]
                          mm == Rebuild(val, ElemsAfter(s, rs, inplace))
                      IN IF FirstFail(rs, Len(s)) # 0 THEN Er(DevsOf(rs, Len(s)) \cup Listing(t, val), mm)
                         ELSE Ok(ListV([n \in 1..Len(s) |-> rs[n].v]), DevsOf(rs, Len(s)) \cup Listing(t, val), mm)
    [] t.k = "dict" ->                                                                   \* :902-934
         IF val.k # "dict" THEN Er({}, val)
         ELSE IF Len(t.v) = 0 THEN Ok(val, {}, val)
         ELSE LET kt == t.v[1]
                  ps == val.v
                  kd == IF ser THEN (IF kt.k = "int" /\ \E n \in 1..Len(ps) : ps[n][1].k # "int" THEN {"serLenient"} ELSE {})   \* str(k) never fails
                        ELSE IF \E n \in 1..Len(ps) : ~KeyAcc(kt, ps[n][1]) THEN {"dictKey"} ELSE {}
              IN IF kt.k = "int"
                 THEN IF \E n \in 1..Len(ps) : CastKey(ps[n][1], ser) = FailV THEN Er({}, val)     \* int(k) raises
                      ELSE LET np == CastFold(ps, 1, << >>, ser)                                   \* a NEW dict: {cast(k): v ...}
                               rs == [n \in 1..Len(np) |-> AlgAdapt(t.v[2], np[n][2], orig, FALSE, ser)]
                               f  == FirstFail(rs, Len(np))
                               \* the original dict keeps its slots; the values themselves may have been converted inside
                               mm == DictV([j \in 1..Len(ps) |->
                                        IF \E n \in 1..Len(np) : np[n][3] = j /\ (f = 0 \/ n <= f)
                                        THEN <<ps[j][1], rs[CHOOSE n \in 1..Len(np) : np[n][3] = j].m>> ELSE ps[j]])
                           IN IF f # 0 THEN Er(kd \cup DevsOf(rs, Len(np)), mm)
                              ELSE Ok(DictV([n \in 1..Len(np) |-> <<np[n][1], rs[n].v>>]), kd \cup DevsOf(rs, Len(np)), mm)
                 ELSE LET rs == [n \in 1..Len(ps) |-> AlgAdapt(t.v[2], ps[n][2], orig, FALSE, ser)]     \* val[k] = ... IN PLACE
                          vals == ElemsAfter([n \in 1..Len(ps) |-> ps[n][2]], rs, TRUE)
                          mm == DictV([n \in 1..Len(ps) |-> <<ps[n][1], vals[n]>>])
                      IN IF FirstFail(rs, Len(ps)) # 0 THEN Er(kd \cup DevsOf(rs, Len(ps)), mm)
                         ELSE Ok(DictV([n \in 1..Len(ps) |-> <<ps[n][1], rs[n].v>>]), kd \cup DevsOf(rs, Len(ps)), mm)

\* the trial loop :836-850.  st.good = not all(isinstance(v, Exception) for v in vals): the only entries of vals that are
\* not exceptions and do not end the loop are the orig_val fall-backs of the str member, so when no member accepts the
\* value is [v for v in vals if not isinstance(v, Exception)][-1] = orig_val (:850, /repo 00430dc; before that commit it
\* was vals[-1], an exception object whenever a member failed after the fall-back -- the former deviation excLeak).
\* Every member is tried on the SAME object.
AlgUnionLoop(ts, i, val, orig, top, ser, st) ==
  IF i > Len(ts)
  THEN IF ~st.good THEN Er(st.dev, val)                                                  \* raise_union_unexpected_value
       ELSE Ok(orig, st.dev \cup (IF top THEN {} ELSE {"origNested"}), val)              \* the last attempt that is not an exception: the original text
  ELSE LET r  == AlgAdapt(ts[i], val, orig, top, ser)
           dv == st.dev \cup r.dev \cup (IF ~r.ok /\ r.m # val /\ i < Len(ts) THEN {"inPlace"} ELSE {})   \* the next member gets a changed object
           \* the first member that accepts wins, also when the value already is a normal form of a LATER member and
           \* this one changes it (a marker, not a deviation from Ref: Ref allows any member's normal form)
           fm == IF ~ser /\ r.ok /\ r.v # val /\ \E j \in (i + 1)..Len(ts) : Conforms(ts[j], val) THEN {"firstMatch"} ELSE {}
       IN IF r.ok THEN Ok(r.v, st.dev \cup r.dev \cup fm, r.m)                           \* vals.append(...); break
          ELSE IF ts[i].k = "str" /\ ~IsStr(val) /\ IsStr(orig)                          \* :841-843
               THEN AlgUnionLoop(ts, i + 1, r.m, orig, top, ser, [good |-> TRUE, dev |-> dv])
               ELSE AlgUnionLoop(ts, i + 1, r.m, orig, top, ser, [good |-> st.good, dev |-> dv])

\* ActionTypeHint._is_valid_string:613-617
ValidString(t, x) == IsStr(x) /\ (t.k = "str" \/ (t.k = "union" /\ StrT \in Range(t.v)))
\* ActionTypeHint._check_type:554-611 for one value.  dflt: the action's default (NoneV if none):
\* adapt_typehints:745-746 returns a scalar equal to the default unchecked, and only the retry with the original
\* STRING passes default=.  A FileV input (enable_path=True, _util.parse_value_or_config:136-149) is replaced by
\* what the file loads as; a dict remembers the file under "__path__", which is taken off before adapting (:566)
\* and put back afterwards (:599-602) -- also when a result that carries it is parsed again.
HasMeta(x) == x.k = "dict" /\ \E n \in 1..Len(x.v) : x.v[n][1] = MetaKey
MetaOf(x) == x.v[CHOOSE n \in 1..Len(x.v) : x.v[n][1] = MetaKey][2]
NoMeta(x) == IF HasMeta(x) THEN DictV(SelectSeq(x.v, LAMBDA p : p[1] # MetaKey)) ELSE x
AlgCheckType(t, x, dflt) ==
  LET orig   == IF x.k = "file" THEN StrV(x.v[1]) ELSE x                                 \* orig_val
      loaded0 == IF x.k = "file" THEN (IF x.v[2].k = "dict" THEN DictV(Append(x.v[2].v, <<MetaKey, PathV(x.v[1])>>)) ELSE x.v[2])
                 ELSE IF IsStr(x) THEN LoadTop(x.v) ELSE x                               \* parse_value_or_config :563
      loaded == NoMeta(loaded0)                                                          \* path_meta = val.pop("__path__") :566
      back(r) == IF r.ok /\ HasMeta(loaded0) /\ r.v.k = "dict" THEN Ok(DictV(Append(r.v.v, <<MetaKey, MetaOf(loaded0)>>)), r.dev, r.m) ELSE r
      r1 == AlgAdapt(t, loaded, orig, TRUE, FALSE)                                       \* :582
  IN IF r1.ok THEN back(r1)
     ELSE IF IsStr(orig)                                                                 \* :588-591 retry with orig_val
          THEN LET r2 == IF dflt # NoneV /\ PyEq(orig, dflt) THEN Ok(orig, {}, orig) ELSE AlgAdapt(t, orig, orig, TRUE, FALSE)
               IN IF r2.ok THEN r2
                  ELSE IF ValidString(t, loaded) THEN Ok(loaded, {}, orig) ELSE Er(r1.dev, orig)   \* :604-606
          ELSE Er(r1.dev, r1.m)

\* validate works on cfg.clone(): _namespace.recreate_branches copies Namespaces, dicts and lists but SHARES tuples
\* (and what is inside them), so what the validation pass converts in place below a tuple shows in the result.
\* v: the value before validation; m: the state in which validation left its clone
\* below a shared tuple: the tuple itself and its immutable members cannot change, a list / dict shows whatever was done
\* to it in place (m is what the clone holds in the same place afterwards -- the same object, or a new one of another kind)
RECURSIVE SharedMerge(_, _), Protect(_, _)
SharedMerge(v, m) ==
  IF v.k = "tuple" /\ m.k \in {"tuple", "list"} /\ Len(m.v) = Len(v.v) THEN TupleV([n \in 1..Len(v.v) |-> SharedMerge(v.v[n], m.v[n])])
  \* Dict[int, .] makes a NEW dict ({cast(k): v ...}, :918): the old one keeps its keys and its value OBJECTS
  ELSE IF v.k = "dict" /\ m.k = "dict" /\ Len(m.v) = Len(v.v) /\ (\E n \in 1..Len(v.v) : v.v[n][1] # m.v[n][1])
       THEN DictV([n \in 1..Len(v.v) |-> <<v.v[n][1], SharedMerge(v.v[n][2], m.v[n][2])>>])
  ELSE IF v.k \in {"list", "dict"} /\ m.k = v.k THEN m
  ELSE v
Protect(v, m) ==
  IF v.k = "list" /\ m.k = "list" /\ Len(m.v) = Len(v.v) THEN ListV([n \in 1..Len(v.v) |-> Protect(v.v[n], m.v[n])])
  ELSE IF v.k = "dict" /\ m.k = "dict" /\ Len(m.v) = Len(v.v) THEN DictV([n \in 1..Len(v.v) |-> <<v.v[n][1], Protect(v.v[n][2], m.v[n][2])>>])
  ELSE IF v.k = "tuple" THEN SharedMerge(v, m)
  ELSE v

\* One key through parse_object({key: x}) / parse_args(["--key=" + text]):
\*   _core._check_value_key:1421  None is not checked (lenient_check)
\*   _apply_actions / ActionTypeHint.__call__   first _check_type
\*   add_sub_defaults:463-473     str values are applied once more
\*   validate / check_values:1135-1140   every non-None value is checked again on a clone, the result is discarded
AlgParse(t, x, dflt) ==
  IF x = NoneV THEN Ok(NoneV, {}, x)
  ELSE LET r1 == AlgCheckType(t, x, dflt) IN
       IF ~r1.ok THEN r1
       ELSE LET r2 == IF IsStr(r1.v) THEN AlgCheckType(t, r1.v, dflt) ELSE r1 IN
            IF ~r2.ok THEN Er(r1.dev \cup r2.dev, r1.m)
            ELSE IF r2.v = NoneV THEN Ok(NoneV, r1.dev \cup r2.dev, r1.m)
            ELSE LET r3 == AlgCheckType(t, r2.v, dflt) IN
                 IF r3.ok THEN Ok(Protect(r2.v, r3.m), r1.dev \cup r2.dev \cup r3.dev \cup (IF Protect(r2.v, r3.m) # r2.v THEN {"validateLeak"} ELSE {}), r1.m)
                 ELSE Er(r1.dev \cup r2.dev \cup r3.dev, r1.m)

\* The key is NOT given and the argument has the default d.
\*   parse_object: _core.py:508  cfg = self._apply_actions(cfg) runs the defaults through _check_type -- the same passes
\*                 as for an object that is given;  a class-typed option gets its init_args from a nested parse_object.
\*   parse_args:   the defaults are taken as they are (get_defaults); only add_sub_defaults re-applies str values and
\*                 validate checks them.  A valid but non-canonical default (1 for float, a tuple for List) therefore
\*                 stays as it is: deviation rawDefault.
AlgParseAbsent(t, d, normalises) ==
  IF d = NoneV THEN Ok(NoneV, {}, d)
  ELSE IF normalises THEN AlgParse(t, d, d)
  ELSE LET r2 == IF IsStr(d) THEN AlgCheckType(t, d, d) ELSE Ok(d, {}, d) IN
       IF ~r2.ok THEN r2
       ELSE IF r2.v = NoneV THEN Ok(NoneV, r2.dev, d)
       ELSE LET r3 == AlgCheckType(t, r2.v, d) IN
            IF r3.ok THEN Ok(Protect(r2.v, r3.m), r2.dev \cup r3.dev \cup (IF r3.v # r2.v THEN {"rawDefault"} ELSE {}), d)
            ELSE Er(r2.dev \cup r3.dev, d)

\* adapt_typehints(..., serialize=True) as called by ActionTypeHint.serialize:497-519 (no orig_val): the config
\* representation that dump writes.
\* PlainFloatTexts: strings of the vocabulary that the yaml dumper writes WITHOUT quotes although the loader reads
\* them as floats.  On the pinned tree this was {"1e3"} (yaml.safe_dump, stock float pattern: the C01 finding, which
\* here broke dump o parse o dump); repaired by f3cd0b1 (get_yaml_default_dumper shares the loader's float pattern),
\* so the deviation yamlFloatStr is no longer exempted: the set is empty and '1e3' stays in the vocabulary.
PlainFloatTexts == {}
AlgSer(t, val) == AlgAdapt(t, val, NoneV, TRUE, TRUE)
\* what the dumpers make of the tree that serialisation produced
RECURSIVE Leaves(_)
Leaves(y) == CASE y.k \in {"list", "tuple"} -> UNION {Leaves(y.v[n]) : n \in 1..Len(y.v)}
               [] y.k = "set"  -> {SetV({})} \cup UNION {Leaves(e) : e \in y.v}
               [] y.k = "bag"  -> UNION {Leaves(e) : e \in DOMAIN y.v}
               [] y.k = "dict" -> UNION {Leaves(y.v[n][1]) \cup Leaves(y.v[n][2]) : n \in 1..Len(y.v)}
               [] OTHER -> {y}
\* a dict with the keys 1 and '1': json.dumps writes both as "1"
RECURSIVE JsonKeyClash(_)
JsonKeyClash(y) == CASE y.k \in {"list", "tuple"} -> \E n \in 1..Len(y.v) : JsonKeyClash(y.v[n])
                     [] y.k = "dict" -> (\E a, b \in 1..Len(y.v) : y.v[a][1].k = "int" /\ y.v[b][1] = StrOfInt(y.v[a][1]))
                                        \/ \E n \in 1..Len(y.v) : JsonKeyClash(y.v[n][2])
                     [] OTHER -> FALSE
RECURSIVE HasTuple(_)
HasTuple(y) == CASE y.k = "tuple" -> TRUE
                 [] y.k = "list" -> \E n \in 1..Len(y.v) : HasTuple(y.v[n])
                 [] y.k = "set"  -> \E e \in y.v : HasTuple(e)
                 [] y.k = "bag"  -> \E e \in DOMAIN y.v : HasTuple(e)
                 [] y.k = "dict" -> \E n \in 1..Len(y.v) : HasTuple(y.v[n][2])
                 [] OTHER -> FALSE
TreeDevs(y) == (IF \E l \in Leaves(y) : IsStr(l) /\ l.v \in PlainFloatTexts THEN {"yamlFloatStr"} ELSE {})
          \cup (IF \E l \in Leaves(y) : l.k \in {"enum", "exc", "path", "reg"} THEN {"leftObject"} ELSE {})   \* neither dumper can write it
          \cup (IF \E l \in Leaves(y) : l.k = "set" THEN {"leftSet"} ELSE {})                      \* json cannot write it
          \cup (IF JsonKeyClash(y) THEN {"jsonKeyCollision"} ELSE {})
          \cup (IF HasTuple(y) THEN {"leftTuple"} ELSE {})                                         \* written as a list, read back as a list
\* dump works on strip_meta(cfg) (_namespace.py:60-71): no "__path__" at any level that is reached through dicts and lists
RECURSIVE StripMeta(_)
StripMeta(y) == CASE y.k = "list" -> ListV([n \in 1..Len(y.v) |-> StripMeta(y.v[n])])
                  [] y.k = "dict" -> LET z == NoMeta(y) IN DictV([n \in 1..Len(z.v) |-> <<z.v[n][1], StripMeta(z.v[n][2])>>])
                  [] OTHER -> y
AlgDump(t, val) == LET s == AlgSer(t, StripMeta(val)) IN IF s.ok THEN Ok(s.v, s.dev \cup TreeDevs(s.v), val) ELSE s
\* dump(cfg) serialises a clone of cfg -- which shares tuples with cfg (see Protect): what is converted in place below a tuple
\* shows in the caller's configuration.  The configuration after dump:
\* (dump takes the "__path__" entries off its clone first: they are put back where the caller has them)
RECURSIVE ReMeta(_, _)
ReMeta(v, m) ==
  IF v.k = "list" /\ m.k = "list" /\ Len(m.v) = Len(v.v) THEN ListV([n \in 1..Len(v.v) |-> ReMeta(v.v[n], m.v[n])])
  ELSE IF v.k = "dict" /\ m.k = "dict" /\ Len(NoMeta(v).v) = Len(m.v)
       THEN LET idx(n) == Cardinality({j \in 1..n : v.v[j][1] # MetaKey})
            IN DictV([n \in 1..Len(v.v) |-> IF v.v[n][1] = MetaKey THEN v.v[n] ELSE <<m.v[idx(n)][1], ReMeta(v.v[n][2], m.v[idx(n)][2])>>])
  ELSE m
AfterDump(t, val) == Protect(val, ReMeta(val, AlgSer(t, StripMeta(val)).m))
RECURSIVE MutableBelowTuple(_, _)
MutableBelowTuple(y, below) == CASE y.k = "tuple" -> \E n \in 1..Len(y.v) : MutableBelowTuple(y.v[n], TRUE)
                                 [] y.k = "list" -> below \/ \E n \in 1..Len(y.v) : MutableBelowTuple(y.v[n], below)
                                 [] y.k = "dict" -> below \/ \E n \in 1..Len(y.v) : MutableBelowTuple(y.v[n][2], below)
                                 [] OTHER -> FALSE
\* The numbers / texts that serialisation hands to the dumper AS THE OBJECTS THEY ARE: the serializer of a restricted type
\* writes int(v) / float(v) / str(v), a plain value; the other branches (Enum :809-811, Literal, Any, int / float / str)
\* return the object.  A value of a restricted type is an instance of a sub-class of int / float / str, so when another
\* Union member serialises it first it stays such an instance -- which yaml.safe_dump refuses (deviation leftInstance).
RECURSIVE Lefts(_, _)
Lefts(t, val) ==
  CASE t.k = "union" -> LET ts == SortUnion(t.v, val)
                            W  == {i \in 1..Len(ts) : AlgAdapt(ts[i], val, val, FALSE, TRUE).ok}
                        IN IF W = {} THEN {} ELSE Lefts(ts[Min(W)], val)
    [] t.k \in {"list", "set", "tupleE"} -> IF IsListable(val) /\ Len(t.v) > 0 THEN UNION {Lefts(t.v[1], AsSeq(val)[n]) : n \in 1..Len(AsSeq(val))} ELSE {}
    [] t.k = "tuple" -> IF IsSeqLike(val) /\ Len(AsSeq(val)) = Len(t.v) THEN UNION {Lefts(t.v[n], AsSeq(val)[n]) : n \in 1..Len(t.v)} ELSE {}
    [] t.k = "dict" -> IF val.k = "dict" /\ Len(t.v) = 2 THEN UNION {Lefts(t.v[2], val.v[n][2]) : n \in 1..Len(val.v)} ELSE {}
    [] t.k \in {"rstr", "rnum", "reg"} -> {}
    [] OTHER -> {l \in Leaves(val) : l.k \in {"int", "float", "str"}}      \* (a container that the Enum branch returns whole)
\* the tree as a loader returns it: every set (and tuple) that was written is a list again (a set in SOME order)
RECURSIVE Unbag(_)
Unbag(y) == CASE y.k = "bag" -> ListV([n \in 1..Len(AsSeq(y)) |-> Unbag(AsSeq(y)[n])])
              [] y.k \in {"list", "tuple"} -> ListV([n \in 1..Len(y.v) |-> Unbag(y.v[n])])
              [] y.k = "dict" -> DictV([n \in 1..Len(y.v) |-> <<y.v[n][1], Unbag(y.v[n][2])>>])
              [] OTHER -> y

(***************************************************************************)
(* The properties, per (type, input)                                       *)
(***************************************************************************)
\* Ref is what C02 says: results conform, conforming values are accepted and are their own normal form,
\* nothing depends on the order of Union members
RefLawsCore(t, x) ==
  /\ Acc(t, x) => (Res(t, x) # {} /\ \A r \in Res(t, x) : Conforms(t, r))
  /\ Conforms(t, x) => (Acc(t, x) /\ x \in Res(t, x))
RefLaws(t, x) == RefLawsCore(t, x) /\ Accepts(t, x) = (TopResults(t, x) # {})
RefPermInvariant(t, x) == \A p \in AllPerms(t) : Accepts(p, x) = Accepts(t, x) /\ TopResults(p, x) = TopResults(t, x)

\* C02 for the algorithm: outside the named deviations it accepts exactly what Ref accepts and returns one of
\* Ref's normal forms -- whatever the default d of the argument is.
\* (a is AlgParse(t, x, d); passed in so that a check evaluates it once)
Devs(a) == a.dev \ {"firstMatch"}            \* firstMatch marks a choice that Ref allows, it is not a deviation from Ref
AlgRefinesRefA(t, x, a) ==
  Devs(a) = {} => /\ a.ok = Accepts(t, x)
                  /\ a.ok => (a.v \in TopResults(t, x) /\ ConformsTop(t, a.v))
AlgPermInvariantA(t, x, d, a) ==
  \A p \in AllPerms(t) : LET b == AlgParse(p, x, d) IN (Devs(a) = {} /\ Devs(b) = {}) => a.ok = b.ok
\* the deviations stay inside their description
DevsAsDescribedA(t, x, a) ==
  /\ (Devs(a) # {} /\ Devs(a) \subseteq {"litEq", "dictKey", "origNested"} /\ ~a.ok) => ~Accepts(t, x)   \* these three only ever accept more

\* C10: a result is a fixed point of the parse, and its config representation is a fixed point of dump o parse
\* (a re-parse that runs into one of the named deviations is that deviation's business)
IdempotentA(t, d, a) == a.ok => LET b == AlgParse(t, a.v, d) IN b.dev = {} => (b.ok /\ b.v = a.v)
DumpStableA(t, d, a) ==
  (a.ok /\ a.v # NoneV) =>
       LET s == AlgDump(t, a.v)
       IN s.ok /\ (s.dev = {} => LET r == AlgParse(t, Unbag(s.v), d)
                                 IN r.dev = {} => (r.ok /\ (r.v # NoneV => AlgDump(t, r.v).v = s.v)))
\* dump does not change the configuration it is given -- except through a list / dict below a tuple (deviation dumpLeak)
DumpPureA(t, a) == (a.ok /\ a.v # NoneV /\ AfterDump(t, a.v) # a.v) => MutableBelowTuple(a.v, FALSE)
\* ... and a default that is filled in is normalised like a value that is given (outside rawDefault)
AbsentLawsA(t, d, a) == (a.dev = {} /\ a.ok) => (ConformsTop(t, a.v) /\ a.v \in TopResults(t, d))

AlgRefinesRef(t, x)    == AlgRefinesRefA(t, x, AlgParse(t, x, NoneV))
AlgPermInvariant(t, x) == AlgPermInvariantA(t, x, NoneV, AlgParse(t, x, NoneV))
DevsAsDescribed(t, x)  == DevsAsDescribedA(t, x, AlgParse(t, x, NoneV))
Idempotent(t, x)       == IdempotentA(t, NoneV, AlgParse(t, x, NoneV))
DumpStable(t, x)       == DumpStableA(t, NoneV, AlgParse(t, x, NoneV))
\* ---- Round 4 (C10): class specs reached through a CALLABLE type (Callable[..., Base], Callable[[int], Base], Optional[...]) ----
\* Class specs are opaque for the Alg layer (Classes are C14's): a Namespace / dict is [k |-> "ns" | "dict", v |-> << <<key, value>>, ... >>].
\* Ref: the config representation of a parsed class spec holds the SERIALISED form of every init arg -- an Enum member by its name, a
\* tuple / set as a list (a set in no particular order: bag), a pathlib.Path ("pypath") / Path_fr / timedelta as the text str() gives --
\* whichever type the spec was reached through (adapt_typehints :982-985 for Callable, :1054-1057 for a class type).
RECURSIVE SerForm(_)
SerForm(v) == CASE v.k = "ns"                -> LET ps == SelectSeq(v.v, LAMBDA p : p[2].k # "none")          \* dump(skip_none=True), the default: a key that is None is left out
                                                IN DictV([n \in 1..Len(ps) |-> <<SerForm(ps[n][1]), SerForm(ps[n][2])>>])
                [] v.k = "dict"              -> DictV([n \in 1..Len(v.v) |-> <<SerForm(v.v[n][1]), SerForm(v.v[n][2])>>])
                [] v.k \in {"list", "tuple"} -> ListV([n \in 1..Len(v.v) |-> SerForm(v.v[n])])
                [] v.k = "set"               -> LET s == SetAsSeq(v.v) IN BagV(BagOf([n \in 1..Len(s) |-> SerForm(s[n])]))
                [] v.k = "enum"              -> StrV(v.v[2])
                [] v.k \in {"pypath", "path"} -> StrV(v.v)
                [] v.k = "reg"               -> IF v.v[1] \in DOMAIN RegDefs /\ v.v[2] \in DOMAIN RegDefs[v.v[1]].ser THEN RegWrite(v.v[1], v) ELSE AnyStrV
                [] OTHER                     -> v
\* a tree that a stock YAML / JSON loader can hold: nothing of Python is left in it
RECURSIVE Serialised(_)
Serialised(v) == CASE v.k \in {"none", "bool", "int", "float", "str"} -> TRUE
                   [] v.k = "list" -> \A n \in 1..Len(v.v) : Serialised(v.v[n])
                   [] v.k = "dict" -> \A n \in 1..Len(v.v) : v.v[n][1].k = "str" /\ Serialised(v.v[n][2])
                   [] OTHER -> FALSE
\* the class spec without the init arg `name` (Callable[[int], Base]: the first parameter is the caller's, skip_args = 1)
DropArg(v, name) ==
  IF v.k \notin {"ns", "dict"} THEN v
  ELSE [v EXCEPT !.v = [n \in 1..Len(v.v) |->
          IF v.v[n][1] = StrV("init_args") /\ v.v[n][2].k \in {"ns", "dict"}
          THEN <<v.v[n][1], [v.v[n][2] EXCEPT !.v = SelectSeq(@, LAMBDA p : p[1] # StrV(name))]>> ELSE v.v[n]]]
\* equality of opaque values, the order of the keys of a Namespace / dict aside
RECURSIVE SpecEq(_, _)
SpecEq(a, b) == a.k = b.k /\ CASE a.k \in {"ns", "dict"} -> Len(a.v) = Len(b.v) /\ \A n \in 1..Len(a.v) : \E m \in 1..Len(b.v) : a.v[n][1] = b.v[m][1] /\ SpecEq(a.v[n][2], b.v[m][2])
                               [] a.k \in {"list", "tuple"} -> Len(a.v) = Len(b.v) /\ \A n \in 1..Len(a.v) : SpecEq(a.v[n], b.v[n])
                               [] OTHER -> a = b
=============================================================================
