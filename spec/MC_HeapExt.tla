----------------------------- MODULE MC_HeapExt -----------------------------
(* Bounded instance of the round-4 sections of Heap.tla (property C08).                                                 *)
(*  proc   every call that is handed a path x the directory tree the path belongs to (home) x the directory the process  *)
(*         is in when the call is made (entry) x the outcome flavours (the call returns / raises before, inside and      *)
(*         after the directory change).  Invariants: ProcRestored (the Alg layer restores cwd and current_path_dir on    *)
(*         return and on exception, for every entry directory - in particular when it differs from the directory the     *)
(*         Path object was created in), LoadsAtPath (user code run by the call sees the path's directory or the entry    *)
(*         directory, nothing else), FramesBalanced.                                                                     *)
(*  fresh  every class family (owner, where, nis, dform, use) of the signature-default section.  Invariants:             *)
(*         SpecIsDerived (the Alg layer derives the spec whenever the default is one: Alg refines Ref),                  *)
(*         ClassLookupLoses (the what-if lookup in the owner's module loses it exactly for a subclass in another module  *)
(*         that does not import the name - why these dimensions are enumerated).                                         *)
(* One state per case (root -> kind -> case, so that the workers share them); every case is printed with what the spec   *)
(* predicts, executed on the real code, and the observation is judged by Trace_Heap.                                     *)
EXTENDS Heap, Json

CONSTANTS Big, Emit

Homes   == IF Big THEN {"A", "B", "C"} ELSE {"A", "B"}
Entries == IF Big THEN {"A", "B", "C", "A/conf", "B/out", "."} ELSE {"A", "B", "C"}
OpFl == {<<"parse_path", "ok">>, <<"parse_path", "badval">>, <<"parse_path", "badpath">>, <<"parse_path", "missing">>,
         <<"parse_path_res", "ok">>, <<"parse_path_res", "missing">>, <<"rpc", "returns">>, <<"rpc", "raises">>,
         <<"save", "ok">>, <<"save", "invalid">>, <<"save", "refuse">>, <<"save1", "ok">>,
         <<"dcf_get_defaults", "ok">>, <<"dcf_get_defaults", "badval">>, <<"dcf_format_help", "ok">>,
         <<"dcf_parse_args", "ok">>, <<"dcf_parse_args", "badval">>, <<"cfgarg", "ok">>, <<"cfgarg", "badval">>, <<"cfgarg", "badpath">>}
ProcCases == {[op |-> x[1], fl |-> x[2], entry |-> e, home |-> hm] : x \in OpFl, e \in Entries, hm \in Homes}

Owners == {"base", "sub", "subinit"}
DForms == {"kw", "nokw", "lazy", "pos", "nonconst"}
Uses   == {"class_args", "typed_lazy", "subclass_args", "parent_type"}
FamLegal(f) == /\ (f.owner = "base" => (f.where = "same" /\ f.nis))
               /\ (f.where = "same" => f.nis)                      \* in the base's module the name is a global
Anns == IF Big THEN {"plain", "optional"} ELSE {"plain"}             \* cal: Cal = ..  |  cal: Optional[Cal] = ..  (get_optional_arg, _parameter_resolvers.py:380)
FreshCases == {f \in [owner : Owners, where : {"same", "other"}, nis : BOOLEAN, dform : DForms, use : Uses, ann : Anns] : FamLegal(f)}

VARIABLES xk, xc
vars == <<xk, xc>>
NoCase == [none |-> TRUE]
Init == xk = "root" /\ xc = NoCase
Next == \/ xk = "root" /\ xk' \in {"procs", "freshes"} /\ xc' = NoCase
        \/ xk = "procs" /\ xk' = "proc" /\ xc' \in ProcCases
        \/ xk = "freshes" /\ xk' = "fresh" /\ xc' \in FreshCases
Spec == Init /\ [][Next]_vars

Ps0(e) == [cwd |-> e, cpd |-> "", env |-> "e", argv |-> "a", syspath |-> "s", ns |-> "std"]
Run == AlgPathCall(xc, Ps0(xc.entry))
--------------------------------------------------------------------------------
\* Alg refines Ref: the process state is the one on entry, on return and on exception, wherever the process is
ProcRestored == xk = "proc" => ProcFrame(Ps0(xc.entry), Run.ps)
\* user code run during the call sees the directory of the path (with current_path_dir set to it) or the entry directory
LoadsAtPath == xk = "proc" => Run.seen \subseteq {<<xc.home \o "/conf", xc.home \o "/conf">>, <<xc.entry, "">>}
\* the outcome does not depend on where the process is (the path object / absolute text decides which file is read)
EntryIrrelevant == xk = "proc" => \A e \in Entries : AlgPathCall([xc EXCEPT !.entry = e], Ps0(e)).ok = Run.ok
\* every program closes the frames it opens when it returns
FramesBalanced == xk = "proc" =>
   LET p == PathProg(xc) IN Cardinality({j \in 1..Len(p) : p[j][1] = "enter"}) >= Cardinality({j \in 1..Len(p) : p[j][1] = "leave"})
                            /\ (Run.ok => Cardinality({j \in 1..Len(p) : p[j][1] = "enter"}) = Cardinality({j \in 1..Len(p) : p[j][1] = "leave"}))

SpecIsDerived == xk = "fresh" => (MustBeFresh(xc) <=> AlgDerivesSpec(xc, "function"))
ClassLookupLoses == xk = "fresh" =>
   ((AlgDerivesSpec(xc, "function") /\ ~AlgDerivesSpec(xc, "class")) <=> (xc.dform \in {"kw", "nokw"} /\ xc.where = "other" /\ ~xc.nis))

EmitCase ==
  Emit => CASE xk = "proc"  -> PrintT(ToJson([kind |-> "proc", op |-> xc.op, fl |-> xc.fl, entry |-> xc.entry, home |-> xc.home,
                                               ok |-> Run.ok, after |-> Run.ps.cwd, nseen |-> Cardinality(Run.seen)]))
            [] xk = "fresh" -> PrintT(ToJson([kind |-> "fresh", owner |-> xc.owner, where |-> xc.where, nis |-> xc.nis, dform |-> xc.dform,
                                               use |-> xc.use, ann |-> xc.ann, must |-> MustBeFresh(xc), spec |-> AlgDerivesSpec(xc, "function")]))
            [] OTHER -> TRUE
=============================================================================
