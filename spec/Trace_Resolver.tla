--------------------------- MODULE Trace_Resolver ---------------------------
(* Validation of observations recorded from the real code (code -> spec).                                         *)
(* TRACE_FILE holds [obs |-> << ... >>]; one observation is about one component of one program written to a real  *)
(* source file:                                                                                                    *)
(*   prog, comp   the abstract program and the component (Resolver.tla's vocabulary)                              *)
(*   table        what THE INTERPRETER did with every keyword subset of the universe: [K, ok, bind]               *)
(*   resolved     alpha(get_signature_parameters(component)): << [n, o, t, d, kind, org], ... >> (observed = it ran) *)
(*   parser       alpha of the arguments parser.add_class_arguments / add_function_arguments created (parsed = ran) *)
(* Each observation is checked independently; failing clauses are printed as <<"R", "obs", index, clause>>:        *)
(*   interp                the specification's model of Python disagrees with the interpreter (machinery, not C13) *)
(*   ref-resolver-names    offered names # LegalKw                          (the property)                         *)
(*   ref-resolver-signature  an offered parameter does not carry type / default / owner of Ref (a Conditional one  *)
(*                         is accepted exactly where the transcribed algorithm predicts the documented Conditional) *)
(*   ref-parser-names, ref-parser-signature   the same for the parser's arguments                                 *)
(*   ref-resolver-uncond, ref-parser-uncond   (round 4) a parameter offered without the Conditional marker is       *)
(*                         accepted by every branch of an `if` around two uses of **kwargs                         *)
(*   ref-deliver           a value parsed for an offered parameter and passed on by instantiate_classes / the call *)
(*                         did not arrive at the declaration Ref binds that keyword in                             *)
(*   alg                   the observation differs from the transcribed algorithm (drift when Ref agrees)          *)
(* and <<"I", "obs", index, callable, deviation>> tells the harness which named deviation applies.                 *)
EXTENDS Resolver, Json, IOUtils

Data == JsonDeserialize(IOEnv.TRACE_FILE)
Obs  == Data.obs
N    == Len(Obs)

VARIABLE i
Init == i \in 1..N
Next == UNCHANGED i

Say(idx, clause) == PrintT(<<"R", "obs", idx, clause>>)

Check(k) ==
  LET ob   == Obs[k]
      P    == ob.prog
      comp == ob.comp
      U    == Universe(P, comp)
      T    == RunTable(P, comp, U)
      seen == {[K |-> SetOf(r.K), cv |-> r.cv, ok |-> r.ok, bind |-> {<<b.n, b.o>> : b \in SetOf(r.bind)}] : r \in SetOf(ob.table)}
      spec == {[K |-> e.K, cv |-> e.cv, ok |-> e.r.ok, bind |-> {<<b.n, b.o>> : b \in e.r.bind}] : e \in T}
      call == Callable(T)
      run  == AlgRun(P, comp)
      dev  == IF call THEN DevOf(run.ev) ELSE "-"
      ref  == RefOffer(T)
      legal == LegalKw(T)
      res  == ob.resolved
      par  == ob.parser
      resNames == {res[j].n : j \in DOMAIN res}
      parNames == {par[j].n : j \in DOMAIN par}
      algCond == {run.ps[j].n : j \in {x \in DOMAIN run.ps : run.ps[x].d = "cond"}}   \* documented: Conditional<ast-resolver>
      RefHas(n, t, d) == \E x \in ref : x.n = n /\ x.t = t /\ x.d = d
  IN /\ PrintT(<<"I", "obs", k, call, dev>>)
     /\ (seen = spec) \/ Say(k, "interp")
     /\ (~call \/ ~ob.observed \/ (resNames = legal /\ NoDup(res))) \/ Say(k, "ref-resolver-names")
     /\ (~call \/ ~ob.observed \/ resNames # legal
           \/ \A d \in OfferOf(res) : d \in ref \/ (d.d = "cond" /\ (d.n \in algCond \/ dev # "-"))) \/ Say(k, "ref-resolver-signature")
     /\ (~call \/ ~ob.observed \/ resNames # legal \/ UncondOK(T, OfferOf(res))) \/ Say(k, "ref-resolver-uncond")
     /\ (~call \/ ~ob.parsed \/ parNames # legal \/ \A j \in DOMAIN par : par[j].d = "cond" \/ par[j].n \in Everywhere(T)) \/ Say(k, "ref-parser-uncond")
     /\ (~call \/ ~ob.observed \/ res = run.ps) \/ Say(k, "alg")
     /\ (~call \/ ~ob.parsed \/ (parNames = legal /\ NoDup(par))) \/ Say(k, "ref-parser-names")
     /\ (~call \/ ~ob.parsed \/ parNames # legal
           \/ \A j \in DOMAIN par : (par[j].d = "cond" /\ (par[j].n \in algCond \/ dev # "-"))
                 \/ (IF par[j].d = "dflt" THEN [o |-> par[j].o, n |-> par[j].n, t |-> par[j].t, d |-> "dflt"] \in ref   \* a default identifies its owner
                     ELSE RefHas(par[j].n, par[j].t, par[j].d))) \/ Say(k, "ref-parser-signature")
     /\ (~call \/ ~ob.parsed \/ parNames # legal
           \/ \A j \in DOMAIN ob.delivered : \E x \in ref : x.n = ob.delivered[j].n /\ x.o = ob.delivered[j].o) \/ Say(k, "ref-deliver")

Inv == Check(i) \/ TRUE
=============================================================================
