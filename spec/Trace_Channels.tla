--------------------------- MODULE Trace_Channels ---------------------------
(* Validation of outcomes observed on the real code (code -> spec).  TRACE_FILE: sequence of cases                *)
(*   [shape, ss, outs]   outs = sequence of [ch, mode, ok, cfg]: what each channel x parser mode returned for the  *)
(*   settings ss on a parser of that shape.  Every outcome must be the channel-free Outcome(shape, ss) (Ref); in   *)
(*   the recorded null deviation a document channel may instead keep the null (DocOutcomeWithNull).               *)
EXTENDS Channels, Json, IOUtils, TLCExt
Cases == JsonDeserialize(IOEnv.TRACE_FILE)
VARIABLE tidx
Init == tidx \in 1..Len(Cases)
Next == UNCHANGED tidx
Say(idx, j, clause) == PrintT(<<"R", idx, j, clause>>)
Check ==
  LET c == Cases[tidx]
      ref == Outcome(c.shape, c.ss)
  IN \A j \in 1..Len(c.outs) :
       LET o == c.outs[j]
           seen == [ok |-> o.ok, cfg |-> o.cfg]
       IN (seen = ref) \/ Say(tidx, j, IF Deviates(o.ch, o.mode, c.shape, c.ss) /\ seen = AlgOutcome(o.ch, o.mode, c.shape, c.ss)
                                       THEN "dev:" \o Why(o.ch, o.mode, c.shape, c.ss) ELSE "ref")
Inv == Check \/ TRUE
=============================================================================
