INIT Init
NEXT TNext
INVARIANT Inv
INVARIANT OneCall
INVARIANT OwnParameters
INVARIANT ReturnPassedThrough
CHECK_DEADLOCK FALSE
