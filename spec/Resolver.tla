------------------------------ MODULE Resolver ------------------------------
(***************************************************************************)
(* The **kwargs parameter resolver of jsonargparse (property C13):         *)
(*   jsonargparse/_parameter_resolvers.py, get_signature_parameters.       *)
(*                                                                         *)
(* An abstract PROGRAM is a record  [classes |-> <<class, ...>>]  over     *)
(*   param  [n, t, d]        name, t \in {"int","str","none"} (annotation), *)
(*                           d \in {"req","dflt"} (required / has default)  *)
(*   fwd    [k, b, hard, q, qop, chain]   what the body does with **kwargs  *)
(*            k     "ignore"  kwargs is not forwarded                       *)
(*                  "super0"  super().__init__(hard..., **kwargs)           *)
(*                  "superB"  super(B, self).__init__(hard..., **kwargs),   *)
(*                            b = index of class B                          *)
(*                  "func"    helper(hard..., **kwargs), helper = chain[1]  *)
(*                  "meth"    self.m(hard..., **kwargs)                     *)
(*                  "next"    (functions of a chain) the next function      *)
(*            hard  names given as hard-coded keyword arguments at the call *)
(*            q     names taken BEFORE the call with kwargs.pop(n, dflt)    *)
(*                  (qop = "pop") or kwargs.get(n, dflt) (qop = "get")      *)
(*            chain a chain of helper functions (sigs), chain[j] calls      *)
(*                  chain[j+1] when its own fwd.k = "next"                  *)
(*   sig    [has, ps, kw, fw]   a def: has = it exists, ps = named params,  *)
(*                              kw = it takes **kwargs, fw = its fwd        *)
(*   class  [bases |-> <<index, ...>>, init |-> sig, m |-> sig]            *)
(* Everything is a sequence / string / boolean / number so that a program  *)
(* travels unchanged through ToJson and JsonDeserialize.                    *)
(*                                                                         *)
(* A COMPONENT is what get_signature_parameters is asked about:            *)
(*   [k |-> "cls", c |-> class index]  or  [k |-> "fn", chain |-> <<sig>>] *)
(*                                                                         *)
(* Declarations are identified by an owner label: "C3" the __init__ of     *)
(* class 3, "P3" a kwargs.pop/get in it, "M3" its method m, "F3.2" the     *)
(* second helper of the chain called from it, "Q3.2" a pop/get in that     *)
(* helper (class index 0 for a chain that is the component itself).        *)
(*                                                                         *)
(* Two layers:                                                             *)
(*   Ref*  Python's call semantics: which keyword sets a call accepts      *)
(*         along the RUNTIME method resolution order, and where each       *)
(*         keyword is bound.  LegalKw is derived from it.                  *)
(*   Alg*  the resolver transcribed function by function (anchors in the   *)
(*         comments), including the current_mro context variable.          *)
(***************************************************************************)
EXTENDS Naturals, Sequences, FiniteSets, TLC

SetOf(s)    == {s[i] : i \in DOMAIN s}
MinOf(S)    == CHOOSE x \in S : \A y \in S : x <= y
NamesOf(ps) == {ps[i].n : i \in DOMAIN ps}
ReqOf(ps)   == {ps[i].n : i \in {j \in DOMAIN ps : ps[j].d = "req"}}
PosIn(s, x) == LET S == {i \in DOMAIN s : s[i] = x} IN IF S = {} THEN 0 ELSE MinOf(S)
Filter(s, Keep(_)) == SelectSeq(s, Keep)
Str(n)      == ToString(n)

NoFwd  == [k |-> "ignore", b |-> 0, hard |-> << >>, q |-> << >>, qop |-> "pop", chain |-> << >>]
NoSig  == [has |-> FALSE, ps |-> << >>, kw |-> FALSE, fw |-> NoFwd]

(***************************************************************************)
(* Ref layer 1: the method resolution order (C3 linearisation, as CPython  *)
(* computes type.__mro__; `object` is left out).  A 0 in the result means   *)
(* that no consistent order exists (Python refuses the class statement).   *)
(***************************************************************************)
RECURSIVE C3Merge(_)
C3Merge(seqs) ==
  LET ne == SelectSeq(seqs, LAMBDA s : Len(s) > 0) IN
  IF Len(ne) = 0 THEN << >>
  ELSE LET InTail(h) == \E i \in DOMAIN ne : \E j \in 2..Len(ne[i]) : ne[i][j] = h
           good == {i \in DOMAIN ne : ~InTail(ne[i][1])}
       IN IF good = {} THEN <<0>>
          ELSE LET h == ne[MinOf(good)][1]
                   rest == [i \in DOMAIN ne |-> IF ne[i][1] = h THEN Tail(ne[i]) ELSE ne[i]]
               IN <<h>> \o C3Merge(rest)

RECURSIVE Mro(_, _)
Mro(P, c) == LET bs == P.classes[c].bases IN
             <<c>> \o C3Merge([i \in 1..Len(bs) |-> Mro(P, bs[i])] \o <<bs>>)
MroOK(P, c) == 0 \notin SetOf(Mro(P, c))

\* the class of the sequence `order` (from position `from`) whose own body defines __init__ / m; 0 = none (object's)
DefIn(P, order, from, what) ==
  LET S == {i \in from..Len(order) : IF what = "init" THEN P.classes[order[i]].init.has ELSE P.classes[order[i]].m.has}
  IN IF S = {} THEN 0 ELSE MinOf(S)

(***************************************************************************)
(* Ref layer 2: Python's call semantics.  A call passes a SET K of keyword *)
(* names (values do not influence acceptance).  The outcome is             *)
(*   [ok |-> FALSE]  some call on the way raises TypeError (unexpected     *)
(*                   keyword, missing required argument, multiple values   *)
(*                   for a keyword) or AttributeError (no method m), or    *)
(*   [ok |-> TRUE, bind |-> {<<name, owner>>}]  where every keyword that   *)
(*                   the CALLER passed ended up: in a named parameter, or  *)
(*                   taken by name with kwargs.pop/get.  Keywords that die *)
(*                   in an unused **kwargs dict are in no pair.            *)
(***************************************************************************)
Fail  == [ok |-> FALSE, bind |-> {}]
Ok(b) == [ok |-> TRUE, bind |-> b]
Tag(S, o) == {<<n, o>> : n \in S}

\* binding keyword arguments to a def (CPython: unexpected keyword / missing required argument)
Arrive(sig, K) == LET own == NamesOf(sig.ps) IN
  [ok |-> (K \subseteq own \/ sig.kw) /\ ReqOf(sig.ps) \subseteq K, named |-> K \cap own, rest |-> K \ own]

\* f(h=..., **kwargs): a keyword both hard-coded and present in kwargs is "multiple values for keyword argument";
\* what the callee binds for the hard-coded names was not passed by our caller
Back(r, mine, hard) == IF r.ok THEN Ok(mine \cup {b \in r.bind : b[1] \notin hard}) ELSE Fail

RECURSIVE RefFn(_, _, _, _)
RefFn(chain, j, cid, K) ==
  LET s      == chain[j]
      a      == Arrive(s, K)
      lab    == Str(cid) \o "." \o Str(j)
      popped == a.rest \cap SetOf(s.fw.q)
      mine   == Tag(a.named, "F" \o lab) \cup Tag(popped, "Q" \o lab)
      rest   == IF s.fw.qop = "pop" THEN a.rest \ popped ELSE a.rest
      hard   == SetOf(s.fw.hard)
  IN IF ~a.ok THEN Fail
     ELSE IF ~s.kw THEN Ok(Tag(a.named, "F" \o lab))
     ELSE IF s.fw.k = "ignore" THEN Ok(mine)
     ELSE IF hard \cap rest # {} \/ j >= Len(chain) THEN Fail
     ELSE Back(RefFn(chain, j + 1, cid, rest \cup hard), mine, hard)

RefMeth(P, Y, K) == LET a == Arrive(P.classes[Y].m, K) IN IF a.ok THEN Ok(Tag(a.named, "M" \o Str(Y))) ELSE Fail

\* the __init__ that runs when the search starts at position pos of the runtime MRO `mro` of the instantiated class
RECURSIVE RefInit(_, _, _, _)
RefInit(P, mro, pos, K) ==
  LET k == DefIn(P, mro, pos, "init") IN
  IF k = 0 THEN (IF K = {} THEN Ok({}) ELSE Fail)              \* object.__init__() takes no keyword
  ELSE LET X  == mro[k]
           I  == P.classes[X].init
           a  == Arrive(I, K)
           fw == I.fw
           popped == a.rest \cap SetOf(fw.q)
           mine   == Tag(a.named, "C" \o Str(X)) \cup Tag(popped, "P" \o Str(X))
           rest   == IF fw.qop = "pop" THEN a.rest \ popped ELSE a.rest
           hard   == SetOf(fw.hard)
           send   == rest \cup hard
       IN IF ~a.ok THEN Fail
          ELSE IF ~I.kw THEN Ok(Tag(a.named, "C" \o Str(X)))
          ELSE IF fw.k = "ignore" THEN Ok(mine)
          ELSE IF hard \cap rest # {} THEN Fail
          ELSE CASE fw.k = "super0" -> Back(RefInit(P, mro, k + 1, send), mine, hard)
                 [] fw.k = "superB" -> LET kb == PosIn(mro, fw.b) IN
                                       IF kb = 0 THEN Fail ELSE Back(RefInit(P, mro, kb + 1, send), mine, hard)
                 [] fw.k = "func"   -> IF Len(fw.chain) = 0 THEN Fail ELSE Back(RefFn(fw.chain, 1, X, send), mine, hard)
                 [] fw.k = "meth"   -> LET y == DefIn(P, mro, 1, "m") IN       \* self.m: looked up on type(self)
                                       IF y = 0 THEN Fail ELSE Back(RefMeth(P, mro[y], send), mine, hard)
                 [] OTHER           -> Fail

Run(P, comp, K) == IF comp.k = "cls" THEN RefInit(P, Mro(P, comp.c), 1, K) ELSE RefFn(comp.chain, 1, 0, K)

(***************************************************************************)
(* Ref layer 3: the property's vocabulary, derived from the call semantics *)
(* over the keyword universe U (every name of the program + a fresh one).  *)
(***************************************************************************)
OKSets(P, comp, U)    == {K \in SUBSET U : Run(P, comp, K).ok}
Callable(P, comp, U)  == OKSets(P, comp, U) # {}                                    \* some call succeeds
Required(P, comp, U)  == {n \in U : \A K \in OKSets(P, comp, U) : n \in K}
Accepted(P, comp, U)  == UNION OKSets(P, comp, U)                                   \* no TypeError when passed
Bindings(P, comp, U)  == UNION {Run(P, comp, K).bind : K \in OKSets(P, comp, U)}    \* <<name, owner>>
LegalKw(P, comp, U)   == {b[1] : b \in Bindings(P, comp, U)}                        \* the NAMED parameters a call can pass

\* every declaration of the program: [o, n, t, d]
ChainDecls(chain, cid) ==
  UNION {{[o |-> "F" \o Str(cid) \o "." \o Str(j), n |-> chain[j].ps[i].n, t |-> chain[j].ps[i].t, d |-> chain[j].ps[i].d] : i \in DOMAIN chain[j].ps}
         \cup {[o |-> "Q" \o Str(cid) \o "." \o Str(j), n |-> n, t |-> "none", d |-> "dflt"] : n \in (IF chain[j].kw THEN SetOf(chain[j].fw.q) ELSE {})}
         : j \in DOMAIN chain}
ClassDecls(P, c) ==
  LET cl == P.classes[c] IN
     {[o |-> "C" \o Str(c), n |-> cl.init.ps[i].n, t |-> cl.init.ps[i].t, d |-> cl.init.ps[i].d] : i \in DOMAIN cl.init.ps}
  \cup {[o |-> "P" \o Str(c), n |-> n, t |-> "none", d |-> "dflt"] : n \in (IF cl.init.has /\ cl.init.kw THEN SetOf(cl.init.fw.q) ELSE {})}
  \cup {[o |-> "M" \o Str(c), n |-> cl.m.ps[i].n, t |-> cl.m.ps[i].t, d |-> cl.m.ps[i].d] : i \in DOMAIN cl.m.ps}
  \cup (IF cl.init.has /\ cl.init.kw THEN ChainDecls(cl.init.fw.chain, c) ELSE {})
Decls(P, comp) == IF comp.k = "fn" THEN ChainDecls(comp.chain, 0) ELSE UNION {ClassDecls(P, c) : c \in DOMAIN P.classes}

\* what the property says must be offered: each legal name with the type and default of the signature it is bound in
RefOffer(P, comp, U) == {d \in Decls(P, comp) : <<d.n, d.o>> \in Bindings(P, comp, U)}

\* laws of the reference itself (checked by TLC on the bounded instance; they are what makes "the set of legal
\* keywords" well defined: keywords are routed independently of each other)
LawIndependent(P, comp, U) ==
  \A K \in SUBSET U : Run(P, comp, K).ok <=> (Required(P, comp, U) \subseteq K /\ K \subseteq Accepted(P, comp, U))
LawAllOffered(P, comp, U) ==       \* instantiating with EVERY legal parameter does not raise
  Callable(P, comp, U) => Run(P, comp, Required(P, comp, U) \cup LegalKw(P, comp, U)).ok
LawOneOwner(P, comp, U) ==         \* a keyword is bound in one place, whatever else is passed
  \A b1, b2 \in Bindings(P, comp, U) : b1[1] = b2[1] => b1 = b2
LawStableOwner(P, comp, U) ==
  \A K \in OKSets(P, comp, U) : Run(P, comp, K).bind = {b \in Bindings(P, comp, U) : b[1] \in K}

(***************************************************************************)
(* Alg layer: _parameter_resolvers.py                                      *)
(* ParamData (38-47) is [n, t, d, o, kind, org]:                           *)
(*   kind "pk" POSITIONAL_OR_KEYWORD | "ko" KEYWORD_ONLY                   *)
(*   org  "-" origin None | "pg" origin starts with "**.pop|get():" |      *)
(*        "node" set by add_node_origins | "cond" a tuple (conditional)    *)
(*   d    additionally "cond" (ConditionalDefault) and t "union"           *)
(* The context variable current_mro (457) is threaded through as           *)
(*   ms = [cl |-> <<classes>>, ix |-> position]   (cl = << >>: (None,None))*)
(* because get_mro_parameters / ast_is_supported_super_call .set() it and  *)
(* only mro_context resets it.  Every resolution returns [ps, ms].         *)
(***************************************************************************)
NoMro == [cl |-> << >>, ix |-> 0]
PD(p, o) == [n |-> p.n, t |-> p.t, d |-> p.d, o |-> o, kind |-> "pk", org |-> "-"]
Res(ps, ms) == [ps |-> ps, ms |-> ms]

\* get_signature_parameters_and_indexes:281-301   inspect.signature without self and without **kwargs
OwnParams(sig, o) == [i \in DOMAIN sig.ps |-> PD(sig.ps[i], o)]

\* remove_given_parameters:266-274  (keyword names only: the grammar has no hard-coded positionals)
RemoveGiven(hard, ps) == SelectSeq(ps, LAMBDA p : p.n \notin hard)
RemovedBy(hard, ps)   == IF Len(RemoveGiven(hard, ps)) < Len(ps) THEN {p \in SetOf(ps) : p.n \in hard} ELSE {}

\* add_node_origins:839-845
AddNodeOrigins(ps) == [i \in DOMAIN ps |-> IF ps[i].org = "-" THEN [ps[i] EXCEPT !.org = "node"] ELSE ps[i]]

\* replace_args_and_kwargs:398-409   names that the def itself declares shadow the ones found behind **kwargs
ReplaceKw(own, kwargs) == own \o SelectSeq(kwargs, LAMBDA p : p.n \notin NamesOf(own))

\* group_parameters:412-445
Flatten(lists) == LET RECURSIVE F(_)
                      F(i) == IF i > Len(lists) THEN << >> ELSE lists[i] \o F(i + 1)
                  IN F(1)
FirstOcc(flat) == SelectSeq([i \in DOMAIN flat |-> IF \E j \in 1..(i - 1) : flat[j].n = flat[i].n THEN [flat[i] EXCEPT !.n = "?dup?"] ELSE flat[i]],
                            LAMBDA p : p.n # "?dup?")
GroupParameters(lists) ==
  IF Len(lists) = 1 THEN [i \in DOMAIN lists[1] |-> IF lists[1][i].org = "cond" THEN lists[1][i] ELSE [lists[1][i] EXCEPT !.org = "-"]]
  ELSE LET nonpg == Cardinality({i \in DOMAIN lists : lists[i][1].org # "pg"})              \* non_get_pop_count
           flat  == Flatten(lists)
           first == FirstOcc(flat)                                                           \* params_dict keeps first-seen order
           G(g)  == LET occ      == SelectSeq(flat, LAMBDA p : p.n = g.n)
                        types    == {occ[i].t : i \in DOMAIN occ} \ {"none"}
                        defaults == {<<occ[i].o, occ[i].d>> : i \in {j \in DOMAIN occ : occ[j].d # "req"}}   \* values are unique per owner
                    IN IF Len(occ) >= nonpg /\ Cardinality(types) <= 1 /\ Cardinality(defaults) <= 1
                       THEN [g EXCEPT !.org = "-"]
                       ELSE [g EXCEPT !.org = "cond", !.d = "cond", !.t = IF Cardinality(types) > 1 THEN "union" ELSE g.t]
       IN [i \in DOMAIN first |-> G(first[i])]

\* mro_context:460-472 on entry
EnterMro(P, parent, ms) == IF ms.cl = << >> \/ ms.cl[ms.ix] # parent THEN [cl |-> Mro(P, parent), ix |-> 1] ELSE ms
TokenSet(parent, ms)    == ms.cl = << >> \/ ms.cl[ms.ix] # parent

\* getattr_static(cls, name) / getattr(cls, name): the defining class in cls's OWN mro, 0 = object's slot
DefOf(P, c, what) == LET o == Mro(P, c)  k == DefIn(P, o, 1, what) IN IF k = 0 THEN 0 ELSE o[k]

RECURSIVE AlgClass(_, _, _, _)
RECURSIVE AlgFn(_, _, _, _)
RECURSIVE AlgKwargs(_, _, _, _, _, _)

\* get_mro_parameters:475-483   next class after current_mro's index whose __init__ is not merely inherited from a
\* class further down the list
AlgMroParams(P, ms) ==
  LET cand == {num \in (ms.ix + 1)..Len(ms.cl) :
                 LET d == DefOf(P, ms.cl[num], "init") IN
                 d # 0 /\ ~\E j \in (num + 1)..Len(ms.cl) : DefOf(P, ms.cl[j], "init") = d}
  IN IF cand = {} THEN Res(<< >>, ms)
     ELSE LET num == MinOf(cand) IN AlgClass(P, ms.cl[num], "init", [ms EXCEPT !.ix = num])

\* get_parameters_args_and_kwargs:763-818 for one def.  parent = the class whose visitor this is (0 for a function),
\* X = owner index used in labels, lab = label suffix
AlgKwargs(P, parent, fw, ms, plab, chainctx) ==
  LET hard    == SetOf(fw.hard)
      \* 781-786 + get_kwargs_pop_or_get_parameter:741-761   one single-parameter list per pop/get call, in source order
      poplists == [i \in DOMAIN fw.q |-> << [n |-> fw.q[i], t |-> "none", d |-> "dflt", o |-> plab, kind |-> "ko", org |-> "pg"] >>]
      \* 787-805  the call that receives **kwargs
      call ==
        CASE fw.k = "ignore" -> Res(<< >>, ms)
          [] fw.k = "super0" -> AlgMroParams(P, ms)                                     \* 217-221: super() is supported
          [] fw.k = "superB" ->                                                          \* 222-235: search classes[idx:] for B
               LET offs == {i \in ms.ix..Len(ms.cl) : ms.cl[i] = fw.b} IN
               IF ms.cl = << >> \/ offs = {} THEN Res(<< >>, ms)                         \* unsupported super parameters
               ELSE AlgMroParams(P, [ms EXCEPT !.ix = MinOf(offs)])
          [] fw.k = "func"   -> IF Len(fw.chain) = 0 THEN Res(<< >>, ms) ELSE AlgFn(fw.chain, 1, chainctx.cid, [P |-> P, ms |-> ms])
          [] fw.k = "meth"   -> AlgClass(P, parent, "m", ms)                             \* get_node_component:655-658  self.parent
          [] fw.k = "next"   -> IF chainctx.j >= Len(chainctx.chain) THEN Res(<< >>, ms)
                                ELSE AlgFn(chainctx.chain, chainctx.j + 1, chainctx.cid, [P |-> P, ms |-> ms])
          [] OTHER           -> Res(<< >>, ms)
      given   == RemoveGiven(hard, call.ps)                                              \* 802
      removed == {p.n : p \in RemovedBy(hard, call.ps)}                                  \* removed_params
      lists   == poplists \o (IF Len(given) > 0 THEN << AddNodeOrigins(given) >> ELSE << >>)   \* 803-805
      grouped == IF Len(lists) = 0 THEN << >> ELSE GroupParameters(lists)                \* 816
  IN Res(SelectSeq(grouped, LAMBDA p : p.n \notin removed), call.ms)                     \* 817-818 (no positional-only)

\* ParametersVisitor.get_parameters:867-883 for a function of a chain (no parent: mro_context does nothing)
AlgFn(chain, j, cid, env) ==
  LET s    == chain[j]
      lab  == Str(cid) \o "." \o Str(j)
      own  == OwnParams(s, "F" \o lab)
  IN IF ~s.kw THEN Res(own, env.ms)
     ELSE LET r == AlgKwargs(env.P, 0, s.fw, env.ms, "Q" \o lab, [chain |-> chain, j |-> j, cid |-> cid])
          IN Res(ReplaceKw(own, r.ps), r.ms)

\* get_component_and_parent:486-527 + get_parameters:867-883 for (class, "__init__") and (class, "m")
AlgClass(P, parent, what, ms) ==
  LET X == DefOf(P, parent, what) IN                      \* inspect.getattr_static(parent, name)
  IF X = 0 THEN Res(<< >>, ms)                            \* object.__init__: component None -> []
  ELSE IF what = "m" THEN Res(OwnParams(P.classes[X].m, "M" \o Str(X)), ms)
  ELSE LET I   == P.classes[X].init
           own == OwnParams(I, "C" \o Str(X))
       IN IF ~I.kw THEN Res(own, ms)
          ELSE LET inner == EnterMro(P, parent, ms)                                         \* with mro_context(self.parent)
                   r     == AlgKwargs(P, parent, I.fw, inner, "P" \o Str(X), [chain |-> I.fw.chain, j |-> 0, cid |-> X])
               IN Res(ReplaceKw(own, r.ps), IF TokenSet(parent, ms) THEN ms ELSE r.ms)       \* current_mro.reset(token)

\* get_signature_parameters:1094-1134 (the AST resolver answers for every program of the grammar)
AlgResolve(P, comp) == IF comp.k = "cls" THEN AlgClass(P, comp.c, "init", NoMro).ps
                       ELSE AlgFn(comp.chain, 1, 0, [P |-> P, ms |-> NoMro]).ps

AlgNames(P, comp) == NamesOf(AlgResolve(P, comp))
\* the resolved parameters as declarations [o, n, t, d] (conditional ones keep d = "cond")
AlgOffer(P, comp) == LET ps == AlgResolve(P, comp) IN {[o |-> ps[i].o, n |-> ps[i].n, t |-> ps[i].t, d |-> ps[i].d] : i \in DOMAIN ps}
AlgNoDup(P, comp) == LET ps == AlgResolve(P, comp) IN \A i, j \in DOMAIN ps : ps[i].n = ps[j].n => i = j

(***************************************************************************)
(* Named deviations of the code from the property (each is a recorded      *)
(* finding; see tools/findings.d/C13.json).  The invariant of MC_Resolver   *)
(* is  no deviation applies => AlgOffer = RefOffer.                         *)
(***************************************************************************)
\* (D1) static dispatch of self.m: the visitor of an __init__ reached through super() looks m up on the class that
\*      DEFINES that __init__ (get_node_component:655-658 uses self.parent), Python on type(self).
\* (D2) pop-then-hard-code: `v = kwargs.pop("n", d); target(n=f(v), **kwargs)`: remove_given_parameters puts n into
\*      removed_params and line 817 then also drops the popped parameter n, which the caller CAN pass.
\* Both are decided on the path the resolver walks; they are computed by re-running the walk.
RECURSIVE PathInits(_, _, _, _)
\* the (parent, defining class) pairs of the __init__ defs the resolver visits from (parent, ms) on, following super
PathInits(P, parent, ms, fuel) ==
  LET X == DefOf(P, parent, "init") IN
  IF X = 0 \/ fuel = 0 THEN {}
  ELSE LET I == P.classes[X].init
           inner == EnterMro(P, parent, ms)
           nxt(ms2) == LET cand == {num \in (ms2.ix + 1)..Len(ms2.cl) :
                                       LET d == DefOf(P, ms2.cl[num], "init") IN
                                       d # 0 /\ ~\E j \in (num + 1)..Len(ms2.cl) : DefOf(P, ms2.cl[j], "init") = d}
                       IN IF cand = {} THEN {} ELSE PathInits(P, ms2.cl[MinOf(cand)], [ms2 EXCEPT !.ix = MinOf(cand)], fuel - 1)
       IN {<<parent, X>>} \cup
          (IF ~I.kw THEN {}
           ELSE IF I.fw.k = "super0" THEN nxt(inner)
           ELSE IF I.fw.k = "superB" THEN
                  LET offs == {i \in inner.ix..Len(inner.cl) : inner.cl[i] = I.fw.b} IN
                  IF offs = {} THEN {} ELSE nxt([inner EXCEPT !.ix = MinOf(offs)])
           ELSE {})
Visited(P, c) == PathInits(P, c, NoMro, Len(P.classes) + 1)

DevStaticDispatch(P, comp) ==
  comp.k = "cls" /\ \E pr \in Visited(P, comp.c) :
     LET I == P.classes[pr[2]].init IN
     I.kw /\ I.fw.k = "meth" /\ DefOf(P, pr[1], "m") # DefOf(P, comp.c, "m")

PopThenHard(fw) == SetOf(fw.q) \cap SetOf(fw.hard) # {} /\ fw.k \notin {"ignore"}
DevPopThenHard(P, comp) ==
  IF comp.k = "fn" THEN \E j \in DOMAIN comp.chain : comp.chain[j].kw /\ PopThenHard(comp.chain[j].fw)
  ELSE \E pr \in Visited(P, comp.c) :
         LET I == P.classes[pr[2]].init IN
         I.kw /\ (PopThenHard(I.fw) \/ (I.fw.k = "func" /\ \E j \in DOMAIN I.fw.chain : I.fw.chain[j].kw /\ PopThenHard(I.fw.chain[j].fw)))

Deviation(P, comp) == IF DevStaticDispatch(P, comp) THEN "static-dispatch"
                      ELSE IF DevPopThenHard(P, comp) THEN "pop-then-hard" ELSE "-"

(***************************************************************************)
(* The property, and the relation between the layers                       *)
(***************************************************************************)
\* names: exactly the legal ones
NamesExact(P, comp, U) == AlgNames(P, comp) = LegalKw(P, comp, U)
\* type and default of the signature the name is bound in; a parameter that the resolver reports as conditional
\* (documented: several uses of **kwargs disagree) only has to be legal and to come from one of its owners
OfferAgrees(P, comp, U) ==
  LET ref == RefOffer(P, comp, U)  alg == AlgOffer(P, comp) IN
  /\ {d.n : d \in alg} = {d.n : d \in ref}
  /\ \A d \in alg : d.d = "cond" \/ d \in ref
C13Holds(P, comp, U) == Callable(P, comp, U) => (AlgNoDup(P, comp) /\ OfferAgrees(P, comp, U))
=============================================================================
