------------------------------ MODULE Resolver ------------------------------
(***************************************************************************)
(* The **kwargs parameter resolver of jsonargparse (property C13):         *)
(*   jsonargparse/_parameter_resolvers.py, get_signature_parameters.       *)
(*                                                                         *)
(* An abstract PROGRAM is a record  [classes |-> <<class, ...>>]  over     *)
(*   param  [n, t, d]        name, t \in {"int","str","none"} (annotation), *)
(*                           d \in {"req","dflt"} (required / has default)  *)
(*   fwd    [k, b, hard, pos, q, qop, qpos, av, chain]                      *)
(*                                     what the body does with **kwargs     *)
(*            k     "ignore"  kwargs is not forwarded                       *)
(*                  "super0"  super().__init__(hard..., **kwargs)           *)
(*                  "superB"  super(B, self).__init__(hard..., **kwargs),   *)
(*                            b = index of class B                          *)
(*                  "func"    helper(hard..., **kwargs), helper = chain[1]  *)
(*                  "meth"    self.m(hard..., **kwargs)                     *)
(*                  "new"     B(hard..., **kwargs): a new instance of the   *)
(*                            (earlier) class b, also from a helper function*)
(*                  "attr"    self._kw = kwargs, unpacked later in a member *)
(*                            of the class: helper(hard..., **self._kw);    *)
(*                            av = "meth" a method | "prop" a property |    *)
(*                            "upd" self._kw = dict(); self._kw.update(     *)
(*                            **kwargs) | "dict" self._kw = dict( **kwargs)  *)
(*                  "next"    (functions of a chain) the next function      *)
(*            hard  names given as hard-coded keyword arguments at the call *)
(*            pos   number of hard-coded POSITIONAL arguments at the call   *)
(*            q     names taken with kwargs.pop(n, dflt) (qop = "pop") or   *)
(*                  kwargs.get(n, dflt) (qop = "get") before **kwargs is    *)
(*                  unpacked; qpos says where the expression is written:    *)
(*                  "stmt"  own statements before the call                  *)
(*                  "arg"   nested as the positional argument of the call:  *)
(*                          target(kwargs.pop(n, d), **kwargs)   (pos = 1)  *)
(*                  "kw"    nested as the value of the first hard-coded     *)
(*                          keyword: target(h=kwargs.pop(n, d), **kwargs)   *)
(*                  "alias" q = <<n1, n2>>, nested in the other's default:  *)
(*                          kwargs.get(n1, kwargs.get(n2, d))               *)
(*            chain a chain of helper functions (sigs), chain[j] calls      *)
(*                  chain[j+1] when its own fwd.k = "next"                  *)
(*            (round 4) a SECOND use of **kwargs in the same def, written   *)
(*            as the else-branch of an if around the forwarding call:       *)
(*            amode "-"     none                                            *)
(*                  "if"    if _cond(): <call> else: g(ahard..., **kwargs)  *)
(*                          the test is a run-time value (P.cv): documented *)
(*                          "conditional calls"                             *)
(*                  "glob"  if G: <call> else: g(...)   G a module global   *)
(*                  "nglob" if not G: <call> else: g(...)  whose value is   *)
(*                          aflag: documented "constant conditional", the   *)
(*                          resolver only looks at the branch that runs     *)
(*            alt   <<sig>> the function g (owner label F<cid>.4 / Q<cid>.4)*)
(*            ahard names hard-coded at the call of g                       *)
(*            pre   ("attr" with av "upd" / "dict") names the stored dict   *)
(*                  is pre-filled with: self._kw = dict(p=1); .update(      *)
(*                  **kwargs)  |  self._kw = dict(p=1, **kwargs)            *)
(*   sig    [has, ps, kw, fw]   a def: has = it exists, ps = named params,  *)
(*                              kw = it takes **kwargs, fw = its fwd        *)
(*   class  [bases |-> <<index, ...>>, init |-> sig, m |-> sig]            *)
(* Everything is a sequence / string / boolean / number so that a program  *)
(* travels unchanged through ToJson and JsonDeserialize.                    *)
(*                                                                         *)
(* A COMPONENT is what get_signature_parameters is asked about:            *)
(*   [k |-> "cls", c |-> class index]  or  [k |-> "fn", chain |-> <<sig>>] *)
(*                                                                         *)
(* Declarations are identified by an owner label: "C3" the __init__ of     *)
(* class 3, "P3" a kwargs.pop/get in it, "M3" its method m, "F3.2" the     *)
(* second helper of the chain called from it, "Q3.2" a pop/get in that     *)
(* helper (class index 0 for a chain that is the component itself).        *)
(*                                                                         *)
(* Two layers:                                                             *)
(*   Ref*  Python's call semantics: which keyword sets a call accepts      *)
(*         along the RUNTIME method resolution order, and where each       *)
(*         keyword is bound.  LegalKw is derived from it.                  *)
(*   Alg*  the resolver transcribed function by function (anchors in the   *)
(*         comments), including the current_mro context variable.          *)
(***************************************************************************)
EXTENDS Naturals, Sequences, FiniteSets, TLC

SetOf(s)    == {s[i] : i \in DOMAIN s}
MinOf(S)    == CHOOSE x \in S : \A y \in S : x <= y
NamesOf(ps) == {ps[i].n : i \in DOMAIN ps}
ReqOf(ps)   == {ps[i].n : i \in {j \in DOMAIN ps : ps[j].d = "req"}}
PosIn(s, x) == LET S == {i \in DOMAIN s : s[i] = x} IN IF S = {} THEN 0 ELSE MinOf(S)
Str(n)      == ToString(n)

NoFwd  == [k |-> "ignore", b |-> 0, hard |-> << >>, pos |-> 0, q |-> << >>, qop |-> "pop", qpos |-> "stmt", av |-> "-", chain |-> << >>,
           amode |-> "-", aflag |-> FALSE, ahard |-> << >>, alt |-> << >>, pre |-> << >>]
NoSig  == [has |-> FALSE, ps |-> << >>, kw |-> FALSE, fw |-> NoFwd]

(***************************************************************************)
(* Ref layer 1: the method resolution order (C3 linearisation, as CPython  *)
(* computes type.__mro__; `object` is left out).  A 0 in the result means   *)
(* that no consistent order exists (Python refuses the class statement).   *)
(***************************************************************************)
RECURSIVE C3Merge(_)
C3Merge(seqs) ==
  LET ne == SelectSeq(seqs, LAMBDA s : Len(s) > 0) IN
  IF Len(ne) = 0 THEN << >>
  ELSE LET InTail(h) == \E i \in DOMAIN ne : \E j \in 2..Len(ne[i]) : ne[i][j] = h
           good == {i \in DOMAIN ne : ~InTail(ne[i][1])}
       IN IF good = {} THEN <<0>>
          ELSE LET h == ne[MinOf(good)][1]
                   rest == [i \in DOMAIN ne |-> IF ne[i][1] = h THEN Tail(ne[i]) ELSE ne[i]]
               IN <<h>> \o C3Merge(rest)

RECURSIVE Mro(_, _)
Mro(P, c) == LET bs == P.classes[c].bases IN
             <<c>> \o C3Merge([i \in 1..Len(bs) |-> Mro(P, bs[i])] \o <<bs>>)
MroOK(P, c) == 0 \notin SetOf(Mro(P, c))

\* the class of the sequence `order` (from position `from`) whose own body defines __init__ / m; 0 = none (object's)
DefIn(P, order, from, what) ==
  LET S == {i \in from..Len(order) : IF what = "init" THEN P.classes[order[i]].init.has ELSE P.classes[order[i]].m.has}
  IN IF S = {} THEN 0 ELSE MinOf(S)

(***************************************************************************)
(* Ref layer 2: Python's call semantics.  A call passes a SET K of keyword *)
(* names (values do not influence acceptance) and np hard-coded positional *)
(* arguments.  The outcome is                                               *)
(*   [ok |-> FALSE]  some call on the way raises TypeError (unexpected     *)
(*                   keyword, missing required argument, multiple values   *)
(*                   for a keyword) or AttributeError (no method m), or    *)
(*   [ok |-> TRUE, bind |-> {declaration}]  where every keyword that the   *)
(*                   CALLER passed ended up: in a named parameter, or      *)
(*                   taken by name with kwargs.pop/get.  Keywords that die *)
(*                   in an unused **kwargs dict are bound nowhere.         *)
(***************************************************************************)
Fail  == [ok |-> FALSE, bind |-> {}]
Ok(b) == [ok |-> TRUE, bind |-> b]

\* owner labels (tables: constant definitions are evaluated once by TLC)
MaxIdx == 12
CLab == [x \in 0..MaxIdx |-> "C" \o Str(x)]
PLab == [x \in 0..MaxIdx |-> "P" \o Str(x)]
MLab == [x \in 0..MaxIdx |-> "M" \o Str(x)]
FLab == [x \in 0..MaxIdx |-> [j \in 1..4 |-> "F" \o Str(x) \o "." \o Str(j)]]
QLab == [x \in 0..MaxIdx |-> [j \in 1..4 |-> "Q" \o Str(x) \o "." \o Str(j)]]

\* a binding is the DECLARATION that received the keyword: [o, n, t, d]
Decl(o, p)    == [o |-> o, n |-> p.n, t |-> p.t, d |-> p.d]
\* kwargs.pop("n", dflt): no annotation, a default; "expr" when the default is not a literal (the other pop/get of an alias)
PopDflt(fw, n)   == IF fw.qpos = "alias" /\ Len(fw.q) > 0 /\ n = fw.q[1] THEN "expr" ELSE "dflt"
PopDecl(o, fw, n) == [o |-> o, n |-> n, t |-> "none", d |-> PopDflt(fw, n)]
Named(sig, o, K) == {Decl(o, sig.ps[i]) : i \in {j \in DOMAIN sig.ps : sig.ps[j].n \in K}}
Pops(o, fw, S)   == {PopDecl(o, fw, n) : n \in S}

\* binding np positional and the keyword arguments K to a def (CPython: too many positional arguments / multiple values
\* for an argument given by position and by keyword / unexpected keyword / missing required argument)
Arrive(sig, K, np) ==
  LET own  == NamesOf(sig.ps)
      byps == {sig.ps[i].n : i \in 1..(IF np <= Len(sig.ps) THEN np ELSE 0)}
  IN [ok |-> np <= Len(sig.ps) /\ byps \cap K = {} /\ (K \subseteq own \/ sig.kw) /\ ReqOf(sig.ps) \subseteq (K \cup byps), rest |-> K \ own]

\* f(h=..., **kwargs): a keyword both hard-coded and present in kwargs is "multiple values for keyword argument";
\* what the callee binds for the hard-coded names was not passed by our caller
Back(r, mine, hard) == IF r.ok THEN Ok(mine \cup {b \in r.bind : b.n \notin hard}) ELSE Fail

\* (round 4) which branch of `if <test>: <call> else: g(...)` runs: the else-branch when the run-time test (P.cv) is
\* false / the module global has the value that makes the test false.  Eff is the forwarding that really happens:
\* kind "alt" = the call of g with ITS hard-coded names (a pop/get nested in the arguments of the other call does
\* not happen then)
TakeAlt(P, fw) == CASE fw.amode = "if"    -> ~P.cv
                    [] fw.amode = "glob"  -> ~fw.aflag
                    [] fw.amode = "nglob" -> fw.aflag
                    [] OTHER              -> FALSE
Eff(P, fw) == IF TakeAlt(P, fw)
              THEN [fw EXCEPT !.k = "alt", !.hard = fw.ahard, !.pos = 0, !.q = IF fw.qpos \in {"arg", "kw"} THEN << >> ELSE fw.q]
              ELSE fw
\* g is the function number 4 of the def's helper functions (labels F<cid>.4 / Q<cid>.4; the chains have depth <= 3)
AltChain(fw) == <<NoSig, NoSig, NoSig, fw.alt[1]>>

RECURSIVE RefFn(_, _, _, _, _, _)
RECURSIVE RefInit(_, _, _, _, _)
RefFn(P, chain, j, cid, K, np) ==
  LET s      == chain[j]
      a      == Arrive(s, K, np)
      fw     == IF s.kw THEN Eff(P, s.fw) ELSE s.fw
      popped == a.rest \cap SetOf(fw.q)
      mine   == Named(s, FLab[cid][j], K) \cup Pops(QLab[cid][j], fw, popped)
      rest   == IF fw.qop = "pop" THEN a.rest \ popped ELSE a.rest
      hard   == SetOf(fw.hard)
  IN IF ~a.ok THEN Fail
     ELSE IF ~s.kw THEN Ok(Named(s, FLab[cid][j], K))
     ELSE IF fw.k = "ignore" THEN Ok(mine)
     ELSE IF hard \cap rest # {} THEN Fail
     ELSE IF fw.k = "alt" THEN (IF Len(fw.alt) = 0 THEN Fail ELSE Back(RefFn(P, AltChain(fw), 4, cid, rest \cup hard, 0), mine, hard))
     ELSE IF fw.k = "new" THEN Back(RefInit(P, Mro(P, fw.b), 1, rest \cup hard, fw.pos), mine, hard)
     ELSE IF j >= Len(chain) THEN Fail
     ELSE Back(RefFn(P, chain, j + 1, cid, rest \cup hard, fw.pos), mine, hard)

RefMeth(P, Y, K, np) == LET a == Arrive(P.classes[Y].m, K, np) IN IF a.ok THEN Ok(Named(P.classes[Y].m, MLab[Y], K)) ELSE Fail

\* the __init__ that runs when the search starts at position pos of the runtime MRO `mro` of the instantiated class.
\* "attr": the stored dict is unpacked when the member is used; a call of the component is the construction followed by
\* the use of every such member (the harness does exactly that), so the use is part of the call.
RefInit(P, mro, pos, K, np) ==
  LET k == DefIn(P, mro, pos, "init") IN
  IF k = 0 THEN (IF K = {} /\ np = 0 THEN Ok({}) ELSE Fail)    \* object.__init__() takes no argument
  ELSE LET X  == mro[k]
           I  == P.classes[X].init
           a  == Arrive(I, K, np)
           fw == IF I.kw THEN Eff(P, I.fw) ELSE I.fw
           popped == a.rest \cap SetOf(fw.q)
           mine   == Named(I, CLab[X], K) \cup Pops(PLab[X], fw, popped)
           rest   == IF fw.qop = "pop" THEN a.rest \ popped ELSE a.rest
           hard   == SetOf(fw.hard)
           send   == rest \cup hard
       IN IF ~a.ok THEN Fail
          ELSE IF ~I.kw THEN Ok(Named(I, CLab[X], K))
          ELSE IF fw.k = "ignore" THEN Ok(mine)
          ELSE IF hard \cap rest # {} THEN Fail
          ELSE CASE fw.k = "super0" -> Back(RefInit(P, mro, k + 1, send, fw.pos), mine, hard)
                 [] fw.k = "superB" -> LET kb == PosIn(mro, fw.b) IN
                                       IF kb = 0 THEN Fail ELSE Back(RefInit(P, mro, kb + 1, send, fw.pos), mine, hard)
                 [] fw.k = "func"   -> IF Len(fw.chain) = 0 THEN Fail ELSE Back(RefFn(P, fw.chain, 1, X, send, fw.pos), mine, hard)
                 \* (round 4) a pre-filled stored dict: dict(p=1, **kwargs) raises "multiple values" when the caller passes p,
                 \* d = dict(p=1); d.update(**kwargs) lets the caller's value win; what the callee binds for a pre-filled
                 \* name that the caller did not pass was not passed by the caller
                 [] fw.k = "attr"   -> LET pre == SetOf(fw.pre) IN
                                       IF Len(fw.chain) = 0 \/ (fw.av = "dict" /\ pre \cap rest # {}) \/ hard \cap pre # {} THEN Fail
                                       ELSE Back(RefFn(P, fw.chain, 1, X, send \cup pre, fw.pos), mine, hard \cup (pre \ rest))
                 [] fw.k = "alt"    -> IF Len(fw.alt) = 0 THEN Fail ELSE Back(RefFn(P, AltChain(fw), 4, X, send, 0), mine, hard)
                 [] fw.k = "meth"   -> LET y == DefIn(P, mro, 1, "m") IN       \* self.m: looked up on type(self)
                                       IF y = 0 THEN Fail ELSE Back(RefMeth(P, mro[y], send, fw.pos), mine, hard)
                 [] fw.k = "new"    -> Back(RefInit(P, Mro(P, fw.b), 1, send, fw.pos), mine, hard)   \* a fresh object of class b
                 [] OTHER           -> Fail

\* the classes whose __init__ a resolver could be tempted to look at when the search starts at position pos of mro
\* (structure only): the real target of the forwarding call, and -- for any def that takes **kwargs -- the next
\* __init__ of the MRO, which is where the assumptions resolver would go.  A class outside this set has no influence
\* on the component: deleting its __init__ gives a smaller program of the same instance.
RECURSIVE Entered(_, _, _, _)
Entered(P, mro, pos, fuel) ==
  LET k == DefIn(P, mro, pos, "init") IN
  IF k = 0 \/ fuel = 0 THEN {}
  ELSE LET X == mro[k]  I == P.classes[X].init  fw == I.fw
           ViaChain(ch) == UNION {IF ch[j].kw /\ ch[j].fw.k = "new" THEN Entered(P, Mro(P, ch[j].fw.b), 1, fuel - 1) ELSE {} : j \in DOMAIN ch}
       IN {X} \cup (IF ~I.kw THEN {}
                    ELSE Entered(P, mro, k + 1, fuel - 1) \cup
                         CASE fw.k = "superB" -> LET kb == PosIn(mro, fw.b) IN IF kb = 0 THEN {} ELSE Entered(P, mro, kb + 1, fuel - 1)
                           [] fw.k = "new"    -> Entered(P, Mro(P, fw.b), 1, fuel - 1)
                           [] fw.k \in {"func", "attr"} -> ViaChain(fw.chain)
                           [] OTHER           -> {})
AllMatter(P, c) == {x \in DOMAIN P.classes : P.classes[x].init.has} \subseteq Entered(P, Mro(P, c), 1, 2 * Len(P.classes) + 2)

\* (round 4) the value of the run-time test of the `if` around two uses is part of the run: P.cv
PW(P, v) == [classes |-> P.classes, cv |-> v]
Run(P, comp, K) == IF comp.k = "cls" THEN RefInit(PW(P, FALSE), Mro(P, comp.c), 1, K, 0) ELSE RefFn(PW(P, FALSE), comp.chain, 1, 0, K, 0)
SigHasIf(sg) == sg.has /\ sg.kw /\ sg.fw.amode = "if"
HasIf(P, comp) == (\E c \in DOMAIN P.classes : SigHasIf(P.classes[c].init)) \/ (comp.k = "fn" /\ \E j \in DOMAIN comp.chain : SigHasIf(comp.chain[j]))
CVs(P, comp) == IF HasIf(P, comp) THEN {FALSE, TRUE} ELSE {FALSE}

(***************************************************************************)
(* Ref layer 3: the property's vocabulary, derived from the call semantics *)
(* over the keyword universe U (every name of the program + a fresh one).  *)
(* RunTable evaluates the call once for every keyword set; the derived     *)
(* notions take the table T.                                               *)
(***************************************************************************)
RunTable(P, comp, U) ==
  IF comp.k = "cls" THEN LET mro == Mro(P, comp.c) IN {[K |-> K, cv |-> v, r |-> RefInit(PW(P, v), mro, 1, K, 0)] : K \in SUBSET U, v \in CVs(P, comp)}
  ELSE {[K |-> K, cv |-> v, r |-> RefFn(PW(P, v), comp.chain, 1, 0, K, 0)] : K \in SUBSET U, v \in CVs(P, comp)}
\* (round 4) the part of the table for one value of the run-time test; the laws below hold per slice, the legal
\* parameters are those of all slices together ("a call can legally pass"), and a parameter that some callable slice
\* does not accept must be offered as Conditional (documented: "the parser does not know which of the calls will be
\* used at runtime, and adding them would cause instantiate_classes to fail")
Slice(T, v)  == {e \in T : e.cv = v}
SlicesOf(T)  == {Slice(T, v) : v \in {e.cv : e \in T}}
Succ(T)      == {x \in T : x.r.ok}                                    \* the calls that succeed
OKSets(T)    == {e.K : e \in Succ(T)}
\* some call succeeds (a set test: safe inside actions); (round 4) for every value of the run-time test: a program
\* one of whose branches can only raise is not a component anybody can use
Callable(T)  == Succ(T) # {} /\ \A v \in {e.cv : e \in T} : \E e \in Succ(T) : e.cv = v
Required(T)  == LET ok == OKSets(T) IN {n \in UNION ok : \A K \in ok : n \in K}
Accepted(T)  == UNION OKSets(T)                                       \* no TypeError when passed
Bindings(T)  == UNION {e.r.bind : e \in Succ(T)}                      \* declarations [o, n, t, d] that can receive a keyword
LegalKw(T)   == {b.n : b \in Bindings(T)}                             \* the NAMED parameters a call can pass
\* what the property says must be offered: each legal name with the type and default of the signature it is bound in
RefOffer(T)  == Bindings(T)
Everywhere(T) == {n \in Accepted(T) : \A S \in SlicesOf(T) : n \in Accepted(S)}
UncondOK(T, alg) == \A d \in alg : d.d = "cond" \/ d.n \in Everywhere(T)

\* the keyword universe of a program: every name that occurs in it (declared, popped, hard-coded) and one that does not
ChainNames(chain) == UNION {NamesOf(chain[j].ps) \cup SetOf(chain[j].fw.q) \cup SetOf(chain[j].fw.hard) \cup SetOf(chain[j].fw.ahard)
                               \cup UNION {NamesOf(chain[j].fw.alt[x].ps) \cup SetOf(chain[j].fw.alt[x].fw.q) : x \in DOMAIN chain[j].fw.alt} : j \in DOMAIN chain}
FwNames(fw)       == SetOf(fw.q) \cup SetOf(fw.hard) \cup SetOf(fw.ahard) \cup SetOf(fw.pre) \cup UNION {NamesOf(fw.alt[j].ps) \cup SetOf(fw.alt[j].fw.q) : j \in DOMAIN fw.alt}
ClassNames(cl)    == NamesOf(cl.init.ps) \cup NamesOf(cl.m.ps) \cup FwNames(cl.init.fw) \cup ChainNames(cl.init.fw.chain)
Universe(P, comp) == {"zz"} \cup (IF comp.k = "fn" THEN ChainNames(comp.chain) ELSE {}) \cup UNION {ClassNames(P.classes[c]) : c \in DOMAIN P.classes}

\* laws of the reference itself (checked by TLC on the bounded instance; they are what makes "the set of legal
\* keywords" well defined: keywords are routed independently of each other)
\* (round 4: stated per slice, i.e. per value of the run-time test)
LawIndependent(T0) ==     \* the accepted keyword sets are exactly those between the required and the accepted names
  \A T \in SlicesOf(T0) : Callable(T) => LET req == Required(T)  acc == Accepted(T) IN \A e \in T : e.r.ok <=> (req \subseteq e.K /\ e.K \subseteq acc)
LawAllOffered(T0) ==      \* instantiating with EVERY legal parameter does not raise
  \A T \in SlicesOf(T0) : Callable(T) => LET all == Required(T) \cup LegalKw(T) IN \E e \in T : e.K = all /\ e.r.ok
LawOneOwner(T0) ==        \* a keyword is bound in one place, whatever else is passed
  \A T \in SlicesOf(T0) : LET B == Bindings(T) IN \A b1, b2 \in B : b1.n = b2.n => b1 = b2
LawStableOwner(T0) ==
  \A T \in SlicesOf(T0) : LET B == Bindings(T) IN \A e \in Succ(T) : e.r.bind = {b \in B : b.n \in e.K}

(***************************************************************************)
(* Alg layer: _parameter_resolvers.py                                      *)
(* ParamData (38-47) is [n, t, d, o, kind, org]:                           *)
(*   kind "pk" POSITIONAL_OR_KEYWORD | "ko" KEYWORD_ONLY                   *)
(*   org  "-" origin None | "pg" origin starts with "**.pop|get():" |      *)
(*        "node" set by add_node_origins | "cond" a tuple (conditional)    *)
(*   d    additionally "cond" (ConditionalDefault) and t "union"           *)
(* The context variable current_mro (457) is threaded through as           *)
(*   ms = [cl |-> <<classes>>, ix |-> position]   (cl = << >>: (None,None))*)
(* because get_mro_parameters / ast_is_supported_super_call .set() it and  *)
(* only mro_context resets it.  Every resolution returns                   *)
(*   [ps, ms, ev]: parameters, context variable afterwards and the set of  *)
(*   named deviations met on the way.  (Nothing in the grammar makes the   *)
(*   AST resolver raise any more, so the stubs / assumptions fallback of   *)
(*   get_signature_parameters:1115-1133 is never reached.)                 *)
(* PT is the program with one more field: PT.top = the class the question  *)
(* is about (0 for a function), used only to NAME deviation D1.            *)
(*                                                                         *)
(* Named deviations of the code from the property (recorded findings, see  *)
(* tools/findings.d/C13.json); the invariant of MC_Resolver is             *)
(*     no deviation on the walk  =>  the offer is exactly Ref's.           *)
(* (D1) "static-dispatch": the visitor of an __init__ reached through      *)
(*      super() resolves self.m on the class that DEFINES that __init__    *)
(*      (get_node_component:655-658, self.parent); Python on type(self).   *)
(* (D2) "pop-then-hard": `v = kwargs.pop("n", d); target(n=f(v), **kwargs)`*)
(*      remove_given_parameters puts n into removed_params (272-273) and   *)
(*      line 817 then also drops the POPPED parameter n, which a caller    *)
(*      can pass.                                                          *)
(* (D3) "cond-regroup": REPAIRED in /repo by 6ff3c53 (group_parameters     *)
(*      called .startswith on the tuple origin of a conditional parameter, *)
(*      AttributeError escaped and the assumptions resolver answered).     *)
(*      The transcription below is the repaired code: a list that starts   *)
(*      with a conditional parameter counts as a non-pop/get use.          *)
(* (round 4) (D5) "hard-other-use", (D6) "empty-branch", (D7) "prefilled-  *)
(*      dict": see AstKwargs.                                              *)
(* (D4) "double-positional": a class that INHERITS an __init__ whose body  *)
(*      is super().__init__(value, **kwargs): current_mro points at the    *)
(*      subclass, get_mro_parameters:475-483 selects the defining class    *)
(*      again, the def is resolved twice and remove_given_parameters       *)
(*      removes the parameter at index 0 twice (hard-coded KEYWORDS are    *)
(*      removed by name, which is idempotent).                             *)
(***************************************************************************)
NoMro == [cl |-> << >>, ix |-> 0]
PD(p, o) == [n |-> p.n, t |-> p.t, d |-> p.d, o |-> o, kind |-> "pk", org |-> "-"]
Res(ps, ms, ev) == [ps |-> ps, ms |-> ms, ev |-> ev]

\* get_signature_parameters_and_indexes:281-301   inspect.signature without self and without **kwargs
OwnParams(sig, o) == [i \in DOMAIN sig.ps |-> PD(sig.ps[i], o)]

\* remove_given_parameters:266-274   first the parameters at the positions of the positional arguments of the call, then
\* those named by its keywords; with a removed_params set (only get_parameters_args_and_kwargs passes one) the keyword
\* names that were found are recorded in it
RemoveGiven(hard, npos, ps) == SelectSeq(SubSeq(ps, (IF npos <= Len(ps) THEN npos ELSE Len(ps)) + 1, Len(ps)), LAMBDA p : p.n \notin hard)
RemovedBy(hard, npos, ps)   == IF Len(RemoveGiven(hard, npos, ps)) < Len(ps) THEN {p.n : p \in {x \in SetOf(ps) : x.n \in hard}} ELSE {}

\* add_node_origins:839-845
AddNodeOrigins(ps) == [i \in DOMAIN ps |-> IF ps[i].org = "-" THEN [ps[i] EXCEPT !.org = "node"] ELSE ps[i]]

\* replace_args_and_kwargs:398-409   names that the def itself declares shadow the ones found behind **kwargs
ReplaceKw(own, kwargs) == own \o SelectSeq(kwargs, LAMBDA p : p.n \notin NamesOf(own))

\* group_parameters:412-445
Flatten(lists) == LET RECURSIVE F(_)
                      F(i) == IF i > Len(lists) THEN << >> ELSE lists[i] \o F(i + 1)
                  IN F(1)
FirstOcc(flat) == SelectSeq([i \in DOMAIN flat |-> IF \E j \in 1..(i - 1) : flat[j].n = flat[i].n THEN [flat[i] EXCEPT !.n = "?dup?"] ELSE flat[i]],
                            LAMBDA p : p.n # "?dup?")
GroupParameters(lists) ==
  IF Len(lists) = 1 THEN [i \in DOMAIN lists[1] |-> IF lists[1][i].org = "cond" THEN lists[1][i] ELSE [lists[1][i] EXCEPT !.org = "-"]]
  ELSE LET nonpg == Cardinality({i \in DOMAIN lists : lists[i][1].org # "pg"})              \* non_get_pop_count (422-424: a str origin
                                                                                             \* with the pop/get prefix; a tuple is none)
           flat  == Flatten(lists)
           first == FirstOcc(flat)                                                           \* params_dict keeps first-seen order
           G(g)  == LET occ      == SelectSeq(flat, LAMBDA p : p.n = g.n)
                        types    == {occ[i].t : i \in DOMAIN occ} \ {"none"}
                        \* unique(defaults): literal values are unique per owner; an UnknownDefault ("expr") or a
                        \* ConditionalDefault ("cond") is a new object at every visit and equals nothing else
                        literal  == {<<occ[i].o, occ[i].d>> : i \in {j \in DOMAIN occ : occ[j].d = "dflt"}}
                        ndefault == Cardinality(literal) + Cardinality({j \in DOMAIN occ : occ[j].d \in {"expr", "cond"}})
                    IN IF Len(occ) >= nonpg /\ Cardinality(types) <= 1 /\ ndefault <= 1
                       THEN [g EXCEPT !.org = "-"]
                       ELSE [g EXCEPT !.org = "cond", !.d = "cond", !.t = IF Cardinality(types) > 1 THEN "union" ELSE g.t]
       IN [i \in DOMAIN first |-> G(first[i])]

\* mro_context:460-472 on entry
EnterMro(P, parent, ms) == IF ms.cl = << >> \/ ms.cl[ms.ix] # parent THEN [cl |-> Mro(P, parent), ix |-> 1] ELSE ms
TokenSet(parent, ms)    == ms.cl = << >> \/ ms.cl[ms.ix] # parent

\* getattr_static(cls, name) / getattr(cls, name): the defining class in cls's OWN mro, 0 = object's slot
DefOf(P, c, what) == LET o == Mro(P, c)  k == DefIn(P, o, 1, what) IN IF k = 0 THEN 0 ELSE o[k]

\* get_mro_parameters:475-483   the next class after current_mro's index whose __init__ is not merely inherited from a
\* class further down the list; 0 = none
NextInMro(P, ms) ==
  LET cand == {num \in (ms.ix + 1)..Len(ms.cl) :
                 LET d == DefOf(P, ms.cl[num], "init") IN
                 d # 0 /\ ~\E j \in (num + 1)..Len(ms.cl) : DefOf(P, ms.cl[j], "init") = d}
  IN IF cand = {} THEN 0 ELSE MinOf(cand)

RECURSIVE GspClass(_, _, _, _)
RECURSIVE GspFn(_, _, _, _)
RECURSIVE AstKwargs(_, _, _, _, _, _)

\* get_parameters_args_and_kwargs:763-818 for one def.  parent = the class whose visitor this is (0 for a function),
\* plab = owner label of its pop/get parameters, ctx = the helper chain the def belongs to / calls
AstKwargs(PT, parent, fw, ms, plab, ctx) ==
  LET hard    == SetOf(fw.hard)
      \* (D4) the class chosen by get_mro_parameters has the very def that is being analysed (it was inherited by the
      \* class the visitor was created for) and the call passes a positional argument
      Again(r, c) == IF fw.pos > 0 /\ parent # 0 /\ DefOf(PT, c, "init") = ctx.cid THEN [r EXCEPT !.ev = @ \cup {"double-positional"}] ELSE r
      \* 781-786 + get_kwargs_pop_or_get_parameter:741-761   one single-parameter list per pop/get call; the default is
      \* unknown ("expr") when it is not a literal
      poplists == [i \in DOMAIN fw.q |-> << [n |-> fw.q[i], t |-> "none", d |-> PopDflt(fw, fw.q[i]), o |-> plab, kind |-> "ko", org |-> "pg"] >>]
      \* 787-805  the call that receives **kwargs; each target is asked through get_signature_parameters
      \* (round 4) visit_If:593-603: an `if` whose test is a module global (or `not` one) is replaced by the branch
      \* that the CURRENT value selects, so only that use is recorded; any other test: both branches are visited,
      \* body first
      skip1 == (fw.amode = "glob" /\ ~fw.aflag) \/ (fw.amode = "nglob" /\ fw.aflag)
      skip2 == fw.amode = "-" \/ (fw.amode = "glob" /\ fw.aflag) \/ (fw.amode = "nglob" /\ ~fw.aflag) \/ Len(fw.alt) = 0
      call ==
        CASE skip1 -> Res(<< >>, ms, {})
          [] fw.k = "ignore" -> Res(<< >>, ms, {})
          [] fw.k = "super0" ->                                                          \* 217-221: super() is supported
               LET num == NextInMro(PT, ms) IN
               IF num = 0 THEN Res(<< >>, ms, {}) ELSE Again(GspClass(PT, ms.cl[num], "init", [ms EXCEPT !.ix = num]), ms.cl[num])
          [] fw.k = "superB" ->                                                          \* 222-235: search classes[idx:] for B
               LET offs == {i \in ms.ix..Len(ms.cl) : ms.cl[i] = fw.b} IN
               IF ms.cl = << >> \/ offs = {} THEN Res(<< >>, ms, {})                     \* unsupported super parameters
               ELSE LET ms2 == [ms EXCEPT !.ix = MinOf(offs)]
                        num == NextInMro(PT, ms2)
                    IN IF num = 0 THEN Res(<< >>, ms2, {}) ELSE Again(GspClass(PT, ms2.cl[num], "init", [ms2 EXCEPT !.ix = num]), ms2.cl[num])
          [] fw.k \in {"func", "attr"} ->
               \* "attr": 806-812 the assignment self.<attr> = kwargs (or the dict assignment found through dict_assigns,
               \* visit_Call:582-586) -> get_parameters_attr_use_in_members:820-834 -> get_parameters_call_attr:847-859 ->
               \* match_call_that_uses_attr:675-692: the call in the member that unpacks **self.<attr>
               IF Len(fw.chain) = 0 THEN Res(<< >>, ms, {}) ELSE GspFn(fw.chain, 1, ctx.cid, [PT |-> PT, ms |-> ms])
          [] fw.k = "meth"   ->                                                          \* get_node_component:655-658  self.parent
               LET r == GspClass(PT, parent, "m", ms) IN
               IF PT.top # 0 /\ DefOf(PT, parent, "m") # DefOf(PT, PT.top, "m") THEN [r EXCEPT !.ev = @ \cup {"static-dispatch"}] ELSE r
          [] fw.k = "new"    -> GspClass([PT EXCEPT !.top = fw.b], fw.b, "init", ms)      \* get_node_component:648-652: a class of the module
          [] fw.k = "next"   -> IF ctx.j >= Len(ctx.chain) THEN Res(<< >>, ms, {})
                                ELSE GspFn(ctx.chain, ctx.j + 1, ctx.cid, [PT |-> PT, ms |-> ms])
          [] OTHER           -> Res(<< >>, ms, {})
      given   == RemoveGiven(hard, fw.pos, call.ps)                                      \* 802 / 691
      \* removed_params: 802 passes the set, match_call_that_uses_attr:691 does not
      removed1 == IF fw.k = "attr" \/ skip1 THEN {} ELSE RemovedBy(hard, fw.pos, call.ps)
      \* (round 4) the second use: g(ahard..., **kwargs), a function of the module (get_node_component:652-653); the
      \* context variable is whatever the first use left behind; ONE removed_params set serves all uses (779, 803, 818)
      call2    == IF skip2 THEN Res(<< >>, call.ms, {}) ELSE GspFn(AltChain(fw), 4, ctx.cid, [PT |-> PT, ms |-> call.ms])
      given2   == RemoveGiven(SetOf(fw.ahard), 0, call2.ps)
      removed2 == IF skip2 THEN {} ELSE RemovedBy(SetOf(fw.ahard), 0, call2.ps)
      removed  == removed1 \cup removed2
      nested   == fw.qpos \in {"arg", "kw"}
      \* 803-805 (for "attr" after group_parameters of the single match, 858, which changes nothing here).  The lists are
      \* in the order visit_Call:578-590 records the uses: a call is recorded BEFORE its arguments are visited, so a
      \* pop/get nested in the arguments of the forwarding call comes after it
      fwdlist == IF Len(given) > 0 THEN << AddNodeOrigins(given) >> ELSE << >>                 \* 804: `if params:`
      fwdlist2 == IF Len(given2) > 0 THEN << AddNodeOrigins(given2) >> ELSE << >>
      lists   == IF nested THEN fwdlist \o (IF skip1 THEN << >> ELSE poplists) \o fwdlist2 ELSE poplists \o fwdlist \o fwdlist2
      ev      == call.ev \cup call2.ev \cup (IF removed \cap SetOf(fw.q) # {} THEN {"pop-then-hard"} ELSE {})
                 \* (D5) a name hard-coded at ONE use is dropped from the parameters found through the OTHER use (818)
                 \cup (IF removed1 \cap NamesOf(given2) # {} \/ removed2 \cap NamesOf(given) # {} THEN {"hard-other-use"} ELSE {})
                 \* (D6) a use whose target has no parameter left is not counted as a use (804), so what the other branch
                 \* offers stays unconditional
                 \cup (IF fw.amode = "if" /\ Len(fw.alt) > 0 /\ ((Len(given) = 0) # (Len(given2) = 0)) THEN {"empty-branch"} ELSE {})
                 \* (D7) self._kw = dict(p=1, **kwargs): only the keywords of the UNPACKING call are removed (691), p stays
                 \cup (IF fw.k = "attr" /\ fw.av = "dict" /\ SetOf(fw.pre) \cap NamesOf(given) # {} THEN {"prefilled-dict"} ELSE {})
  IN IF Len(lists) = 0 THEN Res(<< >>, call2.ms, ev)
     ELSE Res(SelectSeq(GroupParameters(lists), LAMBDA p : p.n \notin removed), call2.ms, ev)   \* 816-818 (no positional-only)

\* ParametersVisitor.get_parameters:867-883 for a function of a chain (no parent: mro_context does nothing)
GspFn(chain, j, cid, env) ==
  LET s    == chain[j]
      own  == OwnParams(s, FLab[cid][j])
  IN IF ~s.kw THEN Res(own, env.ms, {})
     ELSE LET r == AstKwargs(env.PT, 0, s.fw, env.ms, QLab[cid][j], [chain |-> chain, j |-> j, cid |-> cid])
          IN Res(ReplaceKw(own, r.ps), r.ms, r.ev)

\* get_component_and_parent:486-527 + get_parameters:867-883 for (class, "__init__") and (class, "m"), inside
\* get_signature_parameters:1115-1133
GspClass(PT, parent, what, ms) ==
  LET X == DefOf(PT, parent, what) IN                     \* inspect.getattr_static(parent, name)
  IF X = 0 THEN Res(<< >>, ms, {})                        \* object.__init__: component None -> []
  ELSE IF what = "m" THEN Res(OwnParams(PT.classes[X].m, MLab[X]), ms, {})
  ELSE LET I   == PT.classes[X].init
           own == OwnParams(I, CLab[X])
       IN IF ~I.kw THEN Res(own, ms, {})
          ELSE LET inner == EnterMro(PT, parent, ms)                                        \* with mro_context(self.parent)
                   r     == AstKwargs(PT, parent, I.fw, inner, PLab[X], [chain |-> I.fw.chain, j |-> 0, cid |-> X])
                   after == IF TokenSet(parent, ms) THEN ms ELSE r.ms                       \* finally: current_mro.reset(token)
               IN Res(ReplaceKw(own, r.ps), after, r.ev)

\* get_signature_parameters:1094-1134
AlgRun(P, comp) == IF comp.k = "cls" THEN GspClass([classes |-> P.classes, top |-> comp.c], comp.c, "init", NoMro)
                   ELSE GspFn(comp.chain, 1, 0, [PT |-> [classes |-> P.classes, top |-> 0], ms |-> NoMro])
AlgResolve(P, comp) == AlgRun(P, comp).ps
AlgNames(P, comp)   == NamesOf(AlgResolve(P, comp))
DevOf(ev) == IF "static-dispatch" \in ev THEN "static-dispatch"
             ELSE IF "double-positional" \in ev THEN "double-positional"
             ELSE IF "pop-then-hard" \in ev THEN "pop-then-hard"
             ELSE IF "hard-other-use" \in ev THEN "hard-other-use"
             ELSE IF "empty-branch" \in ev THEN "empty-branch"
             ELSE IF "prefilled-dict" \in ev THEN "prefilled-dict" ELSE "-"
Deviation(P, comp)  == DevOf(AlgRun(P, comp).ev)

(***************************************************************************)
(* The property, and the relation between the layers                       *)
(***************************************************************************)
\* names: exactly the legal ones; type and default: those of the signature the name is bound in.  A parameter that
\* the resolver reports as conditional (documented: several uses of **kwargs disagree) only has to be legal.
OfferAgrees(ref, alg) ==
  /\ {d.n : d \in alg} = {d.n : d \in ref}
  /\ \A d \in alg : d.d = "cond" \/ d \in ref
NoDup(ps) == \A i, j \in DOMAIN ps : ps[i].n = ps[j].n => i = j
OfferOf(ps) == {[o |-> ps[i].o, n |-> ps[i].n, t |-> ps[i].t, d |-> ps[i].d] : i \in DOMAIN ps}
C13Holds(P, comp, T) == Callable(T) => LET ps == AlgResolve(P, comp) IN NoDup(ps) /\ OfferAgrees(RefOffer(T), OfferOf(ps)) /\ UncondOK(T, OfferOf(ps))
=============================================================================
