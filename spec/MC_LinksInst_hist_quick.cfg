INIT InitHist
NEXT NextHist
CONSTANTS
  MaxFlat = 3
  FullPermsUpTo = 3
  AllKindsUpTo = 2
  MaxDeepLinks = 0
  DeepFull = FALSE
  Emit = TRUE
INVARIANT HistoryRefinesRef
INVARIANT EmitHist
CHECK_DEADLOCK FALSE
