CONSTANTS
  FamOf <- TraceFamOf
INIT Init
NEXT TNext
INVARIANT Inv
INVARIANT MachineIsFold
CHECK_DEADLOCK FALSE
