------------------------------- MODULE Groups -------------------------------
(***************************************************************************)
(* Equivalent ways of declaring a nested group behave identically          *)
(* (property C07).                                                         *)
(*                                                                         *)
(* The shape language has ONE node for "group g with fields"; the four     *)
(* declaration styles (individual dotted arguments, a dataclass-typed      *)
(* argument, add_class_arguments(K, "g"), an inner parser attached with    *)
(* ActionParser) are four concretisations of that node made by the         *)
(* harness.  The specification therefore predicts ONE outcome per input,   *)
(* and the property is: every style reproduces it.                         *)
(*                                                                         *)
(* A field is [name, kind, hasdef]; kinds: "int", "str", "list" (List[int]),*)
(* "optint" (Optional[int]), "optlist" (Optional[List[int]]).  Values are   *)
(* sequences of integers as in Sources.tla (str: n stands for "s<n>";      *)
(* 99999 = None; 88888 = never set).  An input is a channel ("argv",       *)
(* "cfg", "env", "obj") and a sequence of items [op, f, v, gv, bad]:        *)
(*   "set"    g.f = v            (--g.f=v, {"g": {"f": v}}, APP_G__F=v)    *)
(*   "app"    g.f += v           (--g.f+=v, {"g": {"f+": v}})               *)
(*   "group"  the whole group given as one value: gv = << <<f, v>>, ... >>  *)
(*            (--g={"f": v}, APP_G={"f": v}); fields not mentioned keep     *)
(*            what they have                                                *)
(* bad marks a value of the wrong type for its field.                      *)
(***************************************************************************)
EXTENDS Naturals, Sequences, FiniteSets, TLC

NoneV  == <<99999>>
Unset  == <<88888>>
DefaultOf(fd) == IF ~fd.hasdef THEN (IF fd.kind \in {"optint", "optlist"} THEN NoneV ELSE Unset)   \* Optional without default: None, not required
                 ELSE CASE fd.kind = "list" -> <<7>> [] fd.kind \in {"optint", "optlist"} -> NoneV [] OTHER -> <<7>>
Initial(fields) == [f \in {fields[j].name : j \in 1..Len(fields)} |-> DefaultOf(fields[CHOOSE j \in 1..Len(fields) : fields[j].name = f])]

RECURSIVE SetAll(_, _)
SetAll(cfg, gv) == IF gv = << >> THEN cfg ELSE SetAll([cfg EXCEPT ![Head(gv)[1]] = Head(gv)[2]], Tail(gv))
Apply(cfg, it) ==
  CASE it.op = "set"   -> [cfg EXCEPT ![it.f] = it.v]
    [] it.op = "app"   -> [cfg EXCEPT ![it.f] = (IF @ \in {NoneV, Unset} THEN << >> ELSE @) \o it.v]
    [] it.op = "group" -> SetAll(cfg, it.gv)
    [] it.op = "graw"  -> cfg
RECURSIVE Fold(_, _)
Fold(cfg, items) == IF items = << >> THEN cfg ELSE Fold(Apply(cfg, Head(items)), Tail(items))

\* "graw": the key of the group holds something that is NOT a mapping ({"g": 5}, an empty YAML section "g:", {"g": [1, 2]}).
\* The documentation does not say what that means; the property only demands that the four styles treat it alike.
Unspecified(items) == \E j \in 1..Len(items) : items[j].op = "graw"

\* Ref: rejected iff some value has the wrong type or a field without default was never given
Err == [ok |-> FALSE, cfg |-> << >>]
Outcome(fields, items) ==
  LET final == Fold(Initial(fields), items) IN
  IF \E j \in 1..Len(items) : items[j].bad THEN Err
  ELSE IF \E f \in DOMAIN final : final[f] = Unset THEN Err
  ELSE [ok |-> TRUE, cfg |-> final]

(***************************************************************************)
(* Alg: what differs between the styles                                    *)
(***************************************************************************)
\* The dataclass, class and inner-parser styles get a group-level action (_ActionConfigLoad, created by
\* _create_group_if_requested: _signatures.py:517-548 / ActionParser._move_parser_actions: _actions.py:585-589) that
\* takes the whole group as a value on the command line and in the environment.  Individually declared dotted
\* arguments have no such action: "--g=..." is an unrecognised option, and APP_G is a variable nobody reads.
\* In a config or an object the whole group is just the nested mapping, which every style reads.
HasGroupAction(style) == style # "dotted"
Effective(style, chan, items) ==
  IF HasGroupAction(style) \/ chan \in {"cfg", "obj"} THEN items
  ELSE SelectSeq(items, LAMBDA it : it.op # "group")                       \* env: the group variable is ignored
AlgOutcome(style, chan, fields, items) ==
  IF ~HasGroupAction(style) /\ chan = "argv" /\ \E j \in 1..Len(items) : items[j].op = "group" THEN Err
  ELSE Outcome(fields, Effective(style, chan, items))
\* the named deviation (finding C07 dotted:no-whole-group)
DottedNoWholeGroup(style, chan, items) == style = "dotted" /\ chan \in {"argv", "env"} /\ \E j \in 1..Len(items) : items[j].op = "group"
Styles == {"dotted", "dataclass", "class", "inner"}
=============================================================================
