--------------------------- MODULE MC_LinksParse ---------------------------
(* Bounded instance of LinksParse.tla: every shape of the family below x every sequence of at most MaxItems        *)
(* supplied items (source values through environment, config and command line; values for the target itself        *)
(* through its option, a config, the enclosing class / group spec) for parse_args, and every object of at most     *)
(* MaxItems keys for parse_object.  One state per case; the seeds only split the enumeration among the workers.    *)
EXTENDS LinksParse, Json
CONSTANTS MaxItems,   \* longest item sequence for the shapes with one link
          PairItems,  \* longest item sequence for the shapes with two links or inside a sub-command
          OptItems,   \* longest item sequence for the shapes with an Optional source
          Wide,       \* (round 4) TRUE: also the link sets WideLinkSets (thorough tier)
          Emit

L(srcs, fn, tgt) == [srcs |-> srcs, fn |-> fn, tgt |-> tgt]
LinkSets == {<<L(<<"a">>, "id", "t")>>, <<L(<<"a">>, "one", "t")>>, <<L(<<"a", "b">>, "lin", "t")>>, <<L(<<"g">>, "grp", "t")>>,
             <<L(<<"g">>, "asdict", "d")>>,
             <<L(<<"a">>, "id", "mp")>>, <<L(<<"a", "b">>, "lin", "mp")>>, <<L(<<"g">>, "grp", "mp")>>,
             <<L(<<"a", "b">>, "lin", "mp"), L(<<"g">>, "grp", "t")>>, <<L(<<"b", "a">>, "lin", "t"), L(<<"a">>, "one", "mp")>>,
             \* Optional sources: an init_arg of a class argument, the whole Optional[Class] argument, a plain Optional argument
             <<L(<<"sl">>, "id", "t")>>, <<L(<<"sl">>, "tot", "t")>>, <<L(<<"sl">>, "id", "mp")>>, <<L(<<"s">>, "cls", "t")>>,
             <<L(<<"o">>, "id", "t")>>, <<L(<<"o">>, "tot", "mp")>>,
             \* (round 4) compute functions that raise; several sources with an Optional one (total and partial)
             <<L(<<"a">>, "par", "t")>>, <<L(<<"b">>, "one", "mp"), L(<<"a">>, "par", "t")>>,
             <<L(<<"o", "a">>, "lino", "t")>>, <<L(<<"sl", "a">>, "linp", "t")>>, <<L(<<"o">>, "paro", "mp")>>}
OptLinkSets == {ls \in LinkSets : \E i \in DOMAIN ls : \E j \in DOMAIN ls[i].srcs : ls[i].srcs[j] \in {"o", "s", "sl"}}
ParSub == <<L(<<"a">>, "par", "t")>>      \* (round 4) a compute function that raises, inside a sub-command
SubLinkSets == {ParSub, <<L(<<"a", "b">>, "lin", "t")>>, <<L(<<"g">>, "grp", "mp")>>, <<L(<<"a", "b">>, "lin", "mp"), L(<<"g">>, "grp", "t")>>}
\* (round 4) the parser that declares the links is used through ActionParser
ApLinkSets == {<<L(<<"a">>, "one", "t")>>, <<L(<<"a", "b">>, "lin", "mp")>>, <<L(<<"b">>, "one", "mp"), L(<<"a">>, "par", "t")>>}
\* (round 5) the target is a mandatory field of a nested dataclass / class value of a class argument
NLinkSets == {<<L(<<"a">>, "id", "np")>>, <<L(<<"a", "b">>, "lin", "np")>>}
Shapes == {[links |-> ls, mkind |-> mk, nkind |-> nk, req |-> rq, sub |-> sb, ap |-> ap] :
             ls \in LinkSets \cup NLinkSets, mk \in {"init", "list", "grp"}, nk \in {"dco", "dcp", "deep"}, rq \in BOOLEAN, sb \in BOOLEAN, ap \in BOOLEAN}
WideLinkSets == {<<L(<<"sl", "a">>, "linp", "t")>>, <<L(<<"o">>, "paro", "mp")>>}
ShapeOK(sh) == /\ (~HasM(sh) => sh.mkind = "init")
               /\ (~HasN(sh) => sh.nkind = "dco")
               /\ (HasN(sh) => (~sh.req /\ ~sh.ap /\ ((sh.sub \/ Len(sh.links[1].srcs) > 1) => sh.nkind = "dco")))
               /\ (sh.links \in WideLinkSets => Wide)
               /\ (sh.sub => sh.links \in SubLinkSets \cup {<<L(<<"a">>, "id", "np")>>})
               /\ (sh.ap => (sh.links \in ApLinkSets /\ ~sh.sub /\ sh.mkind \in {"init", "grp"}))
               /\ ((sh.links \in OptLinkSets /\ HasM(sh)) => sh.mkind \in {"init", "grp"})
TheShapes == {sh \in Shapes : ShapeOK(sh)}

\* ------------------------------------------------------------------ the items a case can supply
It(chan, key, val) == [chan |-> chan, key |-> key, val |-> val]
Spec(c, given) == [k |-> "spec", c |-> c, given |-> given]
Specs(s) == [k |-> "specs", v |-> s]
NoArgs == << >>
P5 == [x \in {"p"} |-> Int(5)]
P5Q3 == [x \in {"p", "q"} |-> IF x = "p" THEN Int(5) ELSE Int(3)]
Q3 == [x \in {"q"} |-> Int(3)]
Sources(sh) == UNION {{sh.links[i].srcs[j] : j \in DOMAIN sh.links[i].srcs} : i \in DOMAIN sh.links}
OptVals == {NoneV, Int(0), Int(3), StrE, EList}
L3 == [x \in {"limit"} |-> Int(3)]
LNone == [x \in {"limit"} |-> NoneV]
Null == [k |-> "null"]
SrcItems(sh, chans) ==
  (IF "a" \in Sources(sh) THEN {It(ch, "a", Int(3)) : ch \in chans} \cup {It(ch, "a", Int(4)) : ch \in chans \cap {"argv", "obj"}} ELSE {})
  \cup (IF "b" \in Sources(sh) THEN {It(ch, "b", Int(4)) : ch \in chans \ {"env"}} ELSE {})
  \cup (IF "g" \in Sources(sh) THEN {It(ch, "gx", Int(3)) : ch \in chans} \cup {It(ch, "gy", Int(4)) : ch \in chans \cap {"argv", "obj"}} ELSE {})
  \cup (IF "o" \in Sources(sh) THEN {It(ch, "o", v) : ch \in chans \cap {"argv", "obj"}, v \in OptVals} \cup {It(ch, "o", Int(3)) : ch \in chans \cap {"cfg"}} ELSE {})
  \cup (IF Sources(sh) \cap {"s", "sl"} # {}
        THEN {It(ch, "s", sp) : ch \in chans \cap {"argv", "obj"}, sp \in {Spec("Src", NoArgs), Spec("SrcSub", NoArgs), Spec("SrcNoL", NoArgs), Null}}
             \cup {It(ch, "s", sp) : ch \in chans \cap {"cfg"}, sp \in {Spec("Src", L3), Spec("SrcSub", LNone)}}
             \cup {It(ch, "sl", v) : ch \in chans \cap {"argv"}, v \in OptVals}
        ELSE {})
TgtItems(sh, chans) ==
  (IF "t" \in Targets(sh) THEN {It(ch, "t", Int(5)) : ch \in chans} ELSE {})
  \cup (IF "d" \in Targets(sh) THEN {It(ch, "d", DictV(7, 7)) : ch \in chans \ {"env"}} ELSE {})
  \cup (IF ~HasM(sh) THEN {}
        \* shapes with an Optional source: a small set of items for m (the value supplied for the target is what matters)
        ELSE IF sh.links \in OptLinkSets THEN
             (IF sh.mkind = "init" THEN {It(ch, "m", sp) : ch \in chans \cap {"argv", "obj"}, sp \in {Spec("Base", NoArgs), Spec("NoP", NoArgs)}}
                                        \cup {It(ch, "m", Spec("Sub", P5)) : ch \in chans \cap {"cfg"}} \cup {It(ch, "mp", Int(5)) : ch \in chans \cap {"argv"}}
              ELSE {It(ch, "m", Spec("Base", P5Q3)) : ch \in chans \cap {"argv", "cfg", "obj"}} \cup {It(ch, "mp", Int(5)) : ch \in chans \cap {"cfg"}})
        ELSE IF sh.mkind = "init" THEN
             {It(ch, "m", sp) : ch \in chans \ {"env"}, sp \in {Spec("Base", NoArgs), Spec("Sub", NoArgs), Spec("NoP", NoArgs), Spec("Base", P5), Spec("Sub", P5Q3)}}
             \cup {It(ch, "mq", Int(3)) : ch \in chans \cap {"argv"}} \cup {It(ch, "mp", Int(5)) : ch \in chans \cap {"argv"}}
             \cup (IF sh.sub \/ sh.ap \/ "argv" \notin chans THEN {} ELSE {It("file", "m", Spec("Sub", Q3)), It("cfgfile", "m", Spec("Base", P5))})
        ELSE IF sh.mkind = "list" THEN
             {It(ch, "m", Specs(s)) : ch \in chans \ {"env"},
                s \in {<<Spec("Base", NoArgs)>>, <<Spec("Base", NoArgs), Spec("Sub", NoArgs)>>, <<Spec("NoP", NoArgs), Spec("Base", Q3)>>,
                       <<Spec("Base", P5), Spec("Sub", NoArgs)>>, <<Spec("NoP", NoArgs)>>, << >>}}
        ELSE {It(ch, "m", sp) : ch \in chans \ {"env"}, sp \in {Spec("Base", Q3), Spec("Base", P5Q3), Spec("Base", P5)}}
             \cup {It(ch, "mq", Int(3)) : ch \in chans \cap {"argv"}} \cup {It(ch, "mp", Int(5)) : ch \in chans \cap {"argv", "cfg", "obj"}}
             \cup (IF sh.sub \/ sh.ap \/ "argv" \notin chans THEN {} ELSE {It("file", "m", Spec("Base", P5Q3)), It("cfgfile", "m", Spec("Base", Q3))}))
\* (round 4) a default config file of the parser gives a source / the target itself
DcfLinkSets == {<<L(<<"a">>, "par", "t")>>, <<L(<<"a", "b">>, "lin", "t")>>, <<L(<<"b">>, "one", "mp"), L(<<"a">>, "par", "t")>>}
DcfItems(sh, chans) == IF sh.links \in DcfLinkSets /\ ~sh.sub /\ ~sh.ap /\ "argv" \in chans THEN {It("dcf", "a", Int(3)), It("dcf", "t", Int(5))} ELSE {}
R3 == [x \in {"r"} |-> Int(3)]
S5R3 == [x \in {"seed", "r"} |-> IF x = "seed" THEN Int(5) ELSE Int(3)]
NSpec(inner) == [k |-> "nspec", inner |-> inner]
NTgtItems(sh, chans) == IF ~HasN(sh) THEN {} ELSE {It(ch, "n", NSpec(inn)) : ch \in chans \ {"env"}, inn \in (IF sh.nkind = "deep" THEN {} ELSE {NoneV}) \cup {InV(R3), InV(S5R3)}}   \* (deep: aug is a mandatory class parameter -- a spec without it is an invalid input)
ItemsOf(sh, chans) == SrcItems(sh, chans) \cup TgtItems(sh, chans) \cup DcfItems(sh, chans) \cup NTgtItems(sh, chans)

\* parse_args: environment variables are read before the command line, whatever the order of the call
\* (and the default config file before the environment)
EnvFirst(s) == \A i, j \in DOMAIN s : /\ ((i < j /\ s[j].chan = "env") => s[i].chan \in {"env", "dcf"})
                                       /\ ((i < j /\ s[j].chan = "dcf") => s[i].chan = "dcf")
\* --s.limit on a class that has no such parameter is an invalid input (it fails for a reason that has nothing to do
\* with links): such sequences are left out
OneN(s) == \A x, y \in DOMAIN s : (x # y /\ s[x].key = "n") => s[y].key # "n"
NoBadSl(s) == ~(\E i, j \in DOMAIN s : s[i].key = "sl" /\ s[j].key = "s" /\ s[j].val.k = "spec" /\ s[j].val.c = "SrcNoL")
NoDupEnv(s) == \A i, j \in DOMAIN s : (i # j /\ s[i].chan \in {"env", "dcf"}) => s[i].key # s[j].key \/ s[j].chan # s[i].chan
Bound(sh) == IF sh.links \in OptLinkSets THEN OptItems ELSE IF Len(sh.links) > 1 \/ (sh.sub /\ sh.links # ParSub) \/ (sh.ap /\ HasM(sh)) THEN PairItems ELSE MaxItems
ArgsSeqs(sh) == {s \in UNION {[1..n -> ItemsOf(sh, {"env", "cfg", "argv"})] : n \in 0..Bound(sh)} : EnvFirst(s) /\ NoDupEnv(s) /\ NoBadSl(s) /\ OneN(s)}
\* parse_object: one dict; keys are distinct, the order is immaterial (one representative)
ObjSeqs(sh) == {s \in UNION {[1..n -> ItemsOf(sh, {"obj"})] : n \in 1..Bound(sh)} :
                  /\ \A i, j \in DOMAIN s : i # j => (s[i].key # s[j].key /\ {s[i].key, s[j].key} # {"m", "mq"} /\ {s[i].key, s[j].key} # {"m", "mp"}
                                                        /\ {s[i].key, s[j].key} # {"s", "sl"})
                  /\ \A i, j \in DOMAIN s : i < j => s[i] # s[j]}

VARIABLES phase, shape, api, items
vars == <<phase, shape, api, items>>
Init == phase = "seed" /\ shape \in TheShapes /\ api \in {"args", "object"} /\ items = << >>
Next == /\ phase = "seed" /\ phase' = "case" /\ UNCHANGED <<shape, api>>
        /\ items' \in (IF api = "args" THEN ArgsSeqs(shape) ELSE ObjSeqs(shape))
Case == phase = "case"

Out  == AlgParse(shape, items)
Dmp  == AlgDump(shape, Out.c)
Dcf  == DcfItemsOf(items)
Re   == AlgReparse(shape, Dcf, Dmp)
Sv   == AlgSaveMulti(shape, Out.c)
SvRe == AlgSaveReparse(shape, Dcf, Sv)
Sd   == AlgDumpSD(shape, Dcf, Out.c)
SdRe == AlgReparse(shape, Dcf, Sd)
HIn  == Changed(shape, Out.c)
HOut == AlgHist(shape, Dcf, HIn)

\* C15, design level: the transcription satisfies every clause of the property ...
ParseRefinesRef == (Case /\ ~shape.ap /\ ~SubEnvRaises(shape, items) /\ ~DcfRaises(shape, items)) => RefParseOK(shape, items, Out)
\* the recorded deviation SubEnvRaises is one: nothing supplies the target, the final sources are fine, and the parse fails
SubEnvDeviationExact == (Case /\ SubEnvRaises(shape, items) /\ ~RaisesOn(shape, items) /\ \A n \in DOMAIN items : ~SuppliesTarget(items[n]))
                          => SubEnvDeviation(shape, items, Out)
DcfDeviationExact == (Case /\ DcfRaises(shape, items) /\ ~RaisesOn(shape, items) /\ \A n \in DOMAIN items : ~SuppliesTarget(items[n]))
                          => DcfDeviation(shape, items, Out)
\* ... the dump hides the target except in the recorded deviation (items of a list of classes) ...
DumpRefinesRef == (Case /\ ~shape.ap /\ Out.ok /\ ~ListItemsKeepTarget(shape, Out.c)) => DumpHidesTarget(shape, Dmp)
DeviationExact == (Case /\ Out.ok /\ ListItemsKeepTarget(shape, Out.c)) => ~DumpHidesTarget(shape, Dmp)
\* ... and re-parsing the dump reconstructs the configuration
ReparseRefinesRef == (Case /\ ~shape.ap /\ Out.ok) => Reconstructed(shape, Out.c, Re)
\* ... save() in both modes writes no file that contains a target (the single-file mode is dump), and the saved
\* configuration reconstructs the targets as well
SaveRefinesRef == (Case /\ ~shape.ap /\ Out.ok /\ ~ListItemsKeepTarget(shape, Out.c)) =>
                    (SaveHidesTarget(shape, Sv.main, Sv.sub) /\ Reconstructed(shape, Out.c, SvRe))
\* ... dump(skip_default=True) hides the targets as well, and re-parsing it gives them back
SkipDefaultRefinesRef == (Case /\ ~shape.ap /\ Out.ok /\ ~ListItemsKeepTarget(shape, Out.c)) =>
                           (DumpHidesTarget(shape, Sd) /\ Reconstructed(shape, Out.c, SdRe))
\* ... and when the caller edits the sources of the returned namespace and parses it again, the targets follow
HistRefinesRef == (Case /\ ~shape.ap /\ Out.ok) => HistOK(shape, HIn, HOut)
\* the recorded deviation ApDropsLinks is one: a plain target never holds the function of its sources
ApDeviationExact == (Case /\ shape.ap /\ "t" \in Targets(shape) /\ Out.ok) => (~TargetEq(shape, Out.c) /\ ApDropsLinks(shape, items, Out, Dmp))
\* non-vacuity of the Optional domain: a live source holding None overrides a supplied / default target with fn(None)
NoneIsAValue == (Case /\ ~shape.ap /\ Out.ok) => \A i \in DOMAIN shape.links :
                  (Live(Out.c, shape.links[i]) /\ shape.links[i].fn = "id" /\ SrcVal(Out.c, shape.links[i].srcs[1]) = NoneV /\ shape.links[i].tgt = "t")
                    => Out.c.t = NoneV
\* parsing is idempotent on the sources: the targets of a parsed configuration are a function of its sources only
TargetsFunctionOfSources == (Case /\ ~shape.ap /\ Out.ok) => \A i \in DOMAIN shape.links : TargetEqLink(shape, Out.c, shape.links[i])

\* link creation: every ordered pair of links over a small key space
Keys == {"a", "b", "t", "t2"}
PairLinks == {[srcs |-> s, tgt |-> t] : s \in {<<x>> : x \in Keys} \cup {<<x, y>> : x, y \in Keys}, t \in Keys}
OneShape == CHOOSE sh \in TheShapes : TRUE
CreationRefinesRef == (phase = "seed" /\ shape = OneShape /\ api = "args") =>
   \A l1, l2 \in {l \in PairLinks : \A j \in DOMAIN l.srcs : l.srcs[j] # l.tgt} :
       AlgLinkAllowed(<<l1>>, l2) = RefLinkAllowed(<<l1>>, l2)

\* ------------------------------------------------------------------ emission
CfgJson(c) == c
EmitCase == (Case /\ Emit) =>
  PrintT(ToJson([shape |-> shape, api |-> api, items |-> items, ok |-> Out.ok, c |-> Out.c,
                 dump |-> Dmp, dev |-> (Out.ok /\ ListItemsKeepTarget(shape, Out.c)), reok |-> Re.ok, rec |-> Re.c,
                 smain |-> Sv.main, ssub |-> Sv.sub, sreok |-> SvRe.ok, srec |-> SvRe.c,
                 sd |-> Sd, sdreok |-> SdRe.ok, sdrec |-> SdRe.c,
                 hin |-> HIn, hok |-> HOut.ok, hc |-> HOut.c, raises |-> RaisesOn(shape, items), apdev |-> ApDropsLinks(shape, items, Out, Dmp),
                 subdev |-> SubEnvDeviation(shape, items, Out), dcfdev |-> DcfDeviation(shape, items, Out)]))
ASSUME PrintT(<<"SEEDS", 2 * Cardinality(TheShapes)>>)
=============================================================================
