SPECIFICATION Spec
CONSTANTS
  Variant = "code"
  HLevel = 1
INVARIANT HInvSecondCall
INVARIANT HInvNeverLost
INVARIANT HInvFirstResultKept
INVARIANT HInvStaleNotMistaken
INVARIANT HInvFailedFirstIsInvisible
INVARIANT HInvRetrySucceeds
INVARIANT HInvClosed
INVARIANT EmitHistory
CHECK_DEADLOCK FALSE
