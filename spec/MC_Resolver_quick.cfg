SPECIFICATION Spec
CONSTANTS
  MaxClasses = 3
  MaxOwn = 1
  MaxHard = 1
  MaxPop = 1
  Budget = 4
  MaxChain = 2
  FnOwn = 1
  EmitAllUpTo = 1
  Sel = 50
INVARIANT RefLaws
INVARIANT AlgRefinesRef
INVARIANT HardNotOffered
INVARIANT EmitProgram
CHECK_DEADLOCK FALSE
