---------------------------- MODULE Trace_GroupsX ----------------------------
(* Validation of outcomes observed on the four declaration styles against GroupsX.tla (code -> spec).                *)
(* TRACE_FILE: sequence of cases [fields, chan, items, outs]; outs = per style [style, ok, cfg, re] with cfg / re     *)
(* (the values after dump + re-parse; << >> when not taken) lists of <<field, typed value>> pairs.                     *)
EXTENDS GroupsX, Json, IOUtils, TLCExt
Cases == JsonDeserialize(IOEnv.TRACE_FILE)
MapOf(pairs) == [k \in {pairs[j][1] : j \in 1..Len(pairs)} |-> LET j == CHOOSE j \in 1..Len(pairs) : pairs[j][1] = k IN pairs[j][2]]
VARIABLE tidx
Init == tidx \in 1..Len(Cases)
Next == UNCHANGED tidx
Say(idx, j, clause) == PrintT(<<"R", idx, j, clause>>)
Seen(o) == IF o.ok THEN [ok |-> TRUE, cfg |-> MapOf(o.cfg)] ELSE Err
Check == LET c == Cases[tidx]
             ref == XOutcome(c.chan, c.fields, c.items)
         IN \A j \in 1..Len(c.outs) :
              LET o == c.outs[j]
                  alg == XAlgOutcome(o.style, c.chan, c.fields, c.items)
                  dev == XDottedNoWholeGroup(o.style, c.chan, c.items)
              IN /\ (Seen(o) = ref) \/ Say(tidx, j, IF dev THEN (IF Seen(o) = alg THEN "ref-dev-as-alg" ELSE "ref-dev") ELSE "ref")
                 /\ (Seen(o) = alg) \/ dev \/ Say(tidx, j, "alg")
                 /\ (o.ok /\ o.re # << >> /\ Seen(o) = ref) => ((MapOf(o.re) = ref.cfg) \/ Say(tidx, j, "reparse"))
Inv == Check \/ TRUE
=============================================================================
